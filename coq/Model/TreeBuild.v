(* C03 / C01 — executable model of the WBXML-side tree builder: src/wbxml_tree_clb_wbxml.c (the six parser
   callbacks) on top of the tree primitives of src/wbxml_tree.c that it uses (wbxml_tree_add_node with its
   text-node merge, add_elt_with_attrs, add_text, add_cdata, add_tree, wbxml_tree_node_get_syncml_data_type,
   wbxml_tree_node_elt_get_from_name) and wbxml_tree_from_wbxml.  Definitions only.

   The callbacks are a fold over the parser's events (Model/Parser.v: the parser does not observe them).
   The C keeps a pointer `current` into the tree under construction; the model keeps the path from `current`
   up to the root as a stack of frames (innermost first): a frame is an element that is still open, with the
   children already completed and, if `current` is a CDATA node of that element, the children of that CDATA
   node.  `current == NULL` is the empty stack.  The partially built tree the C can look at (parents, earlier
   siblings, the element itself) is recomputed from the stack where the C navigates (syncml_data_type). *)
From Coq Require Import String Ascii.
From Coq Require Import List NArith Bool.
From Wbxml Require Import Model.Codec Model.TablesDefs Model.Parser.
Import ListNotations.
Local Open Scope N_scope.

(* ------------------------------------------------------------------ *)
(* the tree (WBXMLTreeNode / WBXMLTree)                                 *)

Inductive tnode :=
  | TElt (t : tagname) (attrs : list (attrname * bytes)) (ch : list tnode)   (* WBXML_TREE_ELEMENT_NODE *)
  | TText (b : bytes)                                                        (* WBXML_TREE_TEXT_NODE *)
  | TCData (ch : list tnode)                                                 (* WBXML_TREE_CDATA_NODE *)
  | TSub (lang_id : N) (charset : N) (root : option tnode).                  (* WBXML_TREE_TREE_NODE: node->tree *)

Record wtree := mk_wtree { wt_lang : N; wt_charset : N; wt_root : option tnode }.

(* BE_NOT_ENOUGH_MEMORY: a wbxml_tree_add_* call returned NULL (the callbacks report every such failure with this
   code since d107fc8; without allocation failure the only cause is a second root, which no parse produces) *)
Inductive berr := BE_INTERNAL | BE_NOT_ENOUGH_MEMORY | BE_PARSE (e : perr).
Inductive bres (A : Type) := BOk (a : A) | BErr (e : berr) | BFuel.
Arguments BOk {A} a.
Arguments BErr {A} e.
Arguments BFuel {A}.

(* ------------------------------------------------------------------ *)
(* wbxml_tree_add_node: append as last child; a text node after a text node is merged into it *)

Fixpoint add_node (l : list tnode) (n : tnode) : list tnode :=
  match l with
  | [] => [n]
  | [x] => match x, n with
           | TText a, TText b => [TText (a ++ b)]
           | _, _ => [x; n]
           end
  | x :: r => x :: add_node r n
  end.

(* ------------------------------------------------------------------ *)
(* construction state                                                   *)

Record frame := mk_frame {
  f_tag : tagname;
  f_attrs : list (attrname * bytes);
  f_done : list tnode;               (* children of the element, completed *)
  f_cdata : option (list tnode)      (* Some c: `current` is a CDATA node, last child of the element, with children c *)
}.

Record bstate := mk_bstate {
  b_lang : N;                        (* tree->lang (0 while unset) *)
  b_charset : N;                     (* tree->orig_charset *)
  b_stack : list frame;              (* current and its ancestors, innermost first; [] = current is NULL *)
  b_root : option tnode              (* tree->root when the stack is empty *)
}.

Definition cdata_nodes (f : frame) : list tnode :=
  match f_cdata f with Some c => [TCData c] | None => [] end.

(* the children of the open element f as the C sees them; inner = its open child element, if any *)
Definition frame_children (f : frame) (inner : list tnode) : list tnode := f_done f ++ cdata_nodes f ++ inner.
Definition frame_node (f : frame) (inner : list tnode) : tnode := TElt (f_tag f) (f_attrs f) (frame_children f inner).

(* the root as linked so far *)
Fixpoint view (st : list frame) (inner : list tnode) : list tnode :=
  match st with
  | [] => inner
  | f :: up => view up [frame_node f inner]
  end.

Definition tag_name (t : tagname) : bytes := match t with TagTok _ _ n => n | TagLit n => n end.

(* wbxml_tree_node_elt_get_from_name(first, name, FALSE): the first ELEMENT sibling with that name *)
Fixpoint elt_named (l : list tnode) (name : bytes) : option (list tnode) :=
  match l with
  | [] => None
  | TElt t _ ch :: r => if bytes_eqb (tag_name t) name then Some ch else elt_named r name
  | _ :: r => elt_named r name
  end.

Inductive dtype := D_NORMAL | D_WBXML | D_CDATA.   (* CLEAR / DIRECTORY_VCARD / VCALENDAR / VCARD / VOBJECT all lead to a CDATA section *)

Definition type_of_content (c : bytes) : option dtype :=
  if bytes_eqb c (B "application/vnd.syncml-devinf+wbxml") then Some D_WBXML
  else if bytes_eqb c (B "application/vnd.syncml-devinf+xml") then Some D_NORMAL
  else if bytes_eqb c (B "application/vnd.syncml.dmtnds+wbxml") then Some D_WBXML
  else if bytes_eqb c (B "application/vnd.syncml.dmtnds+xml") then Some D_NORMAL
  else if bytes_eqb c (B "text/clear") then Some D_CDATA
  else if bytes_eqb c (B "text/directory;profile=vCard") then Some D_CDATA
  else if bytes_eqb c (B "text/x-vcard") then Some D_CDATA
  else if bytes_eqb c (B "text/x-vcalendar") then Some D_CDATA
  else None.

(* <Meta> among these siblings, then <Type> among its children: the children of that <Type> *)
Definition meta_type (siblings : list tnode) : option (list tnode) :=
  match elt_named siblings (B "Meta") with
  | Some mch => elt_named mch (B "Type")
  | None => None
  end.

(* wbxml_tree_node_get_syncml_data_type(current); a CDATA `current` stands for its parent element *)
Definition syncml_data_type (st : list frame) : dtype :=
  match st with
  | [] => D_NORMAL
  | f :: up =>
    if bytes_eqb (tag_name (f_tag f)) (B "Data") then
      let me := frame_node f [] in
      let typ :=
        match up with
        | [] => None
        | p :: up2 =>
          match meta_type (frame_children p [me]) with
          | Some t => Some t
          | None =>
            match up2 with
            | [] => None
            | g :: _ => meta_type (frame_children g [frame_node p [me]])
            end
          end
        end in
      let by_type :=
        match typ with
        | Some (TText c :: _) => type_of_content c
        | _ => None
        end in
      match by_type with
      | Some d => d
      | None =>
        (* "Hack": any <Data> inside an <Add> or <Replace> item is taken for a vObject *)
        match up with
        | _ :: g :: _ =>
          if bytes_eqb (tag_name (f_tag g)) (B "Add") || bytes_eqb (tag_name (f_tag g)) (B "Replace") then D_CDATA else D_NORMAL
        | _ => D_NORMAL
        end
      end
    else D_NORMAL
  end.

(* ------------------------------------------------------------------ *)
(* the callbacks                                                        *)

(* close the CDATA section of the innermost frame: `current = current->parent` *)
Definition leave_cdata (f : frame) : frame :=
  match f_cdata f with
  | Some c => mk_frame (f_tag f) (f_attrs f) (f_done f ++ [TCData c]) None
  | None => f
  end.

(* add a node under `current` (wbxml_tree_add_node(tree, current, node)) *)
Definition add_to_current (st : bstate) (n : tnode) : bres bstate :=
  match b_stack st with
  | [] =>
    (* parent == NULL: only allowed while the tree has no root *)
    match b_root st with
    | None => BOk (mk_bstate (b_lang st) (b_charset st) [] (Some n))
    | Some _ => BErr BE_NOT_ENOUGH_MEMORY
    end
  | f :: up =>
    let f' := match f_cdata f with
              | Some c => mk_frame (f_tag f) (f_attrs f) (f_done f) (Some (add_node c n))
              | None => mk_frame (f_tag f) (f_attrs f) (add_node (f_done f) n) None
              end in
    BOk (mk_bstate (b_lang st) (b_charset st) (f' :: up) (b_root st))
  end.

Definition cb_start_element (t : tagname) (attrs : list (attrname * bytes)) (st : bstate) : bres bstate :=
  match b_stack st with
  | [] =>
    match b_root st with
    | None => BOk (mk_bstate (b_lang st) (b_charset st) [mk_frame t attrs [] None] None)
    | Some _ => BErr BE_NOT_ENOUGH_MEMORY   (* wbxml_tree_add_node refuses a second root *)
    end
  | f :: up => BOk (mk_bstate (b_lang st) (b_charset st) (mk_frame t attrs [] None :: leave_cdata f :: up) (b_root st))
  end.

Definition cb_end_element (st : bstate) : bres bstate :=
  match b_stack st with
  | [] => BErr BE_INTERNAL
  | [f] =>
    match f_cdata f with
    | None => BOk st                      (* current->parent == NULL: the root element; current stays *)
    | Some _ =>
      (* current is a CDATA node of the root: back to the root, then to its parent: NULL *)
      BOk (mk_bstate (b_lang st) (b_charset st) [] (Some (frame_node f [])))
    end
  | f :: p :: up =>
    let n := frame_node f [] in
    BOk (mk_bstate (b_lang st) (b_charset st) (mk_frame (f_tag p) (f_attrs p) (f_done p ++ cdata_nodes p ++ [n]) None :: up) (b_root st))
  end.

Definition open_cdata (st : bstate) : bstate :=
  match b_stack st with
  | f :: up =>
    match f_cdata f with
    | Some _ => st
    | None => mk_bstate (b_lang st) (b_charset st) (mk_frame (f_tag f) (f_attrs f) (f_done f) (Some []) :: up) (b_root st)
    end
  | [] => st
  end.

Definition st_init : bstate := mk_bstate 0 0 [] None.

Definition tree_of_state (st : bstate) : wtree :=
  mk_wtree (b_lang st) (b_charset st)
           (match b_stack st with
            | [] => b_root st
            | s => hd_error (view s [])
            end).

(* WBXML_MAX_EMBEDDED_DEPTH (wbxml_defines.h): only a top-level document may embed documents *)
Definition MAX_EMBEDDED_DEPTH : nat := 1.

(* the fold.  levels = WBXML_MAX_EMBEDDED_DEPTH - ctx->embedded_depth: how many levels of embedded documents may
   still be opened below this document (wbxml_tree_from_wbxml: embedded_depth 0, levels = MAX_EMBEDDED_DEPTH;
   wbxml_tree_from_wbxml_embedded passes embedded_depth + 1 on).  The recursion is structural in it: BFuel is
   never produced here. *)
Fixpoint build_from (tbl : list lang) (levels : nat) (evs : list event) (st : bstate) {struct levels} : bres bstate :=
    (fix go (evs : list event) (st : bstate) {struct evs} : bres bstate :=
       match evs with
       | [] => BOk st
       | e :: r =>
         let next (x : bres bstate) := match x with BOk st' => go r st' | BErr er => BErr er | BFuel => BFuel end in
         match e with
         | EvStartDoc cs lid => go r (mk_bstate lid cs (b_stack st) (b_root st))
         | EvEndDoc => go r st
         | EvPi _ _ => go r st                          (* wbxml_tree_clb_wbxml_pi is empty *)
         | EvStartElt t attrs => next (cb_start_element t attrs st)
         | EvEndElt _ => next (cb_end_element st)
         | EvChars ch =>
           match syncml_data_type (b_stack st) with
           | D_WBXML =>
             match levels with
             | O => next (add_to_current st (TText ch))   (* embedded_depth >= WBXML_MAX_EMBEDDED_DEPTH: goto text_node *)
             | S lv =>
               (* embedded document: wbxml_tree_from_wbxml_embedded(ch, len, WBXML_LANG_UNKNOWN, tree->orig_charset, embedded_depth + 1) *)
               match parse_with tbl 0 (b_charset st) (S (length ch)) ch with
               | POk evs' =>
                 match build_from tbl lv evs' st_init with
                 | BOk st' =>
                   let t := tree_of_state st' in
                   next (add_to_current st (TSub (wt_lang t) (wt_charset t) (wt_root t)))
                 | BErr _ => next (add_to_current st (TText ch))     (* "Not parsable ? Just add it as a Text Node" *)
                 | BFuel => BFuel
                 end
               | PErr _ => next (add_to_current st (TText ch))
               | PFuel => BFuel
               end
             end
           | D_CDATA => next (add_to_current (open_cdata st) (TText ch))
           | D_NORMAL => next (add_to_current st (TText ch))
           end
         end
       end) evs st.

Definition build (tbl : list lang) (levels : nat) (evs : list event) : bres wtree :=
  match build_from tbl levels evs st_init with
  | BOk st => BOk (tree_of_state st)
  | BErr e => BErr e
  | BFuel => BFuel
  end.

(* wbxml_tree_from_wbxml_embedded with `levels` levels of embedding still allowed *)
Definition tree_from_wbxml (tbl : list lang) (forced meta : N) (levels : nat) (bs : bytes) : bres wtree :=
  match parse_with tbl forced meta (S (length bs)) bs with
  | POk evs => build tbl levels evs
  | PErr e => BErr (BE_PARSE e)
  | PFuel => BFuel
  end.

(* wbxml_tree_from_wbxml *)
Definition wbxml_tree_from_wbxml (tbl : list lang) (forced meta : N) (bs : bytes) : bres wtree :=
  tree_from_wbxml tbl forced meta MAX_EMBEDDED_DEPTH bs.
