(* C17 — the flow-mode state machine of Model/Flow.v instantiated with the REAL per-node XML encoding of
   Model/EncXml.v (the transcription of the XML path of parse_node / parse_single_node / parse_element /
   parse_element_end of wbxml_encoder.c).

   The encoder state of EncXml is est = (indent, in_content, in_cdata, current tag): every encoder field the XML path
   reads or writes.  The CONTEXT of flow mode is
     xctx = (indent, in_content, current tag),
   the three of them restored by the repaired wbxml_encoder_delete_last_node.  in_cdata is NOT part of it and is not
   restored: Proofs/FlowEncXmlProofs.v proves that a node that is encoded successfully and entered with
   in_cdata = FALSE ends with in_cdata = FALSE (a CDATA section is a node with children: it is opened and closed
   inside one parse_single_node), so between top-level nodes in_cdata is the constant FALSE.
   A failing encode (XErr) is modelled as a no-op on the flow state (outside the property's domain, as in Flow.v).
   Definitions only. *)
From Coq Require Import List NArith Bool.
From Wbxml Require Import Model.Codec Model.EncXml Model.Flow.
Import ListNotations.
Local Open Scope N_scope.

Record xctx := mk_xctx { x_indent : N; x_in_content : bool; x_cur_tag : option trow }.

Definition xs_of (c : xctx) : est := mk_est (x_indent c) (x_in_content c) false (x_cur_tag c).
Definition xctx_of (s : est) : xctx := mk_xctx (e_indent s) (e_in_content s) (e_cur_tag s).
Definition xctx0 : xctx := mk_xctx 0 false None.       (* wbxml_encoder_create *)

Section FlowEncXml.
  Variables (l : xlang) (o : opts).

  (* wbxml_encoder_encode_node on a detached node: parse_node(node) = parse_single_node(node), which ends with
     current_tag = NULL *)
  Definition x_enc_node (c : xctx) (n : node) : Flow.bytes * xctx :=
    match enc_node l o proot (xs_of c) n with
    | XOk (b, s') => (b, xctx_of (reset_cur s'))
    | XErr _ => ([], c)
    end.

  (* wbxml_encoder_encode_raw_elt_start: parse_element = xml_encode_tag, the attributes, xml_encode_end_attrs (which
     looks at node->children, not at has_content); current_tag stays set *)
  Definition x_enc_start (c : xctx) (n : node) (has_content : bool) : Flow.bytes * xctx :=
    match n with
    | Elt nm attrs ch =>
      let '(b1, s1) := xml_encode_tag l o proot nm (xs_of c) in
      let b2 := parse_attributes l o attrs in
      let '(b3, s3) := xml_encode_end_attrs o ch s1 in
      (b1 ++ b2 ++ b3, xctx_of s3)
    | _ => ([], c)
    end.

  (* wbxml_encoder_encode_raw_elt_end: parse_element_end = xml_encode_end_tag when has_content *)
  Definition x_enc_end (c : xctx) (n : node) (has_content : bool) : Flow.bytes * xctx :=
    match n with
    | Elt nm attrs ch =>
      if has_content then let '(b, s') := xml_encode_end_tag o nm ch (xs_of c) in (b, xctx_of s') else ([], c)
    | _ => ([], c)
    end.

  Definition x_header : Flow.bytes := xml_header l o.

  Definition x_step := step xctx node x_enc_node x_enc_start x_enc_end x_header.
  Definition x_step_fixed := step_fixed xctx node x_enc_node x_enc_start x_enc_end x_header.
  Definition x_run := run xctx node xctx0 x_enc_node x_enc_start x_enc_end x_header.
  Definition x_run_fixed := run_fixed xctx node xctx0 x_enc_node x_enc_start x_enc_end x_header.
  Definition x_spec_output := spec_output xctx node xctx0 x_enc_node x_enc_start x_enc_end x_header.
  Definition x_live (ops : list (op node)) : list (frag node) := live node ops.
  Definition x_init := init xctx xctx0.
End FlowEncXml.

Definition x_get_output := get_output xctx.
