(* C19 — executable model of src/wbxml_buffers.c (all public functions except destroy, plus the two
   private routines grow_buff / insert_data).  Definitions only.

   A buffer is the allocated storage (`cells`, one N per octet; `[]` when `data == NULL`;
   `length cells` is the C field `malloced` for a dynamic buffer, and the caller's `len` octets for a
   static one), the field `len`, the flag `is_static`, and a sticky `bfault` flag that is raised by any
   store / memcpy / memmove outside the allocated cells (what ASan reports on the C side).

   * Freshly allocated cells (malloc, the part added by realloc) hold `junk` = 170, not 0: the byte
     after the contents is 0 only if the code stores it there.  Every function below that ends with
     `buffer->data[buffer->len] = '\0'` has that store as an explicit `poke`.
   * Positions and counts that come from the caller are N (WB_ULONG); `len` is a nat.  The model
     assumes len + growth < 2^32 (no wrap in `buffer->len + size`); the only counter that the C
     lets wrap (`end--` in strip_blanks) wraps here too.  create's `len + 1 + malloc_block` is
     computed mod 2^32 as in the C, and refused when it wrapped (d7df267).
   * Allocation never fails here (allocation failure is property C16's subject).
   * Loops over an index use explicit fuel; running out of fuel is a distinct result (`None`),
     never a success.
   * Repaired code is modelled: shrink_blanks deletes when `j > i` (D18), hex_to_binary returns
     early on an empty buffer (D19). *)
From Coq Require Import List NArith Bool Arith.
From Wbxml Require Import Model.Codec.
Import ListNotations.

Definition junk : N := 170%N.

Record buf := mkbuf { cells : list N; blen : nat; bstatic : bool; bfault : bool }.

Definition set_cells (b : buf) (c : list N) : buf := mkbuf c (blen b) (bstatic b) (bfault b).
Definition set_len (b : buf) (n : nat) : buf := mkbuf (cells b) n (bstatic b) (bfault b).
Definition set_fault (b : buf) : buf := mkbuf (cells b) (blen b) (bstatic b) true.

(* the abstraction: the first `len` cells *)
Definition contents (b : buf) : list N := firstn (blen b) (cells b).
Definition malloced (b : buf) : nat := length (cells b).

(* ---------------------------------------------------------------------------------------- *)
(* memory primitives                                                                         *)

(* memcpy (data + dst, src, |src|) *)
Definition blit (b : buf) (dst : nat) (src : list N) : buf :=
  if dst + length src <=? length (cells b)
  then set_cells b (firstn dst (cells b) ++ src ++ skipn (dst + length src) (cells b))
  else set_fault b.

(* memmove (data + dst, data + src, n) *)
Definition memmove (b : buf) (dst src n : nat) : buf :=
  if src + n <=? length (cells b)
  then blit b dst (firstn n (skipn src (cells b)))
  else set_fault b.

(* data[i] = v *)
Definition poke (b : buf) (i : nat) (v : N) : buf := blit b i [v].

(* ---------------------------------------------------------------------------------------- *)
(* private functions                                                                         *)

(* grow_buff: size++ ; if (len + size > malloced) { malloced = max (2 * malloced, len + size); realloc } *)
Definition grow_buff (b : buf) (size : nat) : buf * bool :=
  if bstatic b then (b, false)
  else
    let size := S size in
    if malloced b <? blen b + size then
      let m := if malloced b * 2 <? blen b + size then blen b + size else malloced b * 2 in
      (set_cells b (cells b ++ repeat junk (m - malloced b)), true)
    else (b, true).

(* insert_data *)
Definition insert_data (b : buf) (pos : N) (data : list N) : buf * bool :=
  let len := length data in
  if bstatic b || (len =? 0) || (N.of_nat (blen b) <? pos)%N then (b, false)
  else
    let p := N.to_nat pos in
    let (b1, ok) := grow_buff b len in
    if negb ok then (b1, false)
    else
      let b2 := if p <? blen b1 then memmove b1 (p + len) p (blen b1 - p) else b1 in
      let b3 := blit b2 p data in
      let b4 := set_len b3 (blen b3 + len) in
      (poke b4 (blen b4) 0%N, true).

(* ---------------------------------------------------------------------------------------- *)
(* creation                                                                                  *)

(* wbxml_buffer_create_real (data, len = |data|, malloc_block).
   The size of the block, computed in 32 bits as the C does: *)
Definition create_size (data : list N) (block : N) : N :=
  let len := N.of_nat (length data) in
  if (u32 (block + 1) <? u32 (len + 1))%N then u32 (len + 1 + block) else u32 (block + 1).

(* the buffer that is built once the size has been accepted and the blocks granted *)
Definition create (data : list N) (block : N) : buf :=
  match data with
  | [] => mkbuf [] 0 false false
  | _ =>
    let b0 := mkbuf (repeat junk (N.to_nat (create_size data block))) (length data) false false in
    poke (blit b0 0 data) (length data) 0%N
  end.

(* d7df267: `if (buffer->malloced <= len) { free; return NULL; }` — a size that wrapped and cannot
   hold len octets and the terminator is refused (None = NULL) *)
Definition create_opt (data : list N) (block : N) : option buf :=
  match data with
  | [] => Some (create data block)
  | _ => if (create_size data block <=? N.of_nat (length data))%N then None else Some (create data block)
  end.

(* wbxml_buffer_sta_create_real: the caller's octets, no terminator of ours *)
Definition sta_create (data : list N) : buf := mkbuf data (length data) true false.

(* wbxml_buffer_duplicate: create_real (get_cstr (b), len, len); get_cstr is "" for len = 0 *)
Definition duplicate (b : buf) : buf := create (contents b) (N.of_nat (blen b)).

Definition duplicate_opt (b : buf) : option buf := create_opt (contents b) (N.of_nat (blen b)).

Definition len (b : buf) : N := N.of_nat (blen b).

(* ---------------------------------------------------------------------------------------- *)
(* single characters                                                                         *)

Definition get_char (b : buf) (pos : N) : option N :=
  if (N.of_nat (blen b) <=? pos)%N then None else Some (nth (N.to_nat pos) (cells b) junk).

Definition set_char (b : buf) (pos ch : N) : buf * bool :=
  if bstatic b || (N.of_nat (blen b) <=? pos)%N then (b, false)
  else (poke b (N.to_nat pos) ch, true).

(* ---------------------------------------------------------------------------------------- *)
(* insertion / appending                                                                     *)

(* wbxml_buffer_insert (to, buffer, pos): insert_data (to, pos, buffer->data, buffer->len) *)
Definition insert (b src : buf) (pos : N) : buf * bool :=
  if bstatic b then (b, false) else insert_data b pos (contents src).

(* strlen: Codec.cstr *)
Definition insert_cstr (b : buf) (str : list N) (pos : N) : buf * bool :=
  if bstatic b then (b, false) else insert_data b pos (cstr str).

Definition append_data (b : buf) (data : list N) : buf * bool :=
  if bstatic b then (b, false)
  else match data with [] => (b, true) | _ => insert_data b (N.of_nat (blen b)) data end.

Definition append (b src : buf) : buf * bool :=
  if bstatic b then (b, false) else append_data b (contents src).

Definition append_cstr (b : buf) (str : list N) : buf * bool :=
  if bstatic b then (b, false) else append_data b (cstr str).

Definition append_char (b : buf) (ch : N) : buf * bool :=
  if bstatic b then (b, false) else insert_data b (N.of_nat (blen b)) [ch].

Definition append_mb_uint_32 (b : buf) (v : N) : buf * bool :=
  if bstatic b then (b, false) else append_data b (mb_write v).

(* ---------------------------------------------------------------------------------------- *)
(* deletion                                                                                  *)

(* wbxml_buffer_delete.  A range that extends beyond the contents is outside the documented
   contract: `len - pos - n` wraps in the C and memmove runs wild; here it raises the fault flag. *)
Definition delete (b : buf) (pos n : N) : buf * bool :=
  if bstatic b then (b, false)
  else if (N.of_nat (blen b) <=? pos)%N || (n =? 0)%N then (b, false)
  else
    let p := N.to_nat pos in let k := N.to_nat n in
    if blen b <? p + k then (set_fault b, true)
    else
      let b1 := memmove b p (p + k) (blen b - p - k) in
      let b2 := set_len b1 (blen b1 - k) in
      (poke b2 (blen b2) 0%N, true).

(* ---------------------------------------------------------------------------------------- *)
(* white space                                                                               *)

(* while (get_char (buffer, j, &ch) && isspace (ch)) j++; *)
Fixpoint scan_blanks (fuel : nat) (b : buf) (j : N) : option N :=
  match fuel with
  | O => None
  | S f =>
    match get_char b j with
    | Some ch => if is_cspace ch then scan_blanks f b (j + 1)%N else Some j
    | None => Some j
    end
  end.

(* for (i = 0; i < end; i++) if (get_char (i) && isspace) { if (ch != ' ') set_char (i, ' ');
     j = i = i + 1; scan; if (j > i) delete (i, j - i); } *)
Fixpoint shrink_loop (fuel : nat) (b : buf) (i end_ : N) : option buf :=
  match fuel with
  | O => None
  | S f =>
    if (i <? end_)%N then
      match get_char b i with
      | Some ch =>
        if is_cspace ch then
          let b1 := if (ch =? 32)%N then b else fst (set_char b i 32%N) in
          let i1 := (i + 1)%N in
          match scan_blanks (S (blen b1)) b1 i1 with
          | None => None
          | Some j =>
            let b2 := if (i1 <? j)%N then fst (delete b1 i1 (j - i1)%N) else b1 in
            shrink_loop f b2 (i1 + 1)%N end_
          end
        else shrink_loop f b (i + 1)%N end_
      | None => shrink_loop f b (i + 1)%N end_
      end
    else Some b
  end.

(* second component: Some TRUE/FALSE as returned, None = out of fuel *)
Definition shrink_blanks (b : buf) : buf * option bool :=
  if bstatic b then (b, Some false)
  else match shrink_loop (S (blen b)) b 0%N (N.of_nat (blen b)) with
       | Some b' => (b', Some true)
       | None => (b, None)
       end.

(* while (get_char (start) && isspace (ch) && start <= len) start++; *)
Fixpoint strip_lead (fuel : nat) (b : buf) (start : N) : option N :=
  match fuel with
  | O => None
  | S f =>
    match get_char b start with
    | Some ch => if is_cspace ch && (start <=? N.of_nat (blen b))%N then strip_lead f b (start + 1)%N else Some start
    | None => Some start
    end
  end.

(* while (get_char (end) && isspace (ch)) end--;        (end is unsigned: 0 - 1 = 2^32 - 1) *)
Fixpoint strip_trail (fuel : nat) (b : buf) (e : N) : option N :=
  match fuel with
  | O => None
  | S f =>
    match get_char b e with
    | Some ch => if is_cspace ch then strip_trail f b (u32 (e + 4294967295))%N else Some e
    | None => Some e
    end
  end.

Definition strip_blanks (b : buf) : buf * option bool :=
  if bstatic b then (b, Some false)
  else
    match strip_lead (S (blen b)) b 0%N with
    | None => (b, None)
    | Some start =>
      let b1 := if (0 <? start)%N then fst (delete b 0%N start) else b in
      let l := N.of_nat (blen b1) in
      if (0 <? l)%N then
        let l1 := (l - 1)%N in
        match strip_trail (S (blen b1)) b1 l1 with
        | None => (b1, None)
        | Some e => (fst (delete b1 (u32 (e + 1)) (u32 (l1 + 4294967296 - e))), Some true)
        end
      else (b1, Some true)
    end.

(* while (i < len) { if (get_char (i) && isspace) delete (i, 1); else i++; } *)
Fixpoint no_spaces_loop (fuel : nat) (b : buf) (i : N) : option buf :=
  match fuel with
  | O => None
  | S f =>
    if (i <? N.of_nat (blen b))%N then
      match get_char b i with
      | Some ch => if is_cspace ch then no_spaces_loop f (fst (delete b i 1%N)) i
                   else no_spaces_loop f b (i + 1)%N
      | None => no_spaces_loop f b (i + 1)%N
      end
    else Some b
  end.

(* returns void in the C; the boolean here only says "not out of fuel" *)
Definition no_spaces (b : buf) : buf * bool :=
  if bstatic b then (b, true)
  else match no_spaces_loop (S (blen b)) b 0%N with Some b' => (b', true) | None => (b, false) end.

Definition contains_only_whitespaces (b : buf) : bool := forallb is_cspace (contents b).

(* while (len > 0) { if (get_char (len - 1) == 0) delete (len - 1, 1); else return TRUE; } *)
Fixpoint rtz_loop (fuel : nat) (b : buf) : option buf :=
  match fuel with
  | O => None
  | S f =>
    if 0 <? blen b then
      match get_char b (N.of_nat (blen b) - 1)%N with
      | Some ch => if (ch =? 0)%N then rtz_loop f (fst (delete b (N.of_nat (blen b) - 1)%N 1%N)) else Some b
      | None => Some b
      end
    else Some b
  end.

Definition remove_trailing_zeros (b : buf) : buf * option bool :=
  if bstatic b then (b, Some false)
  else match rtz_loop (S (blen b)) b with Some b' => (b', Some true) | None => (b, None) end.

(* ---------------------------------------------------------------------------------------- *)
(* comparison                                                                                *)

Fixpoint memcmp (a b : list N) : comparison :=
  match a, b with
  | x :: a', y :: b' => match (x ?= y)%N with Eq => memcmp a' b' | c => c end
  | _, _ => Eq
  end.

(* common body of wbxml_buffer_compare / compare_cstr: the other operand is (d2, l2) *)
Definition compare_data (b1 : buf) (d2 : list N) (l2 : nat) : comparison :=
  let n := Nat.min (blen b1) l2 in
  if n =? 0 then
    (if (blen b1 =? 0) && (0 <? l2) then Lt else if (0 <? blen b1) && (l2 =? 0) then Gt else Eq)
  else
    match memcmp (firstn n (cells b1)) (firstn n d2) with
    | Eq => if blen b1 <? l2 then Lt else if l2 <? blen b1 then Gt else Eq
    | c => c
    end.

Definition compare (b1 b2 : buf) : comparison := compare_data b1 (cells b2) (blen b2).
Definition compare_cstr (b : buf) (str : list N) : comparison := compare_data b (cstr str) (length (cstr str)).

(* ---------------------------------------------------------------------------------------- *)
(* words                                                                                     *)

(* while (i < len && p (ptr[0])) { ++ptr; ++i; } *)
Fixpoint skip_while (fuel : nat) (p : N -> bool) (b : buf) (i : N) : option N :=
  match fuel with
  | O => None
  | S f =>
    if (i <? N.of_nat (blen b))%N && p (nth (N.to_nat i) (cells b) junk)
    then skip_while f p b (i + 1)%N else Some i
  end.

Fixpoint split_loop (fuel : nat) (b : buf) (i : N) : option (list buf) :=
  match fuel with
  | O => None
  | S f =>
    match skip_while (S (blen b)) is_cspace b i with
    | None => None
    | Some start =>
      match skip_while (S (blen b)) (fun c => negb (is_cspace c)) b start with
      | None => None
      | Some e =>
        if (start =? e)%N then Some []
        else
          let w := create (firstn (N.to_nat (e - start)) (skipn (N.to_nat start) (cells b))) 20%N in
          match split_loop f b e with None => None | Some ws => Some (w :: ws) end
      end
    end
  end.

Definition split_words (b : buf) : option (list buf) := split_loop (S (blen b)) b 0%N.

(* ---------------------------------------------------------------------------------------- *)
(* searching                                                                                 *)

Fixpoint index_of (ch : N) (l : list N) : option nat :=
  match l with
  | [] => None
  | x :: r => if (x =? ch)%N then Some 0 else option_map S (index_of ch r)
  end.

(* memchr (data + pos, ch, len - pos) *)
Definition search_char (b : buf) (ch pos : N) : option N :=
  if (N.of_nat (blen b) <=? pos)%N then None
  else match index_of ch (firstn (blen b - N.to_nat pos) (skipn (N.to_nat pos) (cells b))) with
       | None => None
       | Some k => Some (pos + N.of_nat k)%N
       end.

(* while (search_char (to, first, pos, &pos) && (to->len - pos >= n)) { if (memcmp == 0) found; pos++; } *)
Fixpoint search_loop (fuel : nat) (b : buf) (needle : list N) (n : nat) (first pos : N) : option (option N) :=
  match fuel with
  | O => None
  | S f =>
    match search_char b first pos with
    | None => Some None
    | Some p =>
      if (N.of_nat n <=? N.of_nat (blen b) - p)%N then
        match memcmp (firstn n (skipn (N.to_nat p) (cells b))) (firstn n needle) with
        | Eq => Some (Some p)
        | _ => search_loop f b needle n first (p + 1)%N
        end
      else Some None
    end
  end.

(* common body of wbxml_buffer_search / search_cstr; outer None = out of fuel,
   inner = FALSE / TRUE with *result *)
Definition search_data (b : buf) (needle : list N) (pos : N) : option (option N) :=
  let n := length needle in
  if n =? 0 then Some (Some 0%N)
  else if blen b <? n then Some None
  else if n =? 1 then Some (search_char b (nth 0 needle junk) pos)
  else search_loop (S (blen b)) b needle n (nth 0 needle junk) pos.

Definition search (b needle : buf) (pos : N) : option (option N) := search_data b (contents needle) pos.
Definition search_cstr (b : buf) (str : list N) (pos : N) : option (option N) := search_data b (cstr str) pos.

(* ---------------------------------------------------------------------------------------- *)
(* hex / base64                                                                              *)

(* pass 1 replaces every character by its value, pass 2 packs pairs front to back
   (data[i] is written from data[2i], data[2i+1], which no earlier store has touched) *)
Definition hex_to_binary (b : buf) : buf * bool :=
  if bstatic b then (b, false)
  else if blen b =? 0 then (b, true)
  else
    let n := blen b in
    let b1 := blit b 0 (map hexval (firstn n (cells b))) in
    let b2 := blit b1 0 (hex_pairs (firstn n (cells b1))) in
    let b3 := set_len b2 (n / 2) in
    (poke b3 (blen b3) 0%N, true).

(* if (!grow_buff (len * 2)) return FALSE; then back to front data[2i+1], data[2i] from data[i]
   (stores go to indices >= 2i, reads still to come are at indices < i) *)
Definition binary_to_hex (b : buf) (upper : bool) : buf * bool :=
  if bstatic b then (b, false)
  else if blen b =? 0 then (b, true)
  else
    let (b1, ok) := grow_buff b (blen b * 2) in
    if negb ok then (b1, false)
    else
      let b2 := blit b1 0 (bin_to_hex upper (firstn (blen b1) (cells b1))) in
      let b3 := set_len b2 (blen b2 * 2) in
      (poke b3 (blen b3) 0%N, true).

(* second component: Some true = WBXML_OK, Some false = an error code, None = out of fuel *)
Definition decode_base64 (b : buf) : buf * option bool :=
  if bstatic b then (b, Some false)
  else
    match no_spaces b with
    | (b1, false) => (b1, None)
    | (b1, true) =>
      match b64_dec (contents b1) with
      | None => (b1, Some false)
      | Some out =>
        let b2 := fst (delete b1 0%N (N.of_nat (blen b1))) in
        let (b3, ok) := append_data b2 out in (b3, Some ok)
      end
    end.

Definition encode_base64 (b : buf) : buf * option bool :=
  if bstatic b then (b, Some false)
  else
    match b64_enc (contents b) with
    | None => (b, Some false)
    | Some out =>
      let b2 := fst (delete b 0%N (N.of_nat (blen b))) in
      let (b3, ok) := append_cstr b2 out in (b3, Some ok)
    end.

(* ---------------------------------------------------------------------------------------- *)
(* operation sequences                                                                       *)

Inductive op :=
| OCreate (data : list N) (block : N)
| OStaCreate (data : list N)
| ODuplicate
| OLen
| OGetChar (pos : N)
| OSetChar (pos ch : N)
| OInsert (src : list N) (pos : N)         (* the inserted buffer is a second, dynamic buffer holding src *)
| OInsertCstr (str : list N) (pos : N)
| OAppend (src : list N)
| OAppendData (data : list N)
| OAppendCstr (str : list N)
| OAppendChar (ch : N)
| OAppendMb (v : N)
| ODelete (pos n : N)
| OShrink
| OStrip
| ONoSpaces
| OCompare (other : list N)
| OCompareCstr (str : list N)
| OSplitWords
| OSearchChar (ch pos : N)
| OSearch (needle : list N) (pos : N)
| OSearchCstr (str : list N) (pos : N)
| OOnlyWs
| OHexToBin
| OBinToHex (upper : bool)
| ODecodeB64
| OEncodeB64
| ORemoveTrailingZeros.

Inductive ret :=
| RVoid
| RBool (r : bool)
| RVal (v : option N)              (* get_char / search*: FALSE, or TRUE with the value stored through the pointer *)
| RLen (n : N)
| RCmp (c : comparison)
| RWords (ws : list (list N))
| RNull                            (* a creating function returned NULL (allocation refused; see BufferAlloc.v) *)
| RFuel.                           (* a loop of the model ran out of fuel: never equal to a specified result *)

Definition rob (x : buf * option bool) : buf * ret :=
  match x with (b, Some r) => (b, RBool r) | (b, None) => (b, RFuel) end.
Definition rb (x : buf * bool) : buf * ret := (fst x, RBool (snd x)).
Definition rsearch (b : buf) (x : option (option N)) : buf * ret :=
  match x with Some v => (b, RVal v) | None => (b, RFuel) end.

Definition step (b : buf) (o : op) : buf * ret :=
  match o with
  | OCreate data block => match create_opt data block with Some b' => (b', RVoid) | None => (b, RNull) end
  | OStaCreate data => (sta_create data, RVoid)
  | ODuplicate => match duplicate_opt b with Some b' => (b', RVoid) | None => (b, RNull) end
  | OLen => (b, RLen (len b))
  | OGetChar pos => (b, RVal (get_char b pos))
  | OSetChar pos ch => rb (set_char b pos ch)
  | OInsert src pos => rb (insert b (create src 1%N) pos)
  | OInsertCstr str pos => rb (insert_cstr b str pos)
  | OAppend src => rb (append b (create src 1%N))
  | OAppendData data => rb (append_data b data)
  | OAppendCstr str => rb (append_cstr b str)
  | OAppendChar ch => rb (append_char b ch)
  | OAppendMb v => rb (append_mb_uint_32 b v)
  | ODelete pos n => rb (delete b pos n)
  | OShrink => rob (shrink_blanks b)
  | OStrip => rob (strip_blanks b)
  | ONoSpaces => match no_spaces b with (b', true) => (b', RVoid) | (b', false) => (b', RFuel) end
  | OCompare other => (b, RCmp (compare b (create other 1%N)))
  | OCompareCstr str => (b, RCmp (compare_cstr b str))
  | OSplitWords => match split_words b with Some ws => (b, RWords (map contents ws)) | None => (b, RFuel) end
  | OSearchChar ch pos => (b, RVal (search_char b ch pos))
  | OSearch needle pos => rsearch b (search b (create needle 1%N) pos)
  | OSearchCstr str pos => rsearch b (search_cstr b str pos)
  | OOnlyWs => (b, RBool (contains_only_whitespaces b))
  | OHexToBin => rb (hex_to_binary b)
  | OBinToHex up => rb (binary_to_hex b up)
  | ODecodeB64 => rob (decode_base64 b)
  | OEncodeB64 => rob (encode_base64 b)
  | ORemoveTrailingZeros => rob (remove_trailing_zeros b)
  end.

(* the state after each operation and what each operation returned *)
Fixpoint run (b : buf) (ops : list op) : list (buf * ret) :=
  match ops with
  | [] => []
  | o :: r => let x := step b o in x :: run (fst x) r
  end.

Definition final (b : buf) (ops : list op) : buf := fold_left (fun s o => fst (step s o)) ops b.
