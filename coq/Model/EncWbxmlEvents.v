(* C06 / C07 — normal form of event lists under which encodings with and without string table are compared: adjacent
   character-data events are concatenated (a text written as STR_I / STR_T pieces is ONE text of the document; a SAX
   consumer may receive it in any number of pieces).  No proofs here. *)
From Coq Require Import List NArith.
From Wbxml Require Import Model.Parser.
Import ListNotations.

Definition glue (x : event) (r : list event) : list event :=
  match x, r with
  | EvChars a, EvChars b :: r' => EvChars (a ++ b) :: r'
  | _, _ => x :: r
  end.

Fixpoint merge_chars (l : list event) : list event :=
  match l with
  | [] => []
  | x :: r => glue x (merge_chars r)
  end.
