(* C10 — specification side: "the first registered language carrying this identifier", and the boolean
   checks evaluated over the regenerated main table. *)
From Coq Require Import List NArith String Ascii Bool.
From Wbxml Require Import Model.TablesDefs Model.Tables Model.Codec Model.LangSelect Model.RegistryCheck.
Import ListNotations.
Local Open Scope N_scope.

Definition upper_ascii (c : ascii) : ascii :=
  let n := N_of_ascii c in if (97 <=? n) && (n <=? 122) then ascii_of_N (n - 32) else c.
Fixpoint str_map (f : ascii -> ascii) (s : string) : string :=
  match s with EmptyString => EmptyString | String c r => String (f c) (str_map f r) end.

Definition id_is (o : option lang) (l : lang) : bool := on_eqb (oid o) (Some (l_id l)).
Definition same_lang (a b : option lang) : bool := on_eqb (oid a) (oid b).

(* no two entries have the same language id (so "the entry with id i" is well defined) *)
Definition ids_unique (main : list lang) : bool :=
  forallb (fun l => N.of_nat (List.length (filter (fun x => l_id x =? l_id l) main)) =? 1) main &&
  forallb (fun l => negb (l_id l =? WBXML_LANG_UNKNOWN)) main.

(* ---- WBXML side, per language *)
Definition hdr_num (n : N) : header := mk_header 3 n NO_INDEX CHARSET_UTF_8 None 0 [].
Definition hdr_txt (s : string) : header :=
  let bs := bytes_of_string s ++ [0] in
  mk_header 3 WBXML_PUBLIC_ID_UNKNOWN 0 CHARSET_UTF_8 (Some bs) (N.of_nat (List.length bs)) [].

Definition wbxml_routes_ok (main : list lang) (l : lang) : bool :=
  (* numeric id: this very language (no numeric id is shared) *)
  ((l_pub_num l =? WBXML_PUBLIC_ID_UNKNOWN) || id_is (check_public_id main WBXML_LANG_UNKNOWN (hdr_num (l_pub_num l))) l) &&
  (* textual id in the string table, as written, upper case, lower case: this very language *)
  match l_pub_text l with
  | Some s => id_is (check_public_id main WBXML_LANG_UNKNOWN (hdr_txt s)) l &&
              id_is (check_public_id main WBXML_LANG_UNKNOWN (hdr_txt (str_map upper_ascii s))) l &&
              id_is (check_public_id main WBXML_LANG_UNKNOWN (hdr_txt (str_map lower_ascii s))) l &&
              id_is (first_by_pubtext main s) l
  | None => true
  end &&
  (* forcing this language wins over every other language's numeric and textual id *)
  forallb (fun o => id_is (check_public_id main (l_id l) (hdr_num (l_pub_num o))) l &&
                    match l_pub_text o with Some s => id_is (check_public_id main (l_id l) (hdr_txt s)) l | None => true end) main &&
  id_is (check_public_id main (l_id l) (hdr_num WBXML_PUBLIC_ID_UNKNOWN)) l &&
  (* what the encoder writes for this language (numeric, or textual when asked or when there is no numeric id)
     selects it again; a language with neither id gets the 'unknown' id and must be forced *)
  forallb (fun textual =>
     match header_pubid l false textual with
     | PubNum n => if n =? WBXML_PUBLIC_ID_UNKNOWN
                   then match check_public_id main WBXML_LANG_UNKNOWN (hdr_num n) with None => true | Some _ => false end
                   else id_is (check_public_id main WBXML_LANG_UNKNOWN (hdr_num n)) l
     | PubIdx s => id_is (check_public_id main WBXML_LANG_UNKNOWN (hdr_txt s)) l
     end) [false; true] &&
  match header_pubid l true false, header_pubid l true true with
  | PubNum 1, PubNum 1 => true          (* anonymous: always the 'unknown' id, no string *)
  | _, _ => false
  end.

(* ---- XML side, per language: the four routes against the specification "first entry with ..." *)
Definition nsroot_of (l : lang) : option string :=
  match l_ns l, l_root l with
  | Some (r0 :: _), Some root => Some (ns_name r0 ++ String NAMESPACE_SEPARATOR root)%string
  | _, _ => None
  end.

(* local part of a table root element: after its last ':' (o-ex:rights -> rights) *)
Definition root_local (e : string) : string := match after_last ":"%char e with Some x => x | None => e end.

Definition xml_routes_ok (main : list lang) (l : lang) : bool :=
  match l_pub_text l with
  | Some s => id_is (xml_select main (Some s) None "no-such-root") l &&
              id_is (xml_select main (Some (str_map upper_ascii s)) (Some "no-such-dtd"%string) "no-such-root") l &&
              id_is (xml_select main (Some (str_map lower_ascii s)) None "no-such-root") l
  | None => true
  end &&
  match l_dtd l with
  | Some d => same_lang (xml_select main None (Some d) "no-such-root") (first_by_dtd main d) &&
              same_lang (xml_select main (Some "-//NO//SUCH//EN"%string) (Some d) "no-such-root") (first_by_dtd main d) &&
              match first_by_dtd main d with Some _ => true | None => false end
  | None => true
  end &&
  match l_root l with
  | Some r => same_lang (xml_select main None None r) (first_by_root main r) &&
              same_lang (xml_select main (Some "-//NO//SUCH//EN"%string) (Some "no-such-dtd"%string) r) (first_by_root main r) &&
              match first_by_root main r with Some _ => true | None => false end &&
              (* the same local name in a namespace that opens no table: the first entry with that local root element *)
              (let loc := root_local r in
               same_lang (xml_select main None None ("urn:no-such-namespace" ++ String NAMESPACE_SEPARATOR loc)%string)
                         (find (fun x => match l_root x with Some e => streq (root_local e) loc | None => false end) main) &&
               match xml_select main None None ("urn:no-such-namespace" ++ String NAMESPACE_SEPARATOR loc)%string with Some _ => true | None => false end)
  | None => true
  end &&
  match nsroot_of l with
  | Some r => same_lang (xml_select main None None r) (find (ns0_prefixes r) main) &&
              match find (ns0_prefixes r) main with Some _ => true | None => false end
  | None => true
  end.

(* the identifiers that several languages share: (route, value, id of the first registered entry = the one
   chosen, id of the entry that is therefore not reachable by this route) *)
Definition shadowed_by (route : string) (key : lang -> option string) (firstf : string -> option lang) (main : list lang)
  : list (string * string * N * N) :=
  flat_map (fun l => match key l with
                     | Some v => match firstf v with
                                 | Some f => if l_id f =? l_id l then [] else [(route, v, l_id f, l_id l)]
                                 | None => [(route, v, 0, l_id l)]
                                 end
                     | None => []
                     end) main.

Definition shared_identifiers (main : list lang) : list (string * string * N * N) :=
  flat_map (fun l => if l_pub_num l =? 1 then [] else
                     match first_by_pubnum main (l_pub_num l) with
                     | Some f => if l_id f =? l_id l then [] else [("numeric"%string, ""%string, l_id f, l_id l)]
                     | None => [] end) main ++
  shadowed_by "public-id" l_pub_text (first_by_pubtext main) main ++
  shadowed_by "system-id" l_dtd (fun d => xml_select main None (Some d) "no-such-root") main ++
  shadowed_by "root" l_root (fun r => xml_select main None None r) main ++
  shadowed_by "ns-root" nsroot_of (fun r => xml_select main None None r) main.

(* every identifier of a language leads back to it: no numeric and no textual public id is shared *)
Definition firsts_ok (main : list lang) (l : lang) : bool :=
  ((l_pub_num l =? WBXML_PUBLIC_ID_UNKNOWN) || id_is (first_by_pubnum main (l_pub_num l)) l) &&
  match l_pub_text l with Some s => id_is (first_by_pubtext main s) l | None => true end &&
  id_is (get_table main (l_id l)) l.

(* the sharing that exists today, pinned (route, identifier, language chosen = first registered, language shadowed);
   0 = nothing is chosen *)
Definition pinned_shared_identifiers : list (string * string * N * N) :=
  [ ("system-id", "http://www.microsoft.com/", 2401, 2402);
    ("root", "wml", 1101, 1102); ("root", "wml", 1101, 1103); ("root", "wml", 1101, 1104);
    ("root", "channel", 1203, 1204);
    ("root", "SyncML", 2201, 2101); ("root", "DevInf", 2202, 2102); ("root", "MetInf", 2203, 2103);
    ("root", "SyncML", 2201, 2001); ("root", "DevInf", 2202, 2002);
    ("root", "WV-CSP-Message", 2301, 2302);
    ("ns-root", "syncml:devinf|DevInf", 2202, 2102); ("ns-root", "syncml:devinf|DevInf", 2202, 2002) ]%string.
