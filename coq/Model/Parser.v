(* C04 / C13 / C01 — executable model of the WBXML event parser (src/wbxml_parser.c),
   with the parts of wbxml_charset.c (wbxml_charset_conv_term, this build: no iconv),
   wbxml_buffers.c and wbxml_elt.c it relies on.  Definitions only.

   Representation.  The C keeps the whole document and a cursor `pos`; every read is at
   pos, pos+2 or "the bytes from pos on", and lengths are compared with `len - pos`.  The
   model keeps the unread suffix `rest` (= wbxml[pos..]); pos = length input - length rest,
   so `pos <= length input` holds by construction.  Header fields that no longer change once
   the body starts (string table, declared string-table length, language, version, charset)
   are in `penv`; the cursor, the two code pages and current_tag are in `pstate`.
   Bytes are N (< 256, supplied by the driver), 32-bit values are N reduced with u32 by
   Codec.mb_read.  Input length is assumed < 2^32 - 2 (WB_ULONG positions do not wrap).

   Fuel.  Loops (`while`/`do-while`) are fixpoints on a fuel argument.  Every iteration
   consumes at least one byte, so `S (length input)` is always enough (ParserTotal.v);
   PFuel is a separate outcome, never confused with success or with an error code. *)
From Coq Require Import String Ascii.
From Coq Require Import List NArith Bool.
From Wbxml Require Import Model.Codec Model.TablesDefs.
Import ListNotations.
Local Open Scope N_scope.

Definition bytes := list N.
Definition B (s : string) : bytes := bytes_of_string s.

(* ------------------------------------------------------------------ *)
(* outcomes                                                            *)

Inductive perr :=
  | PE_END_OF_BUFFER | PE_UNVALID_MBUINT32 | PE_INVALID_UNICODE | PE_EMPTY_WBXML
  | PE_CHARSET_NOT_FOUND | PE_STRTBL_LENGTH | PE_UNKNOWN_PUBLIC_ID
  | PE_TAG_TABLE_UNDEFINED | PE_ATTR_TABLE_UNDEFINED | PE_ATTR_VALUE_TABLE_UNDEFINED
  | PE_EXT_VALUE_TABLE_UNDEFINED | PE_UNKNOWN_ATTR_VALUE | PE_UNKNOWN_EXTENSION_TOKEN
  | PE_BAD_OPAQUE_LENGTH | PE_NULL_STRING_TABLE | PE_INVALID_STRTBL_INDEX
  | PE_CHARSET_STR_LEN | PE_NO_CHARSET_CONV | PE_B64_ENC | PE_BAD_DATETIME
  | PE_WV_INTEGER_OVERFLOW | PE_WV_DATETIME_FORMAT | PE_INTERNAL | PE_NESTING_TOO_DEEP.

Inductive pres (A : Type) := POk (a : A) | PErr (e : perr) | PFuel.
Arguments POk {A} a.
Arguments PErr {A} e.
Arguments PFuel {A}.

Definition of_cerr (e : cerr) : perr :=
  match e with
  | E_END_OF_BUFFER => PE_END_OF_BUFFER
  | E_UNVALID_MBUINT32 => PE_UNVALID_MBUINT32
  | E_INVALID_UNICODE => PE_INVALID_UNICODE
  end.

(* ------------------------------------------------------------------ *)
(* events (wbxml_handlers.h)                                           *)

(* WBXMLTag / WBXMLAttributeName: a table entry (identified by page, token; with its xmlName)
   or a literal name *)
Inductive tagname := TagTok (page tok : N) (name : bytes) | TagLit (name : bytes).
Inductive attrname := AttrTok (page tok : N) (name : bytes) | AttrLit (name : bytes).

Inductive event :=
  | EvStartDoc (charset : N) (lang_id : N)
  | EvStartElt (t : tagname) (attrs : list (attrname * bytes))
  | EvChars (b : bytes)
  | EvPi (target : bytes) (data : bytes)
  | EvEndElt (t : tagname)
  | EvEndDoc.

Definition attr_xml_name (a : attrname) : bytes :=
  match a with AttrTok _ _ n => n | AttrLit n => n end.

(* ------------------------------------------------------------------ *)
(* state                                                               *)

Record penv := mk_penv {
  e_strtbl : option bytes;   (* parser->strstbl: private copy, padded when unterminated; NULL when length 0 *)
  e_strtbl_len : N;          (* parser->strstbl_len: the declared length *)
  e_lang : lang;             (* parser->langTable *)
  e_version : N;             (* parser->version *)
  e_charset : N              (* parser->charset *)
}.

Record pstate := mk_pstate {
  s_rest : bytes;            (* wbxml[pos..] *)
  s_tagcp : N;               (* tagCodePage *)
  s_attrcp : N;              (* attrCodePage *)
  s_cur : option (N * N)     (* current_tag: (wbxmlCodePage, wbxmlToken) of the entry, or NULL *)
}.

Definition set_rest (st : pstate) (r : bytes) : pstate :=
  mk_pstate r (s_tagcp st) (s_attrcp st) (s_cur st).
Definition set_cur (st : pstate) (c : option (N * N)) : pstate :=
  mk_pstate (s_rest st) (s_tagcp st) (s_attrcp st) c.

(* ------------------------------------------------------------------ *)
(* tokens (wbxml_internals.h)                                          *)

Definition T_SWITCH_PAGE := 0.   Definition T_END := 1.       Definition T_ENTITY := 2.
Definition T_STR_I := 3.         Definition T_LITERAL := 4.   Definition T_PI := 67.
Definition T_LITERAL_C := 68.    Definition T_STR_T := 131.   Definition T_LITERAL_A := 132.
Definition T_OPAQUE := 195.      Definition T_LITERAL_AC := 196.
Definition T_EXT_I_0 := 64.  Definition T_EXT_I_1 := 65.  Definition T_EXT_I_2 := 66.
Definition T_EXT_T_0 := 128. Definition T_EXT_T_1 := 129. Definition T_EXT_T_2 := 130.
Definition T_EXT_0 := 192.   Definition T_EXT_1 := 193.   Definition T_EXT_2 := 194.

Definition is_ext_token (c : N) : bool :=
  (c =? 64) || (c =? 65) || (c =? 66) || (c =? 128) || (c =? 129) || (c =? 130)
  || (c =? 192) || (c =? 193) || (c =? 194).

(* ------------------------------------------------------------------ *)
(* check functions: is_token, is_literal, is_string, is_extension, is_attr_value *)

(* wbxml_buffer_get_char fails at/after the end: FALSE *)
Definition is_token (r : bytes) (t : N) : bool :=
  match r with [] => false | b :: _ => b =? t end.

Definition is_literal (r : bytes) : bool :=
  match r with
  | [] => false
  | b :: _ => (b =? 4) || (b =? 132) || (b =? 68) || (b =? 196)
  end.

Definition is_string (r : bytes) : bool := is_token r 3 || is_token r 131.

Definition is_extension (r : bytes) : bool :=
  let cur := if is_token r 0 then nth_error r 2 else nth_error r 0 in
  match cur with None => false | Some c => is_ext_token c end.

Definition is_attr_value (r : bytes) : bool :=
  match r with
  | [] => false
  | cur :: _ =>
    let general :=
      (N.land cur 128 =? 128) || is_string r || is_extension r || is_token r 2 || is_token r 195 in
    if is_token r 0 then
      match nth_error r 2 with
      | None => false
      | Some nb => if N.land nb 128 =? 128 then true else general
      end
    else general
  end.

(* ------------------------------------------------------------------ *)
(* basic types                                                         *)

Definition parse_uint8 (r : bytes) : pres (N * bytes) :=
  match r with [] => PErr PE_END_OF_BUFFER | b :: r' => POk (b, r') end.

Definition parse_mb_uint32 (r : bytes) : pres (N * bytes) :=
  match mb_read r with Ok x => POk x | Err e => PErr (of_cerr e) end.

Definition blen (r : bytes) : N := N.of_nat (length r).
Definition take (n : N) (r : bytes) : bytes := firstn (N.to_nat n) r.
Definition drop (n : N) (r : bytes) : bytes := skipn (N.to_nat n) r.

(* ------------------------------------------------------------------ *)
(* charsets (wbxml_charset.c, no iconv in this build)                  *)

Definition CS_US_ASCII := 3.  Definition CS_UTF_8 := 106.
Definition CS_UCS_2 := 1000.  Definition CS_UTF_16 := 1015.

Definition charset_mibs : list N := [3;4;5;6;7;8;9;10;11;12;17;106;1000;1015;2026].
(* wbxml_charset_get_name succeeds *)
Definition charset_known (c : N) : bool := existsb (N.eqb c) charset_mibs.

(* the string before the first NUL and the bytes after that NUL; None when there is no NUL *)
Fixpoint split_nul (r : bytes) : option (bytes * bytes) :=
  match r with
  | [] => None
  | b :: r' => if b =? 0 then Some ([], r')
               else match split_nul r' with Some (s, t) => Some (b :: s, t) | None => None end
  end.

(* search_null_block (block_len = 2): aligned pairs from the start *)
Fixpoint search_null2 (r : bytes) : bool :=
  match r with
  | a :: b :: r' => if (a =? 0) && (b =? 0) then true else search_null2 r'
  | _ => false
  end.

(* wbxml_charset_conv_term(in_buf, &io_bytes = length buf, in_charset, out, UTF-8):
   the converted string and the bytes left after the terminator *)
Definition conv_term (charset : N) (buf : bytes) : pres (bytes * bytes) :=
  if (charset =? 1000) || (charset =? 1015) then
    (if search_null2 buf then PErr PE_NO_CHARSET_CONV else PErr PE_CHARSET_STR_LEN)
  else
    match split_nul buf with
    | None => PErr PE_CHARSET_STR_LEN          (* strlen + 1 > io_bytes *)
    | Some (s, t) =>
      if (charset =? 3) || (charset =? 106) then POk (s, t) else PErr PE_NO_CHARSET_CONV
    end.

(* ------------------------------------------------------------------ *)
(* string table                                                        *)

Definition get_strtbl_reference (env : penv) (index : N) : pres bytes :=
  match e_strtbl env with
  | None => if index =? 0 then POk (B "xmlns") else PErr PE_NULL_STRING_TABLE
  | Some tb =>
    if e_strtbl_len env <=? index then PErr PE_INVALID_STRTBL_INDEX
    else match conv_term (e_charset env) (drop index tb) with
         | POk (s, _) => POk s
         | PErr e => PErr e
         | PFuel => PFuel
         end
  end.

(* parse_termstr *)
Definition parse_termstr (env : penv) (r : bytes) : pres (bytes * bytes) :=
  conv_term (e_charset env) r.

(* parse_inline: skip STR_I *)
Definition parse_inline (env : penv) (r : bytes) : pres (bytes * bytes) :=
  parse_termstr env (tl r).

(* parse_tableref: skip STR_T, index, reference *)
Definition parse_tableref (env : penv) (r : bytes) : pres (bytes * bytes) :=
  match parse_mb_uint32 (tl r) with
  | POk (index, r') =>
    match get_strtbl_reference env index with
    | POk s => POk (s, r') | PErr e => PErr e | PFuel => PFuel
    end
  | PErr e => PErr e | PFuel => PFuel
  end.

Definition parse_string (env : penv) (r : bytes) : pres (bytes * bytes) :=
  if is_token r 3 then parse_inline env r
  else if is_token r 131 then parse_tableref env r
  else PErr PE_INTERNAL (* WBXML_ERROR_STRING_EXPECTED: not reachable, callers test is_string *).

(* ------------------------------------------------------------------ *)
(* switchPage                                                          *)

Inductive space := TagSpace | AttrSpace.

Definition parse_switch_page (sp : space) (st : pstate) : pres pstate :=
  match parse_uint8 (tl (s_rest st)) with
  | POk (p, r) =>
    POk (match sp with
         | TagSpace => mk_pstate r p (s_attrcp st) (s_cur st)
         | AttrSpace => mk_pstate r (s_tagcp st) p (s_cur st)
         end)
  | PErr e => PErr e | PFuel => PFuel
  end.

Definition opt_switch_page (sp : space) (st : pstate) : pres pstate :=
  if is_token (s_rest st) 0 then parse_switch_page sp st else POk st.

(* ------------------------------------------------------------------ *)
(* language-specific decoding                                          *)

Definition L_WML10 := 1101. Definition L_WML11 := 1102. Definition L_WML12 := 1103.
Definition L_WML13 := 1104. Definition L_WTAWML12 := 1202. Definition L_SI10 := 1301.
Definition L_EMN10 := 1701. Definition L_DRMREL10 := 1801. Definition L_OTA_SETTINGS := 1901.
Definition L_SYNCML10 := 2001. Definition L_SYNCML11 := 2101. Definition L_SYNCML12 := 2201.
Definition L_WV_CSP11 := 2301. Definition L_WV_CSP12 := 2302.

Definition is_wml_lang (id : N) : bool :=
  (id =? 1101) || (id =? 1102) || (id =? 1103) || (id =? 1104) || (id =? 1202).
Definition is_wv_lang (id : N) : bool := (id =? 2301) || (id =? 2302).
Definition is_syncml_lang (id : N) : bool := (id =? 2001) || (id =? 2101) || (id =? 2201).

(* decode_base64_value: wbxml_base64_encode refuses the empty string *)
Definition decode_base64_value (d : bytes) : pres bytes :=
  match b64_enc d with Some o => POk o | None => PErr PE_B64_ENC end.

(* decimal digits: sprintf("%u") *)
Fixpoint dec_digits (fuel : nat) (v : N) (acc : bytes) : bytes :=
  match fuel with
  | O => acc
  | S f => let acc' := (48 + v mod 10) :: acc in
           if v / 10 =? 0 then acc' else dec_digits f (v / 10) acc'
  end.
Definition fmt_u (v : N) : bytes := dec_digits 10 v [].
(* sprintf("%02u") / ("%04u") *)
Definition pad_to (n : nat) (d : bytes) : bytes := repeat 48 (n - length d) ++ d.
Definition fmt_02u (v : N) : bytes := pad_to 2 (fmt_u v).
Definition fmt_04u (v : N) : bytes := pad_to 4 (fmt_u v).

(* decode_wv_integer *)
Fixpoint wv_int_loop (d : bytes) (the_int : N) : pres N :=
  match d with
  | [] => POk the_int
  | ch :: r => if 16777215 <? the_int then PErr PE_WV_INTEGER_OVERFLOW
               else wv_int_loop r (u32 (N.lor (N.shiftl the_int 8) (N.land ch 255)))
  end.
Definition decode_wv_integer (d : bytes) : pres bytes :=
  match wv_int_loop d 0 with POk v => POk (fmt_u v) | PErr e => PErr e | PFuel => PFuel end.

(* decode_wv_datetime *)
Definition decode_wv_datetime (d : bytes) : pres bytes :=
  match d with
  | [d0; d1; d2; d3; d4; d5] =>
    let year := N.shiftl (N.land d0 63) 6 + N.land (N.shiftr d1 2) 63 in
    let month := N.lor (N.shiftl (N.land d1 3) 2) (N.land (N.shiftr d2 6) 3) in
    let day := N.land (N.shiftr d2 1) 31 in
    let hour := N.lor (N.shiftl (N.land d2 1) 4) (N.land (N.shiftr d3 4) 15) in
    let minute := N.lor (N.shiftl (N.land d3 15) 2) (N.land (N.shiftr d4 6) 3) in
    let second := N.land d4 63 in
    let body := fmt_04u year ++ fmt_02u month ++ fmt_02u day ++ [84] ++ fmt_02u hour ++ fmt_02u minute
                ++ (if second =? 0 then [] else fmt_02u second) in
    POk (if d5 =? 0 then body ++ [90]
         else if (d5 <? 65) || (90 <? d5) || (d5 =? 74) then body
         else body ++ [d5])
  | _ => PErr PE_WV_DATETIME_FORMAT
  end.

Inductive wv_type := WV_STRING | WV_INTEGER | WV_DATETIME.

(* the switch of decode_wv_content on (current_tag->wbxmlCodePage, current_tag->wbxmlToken) *)
Definition wv_data_type (page tok : N) : wv_type :=
  if page =? 0 then
    (if (tok =? 11) || (tok =? 15) || (tok =? 26) || (tok =? 60) then WV_INTEGER
     else if tok =? 17 then WV_DATETIME else WV_STRING)
  else if page =? 1 then
    (if (tok =? 28) || (tok =? 37) || (tok =? 38) || (tok =? 39) || (tok =? 40) || (tok =? 50)
     then WV_INTEGER else WV_STRING)
  else if page =? 3 then
    (if (tok =? 5) || (tok =? 6) || (tok =? 12) || (tok =? 13) || (tok =? 14) || (tok =? 18) || (tok =? 19)
     then WV_INTEGER else WV_STRING)
  else if page =? 5 then
    (if (tok =? 5) || (tok =? 9) || (tok =? 50) then WV_INTEGER else WV_STRING)
  else if page =? 6 then
    (if tok =? 26 then WV_DATETIME else WV_STRING)
  else if page =? 9 then
    (if (tok =? 8) || (tok =? 10) then WV_INTEGER else WV_STRING)
  else WV_STRING.

Definition decode_wv_content (cur : option (N * N)) (d : bytes) : pres bytes :=
  match cur with
  | None => POk d
  | Some (page, tok) =>
    match wv_data_type page tok with
    | WV_INTEGER => decode_wv_integer d
    | WV_DATETIME => decode_wv_datetime d
    | WV_STRING => POk d
    end
  end.

Definition cur_is (cur : option (N * N)) (page tok : N) : bool :=
  match cur with Some (p, t) => (p =? page) && (t =? tok) | None => false end.

(* decode_opaque_content *)
Definition decode_opaque_content (env : penv) (cur : option (N * N)) (d : bytes) : pres bytes :=
  let id := l_id (e_lang env) in
  if is_wv_lang id then decode_wv_content cur d
  else if id =? 1801 then (if cur_is cur 0 12 then decode_base64_value d else POk d)
  else if is_syncml_lang id then (if cur_is cur 1 16 then decode_base64_value d else POk d)
  else POk d.

(* decode_opaque_attr_value *)
Definition decode_opaque_attr_value (env : penv) (d : bytes) : pres bytes :=
  if l_id (e_lang env) =? 1901 then decode_base64_value d else POk d.

(* wbxml_buffer_insert_cstr(buff, s, pos) (pos <= length holds at every use) *)
Definition insert_at (pos : nat) (s l : bytes) : bytes := firstn pos l ++ s ++ skipn pos l.

(* decode_datetime (SI / EMN %Datetime attribute values) *)
Definition decode_datetime (v : bytes) : pres bytes :=
  let h := bin_to_hex true v in
  let len := length h in
  if (Nat.ltb len 8) || (Nat.ltb 14 len) || (Nat.eqb len 9) || (Nat.eqb len 11) || (Nat.eqb len 13)
  then PErr PE_BAD_DATETIME
  else
    let h := insert_at 4 [45] h in
    let h := insert_at 7 [45] h in
    let h := insert_at 10 [84] h in
    let h := if Nat.ltb 10 len then insert_at 13 [58] h else h in
    let h := if Nat.ltb 12 len then insert_at 16 [58] h else h in
    let h := if Nat.eqb len 8 then h ++ B "00:00:00"
             else if Nat.eqb len 10 then h ++ B ":00:00"
             else if Nat.eqb len 12 then h ++ B ":00" else h in
    POk (h ++ [90]).

(* ------------------------------------------------------------------ *)
(* extension                                                            *)

Fixpoint find_ext (t : list ext_row) (v : N) : option ext_row :=
  match t with
  | [] => None
  | r :: t' => if e_tok r =? v then Some r else find_ext t' v
  end.

(* result None = *result left untouched (NULL at every call site) *)
Definition parse_extension (env : penv) (sp : space) (st : pstate) : pres (option bytes * pstate) :=
  match opt_switch_page sp st with
  | PErr e => PErr e | PFuel => PFuel
  | POk st1 =>
    match parse_uint8 (s_rest st1) with
    | PErr e => PErr e | PFuel => PFuel
    | POk (token, r) =>
      let id := l_id (e_lang env) in
      if is_wml_lang id then
        if (token =? 192) || (token =? 193) || (token =? 194) then POk (None, set_rest st1 r)
        else
          let var :=
            if (token =? 64) || (token =? 65) || (token =? 66) then parse_termstr env r
            else if (token =? 128) || (token =? 129) || (token =? 130) then
              match parse_mb_uint32 r with
              | POk (index, r') =>
                match get_strtbl_reference env index with
                | POk s => POk (s, r') | PErr e => PErr e | PFuel => PFuel
                end
              | PErr e => PErr e | PFuel => PFuel
              end
            else PErr PE_UNKNOWN_EXTENSION_TOKEN in
          match var with
          | PErr e => PErr e | PFuel => PFuel
          | POk (v, r') =>
            let suffix := if (token =? 64) || (token =? 128) then B ":escape"
                          else if (token =? 65) || (token =? 129) then B ":unesc"
                          else B ":noesc" in
            POk (Some (B "$(" ++ v ++ suffix ++ B ")"), set_rest st1 r')
          end
      else if is_wv_lang id then
        if negb (token =? 128) then POk (None, set_rest st1 r)
        else
          match parse_mb_uint32 r with
          | PErr e => PErr e | PFuel => PFuel
          | POk (ext_value, r') =>
            match l_exts (e_lang env) with
            | None => PErr PE_EXT_VALUE_TABLE_UNDEFINED
            | Some t =>
              match find_ext t ext_value with
              | None => POk (None, set_rest st1 r')          (* best effort: nothing delivered *)
              | Some row => POk (Some (B (e_name row)), set_rest st1 r')
              end
            end
          end
      else POk (None, set_rest st1 r)   (* "Extension tokens not allowed with this Document" *)
    end
  end.

(* ------------------------------------------------------------------ *)
(* entity, opaque                                                       *)

Definition parse_entity (r : bytes) : pres (bytes * bytes) :=
  match parse_mb_uint32 (tl r) with
  | PErr e => PErr e | PFuel => PFuel
  | POk (code, r') =>
    match entity_utf8 code with
    | Ok s => POk (s, r')
    | Err e => PErr (of_cerr e)
    end
  end.

Definition parse_opaque (r : bytes) : pres (bytes * bytes) :=
  match parse_mb_uint32 (tl r) with
  | PErr e => PErr e | PFuel => PFuel
  | POk (len, r') =>
    if blen r' <? len then PErr PE_BAD_OPAQUE_LENGTH
    else POk (take len r', drop len r')
  end.

(* ------------------------------------------------------------------ *)
(* literal, stag, tag                                                   *)

(* parse_literal: (mask, name, rest) *)
Definition parse_literal (env : penv) (r : bytes) : pres (N * bytes * bytes) :=
  match parse_uint8 r with
  | PErr e => PErr e | PFuel => PFuel
  | POk (token, r1) =>
    match parse_mb_uint32 r1 with
    | PErr e => PErr e | PFuel => PFuel
    | POk (index, r2) =>
      match get_strtbl_reference env index with
      | PErr e => PErr e | PFuel => PFuel
      | POk s =>
        if token =? 4 then POk (63, s, r2)
        else if token =? 68 then POk (64, s, r2)
        else if token =? 132 then POk (128, s, r2)
        else if token =? 196 then POk (192, s, r2)
        else PErr PE_INTERNAL
      end
    end
  end.

Fixpoint find_tag (t : list tag_row) (page tok : N) : option tag_row :=
  match t with
  | [] => None
  | r :: t' => if (t_tok r =? tok) && (t_page r =? page) then Some r else find_tag t' page tok
  end.

Definition UNKNOWN_NAME : bytes := B "unknown".

(* parse_tag: (tag byte, element) *)
Definition parse_tag (env : penv) (st : pstate) : pres (N * tagname * bytes) :=
  match parse_uint8 (s_rest st) with
  | PErr e => PErr e | PFuel => PFuel
  | POk (tag, r) =>
    let token := N.land tag 63 in
    match l_tags (e_lang env) with
    | None => PErr PE_TAG_TABLE_UNDEFINED
    | Some t =>
      match find_tag t (s_tagcp st) token with
      | None => POk (tag, TagLit UNKNOWN_NAME, r)
      | Some row => POk (tag, TagTok (t_page row) (t_tok row) (B (t_name row)), r)
      end
    end
  end.

Definition parse_stag (env : penv) (st : pstate) : pres (N * tagname * bytes) :=
  if is_literal (s_rest st) then
    match parse_literal env (s_rest st) with
    | PErr e => PErr e | PFuel => PFuel
    | POk (mask, name, r) => POk (mask, TagLit (cstr name), r)
    end
  else parse_tag env st.

(* ------------------------------------------------------------------ *)
(* attributes                                                           *)

Fixpoint find_attr (t : list attr_row) (page tok : N) : option attr_row :=
  match t with
  | [] => None
  | r :: t' => if (a_tok r =? tok) && (a_page r =? page) then Some r else find_attr t' page tok
  end.

Fixpoint find_val (t : list val_row) (page tok : N) : option val_row :=
  match t with
  | [] => None
  | r :: t' => if (v_tok r =? tok) && (v_page r =? page) then Some r else find_val t' page tok
  end.

(* parse_attr_start: (name, start value if any, state) *)
Definition parse_attr_start (env : penv) (st : pstate) : pres (attrname * option bytes * pstate) :=
  if is_token (s_rest st) 4 then
    match parse_literal env (s_rest st) with
    | PErr e => PErr e | PFuel => PFuel
    | POk (_, name, r) => POk (AttrLit (cstr name), None, set_rest st r)
    end
  else
    match opt_switch_page AttrSpace st with
    | PErr e => PErr e | PFuel => PFuel
    | POk st1 =>
      match parse_uint8 (s_rest st1) with
      | PErr e => PErr e | PFuel => PFuel
      | POk (tag, r) =>
        match l_attrs (e_lang env) with
        | None => PErr PE_ATTR_TABLE_UNDEFINED
        | Some t =>
          match find_attr t (s_attrcp st1) tag with
          | None => POk (AttrLit UNKNOWN_NAME, None, set_rest st1 r)
          | Some row =>
            POk (AttrTok (a_page row) (a_tok row) (B (a_name row)),
                 match a_value row with Some v => Some (B v) | None => None end,
                 set_rest st1 r)
          end
        end
      end
    end.

Definition lift_str (st : pstate) (x : pres (bytes * bytes)) : pres (option bytes * pstate) :=
  match x with
  | POk (s, r) => POk (Some s, set_rest st r)
  | PErr e => PErr e | PFuel => PFuel
  end.

(* parse_attr_value *)
Definition parse_attr_value (env : penv) (st : pstate) : pres (option bytes * pstate) :=
  let r := s_rest st in
  if is_extension r then parse_extension env AttrSpace st
  else if is_token r 2 then lift_str st (parse_entity r)
  else if is_string r then lift_str st (parse_string env r)
  else if is_token r 195 then
    match parse_opaque r with
    | PErr e => PErr e | PFuel => PFuel
    | POk (d, r') =>
      match decode_opaque_attr_value env d with
      | PErr e => PErr e | PFuel => PFuel
      | POk d' => POk (Some d', set_rest st r')
      end
    end
  else
    match opt_switch_page AttrSpace st with
    | PErr e => PErr e | PFuel => PFuel
    | POk st1 =>
      match parse_uint8 (s_rest st1) with
      | PErr e => PErr e | PFuel => PFuel
      | POk (tag, r') =>
        match l_vals (e_lang env) with
        | None => PErr PE_ATTR_VALUE_TABLE_UNDEFINED
        | Some t =>
          match find_val t (s_attrcp st1) tag with
          | None => PErr PE_UNKNOWN_ATTR_VALUE
          | Some row => POk (Some (B (v_name row)), set_rest st1 r')
          end
        end
      end
    end.

Definition app_opt (acc : bytes) (o : option bytes) : bytes :=
  match o with Some v => acc ++ v | None => acc end.

(* parse_attribute: while (is_attr_value) { parse_attr_value; append } *)
Fixpoint attr_values_loop (fuel : nat) (env : penv) (st : pstate) (acc : bytes) : pres (bytes * pstate) :=
  match fuel with
  | O => PFuel
  | S f =>
    if is_attr_value (s_rest st) then
      match parse_attr_value env st with
      | PErr e => PErr e | PFuel => PFuel
      | POk (v, st') => attr_values_loop f env st' (app_opt acc v)
      end
    else POk (acc, st)
  end.

(* parse_pi: while (!is_token(END)) { parse_attr_value; append } *)
Fixpoint pi_values_loop (fuel : nat) (env : penv) (st : pstate) (acc : bytes) : pres (bytes * pstate) :=
  match fuel with
  | O => PFuel
  | S f =>
    if is_token (s_rest st) 1 then POk (acc, st)
    else
      match parse_attr_value env st with
      | PErr e => PErr e | PFuel => PFuel
      | POk (v, st') => pi_values_loop f env st' (app_opt acc v)
      end
  end.

Definition opt_bytes (o : option bytes) : bytes := match o with Some v => v | None => [] end.

(* the language-specific branch of parse_attribute *)
Definition attr_typed (env : penv) (name : attrname) (value : bytes) : pres bytes :=
  match value, name with
  | _ :: _, AttrTok page tok _ =>
    let id := l_id (e_lang env) in
    if (id =? 1301) && (page =? 0) && ((tok =? 10) || (tok =? 16)) then decode_datetime value
    else if (id =? 1701) && (page =? 0) && (tok =? 5) then decode_datetime value
    else POk value
  | _, _ => POk value
  end.

(* The value delivered is the buffer without the NUL the C appends when it is not empty
   (the harness strips that one byte). *)
Definition parse_attribute (fuel : nat) (env : penv) (st : pstate) : pres (attrname * bytes * pstate) :=
  match parse_attr_start env st with
  | PErr e => PErr e | PFuel => PFuel
  | POk (name, start, st1) =>
    match attr_values_loop fuel env st1 (opt_bytes start) with
    | PErr e => PErr e | PFuel => PFuel
    | POk (value, st2) =>
      match attr_typed env name value with
      | PErr e => PErr e | PFuel => PFuel
      | POk value' => POk (name, value', st2)
      end
    end
  end.

(* parse_element: do { parse_attribute } while (!is_token(END)); skip END *)
Fixpoint attrs_loop (fuel : nat) (env : penv) (st : pstate) (acc : list (attrname * bytes))
  : pres (list (attrname * bytes) * pstate) :=
  match fuel with
  | O => PFuel
  | S f =>
    match parse_attribute f env st with
    | PErr e => PErr e | PFuel => PFuel
    | POk (name, value, st') =>
      let acc' := acc ++ [(name, value)] in
      if is_token (s_rest st') 1 then POk (acc', set_rest st' (tl (s_rest st')))
      else attrs_loop f env st' acc'
    end
  end.

(* parse_pi: the PI token is at the cursor *)
Definition parse_pi (fuel : nat) (env : penv) (st : pstate) : pres (list event * pstate) :=
  match parse_attr_start env (set_rest st (tl (s_rest st))) with
  | PErr e => PErr e | PFuel => PFuel
  | POk (name, start, st1) =>
    match pi_values_loop fuel env st1 (opt_bytes start) with
    | PErr e => PErr e | PFuel => PFuel
    | POk (value, st2) =>
      (* skip END; the data travels as a C string *)
      POk ([EvPi (attr_xml_name name) (cstr value)], set_rest st2 (tl (s_rest st2)))
    end
  end.

(* ------------------------------------------------------------------ *)
(* element / content                                                    *)

Definition chars_event (o : option bytes) : list event :=
  match o with
  | Some (b :: r) => [EvChars (b :: r)]
  | _ => []
  end.

(* WBXML_MAX_NESTING_DEPTH (wbxml_defines.h): parse_content refuses to recurse into an element
   when parser->nesting (the number of enclosing elements below the root) has reached it *)
Definition MAX_NESTING_DEPTH := 1000.

(* parse_content, with the element parser as a parameter (it is the recursive call);
   `nesting` = parser->nesting *)
Definition parse_content (fuel : nat) (env : penv) (nesting : N)
           (pelt : pstate -> pres (list event * pstate)) (st : pstate)
  : pres (list event * pstate) :=
  let r := s_rest st in
  match r with
  | [] => PErr PE_END_OF_BUFFER
  | _ =>
    if is_extension r then
      match parse_extension env TagSpace st with
      | PErr e => PErr e | PFuel => PFuel
      | POk (v, st') => POk (chars_event v, st')
      end
    else if is_token r 2 then
      match parse_entity r with
      | PErr e => PErr e | PFuel => PFuel
      | POk (s, r') => POk (chars_event (Some s), set_rest st r')
      end
    else if is_string r then
      match parse_string env r with
      | PErr e => PErr e | PFuel => PFuel
      | POk (s, r') => POk (chars_event (Some s), set_rest st r')
      end
    else if is_token r 195 then
      match parse_opaque r with
      | PErr e => PErr e | PFuel => PFuel
      | POk (d, r') =>
        match decode_opaque_content env (s_cur st) d with
        | PErr e => PErr e | PFuel => PFuel
        | POk d' => POk (chars_event (Some d'), set_rest st r')
        end
      end
    else if is_token r 67 then parse_pi fuel env st
    else if is_token r 0 then
      (* Nokia 6600 work-around: a switchPage on its own as content *)
      match parse_switch_page TagSpace st with
      | PErr e => PErr e | PFuel => PFuel
      | POk st' => POk ([], st')
      end
    else if MAX_NESTING_DEPTH <=? nesting then PErr PE_NESTING_TOO_DEEP
    else pelt st
  end.

(* parse_element up to (and including) the start-element callback, then the content loop
   `cloop` (the recursive knot), then the end-element callback and the current_tag reset *)
Definition parse_element_with (fuel : nat) (env : penv)
           (cloop : pstate -> pres (list event * pstate)) (st : pstate)
  : pres (list event * pstate) :=
  match opt_switch_page TagSpace st with
  | PErr e => PErr e | PFuel => PFuel
  | POk st0 =>
    match parse_stag env st0 with
    | PErr e => PErr e | PFuel => PFuel
    | POk (tag, elt, r) =>
      let st1 := set_rest st0 r in
      let st1 := match elt with TagTok p t _ => set_cur st1 (Some (p, t)) | TagLit _ => st1 end in
      let after_attrs :=
        if N.land tag 128 =? 128 then attrs_loop fuel env st1 [] else POk ([], st1) in
      match after_attrs with
      | PErr e => PErr e | PFuel => PFuel
      | POk (attrs, st2) =>
        if N.land tag 64 =? 64 then
          match cloop st2 with
          | PErr e => PErr e | PFuel => PFuel
          | POk (evs, st3) =>
            POk (EvStartElt elt attrs :: evs ++ [EvEndElt elt], set_cur st3 None)
          end
        else POk ([EvStartElt elt attrs; EvEndElt elt], set_cur st2 None)
      end
    end
  end.

(* while (!is_token(END)) { parse_content; characters callback }; skip END *)
Fixpoint content_loop (fuel : nat) (env : penv) (nesting : N) (st : pstate) : pres (list event * pstate) :=
  match fuel with
  | O => PFuel
  | S f =>
    if is_token (s_rest st) 1 then POk ([], set_rest st (tl (s_rest st)))
    else
      match parse_content f env nesting (parse_element_with f env (content_loop f env (nesting + 1))) st with
      | PErr e => PErr e | PFuel => PFuel
      | POk (evs, st') =>
        match content_loop f env nesting st' with
        | PErr e => PErr e | PFuel => PFuel
        | POk (evs', st'') => POk (evs ++ evs', st'')
        end
      end
  end.

Definition parse_element (fuel : nat) (env : penv) (st : pstate) : pres (list event * pstate) :=
  parse_element_with fuel env (content_loop fuel env 0) st.

(* while (is_token(PI)) parse_pi *)
Fixpoint body_pi_loop (fuel : nat) (env : penv) (st : pstate) : pres (list event * pstate) :=
  match fuel with
  | O => PFuel
  | S f =>
    if is_token (s_rest st) 67 then
      match parse_pi f env st with
      | PErr e => PErr e | PFuel => PFuel
      | POk (evs, st') =>
        match body_pi_loop f env st' with
        | PErr e => PErr e | PFuel => PFuel
        | POk (evs', st'') => POk (evs ++ evs', st'')
        end
      end
    else POk ([], st)
  end.

Definition parse_body (fuel : nat) (env : penv) (st : pstate) : pres (list event * pstate) :=
  match body_pi_loop fuel env st with
  | PErr e => PErr e | PFuel => PFuel
  | POk (e1, st1) =>
    match parse_element fuel env st1 with
    | PErr e => PErr e | PFuel => PFuel
    | POk (e2, st2) =>
      match body_pi_loop fuel env st2 with
      | PErr e => PErr e | PFuel => PFuel
      | POk (e3, st3) => POk (e1 ++ e2 ++ e3, st3)
      end
    end
  end.

(* ------------------------------------------------------------------ *)
(* header                                                               *)

Definition PUBLIC_ID_UNKNOWN := 1.
Definition NO_INDEX := 4294967295.   (* public_id_index == -1 (WB_LONG written through a WB_ULONG pointer) *)

(* parse_publicid: (public_id, public_id_index) *)
Definition parse_publicid (r : bytes) : pres (N * N * bytes) :=
  match r with
  | [] => PErr PE_END_OF_BUFFER
  | b :: r' =>
    if b =? 0 then
      match parse_mb_uint32 r' with
      | POk (i, r2) => POk (PUBLIC_ID_UNKNOWN, i, r2)
      | PErr e => PErr e | PFuel => PFuel
      end
    else
      match parse_mb_uint32 r with
      | POk (p, r2) => POk (p, NO_INDEX, r2)
      | PErr e => PErr e | PFuel => PFuel
      end
  end.

(* parse_charset *)
Definition parse_charset (meta : N) (r : bytes) : pres (N * bytes) :=
  match parse_mb_uint32 r with
  | PErr e => PErr e | PFuel => PFuel
  | POk (c, r') =>
    let c := if c =? 0 then (if meta =? 0 then 106 else meta) else c in
    if charset_known c then POk (c, r') else PErr PE_CHARSET_NOT_FOUND
  end.

(* parse_strtbl: (strstbl, strstbl_len, rest) *)
Definition parse_strtbl (r : bytes) : pres (option bytes * N * bytes) :=
  match parse_mb_uint32 r with
  | PErr _ => PErr PE_END_OF_BUFFER
  | PFuel => PFuel
  | POk (len, r') =>
    if 0 <? len then
      if blen r' <? len then PErr PE_STRTBL_LENGTH
      else
        let tb := take len r' in
        let tb := if last tb 0 =? 0 then tb else tb ++ [0; 0; 0; 0] in
        POk (Some tb, len, drop len r')
    else POk (None, 0, r')
  end.

Fixpoint find_lang_id (tbl : list lang) (id : N) (index : nat) : option lang * nat :=
  match tbl with
  | [] => (None, index)
  | l :: t => if l_id l =? id then (Some l, index) else find_lang_id t id (S index)
  end.

Fixpoint find_lang_pub (tbl : list lang) (pub : N) (index : nat) : option lang * nat :=
  match tbl with
  | [] => (None, index)
  | l :: t => if l_pub_num l =? pub then (Some l, index) else find_lang_pub t pub (S index)
  end.

(* strcasecmp in the "C" locale *)
Definition lower (c : N) : N := if (65 <=? c) && (c <=? 90) then c + 32 else c.
Fixpoint bytes_eqb (a b : bytes) : bool :=
  match a, b with
  | [], [] => true
  | x :: a', y :: b' => (x =? y) && bytes_eqb a' b'
  | _, _ => false
  end.
Definition strcaseeq (a b : bytes) : bool := bytes_eqb (map lower a) (map lower b).

Fixpoint find_lang_text (tbl : list lang) (s : bytes) : option lang :=
  match tbl with
  | [] => None
  | l :: t =>
    match l_pub_text l with
    | Some p => if strcaseeq (B p) s then Some l else find_lang_text t s
    | None => find_lang_text t s
    end
  end.

(* wbxml_tables_get_wbxml_publicid *)
Definition get_wbxml_publicid (tbl : list lang) (id : N) : N :=
  match fst (find_lang_id tbl id 0%nat) with Some l => l_pub_num l | None => PUBLIC_ID_UNKNOWN end.

(* check_public_id; `index` is not reset between the three cases *)
Definition check_public_id (tbl : list lang) (forced pubid pubidx : N)
           (strtbl : option bytes) (strtbl_len charset : N) : option lang :=
  if (forced =? 0) && (pubid =? PUBLIC_ID_UNKNOWN) && (pubidx =? NO_INDEX) then None
  else
    let '(r1, i1) := if forced =? 0 then (None, 0%nat) else find_lang_id tbl forced 0%nat in
    match r1 with
    | Some l => Some l
    | None =>
      let '(r2, i2) := if pubid =? PUBLIC_ID_UNKNOWN then (None, i1)
                       else find_lang_pub (skipn i1 tbl) pubid i1 in
      match r2 with
      | Some l => Some l
      | None =>
        if pubidx =? NO_INDEX then None
        else
          (* only the string table, its declared length and the charset are used *)
          let env0 := mk_penv strtbl strtbl_len (mk_lang 0 0 None None None None None None None None) 0 charset in
          match get_strtbl_reference env0 pubidx with
          | POk s => find_lang_text (skipn i2 tbl) s
          | _ => None
          end
      end
    end.

(* wbxml_parser_parse.  forced = lang_forced (0 = WBXML_LANG_UNKNOWN), meta = meta_charset (0 = unknown) *)
Definition parse_with (tbl : list lang) (forced meta : N) (fuel : nat) (bs : bytes) : pres (list event) :=
  match bs with
  | [] => PErr PE_EMPTY_WBXML
  | _ =>
    match parse_uint8 bs with
    | PErr e => PErr e | PFuel => PFuel
    | POk (version, r0) =>
      match parse_publicid r0 with
      | PErr e => PErr e | PFuel => PFuel
      | POk (pubid, pubidx, r1) =>
        let pubid := if forced =? 0 then pubid else get_wbxml_publicid tbl forced in
        let cs := if version =? 0 then POk (0, r1) else parse_charset meta r1 in
        match cs with
        | PErr e => PErr e | PFuel => PFuel
        | POk (charset, r2) =>
          let charset := if charset =? 0 then (if meta =? 0 then 106 else meta) else charset in
          match parse_strtbl r2 with
          | PErr e => PErr e | PFuel => PFuel
          | POk (strtbl, strtbl_len, r3) =>
            match check_public_id tbl forced pubid pubidx strtbl strtbl_len charset with
            | None => PErr PE_UNKNOWN_PUBLIC_ID
            | Some l =>
              let env := mk_penv strtbl strtbl_len l version charset in
              match parse_body fuel env (mk_pstate r3 0 0 None) with
              | PErr e => PErr e | PFuel => PFuel
              | POk (evs, _) => POk (EvStartDoc charset (l_id l) :: evs ++ [EvEndDoc])
              end
            end
          end
        end
      end
    end
  end.

Definition parse (tbl : list lang) (fuel : nat) (bs : bytes) : pres (list event) :=
  parse_with tbl 0 0 fuel bs.
