(* C19 — the specification side: a buffer is a plain byte string (list N) plus the "static" mark;
   every operation is the obvious list function.  Nothing here mentions cells, capacity or the
   terminator.  (Definitions only; the refinement proofs are in Proofs/BufferProofs.v.) *)
From Coq Require Import List NArith Bool Arith.
From Wbxml Require Import Model.Codec Model.BufferModel.
Import ListNotations.

Definition sst := (list N * bool)%type.          (* contents, is_static *)

(* --- plain sequence operations ---------------------------------------------------------- *)
Definition set_spec (s : list N) (pos : nat) (ch : N) : list N := firstn pos s ++ ch :: skipn (S pos) s.
Definition insert_spec (s : list N) (pos : nat) (data : list N) : list N := firstn pos s ++ data ++ skipn pos s.
Definition delete_spec (s : list N) (pos n : nat) : list N := firstn pos s ++ skipn (pos + n) s.

Fixpoint drop_blanks (s : list N) : list N :=
  match s with c :: r => if is_cspace c then drop_blanks r else s | [] => [] end.

(* every maximal run of C-locale blanks becomes one ' ' *)
Fixpoint collapse_aux (in_run : bool) (s : list N) : list N :=
  match s with
  | [] => []
  | c :: r => if is_cspace c then (if in_run then collapse_aux true r else 32%N :: collapse_aux true r)
              else c :: collapse_aux false r
  end.
Definition collapse_spec (s : list N) : list N := collapse_aux false s.

Definition trim_spec (s : list N) : list N := rev (drop_blanks (rev (drop_blanks s))).
Definition no_spaces_spec (s : list N) : list N := filter (fun c => negb (is_cspace c)) s.

Fixpoint drop_zeros (s : list N) : list N :=
  match s with c :: r => if (c =? 0)%N then drop_zeros r else s | [] => [] end.
Definition rtz_spec (s : list N) : list N := rev (drop_zeros (rev s)).

(* maximal runs of non-blanks, in order *)
Fixpoint words_aux (cur : list N) (s : list N) : list (list N) :=
  match s with
  | [] => match cur with [] => [] | _ => [rev cur] end
  | c :: r => if is_cspace c then match cur with [] => words_aux [] r | _ => rev cur :: words_aux [] r end
              else words_aux (c :: cur) r
  end.
Definition words_spec (s : list N) : list (list N) := words_aux [] s.

Fixpoint lex_compare (a b : list N) : comparison :=
  match a, b with
  | [], [] => Eq
  | [], _ => Lt
  | _, [] => Gt
  | x :: a', y :: b' => match (x ?= y)%N with Eq => lex_compare a' b' | c => c end
  end.

Fixpoint find_char (ch : N) (s : list N) (idx : N) : option N :=
  match s with [] => None | x :: r => if (x =? ch)%N then Some idx else find_char ch r (idx + 1)%N end.

(* first index >= pos holding ch *)
Definition search_char_spec (s : list N) (ch pos : N) : option N :=
  if (N.of_nat (length s) <=? pos)%N then None else find_char ch (skipn (N.to_nat pos) s) pos.

Fixpoint is_prefix (p s : list N) : bool :=
  match p, s with
  | [], _ => true
  | x :: p', y :: s' => (x =? y)%N && is_prefix p' s'
  | _ :: _, [] => false
  end.

Fixpoint find_sub (needle s : list N) (idx : N) : option N :=
  match s with
  | [] => None
  | _ :: r => if is_prefix needle s then Some idx else find_sub needle r (idx + 1)%N
  end.

(* first index >= pos at which needle occurs; the empty needle is "found" at 0 whatever pos is
   (the C says so: "Always find an empty string") *)
Definition search_spec (s needle : list N) (pos : N) : option N :=
  match needle with
  | [] => Some 0%N
  | _ => if (N.of_nat (length s) <=? pos)%N then None else find_sub needle (skipn (N.to_nat pos) s) pos
  end.

(* --- one step on the specification state -------------------------------------------------- *)

(* a mutating operation on the plain string; a static buffer refuses it with `refused` *)
Definition mut (st : sst) (refused : ret) (f : list N -> list N * ret) : sst * ret :=
  if snd st then (st, refused) else let (s', r) := f (fst st) in ((s', false), r).

Definition ins (s : list N) (pos : N) (data : list N) : list N * ret :=
  match data with
  | [] => (s, RBool false)                                     (* nothing to insert: FALSE, no effect *)
  | _ => if (N.of_nat (length s) <? pos)%N then (s, RBool false)
         else (insert_spec s (N.to_nat pos) data, RBool true)
  end.

Definition app_ (s : list N) (data : list N) : list N * ret := (s ++ data, RBool true).

(* the documented limit of create: sizes are 32 bits wide.  A non-empty string is refused when
   len + 1 or malloc_block + 1 does not fit in 32 bits, or when malloc_block < len and
   len + 1 + malloc_block does not *)
Definition create_refused (len block : N) : bool :=
  (0 <? len)%N && ((4294967295 <=? len) || (4294967295 <=? block) || ((block <? len) && (4294967296 <=? len + 1 + block)))%N.

Definition spec_step (st : sst) (o : op) : sst * ret :=
  let s := fst st in
  match o with
  | OCreate data block => if create_refused (N.of_nat (length data)) block then (st, RNull)   (* NULL: nothing replaced *)
                          else ((data, false), RVoid)
  | OStaCreate data => ((data, true), RVoid)
  | ODuplicate => ((s, false), RVoid)
  | OLen => (st, RLen (N.of_nat (length s)))
  | OGetChar pos => (st, RVal (if (N.of_nat (length s) <=? pos)%N then None else nth_error s (N.to_nat pos)))
  | OSetChar pos ch =>
      mut st (RBool false) (fun s => if (N.of_nat (length s) <=? pos)%N then (s, RBool false)
                                     else (set_spec s (N.to_nat pos) ch, RBool true))
  | OInsert src pos => mut st (RBool false) (fun s => ins s pos src)
  | OInsertCstr str pos => mut st (RBool false) (fun s => ins s pos (cstr str))
  | OAppend src => mut st (RBool false) (fun s => app_ s src)
  | OAppendData data => mut st (RBool false) (fun s => app_ s data)
  | OAppendCstr str => mut st (RBool false) (fun s => app_ s (cstr str))
  | OAppendChar ch => mut st (RBool false) (fun s => app_ s [ch])
  | OAppendMb v => mut st (RBool false) (fun s => app_ s (mb_write v))
  | ODelete pos n =>
      mut st (RBool false) (fun s => if (N.of_nat (length s) <=? pos)%N || (n =? 0)%N then (s, RBool false)
                                     else (delete_spec s (N.to_nat pos) (N.to_nat n), RBool true))
  | OShrink => mut st (RBool false) (fun s => (collapse_spec s, RBool true))
  | OStrip => mut st (RBool false) (fun s => (trim_spec s, RBool true))
  | ONoSpaces => mut st RVoid (fun s => (no_spaces_spec s, RVoid))
  | OCompare other => (st, RCmp (lex_compare s other))
  | OCompareCstr str => (st, RCmp (lex_compare s (cstr str)))
  | OSplitWords => (st, RWords (words_spec s))
  | OSearchChar ch pos => (st, RVal (search_char_spec s ch pos))
  | OSearch needle pos => (st, RVal (search_spec s needle pos))
  | OSearchCstr str pos => (st, RVal (search_spec s (cstr str) pos))
  | OOnlyWs => (st, RBool (forallb is_cspace s))
  | OHexToBin => mut st (RBool false) (fun s => (hex_to_bin s, RBool true))
  | OBinToHex up => mut st (RBool false) (fun s => (bin_to_hex up s, RBool true))
  | ODecodeB64 =>
      (* white space is removed first, also when the rest then does not decode *)
      mut st (RBool false) (fun s => match buffer_b64_dec s with
                                     | Some out => (out, RBool true)
                                     | None => (no_spaces_spec s, RBool false)
                                     end)
  | OEncodeB64 =>
      (* the encoder's output travels as a C string; it contains no NUL (C11), so cstr is the identity on it *)
      mut st (RBool false) (fun s => match b64_enc s with
                                     | Some out => (cstr out, RBool true)
                                     | None => (s, RBool false)
                                     end)
  | ORemoveTrailingZeros => mut st (RBool false) (fun s => (rtz_spec s, RBool true))
  end.

Fixpoint spec_run (st : sst) (ops : list op) : list (sst * ret) :=
  match ops with
  | [] => []
  | o :: r => let x := spec_step st o in x :: spec_run (fst x) r
  end.

(* the documented contract of a single operation in a given state: what the property quantifies over *)
Definition op_ok (st : sst) (o : op) : bool :=
  let n := N.of_nat (length (fst st)) in
  match o with
  | OCreate data block => (N.of_nat (length data) <? 4294967296)%N && (block <? 4294967296)%N   (* WB_ULONG arguments; any values *)
  (* a second buffer / a copy is made with wbxml_buffer_create: its size computation must not wrap *)
  | ODuplicate => (n + 1 <? 4294967296)%N
  | OSplitWords => (n + 22 <? 4294967296)%N
  | OStrip => (n + 1 <? 4294967296)%N                 (* positions are 32-bit: end-- / end + 1 must not wrap *)
  | OInsert src _ | OAppend src | OCompare src | OSearch src _ => (N.of_nat (length src) + 22 <? 4294967296)%N
  | ODelete pos k => snd st || (n <=? pos)%N || (k =? 0)%N || (pos + k <=? n)%N
  | _ => true
  end.

Fixpoint ops_ok (st : sst) (ops : list op) : bool :=
  match ops with
  | [] => true
  | o :: r => op_ok st o && ops_ok (fst (spec_step st o)) r
  end.

(* abstraction of a model state *)
Definition abs (b : buf) : sst := (contents b, bstatic b).
