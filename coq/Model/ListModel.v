(* C19 — executable model of src/wbxml_lists.c (create, append, insert, get, extract_first, len).

   The C list is a singly linked chain with three fields: head, tail, len.  The model keeps
     chain : the items met when following `next` from `head` (so `chain = []` is `head == NULL`),
     ltail : which element of the chain the `tail` pointer designates (its index), None = NULL,
     llen  : the field `len`.
   `tail->next = new` is modelled as what the store does to the chain seen from head: everything
   that followed the designated element is cut off and the new element follows it.  With that,
   "len = number of reachable items" and "tail designates the last one" are invariants that each
   operation has to re-establish, not definitions.
   Items are non-zero numbers (0 is the NULL item, which append/insert refuse).
   A walk `for (i = 0; i < pos; i++) elt = elt->next` that would run off the chain (NULL
   dereference in the C) raises `lfault`. *)
From Coq Require Import List NArith Bool Arith.
Import ListNotations.

Record wlist := mklist { chain : list N; ltail : option nat; llen : nat; lfault : bool }.

Definition lcreate : wlist := mklist [] None 0 false.

Definition llength (l : wlist) : N := N.of_nat (llen l).

(* tail->next = new; tail = tail->next *)
Definition link_after_tail (l : wlist) (item : N) : wlist :=
  match ltail l with
  | None => mklist (chain l) (ltail l) (llen l) true                     (* NULL->next *)
  | Some t =>
    if t <? length (chain l)
    then mklist (firstn (S t) (chain l) ++ [item]) (Some (S t)) (llen l) (lfault l)
    else mklist (chain l) (ltail l) (llen l) true
  end.

Definition bump_len (l : wlist) : wlist := mklist (chain l) (ltail l) (S (llen l)) (lfault l).

Definition lappend (l : wlist) (item : N) : wlist * bool :=
  if (item =? 0)%N then (l, false)
  else
    match chain l with
    | [] => (bump_len (mklist [item] (Some 0) (llen l) (lfault l)), true)      (* head == NULL *)
    | _ => (bump_len (link_after_tail l item), true)
    end.

Definition linsert (l : wlist) (item : N) (pos : N) : wlist * bool :=
  if (item =? 0)%N then (l, false)
  else if llen l =? 0 then (bump_len (mklist [item] (Some 0) (llen l) (lfault l)), true)
  else if (pos =? 0)%N then
    (* new->next = head; head = new: the tail pointer is not touched, its index moves by one *)
    (bump_len (mklist (item :: chain l) (option_map S (ltail l)) (llen l) (lfault l)), true)
  else if (N.of_nat (llen l) <=? pos)%N then (bump_len (link_after_tail l item), true)
  else
    let p := N.to_nat pos in
    if length (chain l) <? p then (mklist (chain l) (ltail l) (llen l) true, true)  (* walked off the chain *)
    else
      (bump_len (mklist (firstn p (chain l) ++ item :: skipn p (chain l))
                        (option_map (fun t => if p <=? t then S t else t) (ltail l)) (llen l) (lfault l)), true).

(* NULL (None) when index >= len *)
Definition lget (l : wlist) (index : N) : option N :=
  if (N.of_nat (llen l) <=? index)%N then None else nth_error (chain l) (N.to_nat index).

Definition lextract_first (l : wlist) : wlist * option N :=
  if llen l =? 0 then (l, None)
  else
    match chain l with
    | [] => (mklist (chain l) (ltail l) (llen l) true, None)                (* head->item with head == NULL *)
    | x :: r =>
      let t := match r with [] => None | _ => option_map pred (ltail l) end in
      (mklist r t (llen l - 1) (lfault l), Some x)
    end.

Inductive lop := LAppend (item : N) | LInsert (item pos : N) | LGet (index : N) | LExtractFirst | LLen.

Inductive lret := LRBool (r : bool) | LRItem (x : option N) | LRLen (n : N).

Definition lstep (l : wlist) (o : lop) : wlist * lret :=
  match o with
  | LAppend x => let (l', r) := lappend l x in (l', LRBool r)
  | LInsert x pos => let (l', r) := linsert l x pos in (l', LRBool r)
  | LGet i => (l, LRItem (lget l i))
  | LExtractFirst => let (l', r) := lextract_first l in (l', LRItem r)
  | LLen => (l, LRLen (llength l))
  end.

Fixpoint lrun (l : wlist) (ops : list lop) : list (wlist * lret) :=
  match ops with
  | [] => []
  | o :: r => let x := lstep l o in x :: lrun (fst x) r
  end.

(* ---------------------------------------------------------------------------------------- *)
(* specification side: a plain sequence                                                      *)

Definition lspec_step (s : list N) (o : lop) : list N * lret :=
  match o with
  | LAppend x => if (x =? 0)%N then (s, LRBool false) else (s ++ [x], LRBool true)
  | LInsert x pos =>
      if (x =? 0)%N then (s, LRBool false)
      else if (N.of_nat (length s) <=? pos)%N then (s ++ [x], LRBool true)   (* beyond the end: appended *)
      else (firstn (N.to_nat pos) s ++ x :: skipn (N.to_nat pos) s, LRBool true)
  | LGet i => (s, LRItem (if (N.of_nat (length s) <=? i)%N then None else nth_error s (N.to_nat i)))
  | LExtractFirst => match s with [] => (s, LRItem None) | x :: r => (r, LRItem (Some x)) end
  | LLen => (s, LRLen (N.of_nat (length s)))
  end.

Fixpoint lspec_run (s : list N) (ops : list lop) : list (list N * lret) :=
  match ops with
  | [] => []
  | o :: r => let x := lspec_step s o in x :: lspec_run (fst x) r
  end.
