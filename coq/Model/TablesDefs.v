(* Types of the regenerated token tables (Gen/TablesData.v) — mirrors wbxml_tables.h.
   A NULL table pointer is None; names are Coq strings (ASCII in the source). *)
From Coq Require Import List NArith String Ascii.
Import ListNotations.

Record tag_row := mk_tag { t_name : string; t_page : N; t_tok : N; t_opts : N }.
Record ns_row := mk_ns { ns_name : string; ns_page : N }.
Record attr_row := mk_attr { a_name : string; a_value : option string; a_page : N; a_tok : N }.
Record val_row := mk_val { v_name : string; v_page : N; v_tok : N }.
Record ext_row := mk_ext { e_name : string; e_tok : N }.

Record lang := mk_lang {
  l_id : N;                      (* WBXMLLanguage enum value *)
  l_pub_num : N;                 (* WBXML public id *)
  l_pub_text : option string;    (* XML public id *)
  l_root : option string;        (* XML root element *)
  l_dtd : option string;         (* XML DTD *)
  l_tags : option (list tag_row);
  l_ns : option (list ns_row);
  l_attrs : option (list attr_row);
  l_vals : option (list val_row);
  l_exts : option (list ext_row)
}.

Definition opt_list {A} (o : option (list A)) : list A := match o with Some l => l | None => [] end.

Definition bytes_of_string (s : string) : list N :=
  List.map (fun a => N_of_ascii a) (list_ascii_of_string s).
