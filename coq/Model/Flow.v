(* C17 — executable model of the encoder's flow mode (wbxml_encoder.c).
   Transcribed from: wbxml_encoder_set_flow_mode, wbxml_encoder_encode_node / _encode_node_with_elt_end (prev_len
   backup, header built once, pre_last_node_len recorded after a successful parse_node), wbxml_encoder_encode_raw_elt_start
   / _end, wbxml_encoder_delete_output_bytes, wbxml_encoder_delete_last_node, wbxml_encoder_get_output
   (wbxml_build_result / xml_build_result in flow mode: header ++ output).

   The model is PARAMETRIC (Section) in what the encoder does with one node: `enc_node`, `enc_start`, `enc_end` are
   arbitrary functions of the encoder's context (`ctx`: the tag and attribute code pages for WBXML output; indentation
   and in_content for XML output) and the node, returning the bytes appended and the new context.  That they are
   functions of (context, node) is the only assumption; the real encoder is tied by the harness.
   `step` is the code AS IT IS: delete_last_node truncates the output and leaves the context alone (D16).
   `step_fixed` is the repaired code: the context is saved next to pre_last_node_len and restored by delete_last_node.
   A small concrete encoder (token tags, SWITCH_PAGE, inline strings) instantiates the section at the end.
   Definitions only.  Not modelled: a failing encode (partial output, pre_last_node_len not updated). *)
From Coq Require Import List NArith Bool.
Import ListNotations.
Local Open Scope N_scope.

Definition bytes := list N.

Section Flow.
  Variables (ctx node : Type).
  Variable ctx0 : ctx.                                      (* wbxml_encoder_create: tagCodePage = attrCodePage = 0, indent = 0, ... *)
  Variable enc_node : ctx -> node -> bytes * ctx.           (* parse_node(encoder, node, TRUE) *)
  Variable enc_start : ctx -> node -> bool -> bytes * ctx.  (* parse_element(encoder, node, has_content) *)
  Variable enc_end : ctx -> node -> bool -> bytes * ctx.    (* parse_element_end(encoder, node, has_content) *)
  Variable header : bytes.                                  (* wbxml_fill_header / xml_fill_header: options and language only *)

  Inductive op := Node (n : node) | EltStart (n : node) (c : bool) | EltEnd (n : node) (c : bool) | DeleteLast | GetOutput.

  (* WBXMLEncoder_s, the fields flow mode uses; `saved` exists only in the repaired code *)
  Record fstate := mkF { out : bytes; hdr : option bytes; cx : ctx; pre_last : nat; saved : ctx }.

  Definition init : fstate := mkF [] None ctx0 0 ctx0.

  Definition build_header (s : fstate) : option bytes :=
    match hdr s with Some h => Some h | None => Some header end.

  (* the code as it is *)
  Definition step (s : fstate) (o : op) : fstate :=
    match o with
    | Node n =>
      let prev_len := length (out s) in
      let (b, c') := enc_node (cx s) n in
      mkF (out s ++ b) (build_header s) c' prev_len (saved s)
    | EltStart n c => let (b, c') := enc_start (cx s) n c in mkF (out s ++ b) (hdr s) c' (pre_last s) (saved s)
    | EltEnd n c => let (b, c') := enc_end (cx s) n c in mkF (out s ++ b) (hdr s) c' (pre_last s) (saved s)
    | DeleteLast =>
      (* wbxml_buffer_delete(output, pre_last_node_len, len - pre_last_node_len); nothing else *)
      mkF (firstn (pre_last s) (out s)) (hdr s) (cx s) (pre_last s) (saved s)
    | GetOutput => s
    end.

  (* the repaired code: both code pages (the context) saved when a node is encoded, restored on deletion *)
  Definition step_fixed (s : fstate) (o : op) : fstate :=
    match o with
    | Node n =>
      let prev_len := length (out s) in
      let (b, c') := enc_node (cx s) n in
      mkF (out s ++ b) (build_header s) c' prev_len (cx s)
    | DeleteLast => mkF (firstn (pre_last s) (out s)) (hdr s) (saved s) (pre_last s) (saved s)
    | _ => step s o
    end.

  Definition get_output (s : fstate) : bytes := match hdr s with Some h => h | None => [] end ++ out s.

  Definition run (ops : list op) : fstate := fold_left step ops init.
  Definition run_fixed (ops : list op) : fstate := fold_left step_fixed ops init.

  (* ---------------- specification ---------------- *)

  Inductive frag := FNode (n : node) | FStart (n : node) (c : bool) | FEnd (n : node) (c : bool).

  Definition enc_frag (c : ctx) (f : frag) : bytes * ctx :=
    match f with FNode n => enc_node c n | FStart n k => enc_start c n k | FEnd n k => enc_end c n k end.

  (* batch encoding of a sequence of fragments by a fresh encoder (no string table, nothing deleted) *)
  Fixpoint batch_from (c : ctx) (fs : list frag) : bytes * ctx :=
    match fs with
    | [] => ([], c)
    | f :: r => let (b, c1) := enc_frag c f in let (b2, c2) := batch_from c1 r in (b ++ b2, c2)
    end.

  (* what remains of a history: the fragments not deleted.  `mark` = number of fragments before the last Node
     (only encode_node records pre_last_node_len), `seen` = a node has been encoded (the header exists) *)
  Record sstate := mkS { frags : list frag; mark : nat; seen : bool }.
  Definition sinit : sstate := mkS [] 0 false.
  Definition sstep (s : sstate) (o : op) : sstate :=
    match o with
    | Node n => mkS (frags s ++ [FNode n]) (length (frags s)) true
    | EltStart n c => mkS (frags s ++ [FStart n c]) (mark s) (seen s)
    | EltEnd n c => mkS (frags s ++ [FEnd n c]) (mark s) (seen s)
    | DeleteLast => mkS (firstn (mark s) (frags s)) (mark s) (seen s)
    | GetOutput => s
    end.
  Definition srun (ops : list op) : sstate := fold_left sstep ops sinit.
  Definition live (ops : list op) : list frag := frags (srun ops).

  Definition spec_output (ops : list op) : bytes :=
    (if seen (srun ops) then header else []) ++ fst (batch_from ctx0 (live ops)).

  (* a history is `safe` for the unrepaired code when no deletion crosses a change of context *)
  Definition ctx_eqb_spec (eqb : ctx -> ctx -> bool) : Prop := forall a b, eqb a b = true <-> a = b.

  Fixpoint safe_from (eqb : ctx -> ctx -> bool) (s : sstate) (ops : list op) : bool :=
    match ops with
    | [] => true
    | o :: r =>
      (match o with
       | DeleteLast => eqb (snd (batch_from ctx0 (firstn (mark s) (frags s)))) (snd (batch_from ctx0 (frags s)))
       | _ => true
       end) && safe_from eqb (sstep s o) r
    end.
  Definition safe (eqb : ctx -> ctx -> bool) (ops : list op) : bool := safe_from eqb sinit ops.
End Flow.

Arguments Node {node} n.
Arguments EltStart {node} n c.
Arguments EltEnd {node} n c.
Arguments DeleteLast {node}.
Arguments GetOutput {node}.

(* ------------------------------------------------------------------ *)
(* a small concrete encoder: token tags with SWITCH_PAGE, inline strings *)

Inductive cnode := CElt (page tok : N) (children : list cnode) | CText (s : bytes).

Definition cctx := (N * N)%type.          (* tagCodePage, attrCodePage *)

(* wbxml_encode_tag_token: SWITCH_PAGE page when the page differs, then the token *)
Definition c_tag (tp : N) (page tok : N) (has_content : bool) : bytes * N :=
  ((if tp =? page then [] else [0; page]) ++ [tok + (if has_content then 64 else 0)], page).

(* parse_single_node: tag (with content iff children != NULL), children, END iff children != NULL;
   text: STR_I string 00 (wbxml_encode_inline_string) *)
Fixpoint c_enc (tp : N) (n : cnode) : bytes * N :=
  match n with
  | CText s => ([3] ++ s ++ [0], tp)
  | CElt page tok cs =>
    let hc := match cs with [] => false | _ => true end in
    let (b0, t0) := c_tag tp page tok hc in
    let (b1, t1) := (fix go (tp : N) (cs : list cnode) : bytes * N :=
                       match cs with
                       | [] => ([], tp)
                       | c :: r => let (x, t') := c_enc tp c in let (y, t'') := go t' r in (x ++ y, t'')
                       end) t0 cs in
    (b0 ++ b1 ++ (if hc then [1] else []), t1)
  end.

Definition c_enc_node (c : cctx) (n : cnode) : bytes * cctx := let (b, t) := c_enc (fst c) n in (b, (t, snd c)).
Definition c_enc_start (c : cctx) (n : cnode) (k : bool) : bytes * cctx :=
  match n with
  | CElt page tok _ => let (b, t) := c_tag (fst c) page tok k in (b, (t, snd c))
  | CText _ => ([], c)
  end.
Definition c_enc_end (c : cctx) (n : cnode) (k : bool) : bytes * cctx := (if k then [1] else [], c).

Definition cctx0 : cctx := (0, 0).
Definition cctx_eqb (a b : cctx) : bool := (fst a =? fst b) && (snd a =? snd b).

Definition c_run (header : bytes) := run cctx cnode cctx0 c_enc_node c_enc_start c_enc_end header.
Definition c_run_fixed (header : bytes) := run_fixed cctx cnode cctx0 c_enc_node c_enc_start c_enc_end header.
Definition c_step (header : bytes) := step cctx cnode c_enc_node c_enc_start c_enc_end header.
Definition c_step_fixed (header : bytes) := step_fixed cctx cnode c_enc_node c_enc_start c_enc_end header.
Definition c_init := init cctx cctx0.
Definition c_get_output := get_output cctx.
Definition c_spec_output (header : bytes) := spec_output cctx cnode cctx0 c_enc_node c_enc_start c_enc_end header.
Definition c_safe := safe cctx cnode cctx0 c_enc_node c_enc_start c_enc_end cctx_eqb.

(* the D16 witness in SyncML 1.2: Add (page 0, token 5), Type (MetInf: page 1, token 0x13), Format (page 1, token 7) *)
Definition d16_ops : list (op cnode) :=
  [Node (CElt 0 5 []); Node (CElt 1 19 [CText [122; 113]]); DeleteLast; Node (CElt 1 7 [CText [98; 54; 52]])].
