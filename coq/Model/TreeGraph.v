(* C18 — executable model of the WBXML tree API (wbxml_tree.c) as a pointer graph.
   Transcribed from:
     wbxml_tree.c   wbxml_tree_node_create, wbxml_tree_add_node (with the text merge),
                    wbxml_tree_extract_node, wbxml_tree_add_elt / _add_elt_with_attrs / _add_xml_elt /
                    _add_xml_elt_with_attrs / _add_xml_elt_with_attrs_and_text / _add_text / _add_cdata /
                    _add_tree, wbxml_tree_node_add_attr(s) / _add_xml_attr(s),
                    wbxml_tree_node_destroy_all (the iterative walk), wbxml_tree_destroy,
                    wbxml_tree_node_elt_get_from_name,
                    the shape of the encoder's walk (wbxml_encoder.c parse_node / parse_single_node)
     wbxml_tables.c wbxml_tables_get_code_page, wbxml_tables_get_tag_from_xml, wbxml_tables_get_attr_from_xml
   A node pointer is an id (N); NULL is None; the heap is a finite map id -> node (a function, None = not
   allocated / freed).  Dereferencing a pointer that is not allocated is `TStuck` (undefined behaviour in C),
   a loop that runs out of fuel is `TStuck` too; `TFail` is the C function returning FALSE / NULL / an error.
   Definitions only (no proofs here: the model must still run when a proof breaks).
   Not modelled: allocation failure; the content of a nested tree (a TREE node carries the language and the identity
   of the nested tree object it owns, so that its ownership can be followed). *)
From Coq Require Import List NArith Bool String.
From Wbxml Require Import Model.TablesDefs.
Import ListNotations.
Local Open Scope N_scope.

Definition id := N.
Definition bytes := list N.

(* ------------------------------------------------------------------ *)
(* tables (bytes-based view of TablesDefs.lang)                        *)

Record tagrow := mk_tagrow { tg_name : bytes; tg_page : N; tg_tok : N }.
Record nsrow := mk_nsrow { nsr_name : bytes; nsr_page : N }.
Record attrrow := mk_attrrow { at_name : bytes; at_val : option bytes; at_page : N; at_tok : N }.
Record tlang := mk_tlang { tl_id : N; tl_tags : option (list tagrow); tl_ns : option (list nsrow);
                           tl_attrs : option (list attrrow) }.

Definition tlang_of_lang (l : lang) : tlang :=
  mk_tlang (l_id l)
    (option_map (map (fun r => mk_tagrow (bytes_of_string (t_name r)) (t_page r) (t_tok r))) (l_tags l))
    (option_map (map (fun r => mk_nsrow (bytes_of_string (ns_name r)) (ns_page r))) (l_ns l))
    (option_map (map (fun r => mk_attrrow (bytes_of_string (a_name r)) (option_map bytes_of_string (a_value r))
                                          (a_page r) (a_tok r))) (l_attrs l)).

Fixpoint beq (a b : bytes) : bool :=
  match a, b with
  | [], [] => true
  | x :: a', y :: b' => (x =? y) && beq a' b'
  | _, _ => false
  end.

(* strncmp(a, b, length a) == 0, for NUL-free strings: a is a prefix of b *)
Fixpoint bprefix (a b : bytes) : bool :=
  match a, b with
  | [], _ => true
  | x :: a', y :: b' => (x =? y) && bprefix a' b'
  | _ :: _, [] => false
  end.

(* wbxml_tables_get_code_page: first namespace row with that name, 0 otherwise (also for a NULL table) *)
Fixpoint get_code_page_rows (rows : list nsrow) (xmlns : bytes) : N :=
  match rows with
  | [] => 0
  | r :: rest => if beq (nsr_name r) xmlns then nsr_page r else get_code_page_rows rest xmlns
  end.
Definition get_code_page (ns : option (list nsrow)) (xmlns : bytes) : N :=
  match ns with None => 0 | Some rows => get_code_page_rows rows xmlns end.

(* wbxml_tables_get_tag_from_xml, first loop: rows of the current page (stops at the first row of another
   page once a row of the current page has been seen) *)
Fixpoint tag_loop1 (rows : list tagrow) (cur : N) (found_current : bool) (name : bytes) : option tagrow :=
  match rows with
  | [] => None
  | r :: rest =>
    if tg_page r =? cur then (if beq (tg_name r) name then Some r else tag_loop1 rest cur true name)
    else if found_current then None else tag_loop1 rest cur false name
  end.
(* second loop: every row not of the current page *)
Fixpoint tag_loop2 (rows : list tagrow) (cur : option N) (name : bytes) : option tagrow :=
  match rows with
  | [] => None
  | r :: rest =>
    if (match cur with Some c => tg_page r =? c | None => false end) then tag_loop2 rest cur name
    else if beq (tg_name r) name then Some r else tag_loop2 rest cur name
  end.
(* cur = None stands for cur_code_page < 0 *)
Definition get_tag_from_xml (l : tlang) (cur : option N) (name : bytes) : option tagrow :=
  match tl_tags l with
  | None => None
  | Some rows =>
    match (match cur with Some c => tag_loop1 rows c false name | None => None end) with
    | Some r => Some r
    | None => tag_loop2 rows cur name
    end
  end.

(* wbxml_tables_get_attr_from_xml with a non-NULL value; loop state (found, found row, found_comp) *)
Fixpoint attr_loop (rows : list attrrow) (name value : bytes) (found : option attrrow) (found_comp : N)
  : option attrrow :=
  match rows with
  | [] => found
  | r :: rest =>
    if beq (at_name r) name then
      match at_val r with
      | None => attr_loop rest name value (match found with None => Some r | Some f => Some f end) found_comp
      | Some v =>
        if beq v value then Some r
        else if (N.of_nat (List.length v) <? N.of_nat (List.length value)) && (found_comp <? N.of_nat (List.length v)) && bprefix v value
             then attr_loop rest name value (Some r) (N.of_nat (List.length v))
             else attr_loop rest name value found found_comp
      end
    else attr_loop rest name value found found_comp
  end.
Definition get_attr_from_xml (l : tlang) (name value : bytes) : option attrrow :=
  match tl_attrs l with None => None | Some rows => attr_loop rows name value None 0 end.

(* ------------------------------------------------------------------ *)
(* nodes                                                               *)

Inductive tagname := TagTok (page tok : N) (name : bytes) | TagLit (name : bytes).
Inductive attrname := AttrTok (page tok : N) (name : bytes) (val : option bytes) | AttrLit (name : bytes).
Definition attr := (attrname * bytes)%type.

Inductive data :=
| DElt (t : tagname) (attrs : list attr)
| DText (content : bytes)
| DCdata
| DPi
| DTree (lang : N) (tree : option N).   (* node->tree: the nested WBXMLTree object the node owns (None = NULL) *)

Record node := mkN { n_data : data; n_parent : option id; n_children : option id;
                     n_next : option id; n_prev : option id }.

Definition set_data (n : node) d := mkN d (n_parent n) (n_children n) (n_next n) (n_prev n).
Definition set_parent (n : node) p := mkN (n_data n) p (n_children n) (n_next n) (n_prev n).
Definition set_children (n : node) c := mkN (n_data n) (n_parent n) c (n_next n) (n_prev n).
Definition set_next (n : node) x := mkN (n_data n) (n_parent n) (n_children n) x (n_prev n).
Definition set_prev (n : node) x := mkN (n_data n) (n_parent n) (n_children n) (n_next n) x.

Definition heap := id -> option node.
Definition upd (h : heap) (i : id) (v : option node) : heap := fun j => if j =? i then v else h j.
Definition empty_heap : heap := fun _ => None.

Inductive tres (A : Type) := TOk (a : A) | TFail | TStuck.
Arguments TOk {A} a.
Arguments TFail {A}.
Arguments TStuck {A}.

Definition bind {A B} (r : tres A) (f : A -> tres B) : tres B :=
  match r with TOk a => f a | TFail => TFail | TStuck => TStuck end.
Notation "'do' x <- e ; f" := (bind e (fun x => f)) (at level 200, x pattern, e at level 100, f at level 200).

Definition get (h : heap) (i : id) : tres node := match h i with Some n => TOk n | None => TStuck end.

Definition oeqb (a b : option id) : bool :=
  match a, b with Some x, Some y => x =? y | None, None => true | _, _ => false end.

(* WBXMLTree: lang, root, cur_code_page; `fresh` is the allocator (ids are never reused) *)
Record tstate := mkT { heap_of : heap; root : option id; cur_page : N; fresh : id }.
Definition with_heap (t : tstate) h := mkT h (root t) (cur_page t) (fresh t).

(* wbxml_tree_node_create: every link NULL *)
Definition alloc (t : tstate) (d : data) : tstate * id :=
  (mkT (upd (heap_of t) (fresh t) (Some (mkN d None None None None))) (root t) (cur_page t) (fresh t + 1), fresh t).

(* while (tmp->next != NULL) tmp = tmp->next; *)
Fixpoint last_sibling (fuel : nat) (h : heap) (tmp : id) : tres id :=
  match fuel with
  | O => TStuck
  | S f => do tn <- get h tmp;
           match n_next tn with None => TOk tmp | Some nx => last_sibling f h nx end
  end.

(* wbxml_tree_add_node(tree, parent, node) *)
Definition add_node (fuel : nat) (t : tstate) (parent : option id) (n : id) : tres tstate :=
  do nn <- get (heap_of t) n;
  let h1 := upd (heap_of t) n (Some (set_parent nn parent)) in          (* node->parent = parent *)
  match parent with
  | Some p =>
    do pn <- get h1 p;
    match n_children pn with
    | Some c =>
      do tmp <- last_sibling fuel h1 c;
      do tn <- get h1 tmp;
      do nn1 <- get h1 n;
      match n_data nn1, n_data tn with
      | DText c2, DText c1 =>
        (* wbxml_buffer_append(tmp->content, node->content): tmp's buffer now holds c1 ++ c2 *)
        do h2 <- match n_prev tn with
                 | None => TOk (upd h1 p (Some (set_children pn (Some n))))       (* parent->children = node *)
                 | Some pr =>
                   do prn <- get h1 pr;
                   let h' := upd h1 pr (Some (set_next prn (Some n))) in          (* tmp->prev->next = node *)
                   do nn' <- get h' n;
                   TOk (upd h' n (Some (set_prev nn' (Some pr))))                 (* node->prev = tmp->prev *)
                 end;
        do nn2 <- get h2 n;
        (* node->content = tmp->content; tmp->content = NULL; wbxml_tree_node_destroy(tmp) *)
        let h3 := upd h2 n (Some (set_data nn2 (DText (c1 ++ c2)))) in
        TOk (with_heap t (upd h3 tmp None))
      | _, _ =>
        let h2 := upd h1 n (Some (set_prev nn1 (Some tmp))) in                     (* node->prev = tmp *)
        do tn2 <- get h2 tmp;
        TOk (with_heap t (upd h2 tmp (Some (set_next tn2 (Some n)))))              (* tmp->next = node *)
      end
    | None => TOk (with_heap t (upd h1 p (Some (set_children pn (Some n)))))      (* parent->children = node *)
    end
  | None =>
    match root t with
    | Some _ => TFail                                                            (* no replacement of the root *)
    | None => TOk (mkT h1 (Some n) (cur_page t) (fresh t))
    end
  end.

(* wbxml_tree_extract_node(tree, node) *)
Definition extract_node (t : tstate) (n : id) : tres tstate :=
  let h := heap_of t in
  do nn <- get h n;
  do hr <- match n_parent nn with
           | Some p =>
             do pn <- get h p;
             let h' := if oeqb (n_children pn) (Some n) then upd h p (Some (set_children pn (n_next nn))) else h in
             do nn' <- get h' n;
             TOk (upd h' n (Some (set_parent nn' None)), root t)
           | None => TOk (h, n_next nn)                                          (* "Root removed !" *)
           end;
  let (h1, root1) := hr in
  do nn1 <- get h1 n;
  do h2 <- match n_next nn1 with
           | Some nx => do nxn <- get h1 nx; TOk (upd h1 nx (Some (set_prev nxn (n_prev nn1))))
           | None => TOk h1
           end;
  do nn2 <- get h2 n;
  do h3 <- match n_prev nn2 with
           | Some pv => do pvn <- get h2 pv; TOk (upd h2 pv (Some (set_next pvn (n_next nn2))))
           | None => TOk h2
           end;
  do nn3 <- get h3 n;
  TOk (mkT (upd h3 n (Some (set_prev (set_next nn3 None) None))) root1 (cur_page t) (fresh t)).

(* wbxml_tree_node_destroy: releases one node; for a TREE node it also destroys node->tree (see node_tree) *)
Definition free_node (h : heap) (i : id) : heap := upd h i None.
Definition node_tree (h : heap) (i : id) : option N :=
  match h i with Some n => match n_data n with DTree _ (Some tr) => Some tr | _ => None end | None => None end.

(* the common tail of the wbxml_tree_add_* functions:
     if (!wbxml_tree_add_node(tree, parent, node)) { wbxml_tree_node_destroy(node); return NULL; } return node;
   result: the new tree state and Some node, or None for a NULL result *)
Definition add_new (fuel : nat) (t : tstate) (parent : option id) (d : data) : tres (tstate * option id) :=
  let (t1, n) := alloc t d in
  match add_node fuel t1 parent n with
  | TOk t2 => TOk (t2, Some n)
  | TFail => TOk (with_heap t1 (free_node (heap_of t1) n), None)
  | TStuck => TStuck
  end.

(* wbxml_tree_add_elt(tree, parent, tag) / wbxml_tree_add_elt_with_attrs (the attributes are duplicated
   into the new node after it has been linked) *)
Definition add_elt fuel t parent (tag : tagname) := add_new fuel t parent (DElt tag []).

Definition node_add_attrs (h : heap) (n : id) (ats : list attr) : tres heap :=
  do nn <- get h n;
  match n_data nn with
  | DElt tg old => TOk (upd h n (Some (set_data nn (DElt tg (old ++ ats)))))
  | _ => TOk h       (* the C would hang a list on a non-element; never done by the callers modelled here *)
  end.

Definition add_elt_with_attrs fuel t parent tag (ats : list attr) : tres (tstate * option id) :=
  do r <- add_elt fuel t parent tag;
  match r with
  | (t1, Some n) => do h <- node_add_attrs (heap_of t1) n ats; TOk (with_heap t1 h, Some n)
  | (t1, None) => TOk (t1, None)
  end.

(* strrchr(name, '|'): (namespace, element name); no separator: namespace = "" *)
Fixpoint split_last_sep (name : bytes) : option (bytes * bytes) :=
  match name with
  | [] => None
  | c :: rest =>
    match split_last_sep rest with
    | Some (ns, el) => Some (c :: ns, el)
    | None => if c =? 124 then Some ([], rest) else None
    end
  end.

(* wbxml_tree_add_xml_elt: namespace -> code page, name -> token or literal, then add_node *)
Definition resolve_xml_elt (l : tlang) (name : bytes) : N * tagname :=
  let (ns, el) := match split_last_sep name with Some p => p | None => ([], name) end in
  let cp := get_code_page (tl_ns l) ns in
  match get_tag_from_xml l (Some cp) el with
  | Some r => (tg_page r, TagTok (tg_page r) (tg_tok r) (tg_name r))
  | None => (cp, TagLit el)
  end.

Definition add_xml_elt fuel (l : tlang) t parent (name : bytes) : tres (tstate * option id) :=
  let (cp, tag) := resolve_xml_elt l name in
  let t0 := mkT (heap_of t) (root t) cp (fresh t) in
  add_new fuel t0 parent (DElt tag []).

(* wbxml_tree_node_add_xml_attr *)
Definition resolve_xml_attr (l : tlang) (name value : bytes) : attr :=
  match get_attr_from_xml l name value with
  | Some r => (AttrTok (at_page r) (at_tok r) (at_name r) (at_val r), value)
  | None => (AttrLit name, value)
  end.

Definition node_add_xml_attrs (l : tlang) (h : heap) (n : id) (kvs : list (bytes * bytes)) : tres heap :=
  node_add_attrs h n (map (fun kv => resolve_xml_attr l (fst kv) (snd kv)) kvs).

Definition add_xml_elt_with_attrs fuel l t parent name (kvs : list (bytes * bytes)) : tres (tstate * option id) :=
  do r <- add_xml_elt fuel l t parent name;
  match r with
  | (t1, Some n) =>
    match kvs with
    | [] => TOk (t1, Some n)
    | _ => do h <- node_add_xml_attrs l (heap_of t1) n kvs; TOk (with_heap t1 h, Some n)
    end
  | (t1, None) => TOk (t1, None)
  end.

Definition add_text fuel t parent (text : bytes) := add_new fuel t parent (DText text).
Definition add_cdata fuel t parent := add_new fuel t parent DCdata.

(* wbxml_tree_add_tree: the node (node->tree still NULL) is linked first, then node->tree = new_tree.
   On the failure path (add_node refuses: NULL tree, or NULL parent on a rooted tree) the node is destroyed while its
   tree pointer is NULL: the offered tree stays with the caller. *)
Definition add_tree fuel t parent (lang : N) (new_tree : N) : tres (tstate * option id) :=
  do r <- add_new fuel t parent (DTree 0 None);
  match r with
  | (t1, Some n) => do nn <- get (heap_of t1) n;
                    TOk (with_heap t1 (upd (heap_of t1) n (Some (set_data nn (DTree lang (Some new_tree))))), Some n)
  | (t1, None) => TOk (t1, None)
  end.

(* wbxml_tree_add_xml_elt_with_attrs_and_text *)
Definition add_xml_elt_with_attrs_and_text fuel l t parent name kvs (text : bytes) : tres (tstate * option id) :=
  do r <- add_xml_elt_with_attrs fuel l t parent name kvs;
  match r with
  | (t1, Some n) =>
    match text with
    | [] => TOk (t1, Some n)
    | _ => do r2 <- add_text fuel t1 (Some n) text;
           match r2 with (t2, Some _) => TOk (t2, Some n) | (t2, None) => TOk (t2, None) end
    end
  | (t1, None) => TOk (t1, None)
  end.

(* ------------------------------------------------------------------ *)
(* wbxml_tree_node_destroy_all: the iterative walk                     *)

(* one iteration of `while (!end_of_walk)`; state = (heap, current_node, previous_node, released so far);
   inl = continue, inr = the loop has ended *)
Definition walk_step (parent_node : option id) (s : heap * option id * option id * list id)
  : tres ((heap * option id * option id * list id) + (heap * list id)) :=
  match s with
  | (h, cur, prev, rel) =>
    match cur with
    | None =>
      match prev with
      | None => TOk (inr (h, rel))
      | Some pv =>
        do pvn <- get h pv;
        if oeqb (n_parent pvn) parent_node then TOk (inr (h, rel))
        else TOk (inl (free_node h pv, n_next pvn, n_parent pvn, pv :: rel))
      end
    | Some c => do cn <- get h c; TOk (inl (h, n_children cn, Some c, rel))
    end
  end.

Fixpoint walk_loop (fuel : nat) (parent_node : option id) (s : heap * option id * option id * list id)
  : tres (heap * list id) :=
  match fuel with
  | O => TStuck
  | S f => do r <- walk_step parent_node s;
           match r with inl s' => walk_loop f parent_node s' | inr e => TOk e end
  end.

(* returns the heap and the ids released, most recent first *)
Definition destroy_all (fuel : nat) (h : heap) (n : id) : tres (heap * list id) :=
  do nn <- get h n;
  do r <- walk_loop fuel (n_parent nn) (h, Some n, None, []);
  let (h1, rel) := r in
  do _x <- get h1 n;                                  (* wbxml_tree_node_destroy(node): node must still be live *)
  TOk (free_node h1 n, n :: rel).

(* wbxml_tree_destroy *)
Definition tree_destroy (fuel : nat) (t : tstate) : tres (heap * list id) :=
  match root t with None => TOk (heap_of t, []) | Some r => destroy_all fuel (heap_of t) r end.

(* ------------------------------------------------------------------ *)
(* wbxml_tree_node_elt_get_from_name (recursion on children, loop on next) *)

Definition node_xml_name (d : data) : option bytes :=
  match d with DElt (TagTok _ _ nm) _ => Some nm | DElt (TagLit nm) _ => Some nm | _ => None end.

Fixpoint elt_get_from_name (fuel : nat) (h : heap) (cur : option id) (name : bytes) (recurs : bool) : tres (option id) :=
  match fuel with
  | O => TStuck
  | S f =>
    match cur with
    | None => TOk None
    | Some c =>
      do cn <- get h c;
      match node_xml_name (n_data cn) with
      | Some nm =>
        if beq nm name then TOk (Some c)
        else
          do r <- (if recurs then match n_children cn with
                                  | Some ch => elt_get_from_name f h (Some ch) name true
                                  | None => TOk None end
                   else TOk None);
          match r with Some x => TOk (Some x) | None => elt_get_from_name f h (n_next cn) name recurs end
      | None => elt_get_from_name f h (n_next cn) name recurs
      end
    end
  end.

(* ------------------------------------------------------------------ *)
(* abstraction: the rose forest a pointer graph denotes                 *)

Inductive rt := R (i : id) (d : data) (cs : list rt).

Definition rid (t : rt) : id := match t with R i _ _ => i end.
Definition rdata (t : rt) : data := match t with R _ d _ => d end.
Definition rkids (t : rt) : list rt := match t with R _ _ cs => cs end.
Definition head_id (ts : list rt) : option id := match ts with [] => None | t :: _ => Some (rid t) end.

(* follows children / next exactly like the encoder's walk *)
Fixpoint abs_list (fuel : nat) (h : heap) (cur : option id) : list rt :=
  match fuel with
  | O => []
  | S f =>
    match cur with
    | None => []
    | Some c =>
      match h c with
      | None => []
      | Some cn => R c (n_data cn) (abs_list f h (n_children cn)) :: abs_list f h (n_next cn)
      end
    end
  end.

Definition abs (fuel : nat) (t : tstate) : list rt := abs_list fuel (heap_of t) (root t).

(* shapes: the same without identities *)
Inductive shape := Sh (d : data) (cs : list shape).
Fixpoint erase (t : rt) : shape := match t with R _ d cs => Sh d (map erase cs) end.

Fixpoint ids (t : rt) : list id := match t with R i _ cs => i :: flat_map ids cs end.
Definition ids_l (ts : list rt) : list id := flat_map ids ts.
Fixpoint size (t : rt) : nat := match t with R _ _ cs => S (list_sum (map size cs)) end.
Definition size_l (ts : list rt) : nat := list_sum (map size ts).

(* the events the encoder's walk (parse_node / parse_single_node) produces: what is opened, with
   `node->children != NULL`, and what is closed *)
Inductive ev := EvOpen (d : data) (has_content : bool) | EvClose (d : data) (has_content : bool).

Fixpoint enc_walk (fuel : nat) (h : heap) (cur : option id) : tres (list ev) :=
  match fuel with
  | O => TStuck
  | S f =>
    match cur with
    | None => TOk []
    | Some c =>
      do cn <- get h c;
      let hc := match n_children cn with Some _ => true | None => false end in
      do inner <- enc_walk f h (n_children cn);
      do rest <- enc_walk f h (n_next cn);
      TOk (EvOpen (n_data cn) hc :: inner ++ EvClose (n_data cn) hc :: rest)
    end
  end.

Fixpoint events (s : shape) : list ev :=
  match s with
  | Sh d cs => let hc := match cs with [] => false | _ => true end in
               EvOpen d hc :: flat_map events cs ++ [EvClose d hc]
  end.

(* ------------------------------------------------------------------ *)
(* specification side                                                   *)

Definition is_text (d : data) : bool := match d with DText _ => true | _ => false end.

(* appending a sub-tree to a list of siblings, merging text into text: the NEW node survives, with the
   old content in front *)
Fixpoint snoc_merge (cs : list rt) (n : rt) : list rt :=
  match cs with
  | [] => [n]
  | [R m (DText c1) mk] =>
    match n with
    | R i (DText c2) ncs => [R i (DText (c1 ++ c2)) ncs]
    | _ => [R m (DText c1) mk; n]
    end
  | c :: rest => c :: snoc_merge rest n
  end.

(* append_merge ts p n: n appended (with merge) to the children of the node with identity p *)
Fixpoint append_merge_t (t : rt) (p : id) (n : rt) : rt :=
  match t with
  | R i d cs => if i =? p then R i d (snoc_merge cs n)
                else R i d (map (fun c => append_merge_t c p n) cs)
  end.
Definition append_merge (ts : list rt) (p : id) (n : rt) : list rt := map (fun t => append_merge_t t p n) ts.

(* removing the sub-tree with identity x *)
Fixpoint remove_t (x : id) (t : rt) : rt :=
  match t with
  | R i d cs => R i d (filter (fun c => negb (rid c =? x)) (map (remove_t x) cs))
  end.
Definition remove_l (x : id) (ts : list rt) : list rt := filter (fun c => negb (rid c =? x)) (map (remove_t x) ts).

Fixpoint find_t (x : id) (t : rt) : option rt :=
  match t with
  | R i d cs => if i =? x then Some t
                else (fix go (l : list rt) : option rt :=
                        match l with [] => None | c :: r => match find_t x c with Some y => Some y | None => go r end end) cs
  end.
Fixpoint find_l (x : id) (ts : list rt) : option rt :=
  match ts with [] => None | c :: r => match find_t x c with Some y => Some y | None => find_l x r end end.

Fixpoint adjacent_text (cs : list rt) : bool :=
  match cs with
  | a :: ((b :: _) as rest) => (is_text (rdata a) && is_text (rdata b)) || adjacent_text rest
  | _ => false
  end.
Fixpoint no_adjacent_text_t (t : rt) : bool :=
  match t with R _ _ cs => negb (adjacent_text cs) && forallb no_adjacent_text_t cs end.
Definition no_adjacent_text (ts : list rt) : bool := forallb no_adjacent_text_t ts.

(* post-order of identities: the order in which destroy_all releases *)
Fixpoint postorder (t : rt) : list id := match t with R i _ cs => flat_map postorder cs ++ [i] end.

(* the pointer graph h represents the sibling list ts whose members have parent `par`, whose first member has
   prev `prev` and whose last member has next `nxt` *)
Fixpoint rep_t (h : heap) (par prev nxt : option id) (t : rt) : Prop :=
  match t with
  | R i d cs =>
    h i = Some (mkN d par (head_id cs) nxt prev) /\
    (fix rep_cs (prev : option id) (cs : list rt) : Prop :=
       match cs with
       | [] => True
       | c :: rest => rep_t h (Some i) prev (head_id rest) c /\ rep_cs (Some (rid c)) rest
       end) None cs
  end.
Fixpoint rep_l (h : heap) (par prev nxt : option id) (ts : list rt) : Prop :=
  match ts with
  | [] => True
  | c :: rest => rep_t h par prev (match rest with [] => nxt | r :: _ => Some (rid r) end) c /\
                 rep_l h par (Some (rid c)) nxt rest
  end.

(* every tree of the forest F (the tree's root first if there is one, then the detached sub-trees the caller
   holds) is represented with NULL parent / prev / next; identities are distinct; nothing else is allocated;
   text nodes are leaves *)
Fixpoint leaf_text (t : rt) : bool :=
  match t with R _ d cs => (negb (is_text d) || match cs with [] => true | _ => false end) && forallb leaf_text cs end.

Definition Links (h : heap) (F : list rt) : Prop :=
  Forall (rep_t h None None None) F /\ NoDup (ids_l F) /\ (forall i, h i <> None -> In i (ids_l F)) /\
  forallb leaf_text F = true.

(* the caller: the tree plus the detached sub-trees it still holds (extraction order) *)
Record cstate := mkC { ts : tstate; det : list id }.

Definition roots_of (c : cstate) : list id := match root (ts c) with Some r => [r] | None => [] end ++ det c.

Definition CLinks (c : cstate) : Prop :=
  exists F, Links (heap_of (ts c)) F /\ map rid F = roots_of c /\ (forall i, In i (ids_l F) -> i < fresh (ts c)).

(* ------------------------------------------------------------------ *)
(* operation sequences, as a caller that respects the API's contract issues them:
   node arguments are live nodes, a parent is not a text node, only a detached sub-tree is re-inserted or
   destroyed and never below itself, only a node that is not a detached root is extracted.
   An operation that does not meet this contract is not issued (state unchanged, `false`). *)

Inductive op :=
| OpAddElt (p : option id) (tag : tagname) (ats : list attr)
| OpAddXmlElt (p : option id) (name : bytes) (kvs : list (bytes * bytes)) (text : bytes)
| OpAddText (p : option id) (text : bytes)
| OpAddCdata (p : option id)
| OpAddTree (p : option id) (lang : N) (new_tree : N)
| OpAddNull (d : data)        (* wbxml_tree_add_elt / _add_text / _add_cdata / _add_tree called with tree == NULL *)
| OpAddAttr (n : id) (k v : bytes)
| OpExtract (n : id)
| OpReAdd (p : option id) (n : id)
| OpDestroy (n : id).

Definition fuel_of (t : tstate) : nat := S (N.to_nat (fresh t)).

Definition parent_ok (h : heap) (p : option id) : bool :=
  match p with
  | None => true
  | Some q => match h q with Some pn => negb (is_text (n_data pn)) | None => false end
  end.

Definition mem (x : id) (l : list id) : bool := existsb (N.eqb x) l.

Definition remove_id (x : id) (l : list id) : list id := filter (fun y => negb (y =? x)) l.

Definition lift_add (c : cstate) (r : tres (tstate * option id)) : tres (cstate * bool) :=
  do x <- r;
  match x with
  | (t1, Some _) => TOk (mkC t1 (det c), true)
  | (t1, None) => TOk (mkC t1 (det c), false)
  end.

Definition exec (l : tlang) (c : cstate) (o : op) : tres (cstate * bool) :=
  let t := ts c in
  let h := heap_of t in
  let fuel := S (fuel_of t) in
  match o with
  | OpAddElt p tag ats =>
    if parent_ok h p then lift_add c (add_elt_with_attrs fuel t p tag ats) else TOk (c, false)
  | OpAddXmlElt p name kvs text =>
    if parent_ok h p then lift_add c (add_xml_elt_with_attrs_and_text fuel l t p name kvs text) else TOk (c, false)
  | OpAddText p text =>
    if parent_ok h p then lift_add c (add_text fuel t p text) else TOk (c, false)
  | OpAddCdata p =>
    if parent_ok h p then lift_add c (add_cdata fuel t p) else TOk (c, false)
  | OpAddTree p lang new_tree =>
    if parent_ok h p then lift_add c (add_tree fuel t p lang new_tree) else TOk (c, false)
  | OpAddNull d =>
    (* the node is created, wbxml_tree_add_node refuses it (tree == NULL), the node is destroyed, NULL is returned *)
    let (t1, n) := alloc t d in TOk (mkC (with_heap t1 (free_node (heap_of t1) n)) (det c), false)
  | OpAddAttr n k v =>
    match h n with
    | Some nn => match n_data nn with
                 | DElt _ _ => do h1 <- node_add_xml_attrs l h n [(k, v)]; TOk (mkC (with_heap t h1) (det c), true)
                 | _ => TOk (c, false)
                 end
    | None => TOk (c, false)
    end
  | OpExtract n =>
    match h n with
    | Some _ => if mem n (det c) then TOk (c, false)
                else do t1 <- extract_node t n; TOk (mkC t1 (det c ++ [n]), true)
    | None => TOk (c, false)
    end
  | OpReAdd p n =>
    if mem n (det c) && parent_ok h p &&
       negb (match p with Some q => mem q (ids_l (abs_list fuel h (Some n))) | None => false end)
    then match add_node fuel t p n with
         | TOk t1 => TOk (mkC t1 (remove_id n (det c)), true)
         | TFail => TOk (c, false)
         | TStuck => TStuck
         end
    else TOk (c, false)
  | OpDestroy n =>
    if mem n (det c) then
      do r <- destroy_all (2 * fuel + 2)%nat h n;
      TOk (mkC (with_heap t (fst r)) (remove_id n (det c)), true)
    else TOk (c, false)
  end.

Definition init_state : cstate := mkC (mkT empty_heap None 0 0) [].

Fixpoint run (l : tlang) (c : cstate) (ops : list op) : tres cstate :=
  match ops with
  | [] => TOk c
  | o :: rest => do r <- exec l c o; run l (fst r) rest
  end.

(* end of a sequence: the caller destroys every detached sub-tree, then the tree; returns the ids released *)
Fixpoint destroy_detached (fuel : nat) (h : heap) (ds : list id) : tres (heap * list id) :=
  match ds with
  | [] => TOk (h, [])
  | d :: rest => do r <- destroy_all fuel h d;
                 do r2 <- destroy_detached fuel (fst r) rest;
                 TOk (fst r2, snd r ++ snd r2)
  end.

Definition finish (c : cstate) : tres (heap * list id) :=
  let fuel := (2 * fuel_of (ts c) + 2)%nat in
  do r <- destroy_detached fuel (heap_of (ts c)) (det c);
  do r2 <- tree_destroy fuel (mkT (fst r) (root (ts c)) 0 (fresh (ts c)));
  TOk (fst r2, snd r ++ snd r2).

(* ------------------------------------------------------------------ *)
(* the XML front end as a client of the tree API (wbxml_tree_clb_xml.c, the plain paths: no SyncML CDATA insertion, no
   binary-flagged element, no embedded document).  `current` is the callback context's current node:
     start_element : current = wbxml_tree_add_xml_elt_with_attrs(tree, current, name, attrs)
     characters    : wbxml_tree_add_text(tree, current, chunk)         (Expat may deliver one text in several chunks)
     end_element   : current = current->parent   (left alone when it is the root)                                   *)

Inductive xnode := XElt (name : bytes) (kvs : list (bytes * bytes)) (kids : list xnode) | XText (chunks : list bytes).

Fixpoint fe_texts (fuel : nat) (t : tstate) (cur : option id) (chunks : list bytes) : tres tstate :=
  match chunks with
  | [] => TOk t
  | ch :: r => do x <- add_text fuel t cur ch;
               match x with (t1, Some _) => fe_texts fuel t1 cur r | (_, None) => TFail end
  end.

Fixpoint fe_node (fuel : nat) (l : tlang) (t : tstate) (cur : option id) (x : xnode) : tres (tstate * option id) :=
  match x with
  | XText chunks => do t1 <- fe_texts fuel t cur chunks; TOk (t1, cur)
  | XElt name kvs kids =>
    do r <- add_xml_elt_with_attrs fuel l t cur name kvs;
    match r with
    | (t1, Some n) =>
      do r2 <- (fix kids_loop (t : tstate) (cur : option id) (ks : list xnode) : tres (tstate * option id) :=
                  match ks with
                  | [] => TOk (t, cur)
                  | k :: rest => do r <- fe_node fuel l t cur k; kids_loop (fst r) (snd r) rest
                  end) t1 (Some n) kids;
      (* end_element *)
      match snd r2 with
      | Some c => do cn <- get (heap_of (fst r2)) c;
                  TOk (fst r2, match n_parent cn with Some p => Some p | None => Some c end)
      | None => TFail
      end
    | (_, None) => TFail
    end
  end.

(* what the document denotes: text chunks joined, names and attributes resolved by the same functions *)
Fixpoint xdenote (l : tlang) (x : xnode) : list shape :=
  match x with
  | XText chunks => match chunks with [] => [] | _ => [Sh (DText (List.concat chunks)) []] end
  | XElt name kvs kids =>
    [Sh (DElt (snd (resolve_xml_elt l name)) (map (fun kv => resolve_xml_attr l (fst kv) (snd kv)) kvs))
        (flat_map (xdenote l) kids)]
  end.

(* documents as Expat reports them: no empty text, no two text items in a row (they would be one text) *)
Definition is_xtext (x : xnode) : bool := match x with XText _ => true | _ => false end.
Fixpoint no_adjacent_xtext (ks : list xnode) : bool :=
  match ks with
  | a :: ((b :: _) as rest) => negb (is_xtext a && is_xtext b) && no_adjacent_xtext rest
  | _ => true
  end.
Fixpoint xnf (x : xnode) : bool :=
  match x with
  | XText chunks => match chunks with [] => false | _ => forallb (fun c => match c with [] => false | _ => true end) chunks end
  | XElt _ _ kids => no_adjacent_xtext kids && forallb xnf kids
  end.
Fixpoint xsize (x : xnode) : nat :=
  match x with XText chunks => List.length chunks | XElt _ _ kids => S (list_sum (map xsize kids)) end.

(* the whole document: the root element on the empty tree *)
Definition fe_doc (fuel : nat) (l : tlang) (x : xnode) : tres (tstate * option id) :=
  fe_node fuel l (ts init_state) None x.
