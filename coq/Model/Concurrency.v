(* C14 — threads over a shared store.
   (a) A small generic machine: thread i executes a list of operations; one operation is one call of
       `step`, which sees the shared store G and the thread's own state L and returns the next store, the
       next own state, an output, and the shared locations it read and wrote.  A schedule is a list of
       (thread, operation); `interleaving progs sched` says that sched is a merge of the per-thread
       programs.  Nothing is assumed about the number of threads or the schedule.
   (b) The inventory of the library's static storage (types and predicates; the data is generated into
       Gen/Globals.v by vlib/gen_globals.py on every run).
   Definitions only. *)
From Coq Require Import String.
From Coq Require Import List Arith Bool NArith.
Import ListNotations.

Section Machine.
  Variables G L Op Out Loc : Type.

  Record effect := mkEff {
    e_g : G;                 (* shared store after the step                    *)
    e_l : L;                 (* the thread's own state after the step          *)
    e_out : Out;             (* what the call returns (bytes and status)       *)
    e_reads : list Loc;      (* shared locations read                          *)
    e_writes : list Loc      (* shared locations written                       *)
  }.

  Variable step : G -> L -> Op -> effect.

  (* the premise that part (b) supports: a step neither changes nor writes the shared store *)
  Definition readonly : Prop :=
    forall g l op, e_g (step g l op) = g /\ e_writes (step g l op) = [].

  Definition upd {A : Type} (f : nat -> A) (i : nat) (a : A) : nat -> A :=
    fun j => if Nat.eqb j i then a else f j.

  (* sched is a merge of the programs: the next scheduled operation is the head of its thread's program *)
  Inductive interleaving : (nat -> list Op) -> list (nat * Op) -> Prop :=
  | il_nil : forall progs, (forall i, progs i = []) -> interleaving progs []
  | il_cons : forall progs i op rest sched,
      progs i = op :: rest -> interleaving (upd progs i rest) sched ->
      interleaving progs ((i, op) :: sched).

  Record event := mkEv {
    ev_tid : nat; ev_op : Op; ev_out : Out; ev_reads : list Loc; ev_writes : list Loc
  }.

  (* execution of a schedule *)
  Fixpoint run (g : G) (ls : nat -> L) (sched : list (nat * Op)) : G * (nat -> L) * list event :=
    match sched with
    | [] => (g, ls, [])
    | (i, op) :: r =>
        let e := step g (ls i) op in
        let '(g', ls', evs) := run (e_g e) (upd ls i (e_l e)) r in
        (g', ls', mkEv i op (e_out e) (e_reads e) (e_writes e) :: evs)
    end.

  (* one thread alone *)
  Fixpoint solo (g : G) (l : L) (ops : list Op) : G * L * list Out :=
    match ops with
    | [] => (g, l, [])
    | op :: r =>
        let e := step g l op in
        let '(g', l', outs) := solo (e_g e) (e_l e) r in
        (g', l', e_out e :: outs)
    end.

  Definition outputs_of (i : nat) (evs : list event) : list Out :=
    map ev_out (filter (fun e => Nat.eqb (ev_tid e) i) evs).

  (* two steps of different threads conflict when one writes a shared location the other reads or writes *)
  Definition conflict (a b : event) : Prop :=
    ev_tid a <> ev_tid b /\
    exists loc, (In loc (ev_writes a) /\ (In loc (ev_reads b) \/ In loc (ev_writes b))) \/
                (In loc (ev_writes b) /\ (In loc (ev_reads a) \/ In loc (ev_writes a))).
End Machine.

Arguments mkEff {G L Out Loc}.
Arguments e_g {G L Out Loc}.
Arguments e_l {G L Out Loc}.
Arguments e_out {G L Out Loc}.
Arguments e_reads {G L Out Loc}.
Arguments e_writes {G L Out Loc}.
Arguments upd {A}.
Arguments ev_tid {Op Out Loc}.
Arguments ev_out {Op Out Loc}.
Arguments ev_reads {Op Out Loc}.
Arguments ev_writes {Op Out Loc}.
Arguments mkEv {Op Out Loc}.
Arguments conflict {Op Out Loc}.
Arguments outputs_of {Op Out Loc}.

(* ------------------------------------------------------------------ *)
(* (b) inventory of static storage                                     *)

Record gsym := mkSym {
  gs_file : string;        (* object file                                             *)
  gs_name : string;        (* symbol                                                  *)
  gs_bind : string;        (* LOCAL (file-level or function-local static) / GLOBAL / WEAK *)
  gs_type : string;        (* OBJECT / TLS / COMMON                                    *)
  gs_section : string;     (* section name via the section index (readelf), or COMMON  *)
  gs_wflag : bool;         (* the section header carries SHF_WRITE                     *)
  gs_size : N
}.

Record gsec := mkSec {
  sc_file : string; sc_name : string; sc_flags : string; sc_wflag : bool; sc_size : N
}.

Local Open Scope string_scope.

(* read-only storage: constants, and constant pointer tables (.data.rel.ro* carries SHF_WRITE in the object
   file only so that the loader can relocate it; the linker places it in the RELRO segment) *)
Definition ro_section (s : string) : bool :=
  prefix ".rodata" s || prefix ".data.rel.ro" s || prefix ".text" s.

Definition rw_section (s : string) : bool :=
  (negb (prefix ".data.rel.ro" s) && (String.eqb s ".data" || prefix ".data." s)) ||
  String.eqb s ".bss" || prefix ".bss." s || prefix ".tdata" s || prefix ".tbss" s ||
  String.eqb s "COMMON" || prefix ".init_array" s || prefix ".fini_array" s || prefix ".ctors" s || prefix ".dtors" s.

Definition sym_readonly (g : gsym) : bool := ro_section (gs_section g) && negb (rw_section (gs_section g)).

(* an allocated section is harmless if it is not writable, or is a .data.rel.ro* section *)
Definition sec_readonly (s : gsec) : bool := negb (sc_wflag s) || prefix ".data.rel.ro" (sc_name s).

Fixpoint mem_str (s : string) (l : list string) : bool :=
  match l with [] => false | x :: r => String.eqb s x || mem_str s r end.
