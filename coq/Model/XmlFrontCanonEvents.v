(* C02 / C03 — the canonical EVENT LISTS: a boolean predicate `evs_canon` on what the XML parser delivers such that the tree
   the front end (Model/XmlFront.v) builds from it satisfies `root_canon` (Model/XmlFrontEvents.v), i.e. is a tree that
   the front end rebuilds from its own events (Proofs/XmlFrontImage.v: image_canonical, front_idempotent).

   The predicate is evaluated along the run of the callbacks: `step_clause c e` looks at the context before the event and
   says which clause (0 = none) the event violates.  A run on which an error is recorded violates nothing more: the
   function refuses such a document, there is no tree to talk about.

   THE CLAUSES
     1  an empty character-data event                                   (Expat never delivers one; it leaves an empty text node
                                                                          unless it continues a text)
     2  character data or a CDATA section outside any element           (not Expat-shaped; a text would become the root)
     3  a CDATA section directly inside a binary-flagged element        (the CDATA node comes before the cached text)
     4  an embedded DevInf / DM DDF document directly inside a binary-flagged element or a CDATA section
     5  an element whose tag is not found again from the name written for it (tag_canon).  Silent on the project's
        tables: resolve_tag_canon — token tags are found again from their namespace-qualified name, and a name that is
        unknown from one code page is unknown from every code page, so literal tags resolve to themselves
     6  an element below the root whose tag is WRITTEN with one of the two embedded-document names although the name
        delivered was not one (an unprefixed <DevInf> below the root of a DevInf document: read again it is skipped)
     7  attributes not found again from what is written for them        (silent for names made of octets: attrs_canon_octets)
     8  an XML declaration or a DOCTYPE after the root element started  (not Expat-shaped; they change charset / language)
     9  a binary-flagged element named Data                              (AirSync / ActiveSync have two each; the SyncML
                                                                          data-type hack looks at the NAME Data only, so
                                                                          it applies to them and their base64 text)
    10  while skipping an embedded document, an end tag at level 1 with another name   (not Expat-shaped)
    11  the tree of an embedded document is not one `emb` accepts       (emb: what the nested parse answers on re-reading)
    12  an end tag while `current` is a CDATA section directly below the root element  (not Expat-shaped: the C leaves the
        CDATA node AND the root element; the SyncML data type of the root element is always "normal", so the front end
        never adds a CDATA section there by itself)
   2, 8, 10 and 12 never fire on a list of the shape Expat delivers (Proofs/XmlFrontShape.v: shape_clauses_silent); on the
   project's tables, with attribute names made of octets, only 1, 3, 4, 6, 9 and 11 can (clauses_that_matter).
   NOT a clause: character data for which the front end ADDS a CDATA section (the SyncML data type of the enclosing <Data>
   is text/clear, a vCard / vCalendar type, or the Add/Replace hack applies).  The tree then holds an explicit CDATA node,
   `events_of` writes it as a CDATA section, and on re-reading the data type is the same (dt_same_tag, dt_through_cdata:
   the decision looks at the names of the node, its parent and grand-parent and at their COMPLETED Meta/Type children,
   never at the node's own children or cached text) — so the text goes to the same place.
   Definitions only. *)
From Coq Require Import List NArith Bool.
From Wbxml Require Import Model.TablesDefs Model.Tables Model.Codec Model.LangSelect Model.EncWbxml Model.XmlFront Model.XmlFrontEvents.
Import ListNotations.
Local Open Scope N_scope.

(* the element node that was just added below `up` *)
Definition elt_clause (l : lang) (up : list frame) (k : fkind) : N :=
  match k with
  | FElt tg attrs _ =>
    if negb (tag_canon l tg) then 5
    else if (match up with [] => false | _ => true end) && negb (tag_not_embedded l tg) then 6
    else if negb (attrs_canon l attrs) then 7
    else if tag_binary tg && beq (tag_xml_name tg) s_Data then 9
    else 0
  | FCData => 0
  end.

Definition head_clause (c' : ctx) : N :=
  match c_spine c', c_lang c' with
  | f :: up, Some l => elt_clause l up (f_kind f)
  | _, _ => 0
  end.

Section Clauses.
  Variable main : list lang.
  Variable sub : bytes -> xtree + N.
  Variable input : bytes.
  Variable emb : N -> list node -> bool.

  Definition step_clause (c : ctx) (e : event) : N :=
    let c' := step main sub input c e in
    if negb (c_error c =? WBXML_OK) || negb (c_error c' =? WBXML_OK) then 0
    else
      match e with
      | EvXmlDecl _ _ | EvStartDoctype _ _ _ => match c_spine c with [] => 0 | _ => 8 end
      | EvEndDoctype | EvPi _ _ | EvEndCdata => 0
      | EvCharacters ch =>
        if 0 <? c_skip_lvl c then 0
        else match ch with
             | [] => 1
             | _ => match c_spine c with [] => 2 | _ => 0 end
             end
      | EvStartCdata =>
        if 0 <? c_skip_lvl c then 0
        else match c_spine c with
             | [] => 2
             | f :: _ => if is_binary_frame f then 3 else 0
             end
      | EvStartElement name _ _ =>
        if 0 <? c_skip_lvl c then 0
        else match c_spine c with
             | [] => head_clause c'
             | f :: _ =>
               if is_embedded_name name then (if is_binary_frame f || is_cdata_frame f then 4 else 0)
               else head_clause c'
             end
      | EvEndElement name _ =>
        if 0 <? c_skip_lvl c then
          if c_skip_lvl c =? 1 then
            if is_embedded_name name then
              match c_spine c' with
              | f :: _ => match f_rkids f with
                          | NTree lid roots :: _ => if emb lid roots then 0 else 11
                          | _ => 0
                          end
              | [] => 0
              end
            else 10
          else 0
        else match c_spine c with
             | [f; _] => if is_cdata_frame f then 12 else 0
             | _ => 0
             end
      end.

  (* the first clause violated along the run *)
  Fixpoint run_clause (c : ctx) (evs : list event) : N :=
    match evs with
    | [] => 0
    | e :: r => let k := step_clause c e in if k =? 0 then run_clause (step main sub input c e) r else k
    end.

  Definition evs_clause (evs : list event) : N := run_clause init_ctx evs.
  Definition evs_canon (evs : list event) : bool := evs_clause evs =? 0.
End Clauses.
