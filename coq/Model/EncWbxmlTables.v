(* C06: the regenerated token tables (Gen/TablesData.v, Coq strings) converted once, by computation, into
   the byte-named form used by Model/EncWbxml.v.  Definitions only. *)
From Coq Require Import List NArith String.
From Wbxml Require Import Model.TablesDefs Model.EncWbxml Gen.TablesData.
Import ListNotations.

Definition bos (s : string) : bytes := bytes_of_string s.
Definition obos (o : option string) : option bytes := match o with Some s => Some (bos s) | None => None end.
Definition omap {A B} (f : A -> B) (o : option (list A)) : option (list B) :=
  match o with Some l => Some (map f l) | None => None end.

Definition blang_of_lang (l : lang) : blang :=
  mk_blang (l_id l) (l_pub_num l) (obos (l_pub_text l))
    (omap (fun r => mk_btag (bos (t_name r)) (t_page r) (t_tok r) (t_opts r)) (l_tags l))
    (omap (fun r => mk_battr (bos (a_name r)) (obos (a_value r)) (a_page r) (a_tok r)) (l_attrs l))
    (omap (fun r => mk_bval (bos (v_name r)) (v_page r) (v_tok r)) (l_vals l))
    (omap (fun r => mk_bext (bos (e_name r)) (e_tok r)) (l_exts l)).

Definition main_btable : list blang := Eval vm_compute in map blang_of_lang main_table.
