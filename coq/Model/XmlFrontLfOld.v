(* C02 (front end) — the characters callback BEFORE the LF-hack fix (props/C02/LF-hack-fix.patch; /repo up to d107fc8):
   under a vObject data type every character-data event that is exactly one LF becomes CR LF, also when the CR was
   delivered just before ("&#13;&#10;" comes as "\r" then "\n": the tree got "\r\r\n").  Kept so that the correspondence
   ties can run against a C tree without the fix (vlib.xmlfront probes the C and selects the version), and for the Example
   that pins the old behaviour.  Everything else is Model/XmlFront.v.  Definitions only. *)
From Coq Require Import List NArith Bool.
From Wbxml Require Import Model.TablesDefs Model.Tables Model.Codec Model.LangSelect Model.EncWbxml Model.XmlFront
     Model.Conv Model.ConvXml2Wbxml.
Import ListNotations.
Local Open Scope N_scope.

Section Old.
  Variable main : list lang.
  Variable sub : bytes -> xtree + N.
  Variable input : bytes.

  Definition on_characters_old (c : ctx) (ch : bytes) : ctx :=
    if negb (c_error c =? WBXML_OK) then c
    else if 0 <? c_skip_lvl c then c
    else
      match syncml_data_type (c_spine c) with
      | None => set_error c E_UB_NULL
      | Some dt =>
        let '(ch1, want_cdata) :=
            match dt with
            | DT_DIRECTORY_VCARD | DT_VCALENDAR | DT_VCARD | DT_VOBJECT =>
              ((match ch with [10] => [13; 10] | _ => ch end), true)       (* a lone LF becomes CR LF *)
            | DT_CLEAR => (ch, true)
            | _ => (ch, false)
            end in
        let c1 := match c_spine c with
                  | f :: _ => if want_cdata && negb (is_cdata_frame f) && negb (first_kid_is_cdata f)
                              then push_frame c (mk_frame FCData []) E_INTERNAL else c
                  | [] => c
                  end in
        match c_spine c1 with
        | f :: up =>
          if is_binary_frame f then
            match f_kind f with
            | FElt tag attrs content =>
              set_spine c1 (mk_frame (FElt tag attrs (Some (match content with Some b => b ++ ch1 | None => ch1 end))) (f_rkids f) :: up)
            | FCData => c1
            end
          else add_text c1 ch1
        | [] => add_text c1 ch1
        end
      end.

  Definition step_old (c : ctx) (e : event) : ctx :=
    match e with
    | EvCharacters ch => on_characters_old c ch
    | _ => step main sub input c e
    end.

  Definition run_old (c : ctx) (evs : list event) : ctx := fold_left step_old evs c.

  Definition tree_from_xml_old (events : list event) (expat_ok : bool) : xtree + N :=
    match input with
    | [] => inr E_BAD_PARAMETER
    | _ =>
      let c := run_old init_ctx events in
      if negb expat_ok then inr E_XML_PARSING_FAILED
      else if negb (c_error c =? WBXML_OK) then inr (c_error c)
      else inl (tree_of_ctx c)
    end.
End Old.

Definition xml2wbxml_events_old (main : list lang) (btbl : list blang) (sub : bytes -> xtree + N)
           (events : list event) (expat_ok : bool) (o : options) (doc : bytes) : conv_result :=
  conv_run xtree options (fun _ d => tree_from_xml_old main sub d events expat_ok) (encode_tree btbl) false o doc.
