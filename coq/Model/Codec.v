(* C11 — executable model of the low-level codecs.
   Transcribed from:
     wbxml_buffers.c  wbxml_buffer_append_mb_uint_32, wbxml_buffer_hex_to_binary,
                      wbxml_buffer_binary_to_hex
     wbxml_parser.c   parse_mb_uint32, parse_entity (the UCS-4 -> UTF-8 part)
     wbxml_base64.c   wbxml_base64_encode, wbxml_base64_decode
   Bytes and 32-bit values are N; every place where the C truncates is an explicit mod.
   Definitions only (no proofs here: the model must still run when a proof breaks). *)
From Coq Require Import List NArith Bool.
Import ListNotations.
Local Open Scope N_scope.

Definition u8 (x : N) : N := x mod 256.
Definition u32 (x : N) : N := x mod 4294967296.

(* error codes actually used (numeric values of wbxml_errors.h are checked by the harness) *)
Inductive cerr := E_END_OF_BUFFER | E_UNVALID_MBUINT32 | E_INVALID_UNICODE.

Inductive res (A : Type) := Ok (a : A) | Err (e : cerr).
Arguments Ok {A} a.
Arguments Err {A} e.

(* ------------------------------------------------------------------ *)
(* multi-byte unsigned integers                                        *)

(* wbxml_buffer_append_mb_uint_32:
     octets[4] = value & 0x7f; value >>= 7;
     for (i = 3; value > 0 && i >= 0; i--) { octets[i] = 0x80 | (value & 0x7f); value >>= 7; }
     append octets[i+1 .. 4]                                                          *)
Fixpoint mb_write_loop (iters : nat) (value : N) (acc : list N) : list N :=
  match iters with
  | O => acc
  | S k => if N.eqb value 0 then acc
           else mb_write_loop k (N.shiftr value 7) (N.lor 128 (N.land value 127) :: acc)
  end.

Definition mb_write (value : N) : list N :=
  mb_write_loop 4 (N.shiftr value 7) [N.land value 127].

(* parse_mb_uint32: at most 5 bytes; uint = (uint << 7) | (b & 0x7F) in a 32-bit variable *)
Fixpoint mb_read_loop (iters : nat) (uint : N) (bs : list N) : res (N * list N) :=
  match iters with
  | O => Err E_UNVALID_MBUINT32
  | S k =>
    match bs with
    | [] => Err E_END_OF_BUFFER
    | b :: r =>
      let uint' := u32 (N.lor (N.shiftl uint 7) (N.land b 127)) in
      if N.eqb (N.land b 128) 0 then Ok (uint', r) else mb_read_loop k uint' r
    end
  end.

Definition mb_read (bs : list N) : res (N * list N) := mb_read_loop 5 0 bs.

(* specification side: the shortest length *)
Definition mb_len (v : N) : nat :=
  if v <? 128 then 1 else if v <? 16384 then 2 else if v <? 2097152 then 3
  else if v <? 268435456 then 4 else 5.

(* ------------------------------------------------------------------ *)
(* hexadecimal                                                          *)

Definition hexit (upper : bool) (d : N) : N :=
  if d <? 10 then 48 + d else (if upper then 65 else 97) + (d - 10).

(* wbxml_buffer_binary_to_hex: data[2i] = hexits[(b / 16) & 0xf]; data[2i+1] = hexits[b % 16] *)
Definition bin_to_hex (upper : bool) (bs : list N) : list N :=
  flat_map (fun b => [hexit upper (N.land (b / 16) 15); hexit upper (b mod 16)]) bs.

(* wbxml_buffer_hex_to_binary, first pass: each character to its value (anything else -> 0) *)
Definition hexval (c : N) : N :=
  if (48 <=? c) && (c <=? 57) then c - 48
  else if (97 <=? c) && (c <=? 102) then u8 (c - 97 + 10)
  else if (65 <=? c) && (c <=? 70) then u8 (c - 65 + 10)
  else 0.

(* second pass: data[i] = data[2i] * 16 | data[2i+1] for i < len / 2 (an odd last digit is dropped) *)
Fixpoint hex_pairs (vs : list N) : list N :=
  match vs with
  | a :: b :: r => u8 (N.lor (a * 16) b) :: hex_pairs r
  | _ => []
  end.

Definition hex_to_bin (cs : list N) : list N := hex_pairs (map hexval cs).

Definition is_hex_digit (c : N) : bool :=
  ((48 <=? c) && (c <=? 57)) || ((97 <=? c) && (c <=? 102)) || ((65 <=? c) && (c <=? 70)).

Definition to_upper_hex (c : N) : N := if (97 <=? c) && (c <=? 102) then c - 32 else c.

(* ------------------------------------------------------------------ *)
(* character entities: UCS-4 code -> UTF-8 (parse_entity after parse_entcode)            *)

Definition mask_of (index : nat) : N :=
  match index with 0%nat => 252 | 1%nat => 248 | 2%nat => 240 | 3%nat => 224 | _ => 192 end.

(* while (code >= (0x40 >> (5 - index))) { entity[index] = 0x80 | (code & 0x3F); code >>= 6; index--; }
   entity[index] = masks[index] | code;
   `index` counts down from 5; `fuel` bounds the iterations (index cannot go below 0: for
   code < 2^31 the loop stops at index 0 at the latest, which the proofs establish). *)
Fixpoint utf8_loop (fuel : nat) (index : nat) (code : N) (acc : list N) : list N :=
  match fuel with
  | O => u8 (N.lor (mask_of index) code) :: acc
  | S f =>
    if N.shiftr 64 (N.of_nat (5 - index)) <=? code
    then utf8_loop f (index - 1) (N.shiftr code 6) (u8 (N.lor 128 (N.land code 63)) :: acc)
    else u8 (N.lor (mask_of index) code) :: acc
  end.

(* the result travels as a C string: it ends at the first NUL *)
Fixpoint cstr (bs : list N) : list N :=
  match bs with [] => [] | b :: r => if N.eqb b 0 then [] else b :: cstr r end.

Definition entity_utf8 (code : N) : res (list N) :=
  if 2147483648 <=? code then Err E_INVALID_UNICODE
  else if code <? 128 then Ok (cstr [code])
  else Ok (cstr (utf8_loop 5 5 code [])).

(* specification: the UTF-8 encoding form (Unicode 3.9, table 3-6), written with / and mod *)
Definition utf8_spec (c : N) : list N :=
  if c <? 128 then [c]
  else if c <? 2048 then [192 + c / 64; 128 + c mod 64]
  else if c <? 65536 then [224 + c / 4096; 128 + (c / 64) mod 64; 128 + c mod 64]
  else [240 + c / 262144; 128 + (c / 4096) mod 64; 128 + (c / 64) mod 64; 128 + c mod 64].

Definition is_scalar (c : N) : bool :=
  (c <? 55296) || ((57344 <=? c) && (c <? 1114112)).

(* ------------------------------------------------------------------ *)
(* base64                                                               *)

Definition basis_64 : list N :=
  [65;66;67;68;69;70;71;72;73;74;75;76;77;78;79;80;81;82;83;84;85;86;87;88;89;90;
   97;98;99;100;101;102;103;104;105;106;107;108;109;110;111;112;113;114;115;116;117;118;119;120;121;122;
   48;49;50;51;52;53;54;55;56;57;43;47].

Definition basis (i : N) : N := nth (N.to_nat i) basis_64 0.

(* the sextets as the C computes them *)
Definition sx1 (a : N) : N := N.land (N.shiftr a 2) 63.
Definition sx2 (a b : N) : N := N.lor (N.shiftl (N.land a 3) 4) (N.shiftr (N.land b 240) 4).
Definition sx3 (b c : N) : N := N.lor (N.shiftl (N.land b 15) 2) (N.shiftr (N.land c 192) 6).
Definition sx4 (c : N) : N := N.land c 63.

(* wbxml_base64_encode: the for-loop over complete triples, then the 1- or 2-byte tail.
   The C returns NULL for len <= 0 (None here). *)
Fixpoint b64_enc_body (bs : list N) : list N :=
  match bs with
  | a :: b :: c :: r =>
      basis (sx1 a) :: basis (sx2 a b) :: basis (sx3 b c) :: basis (sx4 c) :: b64_enc_body r
  | [a] => [basis (sx1 a); basis (N.shiftl (N.land a 3) 4); 61; 61]
  | [a; b] => [basis (sx1 a); basis (sx2 a b); basis (N.shiftl (N.land b 15) 2); 61]
  | [] => []
  end.

Definition b64_enc (bs : list N) : option (list N) :=
  match bs with [] => None | _ => Some (b64_enc_body bs) end.

(* RFC 4648 section 4, written independently of the shifts: a 24-bit group and its four sextets *)
Fixpoint rfc4648 (bs : list N) : list N :=
  match bs with
  | a :: b :: c :: r =>
      let n := a * 65536 + b * 256 + c in
      basis (n / 262144) :: basis ((n / 4096) mod 64) :: basis ((n / 64) mod 64) :: basis (n mod 64)
      :: rfc4648 r
  | [a] => let n := a * 65536 in [basis (n / 262144); basis ((n / 4096) mod 64); 61; 61]
  | [a; b] => let n := a * 65536 + b * 256 in
      [basis (n / 262144); basis ((n / 4096) mod 64); basis ((n / 64) mod 64); 61]
  | [] => []
  end.

Definition pr2six_tbl : list N :=
  [64;64;64;64;64;64;64;64;64;64;64;64;64;64;64;64;
   64;64;64;64;64;64;64;64;64;64;64;64;64;64;64;64;
   64;64;64;64;64;64;64;64;64;64;64;62;64;64;64;63;
   52;53;54;55;56;57;58;59;60;61;64;64;64;64;64;64;
   64; 0; 1; 2; 3; 4; 5; 6; 7; 8; 9;10;11;12;13;14;
   15;16;17;18;19;20;21;22;23;24;25;64;64;64;64;64;
   64;26;27;28;29;30;31;32;33;34;35;36;37;38;39;40;
   41;42;43;44;45;46;47;48;49;50;51;64;64;64;64;64].
(* entries 128..255 are all 64 *)
Definition pr2six (c : N) : N := nth (N.to_nat c) pr2six_tbl 64.

Fixpoint take_b64 (cs : list N) : list N :=
  match cs with
  | c :: r => if pr2six c <=? 63 then c :: take_b64 r else []
  | [] => []
  end.

Definition db1 (p q : N) : N := u8 (N.lor (N.shiftl (pr2six p) 2) (N.shiftr (pr2six q) 4)).
Definition db2 (q r : N) : N := u8 (N.lor (N.shiftl (pr2six q) 4) (N.shiftr (pr2six r) 2)).
Definition db3 (r s : N) : N := u8 (N.lor (N.shiftl (pr2six r) 6) (pr2six s)).

(* while (nprbytes > 4) {3 bytes}; then the three tail ifs.  Returns the bytes written. *)
Fixpoint b64_dec_body (cs : list N) : list N :=
  match cs with
  | p :: q :: r :: s :: rest =>
      match rest with
      | [] => [db1 p q; db2 q r; db3 r s]                 (* nprbytes = 4: the tail ifs *)
      | _ => db1 p q :: db2 q r :: db3 r s :: b64_dec_body rest
      end
  | [p; q; r] => [db1 p q; db2 q r]
  | [p; q] => [db1 p q]
  | _ => []
  end.

(* nbytesdecoded = ((n + 3) / 4) * 3 - ((4 - remaining) & 3), remaining = n after the loop *)
Definition b64_dec_count (n : N) : N :=
  let rem := if n =? 0 then 0 else (n - 1) mod 4 + 1 in
  ((n + 3) / 4) * 3 - N.land (4 - rem) 3.

(* wbxml_base64_decode: result length and bytes; the callers treat <= 0 as an error (None) *)
Definition b64_dec (cs : list N) : option (list N) :=
  let pre := take_b64 cs in
  let n := b64_dec_count (N.of_nat (length pre)) in
  if n =? 0 then None else Some (firstn (N.to_nat n) (b64_dec_body pre)).

(* wbxml_buffer_decode_base64 removes C-locale white space first *)
Definition is_cspace (c : N) : bool := (c =? 32) || ((9 <=? c) && (c <=? 13)).
Definition buffer_b64_dec (cs : list N) : option (list N) :=
  b64_dec (filter (fun c => negb (is_cspace c)) cs).
