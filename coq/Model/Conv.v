(* C01 / C02 — model of the conversion entry points (src/wbxml_conv.c), of the result construction
   (xml_build_result / wbxml_build_result in src/wbxml_encoder.c) and of the indentation loops of the XML
   generator.  The parser+tree builder and the generators are Section parameters here: the contract
   theorems hold whatever they compute; Parser.v / EncXml.v / EncWbxml.v instantiate them. *)
From Coq Require Import List NArith Bool.
Import ListNotations.
Local Open Scope N_scope.

Inductive status := ST_OK | ST_ERR (code : N).

(* what the caller observes: status, the output pointer (None = NULL) — the allocated block INCLUDING the
   byte written after the document — and the reported length *)
Record conv_result := mk_res { r_status : status; r_out : option (list N); r_len : N }.

Section Conv.
  Variable tree : Type.
  Variable opts : Type.
  Variable tree_from_doc : opts -> list N -> tree + N.      (* wbxml_tree_from_wbxml / _from_xml: tree or error code *)
  Variable encode : opts -> tree -> list N + N.             (* header ++ body, or error code *)

  Definition BAD_PARAMETER : N := 12.

  (* wbxml_conv_wbxml2xml_run: parameter check, *xml = NULL, *xml_len = 0, parse, generate, build result.
     xml_build_result allocates len + 1 bytes and stores '\0' at [len]. *)
  Definition conv_run (with_nul : bool) (o : opts) (doc : list N) : conv_result :=
    match doc with
    | [] => mk_res (ST_ERR BAD_PARAMETER) None 0            (* wbxml_len == 0 *)
    | _ =>
      match tree_from_doc o doc with
      | inr e => mk_res (ST_ERR e) None 0
      | inl t =>
        match encode o t with
        | inr e => mk_res (ST_ERR e) None 0
        | inl out => mk_res ST_OK (Some (if with_nul then out ++ [0] else out)) (N.of_nat (length out))
        end
      end
    end.

  (* the legacy entry point: `params` may be NULL (None): defaults of the converter object are used *)
  Variable default_opts : opts.
  Definition conv_withlen (with_nul : bool) (po : option opts) (doc : list N) : conv_result :=
    conv_run with_nul (match po with Some o => o | None => default_opts end) doc.
End Conv.

(* ------------------------------------------------------------------ *)
(* indentation loops of xml_encode_tag / xml_encode_end_tag / xml_encode_text:
     for (i = 0; i < (encoder->indent * encoder->indent_delta); i++) append ' ';
   `indent` and `indent_delta` are WB_UTINY (promoted to int: the bound is < 65536);
   the counter is WB_ULONG (32 bit) since the repair; it used to be WB_UTINY (8 bit). *)
Definition wrap (bits : N) (x : N) : N := x mod (2 ^ bits).

Fixpoint indent_loop (bits : N) (fuel : nat) (i bound : N) (acc : list N) : option (list N) :=
  match fuel with
  | O => None                                   (* out of fuel: the loop did not terminate within `fuel` iterations *)
  | S f => if i <? bound then indent_loop bits f (wrap bits (i + 1)) bound (32 :: acc) else Some acc
  end.

Definition indent_blanks (bits : N) (fuel : nat) (indent delta : N) : option (list N) :=
  indent_loop bits fuel 0 (indent * delta) [].
