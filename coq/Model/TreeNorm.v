(* C03 — the documented white-space normalisation on the encoder's tree type (Model/EncWbxml.v).
   norm keep t: what the conversion is allowed to change in character data when keep-ws is off: a text node that is
   blank-only disappears, any other text node loses its leading and trailing blanks (wbxml_buffer_strip_blanks); text
   inside a CDATA section is left alone (parse_text does not touch it).  With keep-ws nothing changes.
   Definitions only. *)
From Coq Require Import List NArith Bool.
From Wbxml Require Import Model.Codec Model.EncWbxml.
Import ListNotations.
Local Open Scope N_scope.

Definition norm_text (keep in_cd : bool) (c : bytes) : list node :=
  if keep || in_cd then [NText c]
  else if only_ws c then [] else [NText (strip_blanks c)].

Fixpoint norm_node (keep in_cd : bool) (n : node) : list node :=
  match n with
  | NText c => norm_text keep in_cd c
  | NElt tag attrs ch => [NElt tag attrs (flat_map (norm_node keep in_cd) ch)]
  | NCData ch => [NCData (flat_map (norm_node keep true) ch)]
  | NPi => [NPi]
  | NTree lid roots => [NTree lid (flat_map (norm_node keep false) roots)]
  end.

Definition norm (keep : bool) (ns : list node) : list node := flat_map (norm_node keep false) ns.
