(* C18 — ownership accounting over Model/TreeGraph.v.
   A nested WBXMLTree object is a token (DTree lang (Some tr)).  wbxml_tree_add_tree moves the token from the caller to
   the new TREE node when it succeeds and leaves it with the caller when it refuses; wbxml_tree_node_destroy of a TREE
   node destroys node->tree (node_tree), so destroying a sub-tree releases the tokens of its TREE nodes.
   `ostate` = the caller's state of TreeGraph (tree + detached sub-trees held by the caller) plus two ghost lists:
   the tokens the library has accepted so far and the tokens it has released so far.
   The caller's side of the contract (`issued`): a tree is offered only by its owner, i.e. not after the library has
   accepted it; wbxml_tree_add_tree(NULL tree, ...) destroys its node while node->tree is still NULL.
   Definitions only. *)
From Coq Require Import List NArith Bool.
From Wbxml Require Import Model.TreeGraph.
Import ListNotations.
Local Open Scope N_scope.

Definition data_tree (d : data) : option N := match d with DTree _ (Some tr) => Some tr | _ => None end.
Definition olist {A} (o : option A) : list A := match o with Some x => [x] | None => [] end.

(* the nested trees owned by the nodes of a forest *)
Fixpoint trees_t (t : rt) : list N := match t with R _ d cs => olist (data_tree d) ++ flat_map trees_t cs end.
Definition trees_l (F : list rt) : list N := flat_map trees_t F.

(* the nested trees destroyed when the nodes l of heap h are destroyed *)
Definition released_by (h : heap) (l : list id) : list N := flat_map (fun i => olist (node_tree h i)) l.

Record ostate := mkO { oc : cstate; accepted : list N; released : list N }.
Definition oinit : ostate := mkO init_state [] [].

Definition issued (s : ostate) (o : op) : bool :=
  match o with
  | OpAddTree _ _ tr => negb (mem tr (accepted s))
  | OpAddNull d => match data_tree d with None => true | Some _ => false end
  | _ => true
  end.

Definition destroyed_trees (c : cstate) (o : op) : list N :=
  match o with
  | OpDestroy n =>
    if mem n (det c) then
      match destroy_all (2 * S (fuel_of (ts c)) + 2)%nat (heap_of (ts c)) n with
      | TOk r => released_by (heap_of (ts c)) (snd r)
      | _ => []
      end
    else []
  | _ => []
  end.

Definition oexec (l : tlang) (s : ostate) (o : op) : tres ostate :=
  if issued s o then
    do r <- exec l (oc s) o;
    TOk (mkO (fst r)
             (match o with OpAddTree _ _ tr => if snd r then tr :: accepted s else accepted s | _ => accepted s end)
             (released s ++ destroyed_trees (oc s) o))
  else TOk s.

Fixpoint orun (l : tlang) (s : ostate) (ops : list op) : tres ostate :=
  match ops with
  | [] => TOk s
  | o :: rest => do s1 <- oexec l s o; orun l s1 rest
  end.

(* the end: the caller destroys what it holds, then the tree (TreeGraph.finish); returns the final heap, the nodes
   released and the nested trees released by that *)
Definition ofinish (s : ostate) : tres (heap * list id * list N) :=
  do r <- finish (oc s);
  TOk (fst r, snd r, released_by (heap_of (ts (oc s))) (snd r)).
