(* C16 — an explicit heap with a failure oracle, and transcriptions AT THE POINTER / OWNERSHIP LEVEL of the
   allocation choke points of the library:
     wbxml_buffers.c  wbxml_buffer_create_real, wbxml_buffer_destroy, grow_buff, insert_data, wbxml_buffer_duplicate
     wbxml_lists.c    wbxml_list_create_real, wbxml_list_append, wbxml_list_insert, wbxml_list_destroy
     wbxml_elt.c      wbxml_tag_create / _create_literal / _duplicate / _destroy, wbxml_attribute_name_create_literal /
                      _duplicate / _destroy, wbxml_attribute_create / _duplicate / _destroy
     wbxml_tree.c     wbxml_tree_node_add_attr
     wbxml_parser.c   the attribute-table realloc loop of parse_element, the LITERAL branch of parse_attr_start
     wbxml_encoder.c  encoder_encode_tree when the output buffer cannot be created
   Blocks are numbered in allocation order.  The heap carries the failure oracle: a list of booleans consumed one
   per request (true = refused; an exhausted list grants everything); the theorems quantify over EVERY oracle,
   which includes every single failure (`single k`).
   An object of the C is a Coq value holding the numbers of the blocks it consists of; a C function that updates a
   structure in place returns the updated value.  Contents (bytes, lengths) are not modelled.
   Definitions only. *)
From Coq Require Import List NArith Bool.
Import ListNotations.
Local Open Scope N_scope.

Inductive viol := DoubleFree (b : N) | UnknownFree (b : N) | UseAfterFree (b : N).

Record heap := mkHeap {
  h_next : N;            (* next block number *)
  h_live : list N;
  h_freed : list N;
  h_reqs : N;            (* requests made so far *)
  h_bad : list viol;
  h_oracle : list bool   (* answers to the coming requests: true = refused; exhausted = granted *)
}.

Definition mem (b : N) (l : list N) : bool := existsb (N.eqb b) l.
Definition del (b : N) (l : list N) : list N := filter (fun x => negb (N.eqb b x)) l.

(* the answer to the next request, and the rest of the oracle *)
Definition next_answer (h : heap) : bool * list bool :=
  match h_oracle h with [] => (false, []) | a :: r => (a, r) end.

Section Heap.
  (* wbxml_malloc / wbxml_strdup *)
  Definition alloc (h : heap) : heap * option N :=
    let r := h_reqs h in
    let '(refused, o) := next_answer h in
    if refused then (mkHeap (h_next h) (h_live h) (h_freed h) (r + 1) (h_bad h) o, None)
    else (mkHeap (h_next h + 1) (h_next h :: h_live h) (h_freed h) (r + 1) (h_bad h) o, Some (h_next h)).

  (* wbxml_free(NULL) is a no-op *)
  Definition free (h : heap) (p : option N) : heap :=
    match p with
    | None => h
    | Some b =>
      if mem b (h_live h) then mkHeap (h_next h) (del b (h_live h)) (b :: h_freed h) (h_reqs h) (h_bad h) (h_oracle h)
      else if mem b (h_freed h) then mkHeap (h_next h) (h_live h) (h_freed h) (h_reqs h) (DoubleFree b :: h_bad h) (h_oracle h)
      else mkHeap (h_next h) (h_live h) (h_freed h) (h_reqs h) (UnknownFree b :: h_bad h) (h_oracle h)
    end.

  (* a read or write through a pointer *)
  Definition use (h : heap) (p : option N) : heap :=
    match p with
    | None => h
    | Some b => if mem b (h_live h) then h
                else mkHeap (h_next h) (h_live h) (h_freed h) (h_reqs h) (UseAfterFree b :: h_bad h) (h_oracle h)
    end.

  (* wbxml_realloc: on refusal the old block stays as it is; realloc(NULL) allocates *)
  Definition realloc (h : heap) (p : option N) : heap * option N :=
    let r := h_reqs h in
    let '(refused, o) := next_answer h in
    if refused then (mkHeap (h_next h) (h_live h) (h_freed h) (r + 1) (h_bad h) o, None)
    else match p with
         | None => (mkHeap (h_next h + 1) (h_next h :: h_live h) (h_freed h) (r + 1) (h_bad h) o, Some (h_next h))
         | Some b =>
           if mem b (h_live h)
           then (mkHeap (h_next h + 1) (h_next h :: del b (h_live h)) (b :: h_freed h) (r + 1) (h_bad h) o, Some (h_next h))
           else (mkHeap (h_next h) (h_live h) (h_freed h) (r + 1) (UseAfterFree b :: h_bad h) o, None)
         end.

  (* ------------------------------------------------------------------ buffers *)
  Record buffer := mkBuf { b_blk : N; b_data : option N }.

  (* wbxml_buffer_create_real(data, len, block): one block for the structure, one for the bytes when len > 0 *)
  Definition buffer_create (h : heap) (nonempty : bool) : heap * option buffer :=
    let '(h1, p) := alloc h in
    match p with
    | None => (h1, None)
    | Some b =>
      if nonempty then
        let '(h2, d) := alloc h1 in
        match d with
        | None => (free h2 (Some b), None)
        | Some d => (h2, Some (mkBuf b (Some d)))
        end
      else (h1, Some (mkBuf b None))
    end.

  Definition buffer_destroy (h : heap) (b : option buffer) : heap :=
    match b with
    | None => h
    | Some b => free (free h (b_data b)) (Some (b_blk b))
    end.

  (* grow_buff — THE CODE AS IT IS: buffer->data = wbxml_realloc(buffer->data, ...); if NULL return FALSE.
     The pointer to the old bytes is overwritten by NULL before anybody can free them. *)
  Definition grow_buff (h : heap) (b : buffer) (needs_room : bool) : heap * buffer * bool :=
    if needs_room then
      let '(h1, q) := realloc h (b_data b) in
      match q with
      | None => (h1, mkBuf (b_blk b) None, false)
      | Some d => (h1, mkBuf (b_blk b) (Some d), true)
      end
    else (h, b, true).
  (* the repaired grow_buff: the result of realloc goes to a temporary first *)
  Definition grow_buff_fixed (h : heap) (b : buffer) (needs_room : bool) : heap * buffer * bool :=
    if needs_room then
      let '(h1, q) := realloc h (b_data b) in
      match q with
      | None => (h1, b, false)
      | Some d => (h1, mkBuf (b_blk b) (Some d), true)
      end
    else (h, b, true).

  (* insert_data = grow_buff, then writes into buffer->data *)
  Definition insert_data_with (grow : heap -> buffer -> bool -> heap * buffer * bool) (h : heap) (b : buffer) (needs_room : bool) : heap * buffer * bool :=
    let '(h1, b1, ok) := grow h b needs_room in
    if ok then (use h1 (b_data b1), b1, true) else (h1, b1, false).
  Definition insert_data := insert_data_with grow_buff.
  Definition insert_data_fixed := insert_data_with grow_buff_fixed.

  (* wbxml_buffer_duplicate(buff) = create_real(cstr(buff), len, len); reads the source *)
  Definition buffer_duplicate (h : heap) (src : option buffer) : heap * option buffer :=
    match src with
    | None => (h, None)
    | Some s => let h0 := use (use h (Some (b_blk s))) (b_data s) in
                buffer_create h0 (match b_data s with None => false | Some _ => true end)
    end.

  (* ------------------------------------------------------------------ lists *)
  (* a list: its structure block and, per element, (element block, the item — whatever the caller put in) *)
  Record wlist (A : Type) := mkList { l_blk : N; l_elts : list (N * A) }.
  Arguments mkList {A} l_blk l_elts.
  Arguments l_blk {A} w.
  Arguments l_elts {A} w.

  Definition list_create {A} (h : heap) : heap * option (wlist A) :=
    let '(h1, p) := alloc h in
    match p with None => (h1, None) | Some b => (h1, Some (mkList b [])) end.

  (* wbxml_list_append: TRUE and the element linked in, or FALSE and the list unchanged; the item stays the caller's *)
  Definition list_append {A} (h : heap) (l : wlist A) (item : A) : heap * wlist A * bool :=
    let h0 := use h (Some (l_blk l)) in
    let '(h1, p) := alloc h0 in
    match p with
    | None => (h1, l, false)
    | Some e => (h1, mkList (l_blk l) (l_elts l ++ [(e, item)]), true)
    end.

  Fixpoint insert_at {A} (n : nat) (x : A) (l : list A) : list A :=
    match n, l with
    | O, _ => x :: l
    | S k, [] => [x]
    | S k, a :: r => a :: insert_at k x r
    end.
  Definition list_insert {A} (h : heap) (l : wlist A) (item : A) (pos : nat) : heap * wlist A * bool :=
    let h0 := use h (Some (l_blk l)) in
    let '(h1, p) := alloc h0 in
    match p with
    | None => (h1, l, false)
    | Some e => (h1, mkList (l_blk l) (insert_at pos (e, item) (l_elts l)), true)
    end.

  (* wbxml_list_destroy(list, destructor): every element block, the items through the destructor, the structure *)
  Fixpoint elts_destroy {A} (destroy_item : heap -> A -> heap) (h : heap) (es : list (N * A)) : heap :=
    match es with
    | [] => h
    | (e, it) :: r => elts_destroy destroy_item (free (destroy_item (use h (Some e)) it) (Some e)) r
    end.
  Definition list_destroy {A} (destroy_item : heap -> A -> heap) (h : heap) (l : option (wlist A)) : heap :=
    match l with
    | None => h
    | Some l => free (elts_destroy destroy_item (use h (Some (l_blk l))) (l_elts l)) (Some (l_blk l))
    end.

  (* ------------------------------------------------------------------ tags, attribute names, attributes *)
  (* a tag / an attribute name: the structure block and, for a LITERAL, the buffer of the name *)
  Record named := mkNamed { n_blk : N; n_literal : bool; n_name : option buffer }.

  Definition named_create (h : heap) (literal : bool) : heap * option named :=
    let '(h1, p) := alloc h in
    match p with None => (h1, None) | Some b => (h1, Some (mkNamed b literal None)) end.

  Definition named_destroy (h : heap) (t : option named) : heap :=
    match t with
    | None => h
    | Some t => let h0 := use h (Some (n_blk t)) in
                free (if n_literal t then buffer_destroy h0 (n_name t) else h0) (Some (n_blk t))
    end.

  (* wbxml_tag_create_literal / wbxml_attribute_name_create_literal *)
  Definition named_create_literal (h : heap) : heap * option named :=
    let '(h1, t) := named_create h true in
    match t with
    | None => (h1, None)
    | Some t =>
      let '(h2, b) := buffer_create h1 true in
      match b with
      | None => (named_destroy h2 (Some t), None)
      | Some b => (h2, Some (mkNamed (n_blk t) true (Some b)))
      end
    end.

  (* wbxml_tag_duplicate / wbxml_attribute_name_duplicate — THE CODE AS IT IS:
       result->u.literal = wbxml_buffer_duplicate(tag->u.literal);     (not checked) *)
  Definition named_duplicate (h : heap) (src : option named) : heap * option named :=
    match src with
    | None => (h, None)
    | Some s =>
      let '(h1, p) := alloc h in
      match p with
      | None => (h1, None)
      | Some b =>
        let h2 := use h1 (Some (n_blk s)) in
        if n_literal s then
          let '(h3, d) := buffer_duplicate h2 (n_name s) in (h3, Some (mkNamed b true d))
        else (h2, Some (mkNamed b false None))
      end
    end.
  (* repaired: a failed duplicate of the name releases the structure and reports failure *)
  Definition named_duplicate_fixed (h : heap) (src : option named) : heap * option named :=
    match src with
    | None => (h, None)
    | Some s =>
      let '(h1, p) := alloc h in
      match p with
      | None => (h1, None)
      | Some b =>
        let h2 := use h1 (Some (n_blk s)) in
        if n_literal s then
          let '(h3, d) := buffer_duplicate h2 (n_name s) in
          match d, n_name s with
          | None, Some _ => (free h3 (Some b), None)
          | _, _ => (h3, Some (mkNamed b true d))
          end
        else (h2, Some (mkNamed b false None))
      end
    end.

  Record attribute := mkAttr { a_blk : N; a_name : option named; a_value : option buffer }.

  Definition attribute_create (h : heap) : heap * option attribute :=
    let '(h1, p) := alloc h in
    match p with None => (h1, None) | Some b => (h1, Some (mkAttr b None None)) end.

  Definition attribute_destroy (h : heap) (a : option attribute) : heap :=
    match a with
    | None => h
    | Some a => let h0 := use h (Some (a_blk a)) in
                free (buffer_destroy (named_destroy h0 (a_name a)) (a_value a)) (Some (a_blk a))
    end.

  (* wbxml_attribute_duplicate — THE CODE AS IT IS: neither duplicate is checked *)
  Definition attribute_duplicate_with (dupname : heap -> option named -> heap * option named) (h : heap) (src : option attribute) : heap * option attribute :=
    match src with
    | None => (h, None)
    | Some s =>
      let '(h1, p) := alloc h in
      match p with
      | None => (h1, None)
      | Some b =>
        let h2 := use h1 (Some (a_blk s)) in
        let '(h3, n) := dupname h2 (a_name s) in
        let '(h4, v) := buffer_duplicate h3 (a_value s) in
        (h4, Some (mkAttr b n v))
      end
    end.
  Definition attribute_duplicate := attribute_duplicate_with named_duplicate.
  (* repaired: a missing part makes the whole duplicate fail *)
  Definition attribute_duplicate_fixed (h : heap) (src : option attribute) : heap * option attribute :=
    let '(h1, r) := attribute_duplicate_with named_duplicate_fixed h src in
    match r, src with
    | Some d, Some s =>
      let name_lost := match a_name d, a_name s with None, Some _ => true | _, _ => false end in
      let value_lost := match a_value d, a_value s with None, Some _ => true | _, _ => false end in
      if name_lost || value_lost then (attribute_destroy h1 (Some d), None) else (h1, r)
    | _, _ => (h1, r)
    end.

  (* ------------------------------------------------------------------ wbxml_tree_node_add_attr *)
  (* node->attrs is created on demand; the attribute is duplicated; the duplicate is appended.
     THE CODE AS IT IS: when the append fails it destroys `attr` (the CALLER's attribute) instead of `new_attr`. *)
  Inductive status := OK | ERR.
  Definition add_attr_with (destroy_caller_attr : bool) (dup : heap -> option attribute -> heap * option attribute) (h : heap) (attrs : option (wlist attribute)) (attr : attribute)
      : heap * option (wlist attribute) * status :=
    let '(h1, attrs1) := match attrs with
                         | Some l => (h, Some l)
                         | None => list_create h
                         end in
    match attrs1 with
    | None => (h1, None, ERR)
    | Some l =>
      let '(h2, d) := dup h1 (Some attr) in
      match d with
      | None => (h2, Some l, ERR)
      | Some d =>
        let '(h3, l', ok) := list_append h2 l d in
        if ok then (h3, Some l', OK)
        else (attribute_destroy h3 (Some (if destroy_caller_attr then attr else d)), Some l', ERR)
      end
    end.
  Definition add_attr := add_attr_with true attribute_duplicate.
  Definition add_attr_fixed := add_attr_with false attribute_duplicate_fixed.

  (* ------------------------------------------------------------------ parse_element: the attribute table *)
  (* do { parse_attribute(&attr); attrs_nb++; attrs = wbxml_realloc(attrs, ...); if NULL {cleanup}; attrs[nb-1] = attr } while (...)
     An attribute is abstracted to one block (parse_attribute's own unwinding is not the subject here).
     THE CODE AS IT IS: `attrs` is overwritten with NULL before free_attrs_table(attrs) is called. *)
  Definition free_attrs_table (h : heap) (table : option N) (entries : list N) : heap :=
    match table with
    | None => h                                              (* if (attrs != NULL) *)
    | Some t => free (fold_left (fun h a => free h (Some a)) entries (use h (Some t))) (Some t)
    end.

  Fixpoint attrs_loop (fixed : bool) (n : nat) (h : heap) (element : N) (table : option N) (entries : list N)
      : heap * option (N * list N) * status :=
    match n with
    | O => (h, match table with Some t => Some (t, entries) | None => None end, OK)
    | S k =>
      let '(h1, a) := alloc h in                             (* parse_attribute *)
      match a with
      | None => (free_attrs_table (free h1 (Some element)) table entries, None, ERR)
      | Some a =>
        let '(h2, t') := realloc h1 table in
        match t' with
        | None =>
          let h3 := free (free h2 (Some element)) (Some a) in      (* wbxml_tag_destroy(element); wbxml_attribute_destroy(attr) *)
          (free_attrs_table h3 (if fixed then table else None) entries, None, ERR)
        | Some t' => attrs_loop fixed k (use h2 (Some t')) element (Some t') (entries ++ [a])
        end
      end
    end.

  (* ------------------------------------------------------------------ parse_attr_start, LITERAL branch *)
  (* parse_literal gives literal_str; *name = wbxml_attribute_name_create_literal(cstr); if NULL ret = NOT_ENOUGH_MEMORY;
     wbxml_buffer_destroy(literal_str); return WBXML_OK;         <- THE CODE AS IT IS returns OK, not ret *)
  Definition attr_start_literal (fixed : bool) (h : heap) (literal_str : buffer) : heap * option named * status :=
    let '(h1, nm) := named_create_literal (use h (b_data literal_str)) in
    let h2 := buffer_destroy h1 (Some literal_str) in
    match nm with
    | None => (h2, None, if fixed then ERR else OK)
    | Some _ => (h2, nm, OK)
    end.
  (* its caller parse_attribute goes on with *name when the status is OK *)
  Definition attr_start_literal_then_use (fixed : bool) (h : heap) (literal_str : buffer) : heap * status :=
    let '(h1, nm, st) := attr_start_literal fixed h literal_str in
    match st with
    | ERR => (h1, ERR)
    | OK => match nm with
            | Some n => (named_destroy (use h1 (Some (n_blk n))) nm, OK)
            | None => (use h1 (Some 0), OK)                  (* dereferences the NULL name: block 0 never exists *)
            end
    end.

  (* ------------------------------------------------------------------ encoder: output buffer *)
  (* wbxml_tree_to_wbxml: encoder = create (1 block + the string-table list); encoder_encode_tree: init_output fails ->
     (pinned code) wbxml_encoder_destroy(encoder); return error;  the caller then destroys the encoder again. *)
  Definition encoder_run (pinned : bool) (h : heap) : heap * status :=
    let '(h1, e) := alloc h in
    match e with
    | None => (h1, ERR)
    | Some e =>
      let '(h2, l) := alloc h1 in                               (* the string-table list *)
      match l with
      | None => (free h2 (Some e), ERR)
      | Some l =>
        let destroy h := free (free (use h (Some e)) (Some l)) (Some e) in
        let '(h3, out) := buffer_create h2 false in             (* encoder_init_output *)
        match out with
        | None => (destroy (if pinned then destroy h3 else h3), ERR)
        | Some o => (destroy (buffer_destroy h3 (Some o)), OK)
        end
      end
    end.
End Heap.

Arguments mkList {A} l_blk l_elts.
Arguments l_blk {A} w.
Arguments l_elts {A} w.

(* initial heaps, given the oracle for the requests of the function under study *)
Definition heap0 (o : list bool) : heap := mkHeap 1 [] [] 0 [] o.
(* a heap in which the caller already owns the blocks `live` (all < next) *)
Definition heap_with (o : list bool) (live : list N) (next : N) : heap := mkHeap next live [] 0 [] o.

Definition clean (h : heap) : Prop := h_bad h = [].
Definition nofail : list bool := [].
(* "the k-th request (counted from 0) fails, no other" *)
Definition single (k : nat) : list bool := repeat false k ++ [true].

(* ====================================================================== *)
(* the encoder's string-table elements (wbxml_encoder.c): who owns the buffer                                   *)
(*   wbxml_strtbl_element_create / _destroy, wbxml_strtbl_add_element, wbxml_encode_tag_literal /                *)
(*   wbxml_encode_attr_start_literal (defect D23), the public-id part of wbxml_fill_header (defect D22).         *)
(* An element with stat = FALSE OWNS its string buffer: destroying the element destroys the buffer.             *)
Record selt := mkSelt { se_blk : N; se_string : buffer; se_stat : bool }.

Definition selt_create (h : heap) (b : buffer) (stat : bool) : heap * option selt :=
  let '(h1, p) := alloc h in
  match p with None => (h1, None) | Some e => (h1, Some (mkSelt e b stat)) end.
Definition selt_destroy (h : heap) (e : option selt) : heap :=
  match e with
  | None => h
  | Some e => let h0 := use h (Some (se_blk e)) in
              free (if se_stat e then h0 else buffer_destroy h0 (Some (se_string e))) (Some (se_blk e))
  end.

(* wbxml_strtbl_add_element(encoder, elt, &index, &added): a NULL list is refused; a string that is already in the
   table is reported with added = FALSE (the caller keeps the element); else the element is appended *)
Definition strtbl_add (h : heap) (tbl : option (wlist selt)) (e : selt) (already : bool)
    : heap * option (wlist selt) * bool * bool :=
  match tbl with
  | None => (h, None, false, false)
  | Some l => if already then (use h (Some (l_blk l)), tbl, true, false)
              else let '(h1, l', ok) := list_append h l e in (h1, Some l', ok, ok)
  end.

(* wbxml_encode_tag_literal / wbxml_encode_attr_start_literal.  old = the code before /repo a4c55c1:
     if (buff == NULL || elt == NULL || !add) { wbxml_strtbl_element_destroy(elt); wbxml_buffer_destroy(buff); return error; } *)
Definition encode_literal (old : bool) (h : heap) (tbl : option (wlist selt)) (already : bool)
    : heap * option (wlist selt) * status :=
  let '(h1, b) := buffer_create h true in
  match b with
  | None => (h1, tbl, ERR)
  | Some b =>
    let '(h2, e) := selt_create h1 b false in
    match e with
    | None => (buffer_destroy h2 (Some b), tbl, ERR)
    | Some e =>
      let '(h3, tbl', ok, added) := strtbl_add h2 tbl e already in
      if ok then (if added then h3 else selt_destroy h3 (Some e), tbl', OK)
      else (let h4 := selt_destroy h3 (Some e) in if old then buffer_destroy h4 (Some b) else h4, tbl', ERR)
    end
  end.

(* the public-id part of wbxml_fill_header.  old = the code before /repo dabbfe5: `pid` is destroyed again after the
   element that owns it (failure branch, and `if (pid && !added) wbxml_buffer_destroy(pid)` at the end) *)
Definition fill_header_pid (old : bool) (h : heap) (tbl : option (wlist selt)) (already : bool)
    : heap * option (wlist selt) * status :=
  let '(h1, pid) := buffer_create h true in
  match pid with
  | None => (h1, tbl, ERR)
  | Some pid =>
    let '(h2, e) := selt_create h1 pid false in
    match e with
    | None => (buffer_destroy h2 (Some pid), tbl, ERR)
    | Some e =>
      let '(h3, tbl', ok, added) := strtbl_add h2 tbl e already in
      if ok then
        let h4 := if added then h3 else selt_destroy h3 (Some e) in
        (* ... header bytes are appended ...; at the end: if (pid && !added) wbxml_buffer_destroy(pid) *)
        (if old && negb added then buffer_destroy h4 (Some pid) else h4, tbl', OK)
      else (let h4 := selt_destroy h3 (Some e) in if old then buffer_destroy h4 (Some pid) else h4, tbl', ERR)
    end
  end.

(* ====================================================================== *)
(* trace checker for the alloc / free / realloc traces recorded by harness/c16_harness.c *)
Inductive ev := EA (b : N) | EF (b : N) | ER (old new : N) | EX.     (* ER 0 n = realloc(NULL); EX = a refused request *)

Fixpoint trace_run (live : list N) (t : list ev) : option (list N) :=
  match t with
  | [] => Some live
  | EA b :: r => if mem b live then None else trace_run (b :: live) r
  | EF b :: r => if mem b live then trace_run (del b live) r else None
  | ER o n :: r =>
      if N.eqb o 0 then (if mem n live then None else trace_run (n :: live) r)
      else if mem o live then (if mem n (del o live) then None else trace_run (n :: del o live) r) else None
  | EX :: r => trace_run live r
  end.
Definition trace_ok (t : list ev) : bool :=
  match trace_run [] t with Some [] => true | _ => false end.
