(* Conversion of the tree built by Model/TreeBuild.v into the tree type of the XML generator model
   (Model/EncXml.v), so that compositions  enc_xml ... (build (parse bs))  can be stated.
   A token tag becomes the table row it was read from (found again by code page and token in the language's
   tag table; the row carries the options the generator looks at); an attribute value is the C string the
   generator reads through wbxml_attribute_get_xml_value. *)
From Coq Require Import String Ascii.
From Coq Require Import List NArith Bool.
From Wbxml Require Import Model.Codec Model.TablesDefs Model.Parser Model.TreeBuild.
From Wbxml Require Model.EncXml.
Import ListNotations.
Local Open Scope N_scope.

Definition to_tname (l : lang) (t : tagname) : EncXml.tname :=
  match t with
  | TagTok p k n =>
    match find (fun r => (t_page r =? p) && (t_tok r =? k)) (opt_list (l_tags l)) with
    | Some r => EncXml.TTok (EncXml.trow_of r)
    | None => EncXml.TLit n
    end
  | TagLit n => EncXml.TLit n
  end.

Definition to_attr (a : attrname * bytes) : EncXml.attr :=
  EncXml.mk_attr_node (match fst a with
                       | AttrTok _ _ n => EncXml.ATok (EncXml.mk_arow n)
                       | AttrLit n => EncXml.ALit n
                       end)
                      (Some (cstr (snd a))).

Definition find_lang (tbl : list lang) (id : N) : option lang := find (fun l => l_id l =? id) tbl.

Fixpoint to_xnode (tbl : list lang) (l : lang) (n : tnode) : EncXml.node :=
  match n with
  | TElt t a ch => EncXml.Elt (to_tname l t) (map to_attr a) (map (to_xnode tbl l) ch)
  | TText b => EncXml.Text b
  | TCData ch => EncXml.CData (map (to_xnode tbl l) ch)
  | TSub lid _ root =>
    let sub := match find_lang tbl lid with Some l' => l' | None => l end in
    EncXml.SubTree (option_map EncXml.xlang_of (find_lang tbl lid))
                   (match root with Some r => [to_xnode tbl sub r] | None => [] end)
  end.

(* the whole document: language of the tree, its root *)
Definition to_xroots (tbl : list lang) (t : wtree) : option (EncXml.xlang * list EncXml.node) :=
  match find_lang tbl (wt_lang t) with
  | Some l => Some (EncXml.xlang_of l, match wt_root t with Some r => [to_xnode tbl l r] | None => [] end)
  | None => None
  end.
