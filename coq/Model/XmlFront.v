(* C02 (front end) — executable model of the XML front end of libwbxml: the Expat callbacks of
   src/wbxml_tree_clb_xml.c and the XML half of src/wbxml_tree.c.  Transcribed from (line numbers of /repo 56fa004):
     wbxml_tree_clb_xml.c  wbxml_tree_clb_xml_decl (51), _doctype_decl (79), _start_element (112), _end_element (201),
                           _start_cdata (414), _end_cdata (434), _characters (464), _pi (633)
     wbxml_tree.c          wbxml_tree_from_xml (194), wbxml_tree_node_elt_get_from_name (769),
                           wbxml_tree_node_get_syncml_data_type (814), wbxml_tree_add_node (1004: the text merge),
                           wbxml_tree_add_xml_elt (1171), _add_xml_elt_with_attrs (1242), wbxml_tree_node_add_xml_attr (701),
                           wbxml_tree_add_text (1269), _add_cdata (1298), _add_tree (1322)
     wbxml_buffers.c       wbxml_buffer_decode_base64 (reused: Codec.buffer_b64_dec), wbxml_buffer_compare_cstr
     wbxml_charset.c       wbxml_charset_get_mib
     wbxml_tables.c        wbxml_tables_search_table (LangSelect.search_table), _get_code_page (Tables.page_of_xmlns),
                           _get_tag_from_xml (Tables.tag_from_xml), _get_attr_from_xml (Tables.attr_from_xml),
                           _get_table (Tables.get_table)
   Expat is an oracle: the model starts from the events Expat delivers (the harness logs them with a parser created
   exactly as wbxml_tree_from_xml creates it) and from XML_Parse's status.

   REPRESENTATION.  The C builds the tree with parent / children / next / prev pointers and keeps `current`.  Every
   node the callbacks create is appended as the LAST child of `current` (or becomes the root), and `current` only ever
   moves to the node just created or to its parent.  So `current` is always on the right-most spine of the tree, and the
   tree under construction is represented as a zipper along that spine:
     c_spine = the frames of `current` and its ancestors, innermost first ([] <-> current == NULL); a frame carries the
               node's own data and its already completed children, most recent first (the C's "last child" is the head);
     c_root  = tree->root when `current` is NULL (a root that is not on the spine any more, or a text node that
               became the root);
   the parent chain of `current` is the spine itself, so the depth the C recomputes by walking `parent` pointers is
   `length c_spine` — there is no cached depth counter that could drift.
   The produced nodes are the ones Model/EncWbxml.v consumes.

   NOT MODELLED: allocation failure (every wbxml_malloc succeeds; C16 covers the failure paths), UTF-16 builds of
   Expat (expat_utf16 is FALSE in the pinned configuration).  Three situations that Expat can never produce but an
   arbitrary event list can are marked with error codes that are not C codes (E_UB_NULL, E_OUTSIDE_MODEL); theorems in
   Proofs/XmlFrontProofs.v show they are unreachable from the initial context for bracketed event lists / at all.
   No proofs here. *)
From Coq Require Import List NArith String Ascii Bool.
From Wbxml Require Import Model.TablesDefs Model.Tables Model.Codec Model.LangSelect Model.EncWbxml.
Import ListNotations.
Local Open Scope N_scope.

(* ------------------------------------------------------------------ *)
(* Expat events (handler kinds registered by wbxml_tree_from_xml)      *)

Inductive event :=
| EvXmlDecl (version encoding : option bytes)                  (* XML_SetXmlDeclHandler; `standalone` is ignored by the C *)
| EvStartDoctype (name : bytes) (sysid pubid : option bytes)   (* XML_SetStartDoctypeDeclHandler *)
| EvEndDoctype                                                 (* NOT registered by the C (never delivered); kept for completeness: no effect *)
| EvStartElement (name : bytes) (attrs : list (bytes * bytes)) (byte_index : N)
                                                               (* name/attribute names as delivered by XML_ParserCreateNS(NULL,'|'):
                                                                  "namespace|local" or "local"; byte_index = XML_GetCurrentByteIndex *)
| EvEndElement (name : bytes) (byte_index : N)
| EvCharacters (ch : bytes)
| EvStartCdata
| EvEndCdata
| EvPi (target data : bytes).

(* ------------------------------------------------------------------ *)
(* error codes (wbxml_errors.h)                                        *)

Definition WBXML_OK : N := 0.
Definition E_BAD_PARAMETER : N := 12.
Definition E_INTERNAL : N := 13.
Definition E_NOT_ENOUGH_MEMORY : N := 15.
Definition E_B64_DEC : N := 19.
Definition E_NESTING_TOO_DEEP : N := 55.
Definition E_ENCODER_APPEND_DATA : N := 90.
Definition E_UNKNOWN_XML_LANGUAGE : N := 101.
Definition E_XML_PARSING_FAILED : N := 104.
(* not C codes *)
Definition E_OUTSIDE_MODEL : N := 997.   (* `current` would be a TREE node without parent: not representable; unreachable (proved) *)
Definition E_UB_NULL : N := 998.         (* the C would dereference a NULL pointer (CDATA section before the root element) *)
Definition E_NESTED_FUEL : N := 999.     (* nesting of embedded documents deeper than the fuel of tree_from_xml_fuel *)

Definition WBXML_MAX_NESTING_DEPTH : N := 1000.
Definition WBXML_TAG_OPTION_BINARY : N := 1.

Definition LANG_SYNCML10 : N := 2001.
Definition LANG_DEVINF10 : N := 2002.
Definition LANG_SYNCML11 : N := 2101.
Definition LANG_DEVINF11 : N := 2102.
Definition LANG_SYNCML12 : N := 2201.
Definition LANG_DEVINF12 : N := 2202.
Definition LANG_DMDDF12 : N := 2204.

(* ------------------------------------------------------------------ *)
(* byte-string constants                                                *)

Definition bs (s : string) : bytes := bytes_of_string s.
Definition str (b : bytes) : string := string_of_bytes b.

Definition SEP : N := 124.                                   (* WBXML_NAMESPACE_SEPARATOR '|' *)
Definition n_DevInf : bytes := Eval compute in bs "syncml:devinf|DevInf".
Definition n_MgmtTree : bytes := Eval compute in bs "syncml:dmddf1.2|MgmtTree".
Definition s_Data : bytes := Eval compute in bs "Data".
Definition s_Meta : bytes := Eval compute in bs "Meta".
Definition s_Type : bytes := Eval compute in bs "Type".
Definition s_Add : bytes := Eval compute in bs "Add".
Definition s_Replace : bytes := Eval compute in bs "Replace".
Definition close_DevInf : bytes := Eval compute in bs "</DevInf>".
Definition close_MgmtTree : bytes := Eval compute in bs "</MgmtTree>".

Definition is_embedded_name (name : bytes) : bool := beq name n_DevInf || beq name n_MgmtTree.

(* ------------------------------------------------------------------ *)
(* the tree under construction                                          *)

Inductive fkind :=
| FElt (tag : tagname) (attrs : list attr) (content : option bytes)   (* content = node->content of an ELEMENT node: the
                                                                          base64 text cached for a binary-flagged tag *)
| FCData.

Record frame := mk_frame { f_kind : fkind; f_rkids : list node }.     (* completed children, most recent first *)

(* what wbxml_tree_from_xml hands out: tree->lang->langID (0 = no language), tree->orig_charset, tree->root chain *)
Record xtree := mk_xtree { xt_lang : N; xt_charset : N; xt_roots : list node }.

Record ctx := mk_ctx {
  c_lang : option lang;        (* tree->lang *)
  c_charset : N;               (* tree->orig_charset (WBXML_CHARSET_UNKNOWN = 0) *)
  c_page : N;                  (* tree->cur_code_page (WB_UTINY) *)
  c_root : option node;        (* tree->root while current == NULL *)
  c_spine : list frame;        (* current and its ancestors, innermost first *)
  c_error : N;                 (* tree_ctx->error *)
  c_skip_lvl : N;              (* WB_ULONG *)
  c_skip_start : N             (* WB_LONG, a byte index of the input *)
}.

Definition init_ctx : ctx := mk_ctx None 0 0 None [] WBXML_OK 0 0.

Definition set_error (c : ctx) (e : N) : ctx :=
  mk_ctx (c_lang c) (c_charset c) (c_page c) (c_root c) (c_spine c) e (c_skip_lvl c) (c_skip_start c).
Definition set_spine (c : ctx) (sp : list frame) : ctx :=
  mk_ctx (c_lang c) (c_charset c) (c_page c) (c_root c) sp (c_error c) (c_skip_lvl c) (c_skip_start c).
Definition set_root (c : ctx) (r : option node) : ctx :=
  mk_ctx (c_lang c) (c_charset c) (c_page c) r (c_spine c) (c_error c) (c_skip_lvl c) (c_skip_start c).
Definition set_skip (c : ctx) (lvl start : N) : ctx :=
  mk_ctx (c_lang c) (c_charset c) (c_page c) (c_root c) (c_spine c) (c_error c) lvl start.
Definition set_lang (c : ctx) (l : option lang) : ctx :=
  mk_ctx l (c_charset c) (c_page c) (c_root c) (c_spine c) (c_error c) (c_skip_lvl c) (c_skip_start c).
Definition set_charset (c : ctx) (cs : N) : ctx :=
  mk_ctx (c_lang c) cs (c_page c) (c_root c) (c_spine c) (c_error c) (c_skip_lvl c) (c_skip_start c).
Definition set_page (c : ctx) (p : N) : ctx :=
  mk_ctx (c_lang c) (c_charset c) p (c_root c) (c_spine c) (c_error c) (c_skip_lvl c) (c_skip_start c).

(* children in document order *)
Definition kids_of (f : frame) : list node := rev_append (f_rkids f) [].

(* the node a frame stands for, once all its children are there.  A cached base64 buffer is not part of the node the
   encoder sees (EncWbxml.node has no such field); the end-element callback empties it before the node is left. *)
Definition reify (f : frame) : node :=
  match f_kind f with
  | FElt tag attrs _ => NElt tag attrs (kids_of f)
  | FCData => NCData (kids_of f)
  end.

Definition add_kid (f : frame) (n : node) : frame := mk_frame (f_kind f) (n :: f_rkids f).

(* wbxml_tree_add_node with a TEXT node and parent = this frame: "EXPAT splits &lt;html&gt; into three separate text
   nodes": when the last child is a text node the two are joined *)
Definition add_text_kid (f : frame) (text : bytes) : frame :=
  match f_rkids f with
  | NText t :: r => mk_frame (f_kind f) (NText (t ++ text) :: r)
  | _ => add_kid f (NText text)
  end.

(* current = current->parent.  The node left behind is complete. *)
Definition go_up (c : ctx) : ctx :=
  match c_spine c with
  | [] => c
  | [f] => set_root (set_spine c []) (Some (reify f))
  | f :: p :: rest => set_spine c (add_kid p (reify f) :: rest)
  end.

(* the whole tree with the open nodes closed (tree->root at any moment) *)
Fixpoint close_spine (child : option node) (sp : list frame) : option node :=
  match sp with
  | [] => child
  | f :: up => close_spine (Some (reify (match child with Some n => add_kid f n | None => f end))) up
  end.
Definition root_of (c : ctx) : option node :=
  match c_spine c with
  | [] => c_root c
  | sp => close_spine None sp
  end.

(* ------------------------------------------------------------------ *)
(* strings                                                              *)

(* strrchr(name, sep): Some (before, after) around the LAST separator *)
Fixpoint split_last (sep : N) (s : bytes) : option (bytes * bytes) :=
  match s with
  | [] => None
  | x :: r =>
    match split_last sep r with
    | Some (a, b) => Some (x :: a, b)
    | None => if x =? sep then Some ([], r) else None
    end
  end.

(* s + n / first n bytes of s, with N counters (no unary numbers of the size of a document) *)
Fixpoint drop (l : bytes) (n : N) : bytes :=
  match l with
  | [] => []
  | _ :: r => if n =? 0 then l else drop r (N.pred n)
  end.
Fixpoint take (l : bytes) (n : N) : bytes :=
  match l with
  | [] => []
  | x :: r => if n =? 0 then [] else x :: take r (N.pred n)
  end.

(* ------------------------------------------------------------------ *)
(* wbxml_charset_get_mib                                                *)

Definition charset_entries : list (string * N) :=
  [("US-ASCII", 3); ("ISO-8859-1", 4); ("ISO-8859-2", 5); ("ISO-8859-3", 6); ("ISO-8859-4", 7); ("ISO-8859-5", 8);
   ("ISO-8859-6", 9); ("ISO-8859-7", 10); ("ISO-8859-8", 11); ("ISO-8859-9", 12); ("Shift_JIS", 17); ("UTF-8", 106);
   ("ISO-10646-UCS-2", 1000); ("UTF-16", 1015); ("Big5", 2026)]%string.

Definition charset_get_mib (name : bytes) : option N :=
  option_map snd (find (fun e => Tables.strcaseeq (str name) (fst e)) charset_entries).

(* ------------------------------------------------------------------ *)
(* name resolution: wbxml_tree_add_xml_elt / wbxml_tree_node_add_xml_attr *)

(* the tag of a new element and tree->cur_code_page afterwards *)
Definition resolve_tag (l : lang) (name : bytes) : tagname * N :=
  let '(ns, local) := match split_last SEP name with
                      | Some (a, b) => (a, b)
                      | None => ([], name)          (* namespace = the empty string at the end of the name *)
                      end in
  let page := page_of_xmlns l (str ns) in
  match tag_from_xml l (Some page) (str local) with
  | Some row => (TagTok (t_page row) (t_tok row) (t_opts row) (bs (t_name row)), t_page row)
  | None => (TagLit local, page)
  end.

Definition resolve_attr (l : lang) (nv : bytes * bytes) : attr :=
  let '(name, value) := nv in
  match fst (attr_from_xml l (str name) (Some (str value))) with
  | Some row => mk_at (AttrTok (a_page row) (a_tok row) (bs (a_name row)) (option_map bs (a_value row))) value
  | None => mk_at (AttrLit name) value
  end.

(* ------------------------------------------------------------------ *)
(* wbxml_tree_node_get_syncml_data_type                                 *)

Inductive dtype := DT_NORMAL | DT_WBXML | DT_CLEAR | DT_DIRECTORY_VCARD | DT_VCARD | DT_VCALENDAR | DT_VOBJECT.

Definition is_cdata_frame (f : frame) : bool := match f_kind f with FCData => true | _ => false end.
Definition frame_name (f : frame) : option bytes :=
  match f_kind f with FElt tag _ _ => Some (tag_xml_name tag) | FCData => None end.

(* wbxml_tree_node_elt_get_from_name(first, name, FALSE): first ELEMENT sibling with that name *)
Definition find_elt (name : bytes) (sibs : list node) : option node :=
  find (fun n => match n with NElt tag _ _ => beq (tag_xml_name tag) name | _ => false end) sibs.
Definition node_kids (n : node) : list node :=
  match n with NElt _ _ k => k | NCData k => k | _ => [] end.

(* the node of an open frame as its siblings see it: completed children, then the open child (if any) *)
Definition open_node (f : frame) (open_child : list node) : node :=
  match f_kind f with
  | FElt tag attrs _ => NElt tag attrs (kids_of f ++ open_child)
  | FCData => NCData (kids_of f ++ open_child)
  end.

Definition type_of_content (c : bytes) : option dtype :=
  if beq c (bs "application/vnd.syncml-devinf+wbxml") then Some DT_WBXML
  else if beq c (bs "application/vnd.syncml-devinf+xml") then Some DT_NORMAL
  else if beq c (bs "application/vnd.syncml.dmtnds+wbxml") then Some DT_WBXML
  else if beq c (bs "application/vnd.syncml.dmtnds+xml") then Some DT_NORMAL
  else if beq c (bs "text/clear") then Some DT_CLEAR
  else if beq c (bs "text/directory;profile=vCard") then Some DT_DIRECTORY_VCARD
  else if beq c (bs "text/x-vcard") then Some DT_VCARD
  else if beq c (bs "text/x-vcalendar") then Some DT_VCALENDAR
  else None.

(* <Meta> among `sibs`, then <Type> among its children *)
Definition meta_type (sibs : list node) : option node :=
  match find_elt s_Meta sibs with
  | Some m => find_elt s_Type (node_kids m)
  | None => None
  end.

(* None = the C dereferences NULL (a CDATA node without parent) *)
Definition syncml_data_type (spine : list frame) : option dtype :=
  match spine with
  | [] => Some DT_NORMAL                                   (* node == NULL *)
  | f0 :: up0 =>
    (* in a CDATA node look at the parent *)
    let '(inner, sp) := if is_cdata_frame f0 then ([reify f0], up0) else ([], spine) in
    match sp with
    | [] => None
    | fN :: up =>
      match f_kind fN with
      | FElt tag _ _ =>
        if beq (tag_xml_name tag) s_Data then
          let nodeN := open_node fN inner in
          let first := match up with
                       | fP :: _ => meta_type (kids_of fP ++ [nodeN])
                       | [] => None
                       end in
          let found := match first with
                       | Some t => Some t
                       | None => match up with
                                 | fP :: fG :: _ => meta_type (kids_of fG ++ [open_node fP [nodeN]])
                                 | _ => None
                                 end
                       end in
          let by_type := match found with
                         | Some t => match node_kids t with
                                     | NText c :: _ => type_of_content c
                                     | _ => None
                                     end
                         | None => None
                         end in
          match by_type with
          | Some d => Some d
          | None =>
            (* hack: any <Data> inside an <Item> of <Add> or <Replace> is a vObject *)
            match up with
            | _ :: fG :: _ =>
              match frame_name fG with
              | Some n => if beq n s_Add || beq n s_Replace then Some DT_VOBJECT else Some DT_NORMAL
              | None => Some DT_NORMAL
              end
            | _ => Some DT_NORMAL
            end
          end
        else Some DT_NORMAL
      | FCData => Some DT_NORMAL
      end
    end
  end.

(* ------------------------------------------------------------------ *)
(* the callbacks                                                        *)

Section Front.
  Variable main : list lang.                   (* wbxml_tables_get_main() *)
  Variable sub : bytes -> xtree + N.           (* the nested wbxml_tree_from_xml on an embedded document *)
  Variable input : bytes.                      (* tree_ctx->input_buff *)

  (* wbxml_tree_clb_xml_decl — no error check, no skip check *)
  Definition on_xml_decl (c : ctx) (version encoding : option bytes) : ctx :=
    match version, encoding with
    | Some _, Some enc => match charset_get_mib enc with Some mib => set_charset c mib | None => c end
    | _, _ => c
    end.

  (* wbxml_tree_clb_xml_doctype_decl — no error check, no skip check *)
  Definition on_start_doctype (c : ctx) (sysid pubid : option bytes) : ctx :=
    match search_table main (option_map str pubid) (option_map str sysid) None with
    | Some l => set_lang c (Some l)
    | None => c
    end.

  (* wbxml_tree_add_node(tree, current, <new ELEMENT or CDATA node>) followed by current = node.
     NULL parent: the node becomes the root unless there is one already (then the C's callers report `err`). *)
  Definition push_frame (c : ctx) (f : frame) (err : N) : ctx :=
    match c_spine c with
    | [] => match c_root c with
            | None => set_spine c [f]
            | Some _ => set_error c err
            end
    | sp => set_spine c (f :: sp)
    end.

  (* wbxml_tree_add_text(tree, current, text, len); `current` does not move *)
  Definition add_text (c : ctx) (text : bytes) : ctx :=
    match c_spine c with
    | [] => match c_root c with
            | None => set_root c (Some (NText text))     (* a text node becomes the root *)
            | Some _ => set_error c E_INTERNAL
            end
    | f :: up => set_spine c (add_text_kid f text :: up)
    end.

  (* flush_binary_content: the first part of wbxml_tree_clb_xml_end_element (runs BEFORE the error and skip checks), and,
     since /repo c0648d3, also run by wbxml_tree_clb_xml_start_element before the child element is added *)
  Definition flush_binary (c : ctx) : ctx :=
    match c_spine c with
    | f :: up =>
      match f_kind f with
      | FElt (TagTok p t opts nm) attrs (Some content) =>
        if negb (N.land opts WBXML_TAG_OPTION_BINARY =? 0) then
          let f0 := mk_frame (FElt (TagTok p t opts nm) attrs None) (f_rkids f) in      (* node->content = NULL *)
          match buffer_b64_dec content with
          | None => set_error (set_spine c (f0 :: up)) E_B64_DEC
          | Some dec => set_spine c (add_text_kid f0 dec :: up)
          end
        else c
      | _ => c
      end
    | [] => c
    end.

  (* the tail of the start-element callback: depth check, then the element node is added below `current` *)
  Definition start_child (c1 : ctx) (name : bytes) (attrs : list (bytes * bytes)) : ctx :=
    if negb (c_error c1 =? WBXML_OK) then c1
    else if WBXML_MAX_NESTING_DEPTH <=? N.of_nat (List.length (c_spine c1))     (* parents of `current`, counted *)
    then set_error c1 E_NESTING_TOO_DEEP
    else
      match c_lang c1 with
      | None => set_error c1 E_UB_NULL                       (* tree->lang->nsTable with tree->lang == NULL *)
      | Some l =>
        let '(tag, page) := resolve_tag l name in
        let c2 := set_page c1 page in
        (* attrs != NULL && *attrs != NULL: the attribute list exists only when there is an attribute *)
        push_frame c2 (mk_frame (FElt tag (map (resolve_attr l) attrs) None) []) E_NOT_ENOUGH_MEMORY
      end.

  Definition on_start_element (c : ctx) (name : bytes) (attrs : list (bytes * bytes)) (byte_index : N) : ctx :=
    if negb (c_error c =? WBXML_OK) then c
    else if 0 <? c_skip_lvl c then set_skip c (u32 (c_skip_lvl c + 1)) (c_skip_start c)
    else
      (* the root element decides the language when the DOCTYPE did not *)
      let c1 := match c_spine c, c_lang c with
                | [], None =>
                  match search_table main None None (Some (str name)) with
                  | None => set_error c E_UNKNOWN_XML_LANGUAGE
                  | Some l => set_lang c (Some l)
                  end
                | _, _ => c
                end in
      if negb (c_error c1 =? WBXML_OK) then c1
      else if is_embedded_name name && negb (match c_spine c1 with [] => true | _ => false end)
      then set_skip c1 (u32 (c_skip_lvl c1 + 1)) byte_index
      else
        (* base64 text of a binary-flagged parent read so far comes before this child (since /repo c0648d3) *)
        start_child (flush_binary c1) name attrs.

  (* "<!DOCTYPE root PUBLIC "pubid" "dtd">\n" ++ input[skip_start, index) ++ "</DevInf>" *)
  Definition embedded_doc (l : lang) (start index : N) (closing : bytes) : option bytes :=
    match l_root l, l_pub_text l, l_dtd l with
    | Some root, Some pub, Some dtd =>
      Some (bs "<!DOCTYPE " ++ bs root ++ bs " PUBLIC """ ++ bs pub ++ bs """ """ ++ bs dtd ++ bs """>" ++ [10]
            ++ take (drop input start) (index - start) ++ closing)
    | _, _, _ => None                                   (* wbxml_buffer_insert_cstr(NULL) fails *)
    end.

  (* the tail of the end-element callback: leave `current` *)
  Definition leave_current (c : ctx) : ctx :=
    match c_spine c with
    | [] => set_error c E_INTERNAL
    | [_] => c                                             (* the root element: current stays *)
    | f :: _ :: _ => if is_cdata_frame f then go_up (go_up c) else go_up c     (* a missing CDATA section was added *)
    end.

  Definition on_end_element (c0 : ctx) (name : bytes) (byte_index : N) : ctx :=
    let c := flush_binary c0 in
    if negb (c_error c =? WBXML_OK) then c
    else if 0 <? c_skip_lvl c then
      if c_skip_lvl c =? 1 then
        if is_embedded_name name then
          let is_ddf := beq name n_MgmtTree in
          match c_lang c with
          | None => set_error c E_UB_NULL                        (* tree->lang->langID with tree->lang == NULL *)
          | Some tl =>
            if is_ddf && negb (l_id tl =? LANG_SYNCML12) then set_error c E_UNKNOWN_XML_LANGUAGE
            else
              let target := if l_id tl =? LANG_SYNCML10 then Some LANG_DEVINF10
                            else if l_id tl =? LANG_SYNCML11 then Some LANG_DEVINF11
                            else if l_id tl =? LANG_SYNCML12 then Some (if is_ddf then LANG_DMDDF12 else LANG_DEVINF12)
                            else None in
              match target with
              | None => set_error c E_UNKNOWN_XML_LANGUAGE
              | Some id =>
                match get_table main id with
                | None => set_error c E_UNKNOWN_XML_LANGUAGE
                | Some l =>
                  match embedded_doc l (c_skip_start c) byte_index (if is_ddf then close_MgmtTree else close_DevInf) with
                  | None => set_error c E_ENCODER_APPEND_DATA
                  | Some doc =>
                    match sub doc with
                    | inr e => set_error c e
                    | inl t =>
                      (* wbxml_tree_add_tree, current = the TREE node, skip_lvl = 0, then the tail of the callback
                         goes back to the TREE node's parent *)
                      match c_spine c with
                      | [] => match c_root c with
                              | Some _ => set_error c E_INTERNAL            (* wbxml_tree_add_tree fails: there is a root already *)
                              | None => set_error c E_OUTSIDE_MODEL         (* the TREE node would become the root and `current` *)
                              end
                      | f :: up => set_skip (set_spine c (add_kid f (NTree (xt_lang t) (xt_roots t)) :: up)) 0 (c_skip_start c)
                      end
                    end
                  end
                end
              end
          end
        else leave_current c                                  (* skip_lvl stays 1 *)
      else set_skip c (c_skip_lvl c - 1) (c_skip_start c)
    else leave_current c.

  Definition on_start_cdata (c : ctx) : ctx :=
    if negb (c_error c =? WBXML_OK) then c
    else if 0 <? c_skip_lvl c then c
    else push_frame c (mk_frame FCData []) E_INTERNAL.

  Definition on_end_cdata (c : ctx) : ctx :=
    if negb (c_error c =? WBXML_OK) then c
    else if 0 <? c_skip_lvl c then c
    else match c_spine c with
         | [] => set_error c E_INTERNAL
         | [_] => c
         | _ :: _ :: _ => go_up c
         end.

  Definition first_kid_is_cdata (f : frame) : bool :=
    match kids_of f with NCData _ :: _ => true | _ => false end.

  Definition is_binary_frame (f : frame) : bool :=
    match f_kind f with
    | FElt (TagTok _ _ opts _) _ _ => negb (N.land opts WBXML_TAG_OPTION_BINARY =? 0)
    | _ => false
    end.

  (* previous_text_ends_with_cr (since the LF-hack fix, props/C02/LF-hack-fix.patch): the text a new piece of character
     data will be joined with — the base64 text cached on a binary-flagged element, else the last child when it is a
     text node — ends with a CR.  Expat delivers "&#13;&#10;" as "\r" then "\n": that LF has its CR already. *)
  Definition ends_cr (b : bytes) : bool := last b 0 =? 13.
  Definition prev_ends_cr (spine : list frame) : bool :=
    match spine with
    | [] => false                                            (* node == NULL *)
    | f :: _ =>
      if is_binary_frame f then
        match f_kind f with
        | FElt _ _ (Some content) => ends_cr content
        | _ => false
        end
      else match f_rkids f with
           | NText t :: _ => ends_cr t
           | _ => false
           end
    end.

  Definition on_characters (c : ctx) (ch : bytes) : ctx :=
    if negb (c_error c =? WBXML_OK) then c
    else if 0 <? c_skip_lvl c then c
    else
      match syncml_data_type (c_spine c) with
      | None => set_error c E_UB_NULL
      | Some dt =>
        let '(ch1, want_cdata) :=
            match dt with
            | DT_DIRECTORY_VCARD | DT_VCALENDAR | DT_VCARD | DT_VOBJECT =>
              ((match ch with [10] => if prev_ends_cr (c_spine c) then ch else [13; 10] | _ => ch end), true)
                                                                          (* a lone LF becomes CR LF unless the CR is there *)
            | DT_CLEAR => (ch, true)
            | _ => (ch, false)
            end in
        (* add a missing CDATA section unless we are in one or the first child is one *)
        let c1 := match c_spine c with
                  | f :: _ => if want_cdata && negb (is_cdata_frame f) && negb (first_kid_is_cdata f)
                              then push_frame c (mk_frame FCData []) E_INTERNAL else c
                  | [] => c
                  end in
        match c_spine c1 with
        | f :: up =>
          if is_binary_frame f then
            (* cache the base64 text on the element *)
            match f_kind f with
            | FElt tag attrs content =>
              set_spine c1 (mk_frame (FElt tag attrs (Some (match content with Some b => b ++ ch1 | None => ch1 end))) (f_rkids f) :: up)
            | FCData => c1
            end
          else add_text c1 ch1
        | [] => add_text c1 ch1
        end
      end.

  (* wbxml_tree_clb_xml_pi *)
  Definition on_pi (c : ctx) : ctx := c.

  Definition step (c : ctx) (e : event) : ctx :=
    match e with
    | EvXmlDecl v enc => on_xml_decl c v enc
    | EvStartDoctype _ sysid pubid => on_start_doctype c sysid pubid
    | EvEndDoctype => c
    | EvStartElement name attrs idx => on_start_element c name attrs idx
    | EvEndElement name idx => on_end_element c name idx
    | EvCharacters ch => on_characters c ch
    | EvStartCdata => on_start_cdata c
    | EvEndCdata => on_end_cdata c
    | EvPi _ _ => on_pi c
    end.

  Definition run (c : ctx) (evs : list event) : ctx := fold_left step evs c.

  Definition tree_of_ctx (c : ctx) : xtree :=
    mk_xtree (match c_lang c with Some l => l_id l | None => 0 end) (c_charset c)
             (match root_of c with Some r => [r] | None => [] end).

  (* wbxml_tree_from_xml: `events` and `expat_ok` are what Expat delivers for `input` (XML_Parse(...) != 0) *)
  Definition tree_from_xml (events : list event) (expat_ok : bool) : xtree + N :=
    match input with
    | [] => inr E_BAD_PARAMETER                       (* xml_len == 0 *)
    | _ =>
      let c := run init_ctx events in
      if negb expat_ok then inr E_XML_PARSING_FAILED     (* the tree is destroyed *)
      else if negb (c_error c =? WBXML_OK) then inr (c_error c)
      else inl (tree_of_ctx c)
    end.
End Front.

(* ------------------------------------------------------------------ *)
(* the whole function with Expat as a parameter: the nested parse is the function itself *)

Section Whole.
  Variable main : list lang.
  Variable expat : bytes -> list event * bool.       (* the oracle: events delivered and XML_Parse's verdict *)

  Fixpoint tree_from_xml_fuel (fuel : nat) (input : bytes) : xtree + N :=
    let sub := match fuel with
               | O => fun _ => inr E_NESTED_FUEL
               | S k => tree_from_xml_fuel k
               end in
    tree_from_xml main sub input (fst (expat input)) (snd (expat input)).
End Whole.
