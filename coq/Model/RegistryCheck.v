(* C09 — boolean checkers comparing a pinned registry (list lang) with the current main table.
   Specification side: "every published row is still understood identically". The lookups used are
   the model's transcriptions of the library's own scans (Model/Tables.v). *)
From Coq Require Import List NArith String Bool.
From Wbxml Require Import Model.TablesDefs Model.Tables.
Import ListNotations.
Local Open Scope N_scope.

Definition ostr_eqb (a b : option string) : bool :=
  match a, b with
  | Some x, Some y => String.eqb x y
  | None, None => true
  | _, _ => false
  end.

Definition on_eqb (a b : option N) : bool :=
  match a, b with
  | Some x, Some y => N.eqb x y
  | None, None => true
  | _, _ => false
  end.

(* ---- decoding direction: what a deployed peer wrote is read identically now *)

(* a row is kept when (a) the token it is bound to decodes now to what it decoded to in the registry
   (first match in both: for the one alias pair of the registry, AirSync page 14 token 0x10, both
   rows are compared with the registry's own first match) and (b) the row itself is still in the
   table (nothing disappears) *)
Definition tag_row_eqb (a b : tag_row) : bool :=
  String.eqb (t_name a) (t_name b) && (t_page a =? t_page b) && (t_tok a =? t_tok b) && (t_opts a =? t_opts b).
Definition attr_row_eqb (a b : attr_row) : bool :=
  String.eqb (a_name a) (a_name b) && ostr_eqb (a_value a) (a_value b) && (a_page a =? a_page b) && (a_tok a =? a_tok b).
Definition val_row_eqb (a b : val_row) : bool :=
  String.eqb (v_name a) (v_name b) && (v_page a =? v_page b) && (v_tok a =? v_tok b).
Definition ext_row_eqb (a b : ext_row) : bool :=
  String.eqb (e_name a) (e_name b) && (e_tok a =? e_tok b).

Definition tag_row_kept (cur reg : lang) (r : tag_row) : bool :=
  match tag_of_token cur (t_page r) (t_tok r), tag_of_token reg (t_page r) (t_tok r) with
  | Found r', Found r0 => String.eqb (t_name r') (t_name r0) && (t_opts r' =? t_opts r0)
  | _, _ => false
  end && existsb (tag_row_eqb r) (opt_list (l_tags cur)).

Definition attr_row_kept (cur reg : lang) (r : attr_row) : bool :=
  match attr_of_token cur (a_page r) (a_tok r), attr_of_token reg (a_page r) (a_tok r) with
  | Found r', Found r0 => String.eqb (a_name r') (a_name r0) && ostr_eqb (a_value r') (a_value r0)
  | _, _ => false
  end && existsb (attr_row_eqb r) (opt_list (l_attrs cur)).

Definition val_row_kept (cur reg : lang) (r : val_row) : bool :=
  match val_of_token cur (v_page r) (v_tok r), val_of_token reg (v_page r) (v_tok r) with
  | Found r', Found r0 => String.eqb (v_name r') (v_name r0)
  | _, _ => false
  end && existsb (val_row_eqb r) (opt_list (l_vals cur)).

Definition ext_row_kept (cur reg : lang) (r : ext_row) : bool :=
  match ext_of_token cur (e_tok r), ext_of_token reg (e_tok r) with
  | Found r', Found r0 => String.eqb (e_name r') (e_name r0)
  | _, _ => false
  end && existsb (ext_row_eqb r) (opt_list (l_exts cur)).

Definition ns_row_kept (cur : lang) (r : ns_row) : bool :=
  ostr_eqb (xmlns_of_page cur (ns_page r)) (Some (ns_name r)) &&
  on_eqb (page_of_xmlns_opt cur (ns_name r)) (Some (ns_page r)).

Definition header_kept (cur r : lang) : bool :=
  (l_pub_num cur =? l_pub_num r) && ostr_eqb (l_pub_text cur) (l_pub_text r) &&
  ostr_eqb (l_root cur) (l_root r) && ostr_eqb (l_dtd cur) (l_dtd r).

Definition rows_kept (cur r : lang) : bool :=
  forallb (tag_row_kept cur r) (opt_list (l_tags r)) &&
  forallb (attr_row_kept cur r) (opt_list (l_attrs r)) &&
  forallb (val_row_kept cur r) (opt_list (l_vals r)) &&
  forallb (ext_row_kept cur r) (opt_list (l_exts r)) &&
  forallb (ns_row_kept cur) (opt_list (l_ns r)).

Definition lang_kept (main : list lang) (r : lang) : bool :=
  match get_table main (l_id r) with
  | Some cur => header_kept cur r && rows_kept cur r
  | None => false
  end.

Definition registry_kept (main reg : list lang) : bool := forallb (lang_kept main) reg.

(* ---- identifiers resolve to the same language (first registered one) as in the registry *)

Definition oid (o : option lang) : option N := option_map l_id o.

Definition ids_kept (main reg : list lang) (r : lang) : bool :=
  ((l_pub_num r =? 1) || on_eqb (oid (first_by_pubnum main (l_pub_num r))) (oid (first_by_pubnum reg (l_pub_num r)))) &&
  match l_pub_text r with Some s => on_eqb (oid (first_by_pubtext main s)) (oid (first_by_pubtext reg s)) | None => true end &&
  match l_dtd r with Some s => on_eqb (oid (first_by_dtd main s)) (oid (first_by_dtd reg s)) | None => true end &&
  match l_root r with Some s => on_eqb (oid (first_by_root main s)) (oid (first_by_root reg s)) | None => true end.

Definition registry_ids_kept (main reg : list lang) : bool := forallb (ids_kept main reg) reg.

(* ---- encoding direction: what this build writes for a published name is what the registry reads *)

(* the token written now for a published name decodes, at a peer built from the registry, to the
   same thing as the published token of that row does *)
Definition tag_row_written (cur r : lang) (row : tag_row) : bool :=
  match tag_from_xml cur (Some (t_page row)) (t_name row) with
  | Some w => match tag_of_token r (t_page w) (t_tok w), tag_of_token r (t_page row) (t_tok row) with
              | Found r', Found r0 => String.eqb (t_name r') (t_name r0)
              | _, _ => false
              end
  | None => false
  end.

Definition attr_row_written (cur r : lang) (row : attr_row) : bool :=
  match attr_from_xml cur (a_name row) (a_value row) with
  | (Some w, None) => match attr_of_token r (a_page w) (a_tok w), attr_of_token r (a_page row) (a_tok row) with
                      | Found r', Found r0 => String.eqb (a_name r') (a_name r0) && ostr_eqb (a_value r') (a_value r0)
                      | _, _ => false
                      end
  | _ => false
  end.

Definition ext_row_written (cur r : lang) (row : ext_row) : bool :=
  match ext_from_xml cur (e_name row) with
  | Some w => match ext_of_token r (e_tok w), ext_of_token r (e_tok row) with
              | Found r', Found r0 => String.eqb (e_name r') (e_name r0)
              | _, _ => false
              end
  | None => false
  end.

Definition lang_written (main : list lang) (r : lang) : bool :=
  match get_table main (l_id r) with
  | Some cur =>
    forallb (tag_row_written cur r) (opt_list (l_tags r)) &&
    forallb (attr_row_written cur r) (opt_list (l_attrs r)) &&
    forallb (ext_row_written cur r) (opt_list (l_exts r))
  | None => false
  end.

Definition registry_written (main reg : list lang) : bool := forallb (lang_written main) reg.
