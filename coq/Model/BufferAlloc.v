(* C19 — the buffer and list operations with an allocation-failure oracle.

   Every request the library makes to wbxml_malloc / wbxml_realloc during one operation consumes
   one element of the oracle (`true` = granted, `false` = refused, exhausted = granted).  The
   requests, in the order the C issues them:
     create_real        the struct, then (non-empty data whose 32-bit size did not wrap) the data block
     sta_create_real    the struct
     duplicate          = create_real (contents, len, len)
     grow_buff          one realloc, and only when len + size + 1 > malloced
                        (after b1acd9a a refused realloc leaves data and malloced as they were)
     insert_data        grow_buff           (insert, insert_cstr, append*, append_char, append_mb_uint_32)
     binary_to_hex      grow_buff (len * 2)  (after 809e5e3 a refusal returns FALSE before any store)
     decode_base64      the result block of wbxml_base64_decode (always requested), then grow_buff via append_data
     encode_base64      the result block of wbxml_base64_encode (non-empty input only), then grow_buff via append_cstr
     split_words        the list, then per word: struct, data block, list element
                        (after 818cbfc any refusal destroys what was built and returns NULL)
     list create / append / insert   one block each (append / insert: not for a NULL item)
   set_char, delete, shrink_blanks, strip_blanks, no_spaces, hex_to_binary, remove_trailing_zeros and
   all read-only functions never allocate.

   Where the C does nothing between the refusal and `return FALSE`, the model says exactly that:
   "the request is refused and the buffer is returned as it is, or the request is granted and the
   function is the one of BufferModel.v".  Definitions only. *)
From Coq Require Import List NArith Bool Arith.
From Wbxml Require Import Model.Codec Model.BufferModel Model.ListModel.
Import ListNotations.

Definition oracle := list bool.

Definition alloc (o : oracle) : bool * oracle :=
  match o with [] => (true, []) | x :: r => (x, r) end.

(* n successive requests, stopping at the first refusal *)
Fixpoint alloc_n (n : nat) (o : oracle) : bool * oracle :=
  match n with
  | O => (true, o)
  | S k => let (ok, o') := alloc o in if ok then alloc_n k o' else (false, o')
  end.

(* does grow_buff (b, size) call realloc? *)
Definition needs_realloc (b : buf) (size : nat) : bool :=
  negb (bstatic b) && (malloced b <? blen b + S size).

Definition grow_buff_a (o : oracle) (b : buf) (size : nat) : (buf * bool) * oracle :=
  if needs_realloc b size then
    let (ok, o') := alloc o in
    if ok then (grow_buff b size, o') else ((b, false), o')
  else (grow_buff b size, o).

(* a function whose only request is the one of grow_buff (b, size), made before anything is stored *)
Definition with_grow (o : oracle) (b : buf) (size : nat) (granted : buf * bool) : (buf * bool) * oracle :=
  if needs_realloc b size then
    let (ok, o') := alloc o in
    if ok then (granted, o') else ((b, false), o')
  else (granted, o).

Definition insert_data_a (o : oracle) (b : buf) (pos : N) (data : list N) : (buf * bool) * oracle :=
  if bstatic b || (length data =? 0) || (N.of_nat (blen b) <? pos)%N then ((b, false), o)
  else with_grow o b (length data) (insert_data b pos data).

Definition insert_a (o : oracle) (b src : buf) (pos : N) :=
  if bstatic b then ((b, false), o) else insert_data_a o b pos (contents src).
Definition insert_cstr_a (o : oracle) (b : buf) (str : list N) (pos : N) :=
  if bstatic b then ((b, false), o) else insert_data_a o b pos (cstr str).
Definition append_data_a (o : oracle) (b : buf) (data : list N) :=
  if bstatic b then ((b, false), o)
  else match data with [] => ((b, true), o) | _ => insert_data_a o b (N.of_nat (blen b)) data end.
Definition append_a (o : oracle) (b src : buf) :=
  if bstatic b then ((b, false), o) else append_data_a o b (contents src).
Definition append_cstr_a (o : oracle) (b : buf) (str : list N) :=
  if bstatic b then ((b, false), o) else append_data_a o b (cstr str).
Definition append_char_a (o : oracle) (b : buf) (ch : N) :=
  if bstatic b then ((b, false), o) else insert_data_a o b (N.of_nat (blen b)) [ch].
Definition append_mb_uint_32_a (o : oracle) (b : buf) (v : N) :=
  if bstatic b then ((b, false), o) else append_data_a o b (mb_write v).

Definition binary_to_hex_a (o : oracle) (b : buf) (upper : bool) : (buf * bool) * oracle :=
  if bstatic b then ((b, false), o)
  else if blen b =? 0 then ((b, true), o)
  else with_grow o b (blen b * 2) (binary_to_hex b upper).

(* None = NULL.  The struct is requested first; a size that wrapped is refused (d7df267) before the
   data block is requested *)
Definition create_a (o : oracle) (data : list N) (block : N) : option buf * oracle :=
  let (ok1, o1) := alloc o in
  if negb ok1 then (None, o1)
  else match data with
       | [] => (create_opt data block, o1)
       | _ => match create_opt data block with
              | None => (None, o1)
              | Some b => let (ok2, o2) := alloc o1 in if ok2 then (Some b, o2) else (None, o2)
              end
       end.

Definition sta_create_a (o : oracle) (data : list N) : option buf * oracle :=
  let (ok, o1) := alloc o in if ok then (Some (sta_create data), o1) else (None, o1).

Definition duplicate_a (o : oracle) (b : buf) : option buf * oracle :=
  create_a o (contents b) (N.of_nat (blen b)).

(* the white space is gone before the result block is requested; a refused block makes
   wbxml_base64_decode return 0, which the caller reports as WBXML_ERROR_B64_DEC *)
Definition decode_base64_a (o : oracle) (b : buf) : (buf * option bool) * oracle :=
  if bstatic b then ((b, Some false), o)
  else
    match no_spaces b with
    | (b1, false) => ((b1, None), o)
    | (b1, true) =>
      let (ok, o1) := alloc o in
      if negb ok then ((b1, Some false), o1)
      else
        match b64_dec (contents b1) with
        | None => ((b1, Some false), o1)
        | Some out =>
          let b2 := fst (delete b1 0%N (N.of_nat (blen b1))) in
          let '((b3, r), o2) := append_data_a o1 b2 out in ((b3, Some r), o2)
        end
    end.

(* NOTE the order in the C: the old contents are deleted BEFORE the encoded text is appended, so a
   refusal inside that append leaves the buffer EMPTY (and WBXML_ERROR_NOT_ENOUGH_MEMORY is returned) *)
Definition encode_base64_a (o : oracle) (b : buf) : (buf * option bool) * oracle :=
  if bstatic b then ((b, Some false), o)
  else
    match contents b with
    | [] => ((b, Some false), o)                         (* len <= 0: NULL without a request *)
    | _ =>
      let (ok, o1) := alloc o in
      if negb ok then ((b, Some false), o1)
      else
        match b64_enc (contents b) with
        | None => ((b, Some false), o1)
        | Some out =>
          let b2 := fst (delete b 0%N (N.of_nat (blen b))) in
          let '((b3, r), o2) := append_cstr_a o1 b2 out in ((b3, Some r), o2)
        end
    end.

(* outer None = out of fuel, inner None = NULL *)
Definition split_words_a (o : oracle) (b : buf) : option (option (list buf)) * oracle :=
  match split_words b with
  | None => (None, o)
  | Some ws => let (ok, o') := alloc_n (1 + 3 * length ws) o in (Some (if ok then Some ws else None), o')
  end.

Definition rb_a (x : (buf * bool) * oracle) : buf * ret := rb (fst x).
Definition rob_a (x : (buf * option bool) * oracle) : buf * ret := rob (fst x).
Definition made (b : buf) (x : option buf * oracle) : buf * ret :=
  match fst x with Some b' => (b', RVoid) | None => (b, RNull) end.   (* NULL: the caller keeps what it had *)

(* the second operand of insert / append / compare / search is made beforehand, outside the oracle *)
Definition step_a (o : oracle) (b : buf) (op_ : op) : buf * ret :=
  match op_ with
  | OCreate data block => made b (create_a o data block)
  | OStaCreate data => made b (sta_create_a o data)
  | ODuplicate => made b (duplicate_a o b)
  | OInsert src pos => rb_a (insert_a o b (create src 1%N) pos)
  | OInsertCstr str pos => rb_a (insert_cstr_a o b str pos)
  | OAppend src => rb_a (append_a o b (create src 1%N))
  | OAppendData data => rb_a (append_data_a o b data)
  | OAppendCstr str => rb_a (append_cstr_a o b str)
  | OAppendChar ch => rb_a (append_char_a o b ch)
  | OAppendMb v => rb_a (append_mb_uint_32_a o b v)
  | OBinToHex up => rb_a (binary_to_hex_a o b up)
  | ODecodeB64 => rob_a (decode_base64_a o b)
  | OEncodeB64 => rob_a (encode_base64_a o b)
  | OSplitWords =>
      match fst (split_words_a o b) with
      | Some (Some ws) => (b, RWords (map contents ws))
      | Some None => (b, RNull)
      | None => (b, RFuel)
      end
  | _ => step b op_                                    (* no allocation in these *)
  end.

(* ---------------------------------------------------------------------------------------- *)
(* lists                                                                                     *)

Definition lcreate_a (o : oracle) : option wlist * oracle :=
  let (ok, o1) := alloc o in if ok then (Some lcreate, o1) else (None, o1).

Definition lappend_a (o : oracle) (l : wlist) (item : N) : (wlist * bool) * oracle :=
  if (item =? 0)%N then ((l, false), o)
  else let (ok, o1) := alloc o in if ok then (lappend l item, o1) else ((l, false), o1).

Definition linsert_a (o : oracle) (l : wlist) (item pos : N) : (wlist * bool) * oracle :=
  if (item =? 0)%N then ((l, false), o)
  else let (ok, o1) := alloc o in if ok then (linsert l item pos, o1) else ((l, false), o1).

Definition lstep_a (o : oracle) (l : wlist) (op_ : lop) : wlist * lret :=
  match op_ with
  | LAppend x => let (l', r) := fst (lappend_a o l x) in (l', LRBool r)
  | LInsert x pos => let (l', r) := fst (linsert_a o l x pos) in (l', LRBool r)
  | _ => lstep l op_
  end.
