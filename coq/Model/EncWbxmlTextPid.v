(* wbxml_encoder_set_text_public_id(encoder, TRUE): "generate textual Public ID instead of token".
   The option is read at one place only (wbxml_fill_header, wbxml_encoder.c):

       if ((encoder->textual_publicid || (public_id == WBXML_PUBLIC_ID_UNKNOWN)) && !encoder->produce_anonymous)
           if (encoder->lang->publicID->xmlPublicID != NULL) ... the identifier's text goes to the string table ...

   and the numeric public id of the language is read nowhere else in the encoder (EncWbxml.v: bl_pub_num occurs in
   header_public_id only).  So, for a language that has an XML public identifier, the encoder with the option set is the
   encoder without it run on the same language with its numeric id replaced by 1 ('unknown'); for a language without
   one, the option changes nothing.  Definitions only; the tie with the C runs the real encoder with the option set
   (harness/c06_harness.c, sixth field) against [enc_wbxml_textpid]. *)
From Coq Require Import List NArith Bool.
From Wbxml Require Import Model.Codec Model.EncWbxml.
Import ListNotations.
Local Open Scope N_scope.

Definition with_text_pubid (l : blang) : blang :=
  match bl_pub_text l with
  | Some _ => mk_blang (bl_id l) 1 (bl_pub_text l) (bl_tags l) (bl_attrs l) (bl_vals l) (bl_exts l)
  | None => l
  end.

Definition enc_wbxml_textpid (tbl : list blang) (l : blang) (o : options) (roots : list node) : eres bytes :=
  enc_wbxml tbl (with_text_pubid l) o roots.
