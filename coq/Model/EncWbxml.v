(* C06 / C07 (WBXML half) — executable model of the WBXML output half of src/wbxml_encoder.c.
   Transcribed from (line numbers of the pinned tree):
     wbxml_encoder.c  encoder_encode_tree (883), parse_node / parse_single_node (998-1150), parse_element, parse_attribute (1253),
                      parse_text (1287), parse_cdata (1372), parse_pi (1407), parse_tree (1421),
                      wbxml_build_result (1450), wbxml_fill_header (1497), wbxml_encode_end (1654),
                      wbxml_encode_tag / _literal / _token (1671-1800), wbxml_encode_attr / _start /
                      _start_literal / _token (1810-1921, 2407-2479), wbxml_encode_value_element_buffer (1936),
                      wbxml_encode_value_element_list (2341), wbxml_encode_inline_string, _opaque, _tableref,
                      wbxml_encode_tree (2674), wbxml_encode_datetime (2738), wbxml_encode_wv_* (2803-3397),
                      wbxml_encode_drmrel_content (3417), wbxml_encode_ota_nokia_icon (3507),
                      wbxml_strtbl_initialize / collect_strings / collect_words / construct / check_references /
                      add_element (3615-4022)
     wbxml_tables.c   wbxml_tables_get_tag_from_xml, _get_attr_from_xml, _get_ext_from_xml,
                      _contains_attr_value_from_xml
     wbxml_buffers.c  strip_blanks, contains_only_whitespaces, search / search_cstr, compare, split_words,
                      remove_trailing_zeros
     wbxml_tree.c     wbxml_tree_to_wbxml (options -> encoder fields)
   Conventions:
   * bytes are N < 256, WB_ULONG is N with explicit u32 where the C can wrap;
   * the output buffer is write-only during encoding, so every function RETURNS the bytes it appends
     (in order) instead of threading `encoder->output`; the remaining encoder fields are the record [est];
   * the tree is the C's tree (children/next chains = lists);
   * the string table owns its strings (since the repair of D7, /repo 6829a7f: an entry promoted from the tree is a
     copy), so trimming a text node in place (parse_text) cannot change an entry any more and the model keeps no
     buffer identities;
   * no proofs here.                                                                              *)
From Coq Require Import List NArith Bool.
From Wbxml Require Import Model.Codec.
Import ListNotations.
Local Open Scope N_scope.

Definition bytes := list N.

(* the token tables with names as bytes (converted from Gen/TablesData.v by [blang_of_lang] in
   Model/EncWbxmlTables.v, so that the extracted model does not depend on Coq's string type) *)
Record btag := mk_btag { bt_name : bytes; bt_page : N; bt_tok : N; bt_opts : N }.
Record battr := mk_battr { ba_name : bytes; ba_value : option bytes; ba_page : N; ba_tok : N }.
Record bval := mk_bval { bv_name : bytes; bv_page : N; bv_tok : N }.
Record bext := mk_bext { be_name : bytes; be_tok : N }.
Record blang := mk_blang {
  bl_id : N;                         (* WBXMLLanguage enum value *)
  bl_pub_num : N;                    (* WBXML public id *)
  bl_pub_text : option bytes;        (* XML public id *)
  bl_tags : option (list btag);
  bl_attrs : option (list battr);
  bl_vals : option (list bval);
  bl_exts : option (list bext)
}.

(* ------------------------------------------------------------------ *)
(* results: WBXMLError numeric codes (wbxml_errors.h)                  *)

Inductive eres (A : Type) := EOk (a : A) | EErr (code : N).
Arguments EOk {A} a.
Arguments EErr {A} code.

Definition E_BAD_DATETIME : N := 11.
Definition E_BAD_PARAMETER : N := 12.
Definition E_INTERNAL : N := 13.
Definition E_NOT_IMPLEMENTED : N := 16.
Definition E_WV_DATETIME_FORMAT : N := 20.
Definition E_UNKNOWN_TAG : N := 65.
Definition E_STRTBL_DISABLED : N := 100.
Definition E_OUT_OF_FUEL : N := 999.      (* not a C code: the C would not terminate (empty search string) *)

Notation "'do' x <- a ; b" := (match a with EOk x => b | EErr e => EErr e end)
  (at level 200, x pattern, a at level 100, b at level 200).

(* ------------------------------------------------------------------ *)
(* the tree (wbxml_tree.h, wbxml_elt.h)                                 *)

Inductive tagname :=
| TagTok (page tok opts : N) (name : bytes)     (* WBXML_VALUE_TOKEN: const WBXMLTagEntry * *)
| TagLit (name : bytes).                        (* WBXML_VALUE_LITERAL *)

Inductive attrname :=
| AttrTok (page tok : N) (name : bytes) (val : option bytes)   (* const WBXMLAttrEntry *: xmlName, xmlValue *)
| AttrLit (name : bytes).

Record attr := mk_at { at_name : attrname; at_value : bytes }.

Inductive node :=
| NElt (tag : tagname) (attrs : list attr) (children : list node)   (* attrs = [] <-> node->attrs == NULL *)
| NText (content : bytes)
| NCData (children : list node)
| NPi
| NTree (lang_id : N) (roots : list node).      (* WBXML_TREE_TREE_NODE: node->tree (blang, root chain) *)

Definition tag_xml_name (t : tagname) : bytes :=
  match t with TagTok _ _ _ n => n | TagLit n => n end.
Definition attr_xml_name (a : attr) : bytes :=
  match at_name a with AttrTok _ _ n _ => n | AttrLit n => n end.

(* WBXMLGenWBXMLParams as applied by wbxml_tree_to_wbxml *)
Record options := mk_opts {
  o_version : N;          (* WBXML_VERSION_10..13 = 0..3 *)
  o_use_strtbl : bool;
  o_keep_ws : bool;       (* keep_ignorable_ws: when false, ignore_empty_text and remove_text_blanks are set *)
  o_anonymous : bool
}.

(* ------------------------------------------------------------------ *)
(* C library helpers                                                    *)

Definition isspace (c : N) : bool := (c =? 32) || ((9 <=? c) && (c <=? 13)).
Definition isdigit (c : N) : bool := (48 <=? c) && (c <=? 57).
Definition len (b : bytes) : N := N.of_nat (List.length b).

Fixpoint beq (a b : bytes) : bool :=
  match a, b with
  | [], [] => true
  | x :: a', y :: b' => (x =? y) && beq a' b'
  | _, _ => false
  end.

Fixpoint is_prefix (p s : bytes) : bool :=
  match p, s with
  | [], _ => true
  | x :: p', y :: s' => (x =? y) && is_prefix p' s'
  | _ :: _, [] => false
  end.

(* first occurrence of a non-empty needle (wbxml_buffer_search / _search_cstr / strstr) *)
Fixpoint find_sub (needle s : bytes) : option N :=
  if is_prefix needle s then Some 0
  else match s with
       | [] => None
       | _ :: r => match find_sub needle r with Some k => Some (k + 1) | None => None end
       end.

Definition tolower (c : N) : N := if (65 <=? c) && (c <=? 90) then c + 32 else c.
Definition strcaseeq (a b : bytes) : bool := beq (map tolower a) (map tolower b).


(* List.rev, linear *)
Definition frev (b : bytes) : bytes := rev_append b [].

(* wbxml_buffer_contains_only_whitespaces *)
Definition only_ws (b : bytes) : bool := forallb isspace b.

(* wbxml_buffer_strip_blanks *)
Fixpoint drop_ws (b : bytes) : bytes :=
  match b with c :: r => if isspace c then drop_ws r else b | [] => [] end.
Definition strip_blanks (b : bytes) : bytes := frev (drop_ws (frev (drop_ws b))).

(* wbxml_buffer_split_words *)
Fixpoint split_words_aux (b : bytes) (cur : bytes) : list bytes :=
  match b with
  | [] => match cur with [] => [] | _ => [frev cur] end
  | c :: r => if isspace c
              then match cur with [] => split_words_aux r [] | _ => frev cur :: split_words_aux r [] end
              else split_words_aux r (c :: cur)
  end.
Definition split_words (b : bytes) : list bytes := split_words_aux b [].

(* wbxml_buffer_remove_trailing_zeros *)
Fixpoint drop_zeros (b : bytes) : bytes :=
  match b with c :: r => if c =? 0 then drop_zeros r else b | [] => [] end.
Definition remove_trailing_zeros (b : bytes) : bytes := frev (drop_zeros (frev b)).

(* ------------------------------------------------------------------ *)
(* table searches (wbxml_tables.c)                                       *)

Definition rname_t (r : btag) : bytes := bt_name r.

(* wbxml_tables_get_tag_from_xml(blang, cur_code_page >= 0, name): first loop over the contiguous run of the
   current page (stops at the first row of another page once the page has been seen), then all other pages *)
Fixpoint tag_first_loop (cp : N) (name : bytes) (found_current : bool) (rows : list btag) : option btag :=
  match rows with
  | [] => None
  | r :: rest =>
    if bt_page r =? cp then
      if beq (rname_t r) name then Some r else tag_first_loop cp name true rest
    else if found_current then None else tag_first_loop cp name false rest
  end.
Fixpoint tag_second_loop (cp : N) (name : bytes) (rows : list btag) : option btag :=
  match rows with
  | [] => None
  | r :: rest =>
    if bt_page r =? cp then tag_second_loop cp name rest
    else if beq (rname_t r) name then Some r else tag_second_loop cp name rest
  end.
Definition get_tag_from_xml (l : blang) (cp : N) (name : bytes) : option btag :=
  match bl_tags l with
  | None => None
  | Some rows =>
    match tag_first_loop cp name false rows with
    | Some r => Some r
    | None => tag_second_loop cp name rows
    end
  end.

(* wbxml_tables_get_attr_from_xml(blang, name, value != NULL, &value_left).
   Result: (row, left) with left = None for `*value_left = NULL` (exact pair) and Some k for
   `*value_left = xml_value + k` (k = found_comp). *)
Fixpoint attr_loop (name value : bytes) (rows : list battr)
         (found : option battr) (found_comp : N) : option (battr * option N) :=
  match rows with
  | [] => match found with Some r => Some (r, Some found_comp) | None => None end
  | r :: rest =>
    if beq (ba_name r) name then
      match ba_value r with
      | None =>
        match found with
        | None => attr_loop name value rest (Some r) found_comp
        | Some _ => attr_loop name value rest found found_comp
        end
      | Some v =>
        let vb := v in
        if beq vb value then Some (r, None)
        else if (len vb <? len value) && (found_comp <? len vb) && is_prefix vb value
             then attr_loop name value rest (Some r) (len vb)
             else attr_loop name value rest found found_comp
      end
    else attr_loop name value rest found found_comp
  end.
Definition get_attr_from_xml (l : blang) (name value : bytes) : option (battr * option N) :=
  match bl_attrs l with
  | None => None
  | Some rows => attr_loop name value rows None 0
  end.

(* wbxml_tables_get_ext_from_xml *)
Definition get_ext_from_xml (l : blang) (value : bytes) : option bext :=
  match bl_exts l with
  | None => None
  | Some rows => find (fun r => beq (be_name r) value) rows
  end.

(* wbxml_tables_contains_attr_value_from_xml: strstr(value, row name) for some row *)
Definition contains_attr_value (l : blang) (value : bytes) : bool :=
  match bl_vals l with
  | None => false
  | Some rows => existsb (fun r => match find_sub (bv_name r) value with Some _ => true | None => false end) rows
  end.

(* WBXMLLanguage enum values used by the language-specific branches *)
Definition LANG_SI10 : N := 1301.
Definition LANG_EMN10 : N := 1701.
Definition LANG_DRMREL10 : N := 1801.
Definition LANG_OTA_SETTINGS : N := 1901.
Definition LANG_SYNCML10 : N := 2001.
Definition LANG_SYNCML11 : N := 2101.
Definition LANG_SYNCML12 : N := 2201.
Definition LANG_WV_CSP11 : N := 2301.
Definition LANG_WV_CSP12 : N := 2302.

Definition is_syncml (l : blang) : bool :=
  (bl_id l =? LANG_SYNCML10) || (bl_id l =? LANG_SYNCML11) || (bl_id l =? LANG_SYNCML12).
Definition is_wv (l : blang) : bool := (bl_id l =? LANG_WV_CSP11) || (bl_id l =? LANG_WV_CSP12).

Definition find_lang (tbl : list blang) (id : N) : option blang := find (fun l => bl_id l =? id) tbl.

(* ------------------------------------------------------------------ *)
(* encoder state                                                        *)

(* WBXMLStringTableElement: string (owned), offset *)
Record ste := mk_ste { s_str : bytes; s_off : N }.

Record est := mk_est {
  tagcp : N;                       (* tagCodePage *)
  attrcp : N;                      (* attrCodePage *)
  cur_tag : option (N * N * N);    (* current_tag: page, token, options *)
  in_cdata : bool;
  cdata : option bytes;            (* CDATA buffer (NULL = None) *)
  strtbl : list ste;               (* strstbl *)
  strtbl_len : N                   (* strstbl_len *)
}.

Definition set_pages (st : est) (t a : N) : est :=
  mk_est t a (cur_tag st) (in_cdata st) (cdata st) (strtbl st) (strtbl_len st).
Definition set_cur_tag (st : est) (c : option (N * N * N)) : est :=
  mk_est (tagcp st) (attrcp st) c (in_cdata st) (cdata st) (strtbl st) (strtbl_len st).
Definition set_cdata (st : est) (b : bool) (c : option bytes) : est :=
  mk_est (tagcp st) (attrcp st) (cur_tag st) b c (strtbl st) (strtbl_len st).
Definition set_strtbl (st : est) (t : list ste) (n : N) : est :=
  mk_est (tagcp st) (attrcp st) (cur_tag st) (in_cdata st) (cdata st) t n.
(* per-run constants of one encoder object *)
Record env := mk_env {
  e_lang : blang;
  e_use_strtbl : bool;         (* after the language override of encoder_encode_tree *)
  e_ignore_empty : bool;       (* ignore_empty_text *)
  e_remove_blanks : bool;      (* remove_text_blanks *)
  e_version : N;
  e_anonymous : bool
}.

(* ------------------------------------------------------------------ *)
(* string table                                                         *)

(* wbxml_strtbl_add_element: returns (index, table', len') — an equal string already present gives its offset *)
Definition strtbl_add (tbl : list ste) (tlen : N) (s : bytes) : N * list ste * N :=
  match find (fun e => (len (s_str e) =? len s) && beq (s_str e) s) tbl with
  | Some e => (s_off e, tbl, tlen)
  | None => (tlen, tbl ++ [mk_ste s tlen], u32 (tlen + len s + 1))
  end.

(* wbxml_strtbl_construct *)
Definition strtbl_construct (tbl : list ste) : bytes :=
  flat_map (fun e => s_str e ++ [0]) tbl.

(* wbxml_strtbl_collect_strings: the strings appended to `strings`, in traversal order *)
Definition collect_attr (l : blang) (a : attr) : list bytes :=
  if 3 <? len (at_value a) then
    let value := cstr (at_value a) in
    let tokenisable_start :=
        match get_attr_from_xml l (attr_xml_name a) value with
        | None => false
        | Some (_, Some 0) => false      (* value_left == the value we searched for *)
        | Some (_, _) => true
        end in
    if tokenisable_start then []
    else if contains_attr_value l value then [] else [at_value a]
  else [].

Fixpoint collect_node (l : blang) (n : node) : list bytes :=
  match n with
  | NText c => if only_ws c then [] else if 3 <? len c then [c] else []
  | NElt _ attrs ch => flat_map (collect_attr l) attrs ++ flat_map (collect_node l) ch
  | NCData ch => flat_map (collect_node l) ch
  | NPi => []
  | NTree _ _ => []           (* node->tree is not node->children: not visited *)
  end.

Definition collect_nodes (l : blang) (ns : list node) : list bytes := flat_map (collect_node l) ns.

(* wbxml_strtbl_check_references, first half: count references *)
Record refc := mk_ref { r_str : bytes; r_count : N }.

Fixpoint ref_bump (refs : list refc) (s : bytes) : option (list refc) :=
  match refs with
  | [] => None
  | r :: rest =>
    if beq (r_str r) s then Some (mk_ref (r_str r) (r_count r + 1) :: rest)
    else match ref_bump rest s with Some rest' => Some (r :: rest') | None => None end
  end.

Fixpoint count_refs (strings : list bytes) (refs : list refc) : list refc :=
  match strings with
  | [] => refs
  | s :: rest =>
    match ref_bump refs s with
    | Some refs' => count_refs rest refs'
    | None => count_refs rest (refs ++ [mk_ref s 1])
    end
  end.

(* second half: referenced more than once and longer than WBXML_ENCODER_STRING_TABLE_MIN -> string table;
   the others are returned (one_ref) *)
Fixpoint keep_refs (refs : list refc) (tbl : list ste) (tlen : N) : list ste * N * list refc :=
  match refs with
  | [] => (tbl, tlen, [])
  | r :: rest =>
    if (1 <? r_count r) && (3 <? len (r_str r)) then
      (* the table owns a copy of the string (fix of D7): no entry shares a text node's buffer *)
      let '(_, tbl', tlen') := strtbl_add tbl tlen (r_str r) in
      keep_refs rest tbl' tlen'
    else
      let '(tbl', tlen', one) := keep_refs rest tbl tlen in (tbl', tlen', r :: one)
  end.

Definition check_references (strings : list bytes) (tbl : list ste) (tlen : N)
  : list ste * N * list refc :=
  keep_refs (count_refs strings []) tbl tlen.

(* wbxml_strtbl_initialize *)
Definition strtbl_initialize (l : blang) (roots : list node) : list ste * N :=
  let strings := collect_nodes l roots in
  let '(tbl1, len1, one_ref) := check_references strings [] 0 in
  (* wbxml_strtbl_collect_words: NULL (nothing more) when one_ref is empty *)
  let words := flat_map (fun r => split_words (r_str r)) one_ref in
  let '(tbl2, len2, _) := check_references words tbl1 len1 in
  (tbl2, len2).

(* ------------------------------------------------------------------ *)
(* leaf encoders                                                        *)

Definition enc_inline_string (s : bytes) : bytes := [3] ++ s ++ [0].          (* STR_I s NUL *)
Definition enc_opaque (d : bytes) : bytes := [195] ++ mb_write (u32 (len d)) ++ d.   (* OPAQUE len data *)
Definition enc_tableref (off : N) : bytes := [131] ++ mb_write off.           (* STR_T index *)
Definition enc_ext_t0 (v : N) : bytes := [128] ++ mb_write v.                 (* EXT_T_0 value *)

(* wbxml_encode_tag_token *)
Definition enc_tag_token (st : est) (token page : N) : bytes * est :=
  if tagcp st =? page then ([token], st)
  else ([0; page; token], set_pages st page (attrcp st)).

(* wbxml_encode_attr_token (attribute starts and attribute value tokens share attrCodePage) *)
Definition enc_attr_token (st : est) (token page : N) : bytes * est :=
  if attrcp st =? page then ([token], st)
  else ([0; page; token], set_pages st (tagcp st) page).

(* wbxml_encode_tag_literal / wbxml_encode_attr_start_literal *)
Definition enc_literal (e : env) (st : est) (name : bytes) (mask : N) : eres (bytes * est) :=
  if e_use_strtbl e then
    let '(idx, tbl', tlen') := strtbl_add (strtbl st) (strtbl_len st) (cstr name) in
    EOk ([N.lor 4 mask] ++ mb_write idx, set_strtbl st tbl' tlen')
  else EErr E_STRTBL_DISABLED.

(* wbxml_encode_tag *)
Definition enc_tag (e : env) (st : est) (tag : tagname) (has_attrs has_content : bool) : eres (bytes * est) :=
  let '(token0, page, ct) :=
      match tag with
      | TagTok p t o _ => (t, p, Some (p, t, o))
      | TagLit nm =>
        match get_tag_from_xml (e_lang e) (tagcp st) nm with
        | Some r => (bt_tok r, bt_page r, Some (bt_page r, bt_tok r, bt_opts r))
        | None => (0, 0, None)
        end
      end in
  let st1 := set_cur_tag st ct in
  let token1 := if has_content then N.lor token0 64 else token0 in
  let token := if has_attrs && (match bl_attrs (e_lang e) with Some _ => true | None => false end)
               then N.lor token1 128 else token1 in
  if N.land token 63 =? 0 then enc_literal e st1 (tag_xml_name tag) token
  else EOk (enc_tag_token st1 token page).

(* ------------------------------------------------------------------ *)
(* language specific values                                             *)

(* wbxml_encode_datetime (SI / EMN %Datetime) *)
Fixpoint datetime_digits (b : bytes) : option bytes :=
  match b with
  | [] => Some []
  | c :: r =>
    if isdigit c then match datetime_digits r with Some d => Some (c :: d) | None => None end
    else if (c =? 84) || (c =? 90) || (c =? 45) || (c =? 58) then datetime_digits r   (* T Z - : *)
    else None
  end.
Definition enc_datetime (buffer : bytes) : eres bytes :=
  match datetime_digits buffer with
  | None => EErr E_BAD_DATETIME
  | Some d => EOk (enc_opaque (remove_trailing_zeros (hex_to_bin d)))
  end.

(* decimal value of a digit string *)
Fixpoint dec_val (acc : N) (b : bytes) : N :=
  match b with [] => acc | c :: r => dec_val (acc * 10 + (c - 48)) r end.

(* atol / strtol(.., 10): white space, sign, digits; saturates at LONG_MAX / LONG_MIN (64 bit long) and the
   result is cast to the 32-bit WB_ULONG *)
Fixpoint take_while (p : N -> bool) (b : bytes) : bytes :=
  match b with c :: r => if p c then c :: take_while p r else [] | [] => [] end.
Definition hexdigit_val (c : N) : option N :=
  if isdigit c then Some (c - 48)
  else if (97 <=? c) && (c <=? 102) then Some (c - 87)
  else if (65 <=? c) && (c <=? 70) then Some (c - 55) else None.
Fixpoint hex_val (acc : N) (b : bytes) : N :=
  match b with
  | [] => acc
  | c :: r => match hexdigit_val c with Some v => hex_val (acc * 16 + v) r | None => acc end
  end.
Definition sat_long (neg : bool) (v : N) : N :=
  (* value of the C `long` as a 32-bit unsigned after the cast *)
  if neg then
    let m := if 9223372036854775808 <? v then 9223372036854775808 else v in
    u32 (4294967296 - m mod 4294967296)
  else
    let m := if 9223372036854775807 <? v then 9223372036854775807 else v in u32 m.
Definition c_sign (b : bytes) : bool * bytes :=
  match b with
  | 45 :: r => (true, r)
  | 43 :: r => (false, r)
  | _ => (false, b)
  end.
Definition atol32 (b : bytes) : N :=
  let '(neg, r) := c_sign (drop_ws b) in
  sat_long neg (dec_val 0 (take_while isdigit r)).
Definition is_hexdigit (c : N) : bool := match hexdigit_val c with Some _ => true | None => false end.
Definition strtol16_32 (b : bytes) : N :=
  let '(neg, r) := c_sign (drop_ws b) in
  let r' := match r with
            | 48 :: x :: h :: t => if ((x =? 120) || (x =? 88)) && is_hexdigit h then h :: t else r
            | _ => r
            end in
  sat_long neg (hex_val 0 (take_while is_hexdigit r')).

(* wbxml_encode_wv_integer *)
Fixpoint int_octets (iters : nat) (v : N) (acc : bytes) : bytes :=
  match iters with
  | O => acc
  | S k => if v =? 0 then acc else int_octets k (N.shiftr v 8) (N.land v 255 :: acc)
  end.
Definition enc_wv_integer (buffer : bytes) : bytes :=
  let the_int := match buffer with
                 | _ :: x :: _ => if (x =? 120) || (x =? 88) then strtol16_32 buffer else atol32 buffer
                 | _ => atol32 buffer
                 end in
  enc_opaque (int_octets 4 the_int []).

(* wbxml_encode_wv_datetime_opaque *)
Definition subb (b : bytes) (pos n : nat) : bytes := firstn n (skipn pos b).
Definition enc_wv_datetime_opaque (buffer : bytes) : eres bytes :=
  let l0 := List.length buffer in
  let tmp := if Nat.eqb l0 13 then buffer ++ [48; 48]
             else if Nat.eqb l0 14 then firstn 13 buffer ++ [48; 48] ++ skipn 13 buffer
             else buffer in
  let l1 := List.length tmp in
  if negb (Nat.eqb l1 15 || Nat.eqb l1 16) then EErr E_WV_DATETIME_FORMAT
  else if negb (nth 8 buffer 0 =? 84) then EErr E_WV_DATETIME_FORMAT
  else
    let tzc := nth 15 tmp 0 in
    if Nat.eqb l1 16 && ((tzc <? 65) || (tzc =? 74) || (90 <? tzc)) then EErr E_WV_DATETIME_FORMAT
    else
      let o5 := if Nat.eqb l1 16 then tzc else 0 in
      let t1 := if Nat.eqb l1 16 then firstn 15 tmp else tmp in
      let d := firstn 8 t1 ++ skipn 9 t1 in                  (* 'T' deleted: 14 characters *)
      if negb (forallb isdigit d) then EErr E_WV_DATETIME_FORMAT
      else
        let year := u32 (dec_val 0 (subb d 0 4)) in
        let month := u32 (dec_val 0 (subb d 4 2)) in
        let day := u32 (dec_val 0 (subb d 6 2)) in
        let hour := u32 (dec_val 0 (subb d 8 2)) in
        let minute := u32 (dec_val 0 (subb d 10 2)) in
        let second := u32 (dec_val 0 (skipn 12 d)) in
        let o0 := u8 (N.shiftr (N.land year 4032) 6) in
        let o1a := u8 (N.land year 63) in
        let o1 := u8 (u8 (N.shiftl o1a 2) + u8 (N.shiftr (N.land month 12) 2)) in
        let o2a := u8 (N.land month 3) in
        let o2b := u8 (u8 (N.shiftl o2a 5) + u8 (N.land day 31)) in
        let o2 := u8 (u8 (N.shiftl o2b 1) + u8 (N.shiftr (N.land hour 16) 4)) in
        let o3a := u8 (N.land hour 15) in
        let o3 := u8 (u8 (N.shiftl o3a 4) + u8 (N.shiftr (N.land minute 60) 2)) in
        let o4a := u8 (N.land minute 3) in
        let o4 := u8 (u8 (N.shiftl o4a 6) + u8 (N.land second 63)) in
        EOk (enc_opaque [o0; o1; o2; o3; o4; o5])
.

(* wbxml_encode_wv_datetime *)
Definition enc_wv_datetime (buffer : bytes) : eres bytes :=
  let has c := existsb (fun x => x =? c) buffer in
  if has 45 || has 43 || has 58 || (last buffer 0 =? 90)
  then EOk (enc_inline_string buffer)
  else enc_wv_datetime_opaque buffer.

(* the data type switch of wbxml_encode_wv_content: 1 = boolean, 2 = integer, 3 = date and time, 0 = string *)
Definition wv_data_type (page tok : N) : N :=
  let isin l := existsb (fun x => x =? tok) l in
  if page =? 0 then
    if isin [5; 24; 33] then 1 else if isin [11; 15; 26; 60] then 2 else if tok =? 17 then 3 else 0
  else if page =? 1 then
    if isin [6; 11; 52; 54] then 1 else if isin [28; 37; 38; 39; 40; 50] then 2 else 0
  else if page =? 3 then
    if tok =? 9 then 1 else if isin [5; 6; 12; 13; 14; 18; 19] then 2 else 0
  else if page =? 4 then if isin [11; 30] then 1 else 0
  else if page =? 6 then if tok =? 8 then 1 else if tok =? 26 then 3 else 0
  else if page =? 7 then if isin [33; 16; 34] then 1 else 0
  else if page =? 9 then if tok =? 5 then 1 else if isin [8; 10] then 2 else 0
  else 0.

(* wbxml_encode_wv_content: None = WBXML_NOT_ENCODED *)
Definition enc_wv_content (e : env) (st : est) (buffer : bytes) : option (eres bytes) :=
  let dt := match cur_tag st with Some (p, t, _) => wv_data_type p t | None => 0 end in
  if dt =? 2 then Some (EOk (enc_wv_integer buffer))
  else if dt =? 3 then Some (enc_wv_datetime buffer)
  else match get_ext_from_xml (e_lang e) buffer with
       | Some r => Some (EOk (enc_ext_t0 (u8 (be_tok r))))
       | None => None
       end.

(* wbxml_base64_decode(buffer, -1, &data): the decoded bytes (never negative, so the callers always encode) *)
Definition b64_raw (cs : bytes) : bytes :=
  let pre := take_b64 cs in
  firstn (N.to_nat (b64_dec_count (N.of_nat (List.length pre)))) (b64_dec_body pre).

(* wbxml_encode_drmrel_content: <ds:KeyValue> (page 0, token 0x0C) as the text's parent *)
Definition enc_drmrel_content (parent : option tagname) (buffer : bytes) : option bytes :=
  match parent with
  | Some (TagTok 0 12 _ _) => Some (enc_opaque (b64_raw buffer))
  | _ => None
  end.

(* wbxml_encode_ota_nokia_icon: VALUE attribute of an element that has NAME="ICON" *)
Definition enc_ota_icon (st : est) (node_attrs : list attr) (buffer : bytes) : option bytes :=
  match cur_tag st with
  | None => None
  | Some _ =>
    if existsb (fun a => beq (* "NAME" *) [78; 65; 77; 69] (attr_xml_name a) && beq (* "ICON" *) [73; 67; 79; 78] (cstr (at_value a))) node_attrs
    then Some (enc_opaque (b64_raw buffer)) else None
  end.

(* ------------------------------------------------------------------ *)
(* value elements                                                       *)

Inductive velt :=
| VStr (s : bytes)             (* WBXML_VALUE_ELEMENT_STRING *)
| VExt (tok : N)               (* _EXTENSION *)
| VAttrTok (page tok : N)      (* _ATTR_TOKEN *)
| VRef (off : N).              (* _TABLEREF *)

(* one `for (i = 0; i < wbxml_list_len(lresult); i++)` sweep for one table row / string-table element:
   a string element in which [find] succeeds at (index, matched length) is truncated at index, the new
   element is inserted after it and the remainder (if any) after that; the sweep then continues with the
   remainder.  fuel bounds the re-examination of remainders (it only runs out if the match is empty). *)
Fixpoint split_sweep (fuel : nat) (find : bytes -> option (N * N)) (mk : velt) (l : list velt) : option (list velt) :=
  match fuel with
  | O => None
  | S f =>
    match l with
    | [] => Some []
    | VStr s :: r =>
      match find s with
      | Some (idx, mlen) =>
        let rest := if idx + mlen <? len s
                    then VStr (skipn (N.to_nat (idx + mlen)) s) :: r else r in
        match split_sweep f find mk rest with
        | Some r' => Some (VStr (firstn (N.to_nat idx) s) :: mk :: r')
        | None => None
        end
      | None => match split_sweep f find mk r with Some r' => Some (VStr s :: r') | None => None end
      end
    | x :: r => match split_sweep f find mk r with Some r' => Some (x :: r') | None => None end
    end
  end.

Definition velts_size (l : list velt) : nat :=
  fold_right (fun v n => match v with VStr s => (List.length s + 2 + n)%nat | _ => (1 + n)%nat end) 1%nat l.

Definition sweep (find : bytes -> option (N * N)) (mk : velt) (l : list velt) : option (list velt) :=
  split_sweep (velts_size l) find mk l.

Definition find_name (name : bytes) (s : bytes) : option (N * N) :=
  match name with
  | [] => Some (0, 0)                     (* "always find an empty string" *)
  | _ => match find_sub name s with Some i => Some (i, len name) | None => None end
  end.

Fixpoint pass_vals (rows : list bval) (l : list velt) : option (list velt) :=
  match rows with
  | [] => Some l
  | r :: rest =>
    match sweep (find_name (bv_name r)) (VAttrTok (bv_page r) (bv_tok r)) l with
    | Some l' => pass_vals rest l'
    | None => None
    end
  end.

(* the extension sweep compares the whole element (wbxml_buffer_compare_cstr == 0), ignores one-character
   names, and reuses `index` (still 0 in content context) *)
Fixpoint pass_exts (rows : list bext) (l : list velt) : option (list velt) :=
  match rows with
  | [] => Some l
  | r :: rest =>
    let nm := be_name r in
    if len nm <? 2 then pass_exts rest l
    else match sweep (fun s => if beq s nm then Some (0, len nm) else None) (VExt (be_tok r)) l with
         | Some l' => pass_exts rest l'
         | None => None
         end
  end.

Fixpoint pass_strtbl (tbl : list ste) (l : list velt) : option (list velt) :=
  match tbl with
  | [] => Some l
  | e :: rest =>
    match sweep (find_name (s_str e)) (VRef (s_off e)) l with
    | Some l' => pass_strtbl rest l'
    | None => None
    end
  end.

(* wbxml_encode_value_element_list *)
Fixpoint enc_velts (st : est) (l : list velt) : bytes * est :=
  match l with
  | [] => ([], st)
  | v :: r =>
    let '(b, st1) :=
        match v with
        | VStr s => (if 0 <? len s then enc_inline_string s else [], st)
        | VRef off => (enc_tableref off, st)
        | VExt t => (enc_ext_t0 (u8 t), st)
        | VAttrTok p t => enc_attr_token st t p
        end in
    let '(b', st2) := enc_velts st1 r in (b ++ b', st2)
  end.

(* the splitting passes, in the C's order *)
Definition split_value (e : env) (st : est) (is_attr : bool) (buffer : bytes) : option (list velt) :=
  let l0 := [VStr buffer] in
  let l1 := if is_attr then
              match bl_vals (e_lang e) with Some rows => pass_vals rows l0 | None => Some l0 end
            else Some l0 in
  let l2 := match l1 with
            | None => None
            | Some l =>
              if negb is_attr && negb (in_cdata st) then
                match bl_exts (e_lang e) with Some rows => pass_exts rows l | None => Some l end
              else Some l
            end in
  match l2 with
  | None => None
  | Some l =>
    if e_use_strtbl e && negb (in_cdata st && negb is_attr) then pass_strtbl (strtbl st) l else Some l
  end.

(* wbxml_encode_value_element_buffer.  buffer is a C string (callers apply cstr);
   cur_attr = encoder->current_attr (page, token); node_attrs = encoder->current_node->attrs;
   parent = tag of encoder->current_text_parent *)
Definition enc_value (e : env) (st : est) (is_attr : bool) (cur_attr : option (N * N))
           (node_attrs : list attr) (parent : option tagname) (buffer : bytes) : eres (bytes * est) :=
  match buffer with
  | [] => EOk ([], st)
  | _ =>
    let lid := bl_id (e_lang e) in
    (* language specific attribute values *)
    let special_attr : option (eres bytes) :=
        if is_attr then
          if lid =? LANG_SI10 then
            match cur_attr with
            | Some (0, t) => if (t =? 10) || (t =? 16) then Some (enc_datetime buffer) else None
            | _ => None
            end
          else if lid =? LANG_EMN10 then
            match cur_attr with
            | Some (0, 5) => Some (enc_datetime buffer)
            | _ => None
            end
          else if lid =? LANG_OTA_SETTINGS then
            match cur_attr with
            | None => Some (EErr E_INTERNAL)   (* the C dereferences current_attr == NULL here; unreachable:
                                                  literal attribute starts fail first (string table disabled) *)
            | Some (0, 17) => match enc_ota_icon st node_attrs buffer with
                              | Some b => Some (EOk b) | None => None end
            | Some _ => None
            end
          else None
        else None in
    match special_attr with
    | Some (EErr c) => EErr c
    | Some (EOk b) => EOk (b, st)
    | None =>
      (* language specific content *)
      let content := negb is_attr && negb (in_cdata st) in
      let special_content : option (eres bytes) :=
          if content && is_wv (e_lang e) then enc_wv_content e st buffer
          else if content && (lid =? LANG_DRMREL10) then
            match enc_drmrel_content parent buffer with Some b => Some (EOk b) | None => None end
          else None in
      match special_content with
      | Some (EErr c) => EErr c
      | Some (EOk b) => EOk (b, st)
      | None =>
        (* only the content of a MetInf <Type> (page 1, token 0x13) is rewritten (/repo 6dbd56f), the DM tree type for
           SyncML 1.2 only (/repo 56fa004) *)
        let in_type := match parent with Some (TagTok 1 19 _ _) => true | _ => false end in
        let the_buffer :=
            if content && is_syncml (e_lang e) && in_type then
              if (lid =? LANG_SYNCML12) && strcaseeq buffer (* "application/vnd.syncml.dmtnds+xml" *) [97; 112; 112; 108; 105; 99; 97; 116; 105; 111; 110; 47; 118; 110; 100; 46; 115; 121; 110; 99; 109; 108; 46; 100; 109; 116; 110; 100; 115; 43; 120; 109; 108]
              then (* "application/vnd.syncml.dmtnds+wbxml" *) [97; 112; 112; 108; 105; 99; 97; 116; 105; 111; 110; 47; 118; 110; 100; 46; 115; 121; 110; 99; 109; 108; 46; 100; 109; 116; 110; 100; 115; 43; 119; 98; 120; 109; 108]
              else if strcaseeq buffer (* "application/vnd.syncml-devinf+xml" *) [97; 112; 112; 108; 105; 99; 97; 116; 105; 111; 110; 47; 118; 110; 100; 46; 115; 121; 110; 99; 109; 108; 45; 100; 101; 118; 105; 110; 102; 43; 120; 109; 108]
              then (* "application/vnd.syncml-devinf+wbxml" *) [97; 112; 112; 108; 105; 99; 97; 116; 105; 111; 110; 47; 118; 110; 100; 46; 115; 121; 110; 99; 109; 108; 45; 100; 101; 118; 105; 110; 102; 43; 119; 98; 120; 109; 108]
              else buffer
            else buffer in
        match split_value e st is_attr the_buffer with
        | None => EErr E_OUT_OF_FUEL
        | Some l => EOk (enc_velts st l)
        end
      end
    end
  end.

(* ------------------------------------------------------------------ *)
(* attributes                                                           *)

(* wbxml_encode_attr_start + wbxml_encode_attr *)
Definition enc_attr (e : env) (st : est) (node_attrs : list attr) (a : attr) : eres (bytes * est) :=
  let value := cstr (at_value a) in
  do (b1, st1, value_left, cur_attr) <-
     match at_name a with
     | AttrTok page tok nm oval =>
       match oval with
       | Some xv =>
         if is_prefix xv value then
           let lft := if len xv <? len (at_value a)
                       then Some (cstr (skipn (List.length xv) (at_value a))) else None in
           let '(b, st') := enc_attr_token st tok page in
           EOk (b, st', lft, Some (page, tok))
         else
           do (b, st') <- enc_literal e st nm 0; EOk (b, st', Some value, @None (N * N))
       | None =>
         let '(b, st') := enc_attr_token st tok page in EOk (b, st', Some value, Some (page, tok))
       end
     | AttrLit nm =>
       match get_attr_from_xml (e_lang e) nm value with
       | Some (r, lft) =>
         let '(b, st') := enc_attr_token st (ba_tok r) (ba_page r) in
         EOk (b, st',
              match lft with Some k => Some (skipn (N.to_nat k) value) | None => None end,
              Some (ba_page r, ba_tok r))
       | None =>
         do (b, st') <- enc_literal e st nm 0; EOk (b, st', Some value, @None (N * N))
       end
     end;
  match value_left with
  | None => EOk (b1, st1)
  | Some v =>
    do (b2, st2) <- enc_value e st1 true cur_attr node_attrs None v;
    EOk (b1 ++ b2, st2)
  end.

(* the attribute loop of parse_element (parse_attribute returns at once when there is no attribute table) *)
Fixpoint enc_attrs (e : env) (st : est) (node_attrs : list attr) (l : list attr) : eres (bytes * est) :=
  match l with
  | [] => EOk ([], st)
  | a :: r =>
    do (b1, st1) <- enc_attr e st node_attrs a;
    do (b2, st2) <- enc_attrs e st1 node_attrs r;
    EOk (b1 ++ b2, st2)
  end.

Definition has_attr_table (e : env) : bool :=
  match bl_attrs (e_lang e) with Some _ => true | None => false end.

(* parse_element *)
Definition enc_element_start (e : env) (st : est) (tag : tagname) (attrs : list attr) (has_content : bool)
  : eres (bytes * est) :=
  let has_attrs := match attrs with [] => false | _ => true end in
  do (b1, st1) <- enc_tag e st tag has_attrs has_content;
  do (b2, st2) <- (if has_attr_table e then enc_attrs e st1 attrs attrs else EOk ([], st1));
  let b3 := if has_attrs && has_attr_table e then [1] else [] in
  EOk (b1 ++ b2 ++ b3, st2).

(* ------------------------------------------------------------------ *)
(* text                                                                 *)

(* text_is_binary (/repo 093ad9f): current_tag, which is only set while the FIRST child of an element is encoded, else
   the tag of the text's parent element when that is a token *)
Definition is_binary_tag (st : est) (parent : option tagname) : bool :=
  match cur_tag st with
  | Some (_, _, o) => negb (N.land o 1 =? 0)
  | None => match parent with
            | Some (TagTok _ _ o _) => negb (N.land o 1 =? 0)
            | _ => false
            end
  end.

(* parse_text for a text node with parent tag `parent` (the node is trimmed in place; nothing else reads it) *)
Definition enc_text (e : env) (st : est) (parent : option tagname) (content : bytes) : eres (bytes * est) :=
  if is_binary_tag st parent then EOk (enc_opaque content, st)
  else
    if negb (in_cdata st) && e_ignore_empty e && only_ws content then EOk ([], st)
    else
      let strip := negb (in_cdata st) && e_remove_blanks e in
      let content' := if strip then strip_blanks content else content in
      if in_cdata st then
        match cdata st with
        | None => EErr E_INTERNAL
        | Some d =>
          let c2 := if is_syncml (e_lang e) && beq content' [10] then [13; 10] else content' in
          EOk ([], set_cdata st true (Some (d ++ c2)))
        end
      else enc_value e st false None [] parent (cstr content').

(* ------------------------------------------------------------------ *)
(* header                                                               *)

(* wbxml_fill_header; textual_publicid is never set on these paths.
   An anonymous document carries the public id 1 ('unknown') whatever the language (/repo 16878ac) and no id string;
   WBXML 1.0 (version enum 0) has no charset field (/repo f5bdeab). *)
Definition header_public_id (e : env) : N := if e_anonymous e then 1 else bl_pub_num (e_lang e).
Definition header_charset (e : env) : bytes := if e_version e =? 0 then [] else mb_write 106.

Definition fill_header (e : env) (st : est) : bytes :=
  let l := e_lang e in
  let pid : option bytes :=
      if (header_public_id e =? 1) && negb (e_anonymous e)
      then match bl_pub_text l with Some s => Some s | None => None end
      else None in
  let '(idx, tbl, tlen) :=
      match pid with
      | Some p =>
        if e_use_strtbl e then strtbl_add (strtbl st) (strtbl_len st) p
        else (0, strtbl st, u32 (len p + 1))
      | None => (0, strtbl st, strtbl_len st)
      end in
  [u8 (e_version e)]
    ++ (match pid with Some _ => [0] ++ mb_write idx | None => mb_write (header_public_id e) end)
    ++ header_charset e ++ mb_write tlen
    ++ (if e_use_strtbl e then strtbl_construct tbl
        else match pid with Some p => p ++ [0] | None => [] end).

(* ------------------------------------------------------------------ *)
(* the tree walk                                                        *)

Definition init_est (tbl : list ste) (tlen : N) : est := mk_est 0 0 None false None tbl tlen.

(* encoder_encode_tree: language override of use_strtbl, string table initialisation *)
Definition make_env (l : blang) (use_strtbl ignore_empty remove_blanks : bool) (version : N) (anon : bool) : env :=
  let forced_off := is_wv l || (bl_id l =? LANG_OTA_SETTINGS) in
  mk_env l (use_strtbl && negb forced_off) ignore_empty remove_blanks version anon.

Definition start_state (e : env) (roots : list node) : est :=
  if e_use_strtbl e then let '(t, n) := strtbl_initialize (e_lang e) roots in init_est t n
  else init_est [] 0.

(* parse_single_node (one node with its children) and parse_node (the loop over the `next` chain; an empty
   chain, i.e. a NULL root, encodes nothing); tbl = the main table (for embedded trees) *)
(* the loop of parse_node over a `next` chain, given the function for one node *)
Definition seq_nodes (pn : env -> option tagname -> node -> est -> eres (bytes * est)) :=
  fix go (e : env) (parent : option tagname) (ns : list node) (st : est) : eres (bytes * est) :=
    match ns with
    | [] => EOk ([], st)
    | x :: r =>
      do (b1, st1) <- pn e parent x st;
      do (b2, st2) <- go e parent r st1;
      EOk (b1 ++ b2, st2)
    end.

Fixpoint parse_node (tbl : list blang) (e : env) (parent : option tagname) (n : node) (st : est)
  : eres (bytes * est) :=
  let parse_nodes := seq_nodes (parse_node tbl) in
  match n with
  | NElt tag attrs ch =>
    let has_content := match ch with [] => false | _ => true end in
    do (b1, st1) <- enc_element_start e st tag attrs has_content;
    do (b2, st2) <- parse_nodes e (Some tag) ch st1;
    let b3 := if has_content then [1] else [] in
    EOk (b1 ++ b2 ++ b3, set_cur_tag st2 None)
  | NText c =>
    do (b, st1) <- enc_text e st parent c;
    EOk (b, set_cur_tag st1 None)
  | NCData ch =>
    match cdata st with
    | Some _ => EErr E_INTERNAL
    | None =>
      do (b1, st1) <- parse_nodes e None ch (set_cdata st true (Some []));
      match cdata st1 with
      | None => EErr E_INTERNAL
      | Some d =>
        let b2 := if 0 <? len d then enc_opaque d else [] in
        EOk (b1 ++ b2, set_cur_tag (set_cdata st1 false None) None)
      end
    end
  | NPi => EErr E_NOT_IMPLEMENTED
  | NTree lid roots =>
    (* wbxml_encode_tree: a duplicated encoder (options only; not anonymous) on the embedded tree *)
    match find_lang tbl lid with
    | None => EErr E_BAD_PARAMETER
    | Some l' =>
      let e' := make_env l' (e_use_strtbl e) (e_ignore_empty e) (e_remove_blanks e) (e_version e) false in
      do (body, st') <- parse_nodes e' None roots (start_state e' roots);
      let doc := fill_header e' st' ++ body in
      EOk (enc_opaque doc, set_cur_tag st None)
    end
  end.

Definition parse_nodes (tbl : list blang) := seq_nodes (parse_node tbl).

(* body and header of one document, separately (C07: the body does not depend on version / anonymous) *)
Definition enc_env (l : blang) (o : options) : env :=
  make_env l (o_use_strtbl o) (negb (o_keep_ws o)) (negb (o_keep_ws o)) (o_version o) (o_anonymous o).

Definition enc_body (tbl : list blang) (l : blang) (o : options) (roots : list node) : eres (bytes * est) :=
  let e := enc_env l o in
  parse_nodes tbl e None roots (start_state e roots).

(* wbxml_tree_to_wbxml = wbxml_encoder_encode_tree_to_wbxml + wbxml_build_result *)
Definition enc_wbxml (tbl : list blang) (l : blang) (o : options) (roots : list node) : eres bytes :=
  do (body, st) <- enc_body tbl l o roots;
  EOk (fill_header (enc_env l o) st ++ body).
