(* C02 / C03 — the events an XML parser in namespace mode (Expat, XML_ParserCreateNS(NULL,'|')) delivers for the document
   that is written for a WBXML tree, and the boolean predicate "canonical tree" under which the front end
   (Model/XmlFront.v) rebuilds exactly that tree from those events (Proofs/XmlFrontInverse.v).

   ASSUMPTIONS ABOUT THE PARSER (the oracle), made by `events_of`:
   * one character-data event per text node (Expat may split a text; the front end merges the pieces, so the tree is the
     same: that is what wbxml_tree_add_node's text merge is for — the one-event form is the canonical one);
   * an element whose tag is a token of a language WITH a namespace table is reported as "namespace|local" where
     namespace is the table's namespace of the token's code page; every other element as "local";
   * attributes are reported unprefixed, in document order, with their whole value;
   * a CDATA section is reported as start-cdata, text events, end-cdata;
   * the content of a binary-flagged element is written as RFC 4648 base64 text;
   * an embedded DevInf / DM DDF tree is written as an element syncml:devinf|DevInf / syncml:dmddf1.2|MgmtTree; what is
     inside is skipped by the callbacks and re-parsed from the byte range (here: the empty range; the nested parse `sub`
     is asked for the document built from it).
   Definitions only. *)
From Coq Require Import List NArith Bool String.
From Wbxml Require Import Model.TablesDefs Model.Tables Model.Codec Model.LangSelect Model.EncWbxml Model.XmlFront.
Import ListNotations.
Local Open Scope N_scope.

(* ------------------------------------------------------------------ events *)

Definition tag_binary (tg : tagname) : bool :=
  match tg with TagTok _ _ o _ => negb (N.land o WBXML_TAG_OPTION_BINARY =? 0) | TagLit _ => false end.

Definition ev_name (l : lang) (tg : tagname) : bytes :=
  match tg with
  | TagTok p _ _ nm => match xmlns_of_page l p with Some ns => bs ns ++ SEP :: nm | None => nm end
  | TagLit nm => nm
  end.

Definition ev_attr (a : attr) : bytes * bytes := (attr_xml_name a, at_value a).

Definition emb_name (lid : N) : bytes := if lid =? LANG_DMDDF12 then n_MgmtTree else n_DevInf.

(* bin: the parent element is binary-flagged (its text is written as base64) *)
Fixpoint ev_node (l : lang) (bin : bool) (n : node) : list event :=
  match n with
  | NElt tg attrs ch =>
    EvStartElement (ev_name l tg) (map ev_attr attrs) 0 :: flat_map (ev_node l (tag_binary tg)) ch ++ [EvEndElement (ev_name l tg) 0]
  | NText c => [EvCharacters (if bin then rfc4648 c else c)]
  | NCData ch => EvStartCdata :: flat_map (ev_node l false) ch ++ [EvEndCdata]
  | NPi => []
  | NTree lid _ => [EvStartElement (emb_name lid) [] 0; EvEndElement (emb_name lid) 0]
  end.

(* XML declaration (no encoding), DOCTYPE of the language, the root element *)
Definition prolog (l : lang) : list event :=
  [EvXmlDecl (Some (bs "1.0")) None;
   EvStartDoctype (match l_root l with Some r => bs r | None => [] end) (option_map bs (l_dtd l)) (option_map bs (l_pub_text l))].

Definition events_of (l : lang) (root : node) : list event := prolog l ++ ev_node l false root.

(* ------------------------------------------------------------------ structural equality (for the predicate) *)

Definition obeq (a b : option bytes) : bool :=
  match a, b with Some x, Some y => beq x y | None, None => true | _, _ => false end.

Definition tagname_eqb (a b : tagname) : bool :=
  match a, b with
  | TagTok p t o n, TagTok p' t' o' n' => (p =? p') && (t =? t') && (o =? o') && beq n n'
  | TagLit n, TagLit n' => beq n n'
  | _, _ => false
  end.

Definition attrname_eqb (a b : attrname) : bool :=
  match a, b with
  | AttrTok p t n v, AttrTok p' t' n' v' => (p =? p') && (t =? t') && beq n n' && obeq v v'
  | AttrLit n, AttrLit n' => beq n n'
  | _, _ => false
  end.

Definition attr_eqb (a b : attr) : bool := attrname_eqb (at_name a) (at_name b) && beq (at_value a) (at_value b).

Fixpoint list_eqb {A} (eqb : A -> A -> bool) (a b : list A) : bool :=
  match a, b with
  | [], [] => true
  | x :: a', y :: b' => eqb x y && list_eqb eqb a' b'
  | _, _ => false
  end.

Fixpoint node_eqb (a b : node) {struct a} : bool :=
  match a, b with
  | NElt t at0 k, NElt t' at1 k' =>
    tagname_eqb t t' && list_eqb attr_eqb at0 at1 &&
    (fix go (x y : list node) : bool :=
       match x, y with [], [] => true | n :: x', m :: y' => node_eqb n m && go x' y' | _, _ => false end) k k'
  | NText c, NText c' => beq c c'
  | NCData k, NCData k' =>
    (fix go (x y : list node) : bool :=
       match x, y with [], [] => true | n :: x', m :: y' => node_eqb n m && go x' y' | _, _ => false end) k k'
  | NPi, NPi => true
  | NTree i k, NTree i' k' =>
    (i =? i') &&
    (fix go (x y : list node) : bool :=
       match x, y with [], [] => true | n :: x', m :: y' => node_eqb n m && go x' y' | _, _ => false end) k k'
  | _, _ => false
  end.

(* ------------------------------------------------------------------ the canonical form *)

Definition bytes_okb (b : bytes) : bool := forallb (fun c => c <? 256) b.

(* the element's names come back from the tables as they are *)
Definition tag_canon (l : lang) (tg : tagname) : bool :=
  tagname_eqb (fst (resolve_tag l (ev_name l tg))) tg.
(* below the root, an element with one of the two embedded-document names would be skipped *)
Definition tag_not_embedded (l : lang) (tg : tagname) : bool := negb (is_embedded_name (ev_name l tg)).
Definition attrs_canon (l : lang) (attrs : list attr) : bool :=
  list_eqb attr_eqb (map (resolve_attr l) (map ev_attr attrs)) attrs.

Definition kind_binary (k : fkind) : bool :=
  match k with FElt tg _ _ => tag_binary tg | FCData => false end.
Definition kind_is_data (k : fkind) : bool :=
  match k with FElt tg _ _ => beq (tag_xml_name tg) s_Data | FCData => false end.
Definition head_is_text (l : list node) : bool := match l with NText _ :: _ => true | _ => false end.

Definition dt_plain (d : dtype) : bool := match d with DT_NORMAL | DT_WBXML => true | _ => false end.
Definition dt_vobject (d : dtype) : bool :=
  match d with DT_DIRECTORY_VCARD | DT_VCALENDAR | DT_VCARD | DT_VOBJECT => true | _ => false end.

(* a text node b below the node k whose completed children (most recent first) are rdone, ancestors' frames up *)
Definition text_canon (up : list frame) (k : fkind) (rdone : list node) (b : bytes) : bool :=
  negb (match b with [] => true | _ => false end) && negb (head_is_text rdone) &&
  if kind_binary k then bytes_okb b && negb (kind_is_data k)
  else match syncml_data_type (mk_frame k rdone :: up) with
       | None => false
       | Some d =>
         match k with
         | FElt _ _ _ => dt_plain d || (first_kid_is_cdata (mk_frame k rdone) && negb (dt_vobject d && beq b [10]))
         | FCData => negb (dt_vobject d && beq b [10])
         end
       end.

Section Canon.
  Variable l : lang.
  (* the embedded trees: emb lid roots = the nested parse, asked for the document of language lid built from the empty
     range, answers this tree (Proofs/XmlFrontInverse.v: emb_spec) *)
  Variable emb : N -> list node -> bool.

  (* node n below the node k (children so far rdone), whose frame will have the ancestors up *)
  Fixpoint node_canon (up : list frame) (k : fkind) (rdone : list node) (n : node) {struct n} : bool :=
    match n with
    | NText b => text_canon up k rdone b
    | NElt tg attrs ch =>
      tag_canon l tg && tag_not_embedded l tg && attrs_canon l attrs && (N.of_nat (List.length (mk_frame k rdone :: up)) <? WBXML_MAX_NESTING_DEPTH) &&
      (negb (tag_binary tg) || negb (beq (tag_xml_name tg) s_Data)) &&
      (fix kids (rd : list node) (rest : list node) {struct rest} : bool :=
         match rest with
         | [] => true
         | x :: r => node_canon (mk_frame k rdone :: up) (FElt tg attrs None) rd x && kids (x :: rd) r
         end) [] ch
    | NCData ch =>
      negb (kind_binary k) &&
      (fix kids (rd : list node) (rest : list node) {struct rest} : bool :=
         match rest with
         | [] => true
         | x :: r => node_canon (mk_frame k rdone :: up) FCData rd x && kids (x :: rd) r
         end) [] ch
    | NPi => false
    | NTree lid roots =>
      negb (kind_binary k) && match k with FElt _ _ _ => true | FCData => false end && emb lid roots
    end.

  Fixpoint kids_canon (up : list frame) (k : fkind) (rd : list node) (rest : list node) : bool :=
    match rest with
    | [] => true
    | x :: r => node_canon up k rd x && kids_canon up k (x :: rd) r
    end.

  (* the root element of a document *)
  Definition root_canon (root : node) : bool :=
    match root with
    | NElt tg attrs ch =>
      tag_canon l tg && attrs_canon l attrs && (negb (tag_binary tg) || negb (beq (tag_xml_name tg) s_Data)) &&
      kids_canon [] (FElt tg attrs None) [] ch
    | _ => false
    end.
End Canon.
