(* C18 — the tree of Model/TreeGraph.v as the encoder models see it.
   The encoders (Model/EncWbxml.v, Model/EncXml.v) take an abstract tree.  `reify_w` / `reify_x` turn the SHAPE of an
   API-built tree (TreeGraph.shape: what the pointer graph denotes, identities erased) into that abstract tree.  What
   TreeGraph does not carry is supplied as parameters: the option bits of a tag-table entry (`wopts` / `xopts`, by
   page, token and name) and the content of a nested tree object, which TreeGraph treats as an opaque token
   (`wsub` / `xsub`).  Definitions only. *)
From Coq Require Import List NArith Bool.
From Wbxml Require Model.EncWbxml Model.EncXml.
From Wbxml Require Import Model.TreeGraph.
Import ListNotations.
Local Open Scope N_scope.

Section Reify.
  Variable wopts : N -> N -> bytes -> N.
  Variable wsub : N -> list EncWbxml.node.

  Definition reify_w_tag (t : tagname) : EncWbxml.tagname :=
    match t with
    | TagTok p k nm => EncWbxml.TagTok p k (wopts p k nm) nm
    | TagLit nm => EncWbxml.TagLit nm
    end.

  Definition reify_w_attr (a : attr) : EncWbxml.attr :=
    EncWbxml.mk_at (match fst a with
                    | AttrTok p k nm v => EncWbxml.AttrTok p k nm v
                    | AttrLit nm => EncWbxml.AttrLit nm
                    end) (snd a).

  Fixpoint reify_w (s : shape) : EncWbxml.node :=
    match s with
    | Sh d cs =>
      match d with
      | DElt t ats => EncWbxml.NElt (reify_w_tag t) (map reify_w_attr ats) (map reify_w cs)
      | DText c => EncWbxml.NText c
      | DCdata => EncWbxml.NCData (map reify_w cs)
      | DPi => EncWbxml.NPi
      | DTree lg (Some tr) => EncWbxml.NTree lg (wsub tr)
      | DTree lg None => EncWbxml.NTree lg []
      end
    end.

  Variable xopts : N -> N -> bytes -> N.
  Variable xsub : N -> option EncXml.xlang * list EncXml.node.

  Definition reify_x_tag (t : tagname) : EncXml.tname :=
    match t with
    | TagTok p k nm => EncXml.TTok (EncXml.mk_trow nm p k (xopts p k nm))
    | TagLit nm => EncXml.TLit nm
    end.

  Definition reify_x_attr (a : attr) : EncXml.attr :=
    EncXml.mk_attr_node (match fst a with
                         | AttrTok _ _ nm _ => EncXml.ATok (EncXml.mk_arow nm)
                         | AttrLit nm => EncXml.ALit nm
                         end) (Some (snd a)).

  Fixpoint reify_x (s : shape) : EncXml.node :=
    match s with
    | Sh d cs =>
      match d with
      | DElt t ats => EncXml.Elt (reify_x_tag t) (map reify_x_attr ats) (map reify_x cs)
      | DText c => EncXml.Text c
      | DCdata => EncXml.CData (map reify_x cs)
      | DPi => EncXml.Pi
      | DTree _ (Some tr) => EncXml.SubTree (fst (xsub tr)) (snd (xsub tr))
      | DTree _ None => EncXml.SubTree None []
      end
    end.
End Reify.
