(* C05 — a small XML reader for the OUTPUT DIALECT of the library's XML generator, producing an infoset
   (element tree with attributes and character data), and the escape / unescape specification.

   Dialect: the declaration <?xml version="1.0"?>, white space, a DOCTYPE with PUBLIC or SYSTEM identifier and
   no internal subset, white space, one root element, white space.  Elements: start tags with attributes written
   as one space, name, '=', double-quoted value; empty-element tags "/>" ; end tags "</name>".  Content:
   character data with the five named references and decimal / hexadecimal character references, CDATA
   sections, child elements.  The reader applies XML's own normalisation: end-of-line handling (CR LF and CR
   become LF) in content and CDATA sections, and attribute-value normalisation (literal TAB, LF, CR become a
   space; characters written as references are kept).
   It REJECTS: a raw '<' in an attribute value, an '&' that does not begin one of the references above, "]]>"
   in character data, control characters other than TAB / LF / CR, an end tag that does not match, a repeated
   attribute name, anything after the root element but white space.
   Not checked (byte-level reader): UTF-8 well-formedness and the exact XML Name character classes beyond ASCII
   (every byte >= 0x80 is accepted in names and text).  The check compares this reader with pyexpat on every
   output of the C for which the property's hypotheses hold.
   Recursion: leaf parsers are structural; element / content nesting is on explicit fuel.  Definitions only. *)
From Coq Require Import List NArith Bool String.
From Wbxml Require Import Model.Codec Model.EncXml.
Import ListNotations.
Local Open Scope N_scope.

(* ------------------------------------------------------------------ *)
(* infoset                                                             *)

Inductive xitem :=
| XE (name : bytes) (attrs : list (bytes * bytes)) (children : list xitem)
| XT (text : bytes).

Record xdoc := mk_xdoc {
  d_root_name : bytes;            (* DOCTYPE name *)
  d_public : option bytes;        (* PUBLIC identifier *)
  d_system : bytes;               (* system identifier *)
  d_items : list xitem            (* the root element *)
}.

Inductive rres (A : Type) := ROk (a : A) | RErr | RFuel.
Arguments ROk {A} a.
Arguments RErr {A}.
Arguments RFuel {A}.

(* ------------------------------------------------------------------ *)
(* character classes                                                   *)

Definition is_ws (c : N) : bool := (c =? 32) || (c =? 9) || (c =? 10) || (c =? 13).
Definition is_name_start (c : N) : bool :=
  ((65 <=? c) && (c <=? 90)) || ((97 <=? c) && (c <=? 122)) || (c =? 95) || (c =? 58) || (128 <=? c).
Definition is_name_char (c : N) : bool :=
  is_name_start c || ((48 <=? c) && (c <=? 57)) || (c =? 45) || (c =? 46).
Definition is_xml_byte (c : N) : bool := (32 <=? c) || (c =? 9) || (c =? 10) || (c =? 13).

Definition is_xml_name (n : bytes) : bool :=
  match n with
  | c :: r => is_name_start c && forallb is_name_char r
  | [] => false
  end.

(* ------------------------------------------------------------------ *)
(* escape / unescape                                                   *)

(* end-of-line handling of XML 1.0 §2.11 on raw input *)
Fixpoint norm_eol (s : bytes) : bytes :=
  match s with
  | c :: r =>
    if c =? 13 then
      match r with
      | d :: r' => if d =? 10 then 10 :: norm_eol r' else 10 :: norm_eol r
      | [] => [10]
      end
    else c :: norm_eol r
  | [] => []
  end.

(* attribute-value normalisation of the raw (already end-of-line normalised) value text: white space -> space *)
Definition attr_ws (s : bytes) : bytes := map (fun c => if is_ws c then 32 else c) s.

Definition dec_digit (c : N) : option N := if (48 <=? c) && (c <=? 57) then Some (c - 48) else None.
Definition hex_digit (c : N) : option N :=
  if (48 <=? c) && (c <=? 57) then Some (c - 48)
  else if (97 <=? c) && (c <=? 102) then Some (c - 87)
  else if (65 <=? c) && (c <=? 70) then Some (c - 55)
  else None.

(* a character reference may only denote an XML character *)
Definition is_xml_char_code (c : N) : bool :=
  (c =? 9) || (c =? 10) || (c =? 13) || ((32 <=? c) && (c <=? 55295)) || ((57344 <=? c) && (c <=? 65533))
  || ((65536 <=? c) && (c <=? 1114111)).

Inductive ustate := UPlain | UDec (code : N) (nd : nat) | UHex (code : N) (nd : nat).

(* decode references in raw text; None = not well-formed.  Structural: named references are matched as
   prefixes, numeric ones are accumulated digit by digit. *)
Fixpoint unesc (s : bytes) (st : ustate) : option bytes :=
  match st with
  | UPlain =>
    match s with
    | [] => Some []
    | c :: r =>
      if c =? 38 then
        match r with
        | 108 :: 116 :: 59 :: r' => option_map (cons 60) (unesc r' UPlain)
        | 103 :: 116 :: 59 :: r' => option_map (cons 62) (unesc r' UPlain)
        | 97 :: 109 :: 112 :: 59 :: r' => option_map (cons 38) (unesc r' UPlain)
        | 113 :: 117 :: 111 :: 116 :: 59 :: r' => option_map (cons 34) (unesc r' UPlain)
        | 97 :: 112 :: 111 :: 115 :: 59 :: r' => option_map (cons 39) (unesc r' UPlain)
        | 35 :: 120 :: r' => unesc r' (UHex 0 0)
        | 35 :: r' => unesc r' (UDec 0 0)
        | _ => None
        end
      else if c =? 60 then None
      else option_map (cons c) (unesc r UPlain)
    end
  | UDec code nd =>
    match s with
    | [] => None
    | c :: r =>
      if c =? 59 then
        match nd with
        | O => None
        | _ => if is_xml_char_code code then option_map (app (utf8_spec code)) (unesc r UPlain) else None
        end
      else
        match dec_digit c with
        | Some d => if code <? 1114112 then unesc r (UDec (code * 10 + d) (S nd)) else None
        | None => None
        end
    end
  | UHex code nd =>
    match s with
    | [] => None
    | c :: r =>
      if c =? 59 then
        match nd with
        | O => None
        | _ => if is_xml_char_code code then option_map (app (utf8_spec code)) (unesc r UPlain) else None
        end
      else
        match hex_digit c with
        | Some d => if code <? 1114112 then unesc r (UHex (code * 16 + d) (S nd)) else None
        | None => None
        end
    end
  end.

Definition unescape (s : bytes) : option bytes := unesc s UPlain.

(* ------------------------------------------------------------------ *)
(* leaf parsers (all structural)                                       *)

Fixpoint skip_ws (s : bytes) : bytes :=
  match s with
  | c :: r => if is_ws c then skip_ws r else s
  | [] => []
  end.

(* expect a literal prefix *)
Fixpoint expect (p s : bytes) : option bytes :=
  match p with
  | [] => Some s
  | a :: p' => match s with b :: s' => if a =? b then expect p' s' else None | [] => None end
  end.

(* longest prefix of bytes satisfying f *)
Fixpoint span (f : N -> bool) (s : bytes) : bytes * bytes :=
  match s with
  | c :: r => if f c then let '(a, b) := span f r in (c :: a, b) else ([], s)
  | [] => ([], [])
  end.

Definition p_name (s : bytes) : option (bytes * bytes) :=
  match s with
  | c :: r => if is_name_start c then let '(n, r') := span is_name_char r in Some (c :: n, r') else None
  | [] => None
  end.

(* does "]]>" occur in s ? *)
Fixpoint has_cdata_end (s : bytes) : bool :=
  match s with
  | a :: r =>
    (match r with
     | b :: c :: _ => (a =? 93) && (b =? 93) && (c =? 62)
     | _ => false
     end) || has_cdata_end r
  | [] => false
  end.

(* text up to the first "]]>" and what follows it *)
Fixpoint span_cdata (s : bytes) : option (bytes * bytes) :=
  match s with
  | a :: r =>
    match r with
    | b :: c :: r' =>
      if (a =? 93) && (b =? 93) && (c =? 62) then Some ([], r')
      else match span_cdata r with Some (x, y) => Some (a :: x, y) | None => None end
    | _ => None
    end
  | [] => None
  end.

(* a run of character data (up to the next '<'): returns the decoded text *)
Definition p_chardata (s : bytes) : option (bytes * bytes) :=
  let '(run, rest) := span (fun c => negb (c =? 60)) s in
  if forallb is_xml_byte run && negb (has_cdata_end run) then
    match unescape (norm_eol run) with
    | Some t => Some (t, rest)
    | None => None
    end
  else None.

(* an attribute value after the opening quote: up to the closing quote *)
Definition p_attvalue (s : bytes) : option (bytes * bytes) :=
  let '(run, rest) := span (fun c => negb (c =? 34)) s in
  match rest with
  | _ :: rest' =>     (* the closing quote (span stopped at it) *)
    if forallb is_xml_byte run then
      match unescape (attr_ws (norm_eol run)) with
      | Some v => Some (v, rest')
      | None => None
      end
    else None
  | [] => None
  end.

Fixpoint bytes_in (n : bytes) (l : list (bytes * bytes)) : bool :=
  match l with
  | [] => false
  | (k, _) :: r => bytes_eqb n k || bytes_in n r
  end.

(* attributes of a start tag: (" " name "=" '"' value '"')* then ">" (false) or "/>" (true).  Structural on a
   counter bounded by the input length (every attribute consumes at least 5 bytes). *)
Fixpoint p_attrs (n : nat) (s : bytes) (acc : list (bytes * bytes)) : option (list (bytes * bytes) * bool * bytes) :=
  match n with
  | O => None
  | S k =>
    match s with
    | [] => None
    | c :: r =>
      if c =? 62 then Some (rev acc, false, r)
      else if c =? 47 then
        match r with
        | d :: r' => if d =? 62 then Some (rev acc, true, r') else None
        | [] => None
        end
      else if c =? 32 then
        match p_name r with
        | Some (nm, r1) =>
          match expect [61; 34] r1 with
          | Some r2 =>
            match p_attvalue r2 with
            | Some (v, r3) => if bytes_in nm acc then None else p_attrs k r3 ((nm, v) :: acc)
            | None => None
            end
          | None => None
          end
        | None => None
        end
      else None
    end
  end.

(* add a run of character data to the (reversed) item list: adjacent runs are one text, empty runs are nothing *)
Definition push_text (t : bytes) (acc : list xitem) : list xitem :=
  match t with
  | [] => acc
  | _ => match acc with
         | XT u :: acc' => XT (u ++ t) :: acc'
         | _ => XT t :: acc
         end
  end.

Definition s_cdata_tail : bytes := Eval vm_compute in bs "[CDATA["%string.

(* ------------------------------------------------------------------ *)
(* elements and content (fuel)                                         *)

Fixpoint p_content (fuel : nat) (s : bytes) (acc : list xitem) : rres (list xitem * bytes) :=
  match fuel with
  | O => RFuel
  | S f =>
    match s with
    | [] => RErr
    | c0 :: r0 =>
      if c0 =? 60 then
        match r0 with
        | [] => RErr
        | c1 :: r =>
          if c1 =? 47 then ROk (rev acc, r)                         (* "</" *)
          else if c1 =? 33 then                                     (* "<!" : only a CDATA section is allowed here *)
            match expect s_cdata_tail r with
            | Some r1 =>
              match span_cdata r1 with
              | Some (t, r2) => if forallb is_xml_byte t then p_content f r2 (push_text (norm_eol t) acc) else RErr
              | None => RErr
              end
            | None => RErr
            end
          else
            match p_name r0 with
            | Some (nm, r1) =>
              match p_attrs (S (List.length r1)) r1 [] with
              | Some (attrs, true, r2) => p_content f r2 (XE nm attrs [] :: acc)
              | Some (attrs, false, r2) =>
                match p_content f r2 [] with
                | ROk (ch, r3) =>
                  match p_name r3 with
                  | Some (nm', r4) =>
                    if bytes_eqb nm nm' then
                      match skip_ws r4 with
                      | c5 :: r5 => if c5 =? 62 then p_content f r5 (XE nm attrs ch :: acc) else RErr
                      | [] => RErr
                      end
                    else RErr
                  | None => RErr
                  end
                | RErr => RErr
                | RFuel => RFuel
                end
              | None => RErr
              end
            | None => RErr
            end
        end
      else
        match p_chardata s with
        | Some (t, r) => p_content f r (push_text t acc)
        | None => RErr
        end
    end
  end.

(* the root element: content of a virtual parent that ends at end of input *)
Definition p_root (fuel : nat) (s : bytes) : rres (list xitem) :=
  match s with
  | 60 :: c :: _ =>
    if is_name_start c then
      (* parse exactly one element by wrapping: "<root…>…</root>" followed by the sentinel "</" *)
      match p_content fuel (s ++ [60; 47]) [] with
      | ROk (items, r) =>
        match items, r with
        | [XE _ _ _] as it, [] => ROk it
        | [XE nm a ch; XT t], [] => if forallb is_ws t then ROk [XE nm a ch] else RErr
        | _, _ => RErr
        end
      | RErr => RErr
      | RFuel => RFuel
      end
    else RErr
  | _ => RErr
  end.

Definition s_pub_kw : bytes := Eval vm_compute in bs " PUBLIC """.
Definition s_sys_kw : bytes := Eval vm_compute in bs " SYSTEM"%string.

Definition not_quote (c : N) : bool := negb (c =? 34).

Definition read_xml (fuel : nat) (s : bytes) : rres xdoc :=
  match expect s_xmldecl s with
  | None => RErr
  | Some s1 =>
    match expect s_doctype (skip_ws s1) with
    | None => RErr
    | Some s2 =>
      match p_name s2 with
      | None => RErr
      | Some (rn, s3) =>
        let ext :=
          match expect s_pub_kw s3 with
          | Some s4 =>
            let '(pub, s5) := span not_quote s4 in
            match s5 with _ :: s6 => Some (Some pub, s6) | [] => None end
          | None =>
            match expect s_sys_kw s3 with
            | Some s4 => Some (None, s4)
            | None => None
            end
          end in
        match ext with
        | None => RErr
        | Some (pub, s7) =>
          match expect s_dtd_open s7 with
          | None => RErr
          | Some s8 =>
            let '(sys, s9) := span not_quote s8 in
            match expect s_dtd_close s9 with
            | None => RErr
            | Some s10 =>
              match p_root fuel (skip_ws s10) with
              | ROk items => ROk (mk_xdoc rn pub sys items)
              | RErr => RErr
              | RFuel => RFuel
              end
            end
          end
        end
      end
    end
  end.

(* fuel that always suffices: every recursive call of p_content consumes at least one byte *)
Definition read_xml_auto (s : bytes) : rres xdoc := read_xml (S (S (S (List.length s)))) s.
