(* C02 — the concrete whole-conversion model of wbxml_conv_xml2wbxml_run (src/wbxml_conv.c):
     Conv.conv_run  instantiated with
       tree_from_doc := the XML front end (Model/XmlFront.v) applied to Expat's events and verdict for the document
       encode        := wbxml_tree_to_wbxml = EncWbxml.enc_wbxml on the language of the tree
   for the options {wbxml_version, keep_ignorable_ws, use_strtbl, produce_anonymous} (EncWbxml.options).
   tree->orig_charset is carried by the tree but the WBXML output never depends on it (wbxml_fill_header writes
   WBXML_ENCODER_DEFAULT_CHARSET = UTF-8; no charset field in WBXML 1.0).  No proofs here. *)
From Coq Require Import List NArith Bool.
From Wbxml Require Import Model.TablesDefs Model.Conv Model.EncWbxml Model.XmlFront.
Import ListNotations.
Local Open Scope N_scope.

(* wbxml_tree_to_wbxml + wbxml_encoder_encode_tree_to_wbxml: the encoder takes the language from the tree
   (encoder->lang == NULL && tree->lang == NULL -> WBXML_ERROR_BAD_PARAMETER) *)
Definition encode_tree (btbl : list blang) (o : options) (t : xtree) : list N + N :=
  match find_lang btbl (xt_lang t) with
  | None => inr XmlFront.E_BAD_PARAMETER
  | Some l => match enc_wbxml btbl l o (xt_roots t) with
              | EOk b => inl b
              | EErr c => inr c
              end
  end.

(* one conversion, given what Expat delivers for THIS document (events, XML_Parse verdict) and the nested parse *)
Definition xml2wbxml_events (main : list lang) (btbl : list blang) (sub : bytes -> xtree + N)
           (events : list event) (expat_ok : bool) (o : options) (doc : bytes) : conv_result :=
  conv_run xtree options (fun _ d => tree_from_xml main sub d events expat_ok) (encode_tree btbl) false o doc.

(* the whole function with Expat as the oracle (nested parses are the front end itself) *)
Definition xml2wbxml (main : list lang) (btbl : list blang) (expat : bytes -> list event * bool) (fuel : nat)
           (o : options) (doc : bytes) : conv_result :=
  conv_run xtree options (fun _ d => tree_from_xml_fuel main expat fuel d) (encode_tree btbl) false o doc.

(* the legacy entry point wbxml_conv_xml2wbxml_withlen: params may be NULL -> the converter object's defaults
   (WBXML 1.3, ignorable white space dropped, string table on, public id kept) *)
Definition default_options : options := mk_opts 3 true false false.
Definition xml2wbxml_withlen (main : list lang) (btbl : list blang) (expat : bytes -> list event * bool) (fuel : nat)
           (po : option options) (doc : bytes) : conv_result :=
  conv_withlen xtree options (fun _ d => tree_from_xml_fuel main expat fuel d) (encode_tree btbl) default_options false po doc.
