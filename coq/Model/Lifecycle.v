(* C15 — life cycle of the parser, converter and encoder objects.
   Transcribed from (current tree):
     wbxml_parser.c   struct WBXMLParser_s, wbxml_parser_create, wbxml_parser_reinit, wbxml_parser_parse (its
                      prologue: the two early returns, the call of reinit), the five setters
     wbxml_conv.c     struct WBXMLConvWBXML2XML_s / WBXMLConvXML2WBXML_s, the two _create, the setters, the two _run
     wbxml_encoder.c  struct WBXMLEncoder_s, wbxml_encoder_create_real, wbxml_encoder_reset, the setters,
                      wbxml_encoder_encode_tree_to_wbxml/_to_xml + encoder_encode_tree (what they store into the object)
   The records have EXACTLY the fields of the C structs, in declaration order (obligation in
   Proofs/LifecycleProofs.v against the regenerated Gen/Structs.v).  Pointers are abstracted: N with 0 = NULL, or
   option.  Everything a run does after the (re)initialisation is a Section parameter (`pbody`, `w2x_body`, `x2w_body`,
   `ebody`) that receives the WHOLE object and may therefore read every field: a stale field is visible to it.
   Definitions only. *)
From Coq Require Import List NArith ZArith String Bool.
Import ListNotations.
Local Open Scope N_scope.

Inductive fclass := Setting | RunState.

(* ====================================================================== *)
(* Parser                                                                  *)

Record parser := mkParser {
  p_user_data : N;              (* void *            : 0 = NULL *)
  p_content_hdl : N;            (* handler table     : 0 = NULL *)
  p_wbxml : option (list N);    (* WBXMLBuffer *     : None = NULL *)
  p_strstbl : option (list N);
  p_strstbl_len : N;
  p_langTable : option N;       (* language entry    : None = NULL, Some langID *)
  p_mainTable : N;              (* 1 = wbxml_tables_get_main() *)
  p_current_tag : option (N * N);  (* (code page, token) *)
  p_lang_forced : N;            (* 0 = WBXML_LANG_UNKNOWN *)
  p_public_id : N;              (* 1 = WBXML_PUBLIC_ID_UNKNOWN *)
  p_public_id_index : Z;
  p_charset : N;                (* 0 = WBXML_CHARSET_UNKNOWN *)
  p_meta_charset : N;
  p_pos : N;
  p_version : N;                (* 255 = WBXML_VERSION_UNKNOWN (-1 stored in an enum, compared as WB_UTINY) *)
  p_tagCodePage : N;
  p_attrCodePage : N;
  p_nesting : N                 (* element nesting depth (nesting limit of the parser) *)
}.

(* names and classes, in record order *)
Definition parser_class : list (string * fclass) := [
  ("user_data", Setting); ("content_hdl", Setting); ("wbxml", RunState); ("strstbl", RunState);
  ("strstbl_len", RunState); ("langTable", RunState); ("mainTable", Setting); ("current_tag", RunState);
  ("lang_forced", Setting); ("public_id", RunState); ("public_id_index", RunState); ("charset", RunState);
  ("meta_charset", Setting); ("pos", RunState); ("version", RunState); ("tagCodePage", RunState);
  ("attrCodePage", RunState); ("nesting", RunState)]%string.

(* who may assign a setting: creation and its setter *)
Definition parser_setters : list (string * list string) := [
  ("user_data", ["wbxml_parser_create"; "wbxml_parser_set_user_data"]);
  ("content_hdl", ["wbxml_parser_create"; "wbxml_parser_set_content_handler"]);
  ("mainTable", ["wbxml_parser_create"; "wbxml_parser_set_main_table"]);
  ("lang_forced", ["wbxml_parser_create"; "wbxml_parser_set_language"]);
  ("meta_charset", ["wbxml_parser_create"; "wbxml_parser_set_meta_charset"])]%string.
Definition parser_reinit_name : string := "wbxml_parser_reinit".

Definition VERSION_UNKNOWN : N := 255.
Definition PUBLIC_ID_UNKNOWN : N := 1.

(* wbxml_parser_create *)
Definition parser_create : parser := {|
  p_wbxml := None; p_user_data := 0; p_content_hdl := 0; p_strstbl := None; p_strstbl_len := 0;
  p_langTable := None; p_mainTable := 1; p_current_tag := None; p_lang_forced := 0;
  p_public_id := PUBLIC_ID_UNKNOWN; p_public_id_index := (-1)%Z; p_charset := 0; p_meta_charset := 0;
  p_version := VERSION_UNKNOWN; p_pos := 0; p_tagCodePage := 0; p_attrCodePage := 0; p_nesting := 0 |}.

(* wbxml_parser_reinit: field by field, in the order of the C *)
Definition parser_reinit (p : parser) : parser := {|
  p_user_data := p_user_data p;            (* kept *)
  p_content_hdl := p_content_hdl p;        (* kept *)
  p_wbxml := None;                         (* destroyed; = NULL *)
  p_strstbl := None;                       (* destroyed; = NULL *)
  p_strstbl_len := 0;
  p_langTable := None;
  p_mainTable := p_mainTable p;            (* kept *)
  p_current_tag := None;
  p_lang_forced := p_lang_forced p;        (* kept *)
  p_public_id := PUBLIC_ID_UNKNOWN;
  p_public_id_index := (-1)%Z;
  p_charset := 0;
  p_meta_charset := p_meta_charset p;      (* kept *)
  p_pos := 0;
  p_version := VERSION_UNKNOWN;
  p_tagCodePage := 0;
  p_attrCodePage := 0;
  p_nesting := 0 |}.

(* setters *)
Definition p_set_user_data (p : parser) (v : N) : parser :=
  mkParser v (p_content_hdl p) (p_wbxml p) (p_strstbl p) (p_strstbl_len p) (p_langTable p) (p_mainTable p)
    (p_current_tag p) (p_lang_forced p) (p_public_id p) (p_public_id_index p) (p_charset p) (p_meta_charset p)
    (p_pos p) (p_version p) (p_tagCodePage p) (p_attrCodePage p) (p_nesting p).
Definition p_set_content_handler (p : parser) (v : N) : parser :=
  mkParser (p_user_data p) v (p_wbxml p) (p_strstbl p) (p_strstbl_len p) (p_langTable p) (p_mainTable p)
    (p_current_tag p) (p_lang_forced p) (p_public_id p) (p_public_id_index p) (p_charset p) (p_meta_charset p)
    (p_pos p) (p_version p) (p_tagCodePage p) (p_attrCodePage p) (p_nesting p).
Definition p_set_main_table (p : parser) (v : N) : parser :=
  mkParser (p_user_data p) (p_content_hdl p) (p_wbxml p) (p_strstbl p) (p_strstbl_len p) (p_langTable p) v
    (p_current_tag p) (p_lang_forced p) (p_public_id p) (p_public_id_index p) (p_charset p) (p_meta_charset p)
    (p_pos p) (p_version p) (p_tagCodePage p) (p_attrCodePage p) (p_nesting p).
Definition p_set_language (p : parser) (v : N) : parser :=
  mkParser (p_user_data p) (p_content_hdl p) (p_wbxml p) (p_strstbl p) (p_strstbl_len p) (p_langTable p) (p_mainTable p)
    (p_current_tag p) v (p_public_id p) (p_public_id_index p) (p_charset p) (p_meta_charset p)
    (p_pos p) (p_version p) (p_tagCodePage p) (p_attrCodePage p) (p_nesting p).
Definition p_set_meta_charset (p : parser) (v : N) : parser :=
  mkParser (p_user_data p) (p_content_hdl p) (p_wbxml p) (p_strstbl p) (p_strstbl_len p) (p_langTable p) (p_mainTable p)
    (p_current_tag p) (p_lang_forced p) (p_public_id p) (p_public_id_index p) (p_charset p) v
    (p_pos p) (p_version p) (p_tagCodePage p) (p_attrCodePage p) (p_nesting p).

(* the two halves of the object *)
Record psettings := mkPS { ps_user_data : N; ps_content_hdl : N; ps_mainTable : N; ps_lang_forced : N; ps_meta_charset : N }.
Record prun := mkPR {
  pr_wbxml : option (list N); pr_strstbl : option (list N); pr_strstbl_len : N; pr_langTable : option N;
  pr_current_tag : option (N * N); pr_public_id : N; pr_public_id_index : Z; pr_charset : N; pr_pos : N;
  pr_version : N; pr_tagCodePage : N; pr_attrCodePage : N; pr_nesting : N }.

Definition p_settings (p : parser) : psettings :=
  mkPS (p_user_data p) (p_content_hdl p) (p_mainTable p) (p_lang_forced p) (p_meta_charset p).
Definition p_runstate (p : parser) : prun :=
  mkPR (p_wbxml p) (p_strstbl p) (p_strstbl_len p) (p_langTable p) (p_current_tag p) (p_public_id p)
       (p_public_id_index p) (p_charset p) (p_pos p) (p_version p) (p_tagCodePage p) (p_attrCodePage p) (p_nesting p).
Definition p_make (s : psettings) (r : prun) : parser :=
  mkParser (ps_user_data s) (ps_content_hdl s) (pr_wbxml r) (pr_strstbl r) (pr_strstbl_len r) (pr_langTable r)
    (ps_mainTable s) (pr_current_tag r) (ps_lang_forced s) (pr_public_id r) (pr_public_id_index r) (pr_charset r)
    (ps_meta_charset s) (pr_pos r) (pr_version r) (pr_tagCodePage r) (pr_attrCodePage r) (pr_nesting r).

(* a freshly created object on which the caller has made the same settings *)
Definition parser_fresh (s : psettings) : parser :=
  p_set_meta_charset (p_set_language (p_set_main_table (p_set_content_handler (p_set_user_data parser_create
    (ps_user_data s)) (ps_content_hdl s)) (ps_mainTable s)) (ps_lang_forced s)) (ps_meta_charset s).

Inductive pop (doc : Type) :=
| PParse (d : doc) | PSetUser (v : N) | PSetHdl (v : N) | PSetMain (v : N) | PSetLang (v : N) | PSetMeta (v : N).
Arguments PParse {doc} d.
Arguments PSetUser {doc} v.
Arguments PSetHdl {doc} v.
Arguments PSetMain {doc} v.
Arguments PSetLang {doc} v.
Arguments PSetMeta {doc} v.

Section ParserRuns.
  Variables doc result : Type.
  Variable doc_empty : doc -> bool.          (* wbxml == NULL || wbxml_len <= 0 *)
  Variable empty_result : result.            (* WBXML_ERROR_EMPTY_WBXML, no event *)
  (* everything wbxml_parser_parse does after wbxml_parser_reinit: header, string table, body, the events.
     It sees the whole object; it yields the run-state it leaves behind and the observable result
     (status, events).  That it assigns no setting field is the writers obligation over Gen/Structs.v. *)
  Variable pbody : parser -> doc -> prun * result.

  Definition parser_parse_with (reinit : parser -> parser) (p : parser) (d : doc) : parser * result :=
    if doc_empty d then (p, empty_result)                 (* early return: the object is not touched *)
    else let p0 := reinit p in
         let '(rs, r) := pbody p0 d in (p_make (p_settings p0) rs, r).

  Definition parser_parse := parser_parse_with parser_reinit.

  Definition pstep (parse : parser -> doc -> parser * result) (p : parser) (o : pop doc) : parser * list result :=
    match o with
    | PParse d => let '(p', r) := parse p d in (p', [r])
    | PSetUser v => (p_set_user_data p v, [])
    | PSetHdl v => (p_set_content_handler p v, [])
    | PSetMain v => (p_set_main_table p v, [])
    | PSetLang v => (p_set_language p v, [])
    | PSetMeta v => (p_set_meta_charset p v, [])
    end.

  (* ONE object through a whole history *)
  Fixpoint p_exec_with (parse : parser -> doc -> parser * result) (p : parser) (ops : list (pop doc)) : parser * list result :=
    match ops with
    | [] => (p, [])
    | o :: r => let '(p1, out1) := pstep parse p o in
                let '(p2, out2) := p_exec_with parse p1 r in (p2, out1 ++ out2)
    end.
  Definition p_exec := p_exec_with parser_parse.

  (* specification: every document on a FRESH object carrying the settings in force; only the settings are threaded *)
  Definition ps_step (s : psettings) (o : pop doc) : psettings * list result :=
    match o with
    | PParse d => (s, [snd (parser_parse (parser_fresh s) d)])
    | PSetUser v => (mkPS v (ps_content_hdl s) (ps_mainTable s) (ps_lang_forced s) (ps_meta_charset s), [])
    | PSetHdl v => (mkPS (ps_user_data s) v (ps_mainTable s) (ps_lang_forced s) (ps_meta_charset s), [])
    | PSetMain v => (mkPS (ps_user_data s) (ps_content_hdl s) v (ps_lang_forced s) (ps_meta_charset s), [])
    | PSetLang v => (mkPS (ps_user_data s) (ps_content_hdl s) (ps_mainTable s) v (ps_meta_charset s), [])
    | PSetMeta v => (mkPS (ps_user_data s) (ps_content_hdl s) (ps_mainTable s) (ps_lang_forced s) v, [])
    end.
  Fixpoint p_spec (s : psettings) (ops : list (pop doc)) : psettings * list result :=
    match ops with
    | [] => (s, [])
    | o :: r => let '(s1, out1) := ps_step s o in let '(s2, out2) := p_spec s1 r in (s2, out1 ++ out2)
    end.
End ParserRuns.

(* a re-initialisation that forgets one field (the mutation of MUTATIONS.md M1), to show the statement can tell *)
Definition parser_reinit_forgets_attrCodePage (p : parser) : parser :=
  let q := parser_reinit p in
  mkParser (p_user_data q) (p_content_hdl q) (p_wbxml q) (p_strstbl q) (p_strstbl_len q) (p_langTable q) (p_mainTable q)
    (p_current_tag q) (p_lang_forced q) (p_public_id q) (p_public_id_index q) (p_charset q) (p_meta_charset q)
    (p_pos q) (p_version q) (p_tagCodePage q) (p_attrCodePage p) (p_nesting q).

(* ====================================================================== *)
(* Converters                                                              *)

Record conv_w2x := mkW2X { cw_gen_type : N; cw_lang : N; cw_charset : N; cw_indent : N; cw_keep_ignorable_ws : bool }.
Record conv_x2w := mkX2W { cx_wbxml_version : N; cx_keep_ignorable_ws : bool; cx_use_strtbl : bool; cx_produce_anonymous : bool }.

Definition conv_w2x_class : list (string * fclass) :=
  [("gen_type", Setting); ("lang", Setting); ("charset", Setting); ("indent", Setting); ("keep_ignorable_ws", Setting)]%string.
Definition conv_x2w_class : list (string * fclass) :=
  [("wbxml_version", Setting); ("keep_ignorable_ws", Setting); ("use_strtbl", Setting); ("produce_anonymous", Setting)]%string.
Definition conv_w2x_setters : list (string * list string) := [
  ("gen_type", ["wbxml_conv_wbxml2xml_create"; "wbxml_conv_wbxml2xml_set_gen_type"]);
  ("lang", ["wbxml_conv_wbxml2xml_create"; "wbxml_conv_wbxml2xml_set_language"]);
  ("charset", ["wbxml_conv_wbxml2xml_create"; "wbxml_conv_wbxml2xml_set_charset"]);
  ("indent", ["wbxml_conv_wbxml2xml_create"; "wbxml_conv_wbxml2xml_set_indent"]);
  ("keep_ignorable_ws", ["wbxml_conv_wbxml2xml_create"; "wbxml_conv_wbxml2xml_enable_preserve_whitespaces"])]%string.
Definition conv_x2w_setters : list (string * list string) := [
  ("wbxml_version", ["wbxml_conv_xml2wbxml_create"; "wbxml_conv_xml2wbxml_set_version"]);
  ("keep_ignorable_ws", ["wbxml_conv_xml2wbxml_create"; "wbxml_conv_xml2wbxml_enable_preserve_whitespaces"]);
  ("use_strtbl", ["wbxml_conv_xml2wbxml_create"; "wbxml_conv_xml2wbxml_disable_string_table"]);
  ("produce_anonymous", ["wbxml_conv_xml2wbxml_create"; "wbxml_conv_xml2wbxml_disable_public_id"])]%string.

(* wbxml_conv_wbxml2xml_create: INDENT (1), UNKNOWN, UNKNOWN, 0, FALSE *)
Definition w2x_create : conv_w2x := mkW2X 1 0 0 0 false.
(* wbxml_conv_xml2wbxml_create: WBXML 1.3 (3), FALSE, TRUE, FALSE *)
Definition x2w_create : conv_x2w := mkX2W 3 false true false.

Inductive w2x_op (doc : Type) := WRun (d : doc) | WGen (v : N) | WLang (v : N) | WCharset (v : N) | WIndent (v : N) | WKeepWs.
Inductive x2w_op (doc : Type) := XRun (d : doc) | XVersion (v : N) | XKeepWs | XNoStrtbl | XAnonymous.
Arguments WRun {doc} d. Arguments WGen {doc} v. Arguments WLang {doc} v. Arguments WCharset {doc} v.
Arguments WIndent {doc} v. Arguments WKeepWs {doc}.
Arguments XRun {doc} d. Arguments XVersion {doc} v. Arguments XKeepWs {doc}. Arguments XNoStrtbl {doc}. Arguments XAnonymous {doc}.

Section ConvRuns.
  Variables doc result : Type.
  (* wbxml_conv_wbxml2xml_run: copies the five options into a local parameter block, builds a tree with
     (lang, charset), generates XML with the block, destroys the tree; the object is only read *)
  Variable w2x_body : N -> N -> N -> N -> bool -> doc -> result.   (* gen_type lang charset indent keep_ws *)
  Variable x2w_body : N -> bool -> bool -> bool -> doc -> result.   (* version keep_ws use_strtbl anonymous *)

  Definition w2x_run (c : conv_w2x) (d : doc) : conv_w2x * result :=
    (c, w2x_body (cw_gen_type c) (cw_lang c) (cw_charset c) (cw_indent c) (cw_keep_ignorable_ws c) d).
  Definition x2w_run (c : conv_x2w) (d : doc) : conv_x2w * result :=
    (c, x2w_body (cx_wbxml_version c) (cx_keep_ignorable_ws c) (cx_use_strtbl c) (cx_produce_anonymous c) d).

  Definition w2x_step (c : conv_w2x) (o : w2x_op doc) : conv_w2x * list result :=
    match o with
    | WRun d => let '(c', r) := w2x_run c d in (c', [r])
    | WGen v => (mkW2X v (cw_lang c) (cw_charset c) (cw_indent c) (cw_keep_ignorable_ws c), [])
    | WLang v => (mkW2X (cw_gen_type c) v (cw_charset c) (cw_indent c) (cw_keep_ignorable_ws c), [])
    | WCharset v => (mkW2X (cw_gen_type c) (cw_lang c) v (cw_indent c) (cw_keep_ignorable_ws c), [])
    | WIndent v => (mkW2X (cw_gen_type c) (cw_lang c) (cw_charset c) v (cw_keep_ignorable_ws c), [])
    | WKeepWs => (mkW2X (cw_gen_type c) (cw_lang c) (cw_charset c) (cw_indent c) true, [])
    end.
  Definition x2w_step (c : conv_x2w) (o : x2w_op doc) : conv_x2w * list result :=
    match o with
    | XRun d => let '(c', r) := x2w_run c d in (c', [r])
    | XVersion v => (mkX2W v (cx_keep_ignorable_ws c) (cx_use_strtbl c) (cx_produce_anonymous c), [])
    | XKeepWs => (mkX2W (cx_wbxml_version c) true (cx_use_strtbl c) (cx_produce_anonymous c), [])
    | XNoStrtbl => (mkX2W (cx_wbxml_version c) (cx_keep_ignorable_ws c) false (cx_produce_anonymous c), [])
    | XAnonymous => (mkX2W (cx_wbxml_version c) (cx_keep_ignorable_ws c) (cx_use_strtbl c) true, [])
    end.
  Fixpoint w2x_exec (c : conv_w2x) (ops : list (w2x_op doc)) : conv_w2x * list result :=
    match ops with
    | [] => (c, [])
    | o :: r => let '(c1, o1) := w2x_step c o in let '(c2, o2) := w2x_exec c1 r in (c2, o1 ++ o2)
    end.
  Fixpoint x2w_exec (c : conv_x2w) (ops : list (x2w_op doc)) : conv_x2w * list result :=
    match ops with
    | [] => (c, [])
    | o :: r => let '(c1, o1) := x2w_step c o in let '(c2, o2) := x2w_exec c1 r in (c2, o1 ++ o2)
    end.
  (* specification: options are the only thing threaded; a run is w2x_body / x2w_body of (options, input) *)
  Definition w2x_opts (c : conv_w2x) (o : w2x_op doc) : conv_w2x := fst (w2x_step c (match o with WRun _ => WGen (cw_gen_type c) | x => x end)).
  Fixpoint w2x_spec (c : conv_w2x) (ops : list (w2x_op doc)) : list result :=
    match ops with
    | [] => []
    | WRun d :: r => w2x_body (cw_gen_type c) (cw_lang c) (cw_charset c) (cw_indent c) (cw_keep_ignorable_ws c) d :: w2x_spec c r
    | o :: r => w2x_spec (w2x_opts c o) r
    end.
  Definition x2w_opts (c : conv_x2w) (o : x2w_op doc) : conv_x2w := fst (x2w_step c (match o with XRun _ => XVersion (cx_wbxml_version c) | x => x end)).
  Fixpoint x2w_spec (c : conv_x2w) (ops : list (x2w_op doc)) : list result :=
    match ops with
    | [] => []
    | XRun d :: r => x2w_body (cx_wbxml_version c) (cx_keep_ignorable_ws c) (cx_use_strtbl c) (cx_produce_anonymous c) d :: x2w_spec c r
    | o :: r => x2w_spec (x2w_opts c o) r
    end.
End ConvRuns.

(* ====================================================================== *)
(* Encoder                                                                 *)

Record encoder := mkEnc {
  e_tree : N;                          (* WBXMLTree *: 0 = NULL, else an identity *)
  e_lang : option N;                   (* language entry: None = NULL, Some langID *)
  e_output : option (list N);
  e_output_header : option (list N);
  e_current_tag : option (N * N);
  e_current_text_parent : N;
  e_current_attr : N;
  e_current_node : N;
  e_tagCodePage : N;
  e_attrCodePage : N;
  e_ignore_empty_text : bool;
  e_remove_text_blanks : bool;
  e_output_type : N;                   (* 0 = WBXML, 1 = XML *)
  e_xml_gen_type : N;                  (* 0 = COMPACT, 1 = INDENT, 2 = CANONICAL *)
  e_indent_delta : N;
  e_indent : N;
  e_in_content : bool;
  e_in_cdata : bool;
  e_cdata : option (list N);
  e_strstbl : option (list N);         (* WBXMLList *: None = NULL, Some l = a list object with these elements *)
  e_strstbl_len : N;
  e_use_strtbl : bool;
  e_xml_encode_header : bool;
  e_produce_anonymous : bool;
  e_wbxml_version : N;
  e_output_charset : N;                (* 0 = WBXML_CHARSET_UNKNOWN *)
  e_flow_mode : bool;
  e_pre_last_node_len : N;
  e_pre_last_tagCodePage : N;          (* the five fields below: state saved before the last node, for delete_last_node (D16 repair) *)
  e_pre_last_attrCodePage : N;
  e_pre_last_indent : N;
  e_pre_last_in_content : bool;
  e_pre_last_tag : option (N * N);
  e_textual_publicid : bool
}.

Definition encoder_class : list (string * fclass) := [
  ("tree", RunState); ("lang", Setting); ("output", RunState); ("output_header", RunState);
  ("current_tag", RunState); ("current_text_parent", RunState); ("current_attr", RunState);
  ("current_node", RunState); ("tagCodePage", RunState); ("attrCodePage", RunState);
  ("ignore_empty_text", Setting); ("remove_text_blanks", Setting); ("output_type", Setting);
  ("xml_gen_type", Setting); ("indent_delta", Setting); ("indent", RunState); ("in_content", RunState);
  ("in_cdata", RunState); ("cdata", RunState); ("strstbl", RunState); ("strstbl_len", RunState);
  ("use_strtbl", Setting); ("xml_encode_header", Setting); ("produce_anonymous", Setting);
  ("wbxml_version", Setting); ("output_charset", Setting); ("flow_mode", Setting);
  ("pre_last_node_len", RunState); ("pre_last_tagCodePage", RunState); ("pre_last_attrCodePage", RunState);
  ("pre_last_indent", RunState); ("pre_last_in_content", RunState); ("pre_last_tag", RunState); ("textual_publicid", Setting)]%string.

(* who may assign a setting.  encoder_duplicate assigns fields of the NEW object it has just created (nested
   trees); encoder_encode_tree and wbxml_encoder_encode_tree are the run functions that store values derived from
   the tree into setting fields — modelled explicitly below (enc_prologue); wbxml_encoder_encode_tree (flow mode)
   saves and restores `lang` itself; encoder_encode_tree_to_output / wbxml_encoder_encode_tree_to_wbxml / _to_xml
   are where the repaired code (DEFECTS.md) puts the caller's values back (enc_encode_fixed). *)
Definition encoder_setters : list (string * list string) := [
  ("lang", ["encoder_encode_tree"; "wbxml_encoder_create_real"; "wbxml_encoder_encode_tree"; "wbxml_encoder_set_lang";
            "wbxml_encoder_encode_tree_to_wbxml"; "wbxml_encoder_encode_tree_to_xml"; "encoder_encode_tree_to_output"]);
  ("ignore_empty_text", ["encoder_duplicate"; "wbxml_encoder_create_real"; "wbxml_encoder_set_ignore_empty_text"]);
  ("remove_text_blanks", ["encoder_duplicate"; "wbxml_encoder_create_real"; "wbxml_encoder_set_remove_text_blanks"]);
  ("output_type", ["encoder_duplicate"; "wbxml_encoder_create_real"; "wbxml_encoder_set_output_type"]);
  ("xml_gen_type", ["encoder_duplicate"; "wbxml_encoder_create_real"; "wbxml_encoder_set_xml_gen_type"]);
  ("indent_delta", ["encoder_duplicate"; "wbxml_encoder_create_real"; "wbxml_encoder_set_indent"]);
  ("use_strtbl", ["encoder_duplicate"; "encoder_encode_tree"; "wbxml_encoder_create_real"; "wbxml_encoder_set_use_strtbl";
                  "wbxml_encoder_encode_tree_to_wbxml"; "wbxml_encoder_encode_tree_to_xml"; "encoder_encode_tree_to_output"]);
  ("xml_encode_header", ["encoder_duplicate"; "wbxml_encoder_create_real"]);
  ("produce_anonymous", ["wbxml_encoder_create_real"; "wbxml_encoder_set_produce_anonymous"]);
  ("wbxml_version", ["encoder_duplicate"; "wbxml_encoder_create_real"; "wbxml_encoder_set_wbxml_version"]);
  ("output_charset", ["encoder_encode_tree"; "wbxml_encoder_create_real"; "wbxml_encoder_set_output_charset";
                      "wbxml_encoder_encode_tree_to_wbxml"; "wbxml_encoder_encode_tree_to_xml"; "encoder_encode_tree_to_output"]);
  ("flow_mode", ["wbxml_encoder_create_real"; "wbxml_encoder_set_flow_mode"]);
  ("textual_publicid", ["wbxml_encoder_create_real"; "wbxml_encoder_set_text_public_id"])]%string.
Definition encoder_reset_name : string := "wbxml_encoder_reset".
(* run-state fields wbxml_encoder_reset does not assign: indent and current_text_parent in the unchanged tree
   (defect D14; the repaired reset assigns them, the obligation accepts both); strstbl in the repaired tree (the
   list object is kept and emptied in place instead of being destroyed and set to NULL).  What reset really
   leaves in these fields is compared with enc_reset / enc_reset_fixed by the struct-dump tie on every run. *)
Definition encoder_known_unreset : list string := ["indent"; "current_text_parent"; "strstbl"]%string.

Definition OUT_WBXML : N := 0.
Definition OUT_XML : N := 1.
Definition LANG_OTA_SETTINGS : N := 1901.
Definition LANG_WV_CSP11 : N := 2301.
Definition LANG_WV_CSP12 : N := 2302.
Definition CHARSET_UTF8 : N := 106.

(* wbxml_encoder_create_real *)
Definition enc_create : encoder := {|
  e_strstbl := Some []; e_use_strtbl := true; e_strstbl_len := 0;
  e_tree := 0; e_lang := None; e_output := None; e_output_header := None;
  e_current_tag := None; e_current_text_parent := 0; e_current_attr := 0; e_current_node := 0;
  e_tagCodePage := 0; e_attrCodePage := 0;
  e_ignore_empty_text := false; e_remove_text_blanks := false;
  e_output_type := OUT_WBXML; e_xml_gen_type := 0;
  e_indent_delta := 1; e_indent := 0; e_in_content := false; e_in_cdata := false; e_cdata := None;
  e_xml_encode_header := true; e_produce_anonymous := false;
  e_wbxml_version := 3;
  e_output_charset := 0;
  e_flow_mode := false; e_pre_last_node_len := 0; e_pre_last_tagCodePage := 0; e_pre_last_attrCodePage := 0;
  e_pre_last_indent := 0; e_pre_last_in_content := false; e_pre_last_tag := None; e_textual_publicid := false |}.

(* wbxml_encoder_reset — THE CODE AS IT IS: every field either assigned or kept *)
Definition enc_reset (e : encoder) : encoder := {|
  e_tree := 0;
  e_lang := e_lang e;                                  (* kept *)
  e_output := None;                                    (* destroyed; = NULL *)
  e_output_header := None;                             (* destroyed; = NULL *)
  e_current_tag := None;
  e_current_text_parent := e_current_text_parent e;    (* kept (not mentioned) *)
  e_current_attr := 0;
  e_current_node := 0;
  e_tagCodePage := 0;
  e_attrCodePage := 0;
  e_ignore_empty_text := e_ignore_empty_text e;
  e_remove_text_blanks := e_remove_text_blanks e;
  e_output_type := e_output_type e;
  e_xml_gen_type := e_xml_gen_type e;
  e_indent_delta := e_indent_delta e;
  e_indent := e_indent e;                              (* kept (not mentioned) *)
  e_in_content := false;
  e_in_cdata := false;
  e_cdata := None;                                     (* destroyed; = NULL *)
  e_strstbl := None;                                   (* wbxml_list_destroy(...); = NULL — and NOT recreated *)
  e_strstbl_len := 0;
  e_use_strtbl := e_use_strtbl e;
  e_xml_encode_header := e_xml_encode_header e;
  e_produce_anonymous := e_produce_anonymous e;
  e_wbxml_version := e_wbxml_version e;
  e_output_charset := e_output_charset e;
  e_flow_mode := e_flow_mode e;
  e_pre_last_node_len := 0;
  e_pre_last_tagCodePage := 0;
  e_pre_last_attrCodePage := 0;
  e_pre_last_indent := 0;
  e_pre_last_in_content := false;
  e_pre_last_tag := None;
  e_textual_publicid := e_textual_publicid e |}.

(* the repaired reset (props/C15/DEFECTS.md): the list is emptied / recreated, indent and current_text_parent cleared *)
Definition enc_reset_fixed (e : encoder) : encoder :=
  let r := enc_reset e in
  mkEnc (e_tree r) (e_lang r) (e_output r) (e_output_header r) (e_current_tag r) 0 (e_current_attr r)
    (e_current_node r) (e_tagCodePage r) (e_attrCodePage r) (e_ignore_empty_text r) (e_remove_text_blanks r)
    (e_output_type r) (e_xml_gen_type r) (e_indent_delta r) 0 (e_in_content r) (e_in_cdata r) (e_cdata r)
    (Some []) (e_strstbl_len r) (e_use_strtbl r) (e_xml_encode_header r) (e_produce_anonymous r)
    (e_wbxml_version r) (e_output_charset r) (e_flow_mode r) (e_pre_last_node_len r) (e_pre_last_tagCodePage r)
    (e_pre_last_attrCodePage r) (e_pre_last_indent r) (e_pre_last_in_content r) (e_pre_last_tag r) (e_textual_publicid r).

Record esettings := mkES {
  es_lang : option N; es_ignore_empty_text : bool; es_remove_text_blanks : bool; es_output_type : N;
  es_xml_gen_type : N; es_indent_delta : N; es_use_strtbl : bool; es_xml_encode_header : bool;
  es_produce_anonymous : bool; es_wbxml_version : N; es_output_charset : N; es_flow_mode : bool;
  es_textual_publicid : bool }.
Record erun := mkER {
  er_tree : N; er_output : option (list N); er_output_header : option (list N); er_current_tag : option (N * N);
  er_current_text_parent : N; er_current_attr : N; er_current_node : N; er_tagCodePage : N; er_attrCodePage : N;
  er_indent : N; er_in_content : bool; er_in_cdata : bool; er_cdata : option (list N);
  er_strstbl : option (list N); er_strstbl_len : N; er_pre_last_node_len : N;
  er_pre_last_tagCodePage : N; er_pre_last_attrCodePage : N; er_pre_last_indent : N; er_pre_last_in_content : bool;
  er_pre_last_tag : option (N * N) }.

Definition e_settings (e : encoder) : esettings :=
  mkES (e_lang e) (e_ignore_empty_text e) (e_remove_text_blanks e) (e_output_type e) (e_xml_gen_type e)
    (e_indent_delta e) (e_use_strtbl e) (e_xml_encode_header e) (e_produce_anonymous e) (e_wbxml_version e)
    (e_output_charset e) (e_flow_mode e) (e_textual_publicid e).
Definition e_runstate (e : encoder) : erun :=
  mkER (e_tree e) (e_output e) (e_output_header e) (e_current_tag e) (e_current_text_parent e) (e_current_attr e)
    (e_current_node e) (e_tagCodePage e) (e_attrCodePage e) (e_indent e) (e_in_content e) (e_in_cdata e) (e_cdata e)
    (e_strstbl e) (e_strstbl_len e) (e_pre_last_node_len e) (e_pre_last_tagCodePage e) (e_pre_last_attrCodePage e)
    (e_pre_last_indent e) (e_pre_last_in_content e) (e_pre_last_tag e).
Definition e_make (s : esettings) (r : erun) : encoder :=
  mkEnc (er_tree r) (es_lang s) (er_output r) (er_output_header r) (er_current_tag r) (er_current_text_parent r)
    (er_current_attr r) (er_current_node r) (er_tagCodePage r) (er_attrCodePage r) (es_ignore_empty_text s)
    (es_remove_text_blanks s) (es_output_type s) (es_xml_gen_type s) (es_indent_delta s) (er_indent r)
    (er_in_content r) (er_in_cdata r) (er_cdata r) (er_strstbl r) (er_strstbl_len r) (es_use_strtbl s)
    (es_xml_encode_header s) (es_produce_anonymous s) (es_wbxml_version s) (es_output_charset s) (es_flow_mode s)
    (er_pre_last_node_len r) (er_pre_last_tagCodePage r) (er_pre_last_attrCodePage r) (er_pre_last_indent r)
    (er_pre_last_in_content r) (er_pre_last_tag r) (es_textual_publicid s).
(* the run-state a newly created encoder has *)
Definition erun_init : erun := e_runstate enc_create.
(* a newly created encoder carrying the caller's settings *)
Definition enc_fresh (s : esettings) : encoder := e_make s erun_init.

(* setters, as functions on the settings half (they assign nothing else) *)
Inductive eset :=
| ESetIgnoreEmpty (b : bool) | ESetRemoveBlanks (b : bool) | ESetOutputCharset (c : N) | ESetUseStrtbl (b : bool)
| ESetAnonymous (b : bool) | ESetVersion (v : N) | ESetGenType (g : N) | ESetIndent (i : N)
| ESetLang (l : option N)            (* the result of wbxml_tables_get_table(lang): NULL for an unknown language *)
| ESetTextPublicId (b : bool) | ESetFlowMode (b : bool) | ESetOutputType (t : N).

Definition es_apply (s : esettings) (o : eset) : esettings :=
  match o with
  | ESetIgnoreEmpty b => mkES (es_lang s) b (es_remove_text_blanks s) (es_output_type s) (es_xml_gen_type s) (es_indent_delta s) (es_use_strtbl s) (es_xml_encode_header s) (es_produce_anonymous s) (es_wbxml_version s) (es_output_charset s) (es_flow_mode s) (es_textual_publicid s)
  | ESetRemoveBlanks b => mkES (es_lang s) (es_ignore_empty_text s) b (es_output_type s) (es_xml_gen_type s) (es_indent_delta s) (es_use_strtbl s) (es_xml_encode_header s) (es_produce_anonymous s) (es_wbxml_version s) (es_output_charset s) (es_flow_mode s) (es_textual_publicid s)
  | ESetOutputCharset c => mkES (es_lang s) (es_ignore_empty_text s) (es_remove_text_blanks s) (es_output_type s) (es_xml_gen_type s) (es_indent_delta s) (es_use_strtbl s) (es_xml_encode_header s) (es_produce_anonymous s) (es_wbxml_version s) c (es_flow_mode s) (es_textual_publicid s)
  | ESetUseStrtbl b => mkES (es_lang s) (es_ignore_empty_text s) (es_remove_text_blanks s) (es_output_type s) (es_xml_gen_type s) (es_indent_delta s) b (es_xml_encode_header s) (es_produce_anonymous s) (es_wbxml_version s) (es_output_charset s) (es_flow_mode s) (es_textual_publicid s)
  | ESetAnonymous b => mkES (es_lang s) (es_ignore_empty_text s) (es_remove_text_blanks s) (es_output_type s) (es_xml_gen_type s) (es_indent_delta s) (es_use_strtbl s) (es_xml_encode_header s) b (es_wbxml_version s) (es_output_charset s) (es_flow_mode s) (es_textual_publicid s)
  | ESetVersion v =>                      (* if (version != WBXML_VERSION_UNKNOWN) *)
      if v =? VERSION_UNKNOWN then s else
      mkES (es_lang s) (es_ignore_empty_text s) (es_remove_text_blanks s) (es_output_type s) (es_xml_gen_type s) (es_indent_delta s) (es_use_strtbl s) (es_xml_encode_header s) (es_produce_anonymous s) v (es_output_charset s) (es_flow_mode s) (es_textual_publicid s)
  | ESetGenType g => mkES (es_lang s) (es_ignore_empty_text s) (es_remove_text_blanks s) (es_output_type s) g (es_indent_delta s) (es_use_strtbl s) (es_xml_encode_header s) (es_produce_anonymous s) (es_wbxml_version s) (es_output_charset s) (es_flow_mode s) (es_textual_publicid s)
  | ESetIndent i => mkES (es_lang s) (es_ignore_empty_text s) (es_remove_text_blanks s) (es_output_type s) (es_xml_gen_type s) i (es_use_strtbl s) (es_xml_encode_header s) (es_produce_anonymous s) (es_wbxml_version s) (es_output_charset s) (es_flow_mode s) (es_textual_publicid s)
  | ESetLang l => mkES l (es_ignore_empty_text s) (es_remove_text_blanks s) (es_output_type s) (es_xml_gen_type s) (es_indent_delta s) (es_use_strtbl s) (es_xml_encode_header s) (es_produce_anonymous s) (es_wbxml_version s) (es_output_charset s) (es_flow_mode s) (es_textual_publicid s)
  | ESetTextPublicId b => mkES (es_lang s) (es_ignore_empty_text s) (es_remove_text_blanks s) (es_output_type s) (es_xml_gen_type s) (es_indent_delta s) (es_use_strtbl s) (es_xml_encode_header s) (es_produce_anonymous s) (es_wbxml_version s) (es_output_charset s) (es_flow_mode s) b
  | ESetFlowMode b =>                     (* flow mode also switches the string table off *)
      mkES (es_lang s) (es_ignore_empty_text s) (es_remove_text_blanks s) (es_output_type s) (es_xml_gen_type s) (es_indent_delta s) (if b then false else es_use_strtbl s) (es_xml_encode_header s) (es_produce_anonymous s) (es_wbxml_version s) (es_output_charset s) b (es_textual_publicid s)
  | ESetOutputType t => mkES (es_lang s) (es_ignore_empty_text s) (es_remove_text_blanks s) t (es_xml_gen_type s) (es_indent_delta s) (es_use_strtbl s) (es_xml_encode_header s) (es_produce_anonymous s) (es_wbxml_version s) (es_output_charset s) (es_flow_mode s) (es_textual_publicid s)
  end.
Definition e_set (e : encoder) (o : eset) : encoder := e_make (es_apply (e_settings e) o) (e_runstate e).

Inductive eres (out : Type) := EOk (o : out) | EErr (code : N).
Arguments EOk {out} o.
Arguments EErr {out} code.
Definition force_err {out} (r : eres out) (code : N) : eres out := match r with EOk _ => EErr code | x => x end.

(* what encoder_encode_tree stores into SETTING fields before the tree is walked (the derived values) *)
Definition enc_derive (s : esettings) (t_lang : option N) (t_charset : N) : esettings :=
  let lang := match es_lang s with None => t_lang | x => x end in
  let cs := if es_output_charset s =? 0 then (if t_charset =? 0 then CHARSET_UTF8 else t_charset) else es_output_charset s in
  let ust := if es_output_type s =? OUT_WBXML then
               match lang with
               | Some l => if (l =? LANG_WV_CSP11) || (l =? LANG_WV_CSP12) || (l =? LANG_OTA_SETTINGS) then false else es_use_strtbl s
               | None => es_use_strtbl s
               end
             else es_use_strtbl s in
  mkES lang (es_ignore_empty_text s) (es_remove_text_blanks s) (es_output_type s) (es_xml_gen_type s) (es_indent_delta s)
       ust (es_xml_encode_header s) (es_produce_anonymous s) (es_wbxml_version s) cs (es_flow_mode s) (es_textual_publicid s).

Definition er_set_tree (r : erun) (id : N) : erun :=
  mkER id (er_output r) (er_output_header r) (er_current_tag r) (er_current_text_parent r) (er_current_attr r)
    (er_current_node r) (er_tagCodePage r) (er_attrCodePage r) (er_indent r) (er_in_content r) (er_in_cdata r)
    (er_cdata r) (er_strstbl r) (er_strstbl_len r) (er_pre_last_node_len r) (er_pre_last_tagCodePage r)
    (er_pre_last_attrCodePage r) (er_pre_last_indent r) (er_pre_last_in_content r) (er_pre_last_tag r).

Inductive eop (tree : Type) := ESet (o : eset) | ERunReset (t : tree) (out_type : N).
Arguments ESet {tree} o.
Arguments ERunReset {tree} t out_type.

Section EncoderRuns.
  Variables tree out : Type.
  Variable t_id : tree -> N.                  (* identity of the tree object, never 0 *)
  Variable t_lang : tree -> option N.         (* tree->lang *)
  Variable t_charset : tree -> N.             (* tree->orig_charset *)
  (* everything after the prologue of encoder_encode_tree: string-table initialisation, the walk over the tree,
     wbxml_encoder_get_output (header + body).  It sees the whole object. *)
  Variable ebody : encoder -> tree -> erun * eres out.

  (* wbxml_encoder_set_tree; wbxml_encoder_encode_tree_to_wbxml / _to_xml — THE CODE AS IT IS.
     Written over the two halves of the object (e_make s r is the object with settings s and run-state r). *)
  Definition enc_encode (e : encoder) (t : tree) (ot : N) : encoder * eres out :=
    let r1 := er_set_tree (e_runstate e) (t_id t) in                     (* wbxml_encoder_set_tree *)
    let s2 := es_apply (e_settings e) (ESetOutputType ot) in             (* wbxml_encoder_set_output_type *)
    match es_lang s2, t_lang t with
    | None, None => (e_make s2 r1, EErr 12)                              (* BAD_PARAMETER; nothing else stored *)
    | _, _ =>
      let s3 := enc_derive s2 (t_lang t) (t_charset t) in                (* the derived values, stored in the object *)
      let '(rs, r) := ebody (e_make s3 r1) t in
      (* a NULL string-table list is refused by wbxml_strtbl_add_element (FALSE -> NOT_ENOUGH_MEMORY) and by
         wbxml_strtbl_construct (BAD_PARAMETER), and wbxml_fill_header always reaches the latter when
         use_strtbl is on: the WBXML run cannot succeed *)
      let r' := if (es_output_type s3 =? OUT_WBXML) && es_use_strtbl s3 &&
                   (match er_strstbl r1 with None => true | Some _ => false end)
                then force_err r 15 else r in
      (e_make s3 rs, r')
    end.

  (* the repaired run: the three derived values are put back when the run ends (DEFECTS.md) *)
  Definition enc_encode_fixed (e : encoder) (t : tree) (ot : N) : encoder * eres out :=
    let '(e', r) := enc_encode e t ot in
    let s := e_settings e in let s' := e_settings e' in
    (e_make (mkES (es_lang s) (es_ignore_empty_text s') (es_remove_text_blanks s') (es_output_type s') (es_xml_gen_type s')
                  (es_indent_delta s') (es_use_strtbl s) (es_xml_encode_header s') (es_produce_anonymous s')
                  (es_wbxml_version s') (es_output_charset s) (es_flow_mode s') (es_textual_publicid s'))
            (e_runstate e'), r).

  Definition estep (encode : encoder -> tree -> N -> encoder * eres out) (reset : encoder -> encoder)
                   (e : encoder) (o : eop tree) : encoder * list (eres out) :=
    match o with
    | ESet s => (e_set e s, [])
    | ERunReset t ot => let '(e', r) := encode e t ot in (reset e', [r])
    end.
  Fixpoint e_exec_with encode reset (e : encoder) (ops : list (eop tree)) : encoder * list (eres out) :=
    match ops with
    | [] => (e, [])
    | o :: r => let '(e1, o1) := estep encode reset e o in
                let '(e2, o2) := e_exec_with encode reset e1 r in (e2, o1 ++ o2)
    end.
  Definition e_exec := e_exec_with enc_encode enc_reset.                    (* the code as it is *)
  Definition e_exec_fixed := e_exec_with enc_encode_fixed enc_reset_fixed.  (* the repaired code *)

  (* specification: each tree on a newly created encoder carrying the caller's settings (output type included) *)
  Definition es_after_run (s : esettings) (ot : N) : esettings := es_apply s (ESetOutputType ot).
  Fixpoint e_spec (s : esettings) (ops : list (eop tree)) : esettings * list (eres out) :=
    match ops with
    | [] => (s, [])
    | ESet o :: r => e_spec (es_apply s o) r
    | ERunReset t ot :: r =>
        let x := snd (enc_encode (enc_fresh s) t ot) in
        let '(s2, o2) := e_spec (es_after_run s ot) r in (s2, x :: o2)
    end.
End EncoderRuns.

(* abstractions of the harness' struct dumps, for the correspondence driver *)
Definition opt_of_flag (n : N) : option (list N) := if n =? 0 then None else Some [].
Definition list_of_len (n : N) : option (list N) := if n =? 0 then None else Some (repeat 0 (N.to_nat (n - 1))).
