(* C16 — ownership transcriptions, on the heap model of Model/Alloc.v, of
     wbxml_parser.c  wbxml_buffer_sta_create_real (static buffers), get_strtbl_reference, parse_termstr, parse_inline,
                     parse_tableref, parse_literal, parse_string, parse_tag, parse_stag, parse_attr_value,
                     parse_attribute (name / value / temporary value through the value loop, the typed date-time branch),
                     parse_opaque + the OPAQUE case of parse_content (defect D3), the content loop of parse_element
     wbxml_tree.c    wbxml_tree_node_create, wbxml_tree_add_node (the text merge), wbxml_tree_add_text,
                     wbxml_tree_add_tree, wbxml_tree_extract_node + wbxml_tree_node_destroy_all
     wbxml_tree_clb_wbxml.c  the embedded-document path of wbxml_tree_clb_wbxml_characters (known finding P9)
   Failures that are not allocation failures (end of buffer, bad index, unknown token, undecodable date) are inputs
   (booleans) of the transcriptions: every exit is reachable.  Definitions only. *)
From Coq Require Import List NArith Bool.
From Wbxml Require Import Model.Alloc.
Import ListNotations.
Local Open Scope N_scope.

(* wbxml_buffer_sta_create_real: one block; the bytes belong to somebody else *)
Definition sta_buffer_create (h : heap) : heap * option buffer :=
  let '(h1, p) := alloc h in
  match p with None => (h1, None) | Some b => (h1, Some (mkBuf b None)) end.

(* get_strtbl_reference: index check, then wbxml_charset_conv_term -> a static buffer *)
Definition get_strtbl_reference (h : heap) (index_ok : bool) : heap * option buffer * status :=
  if index_ok then let '(h1, b) := sta_buffer_create h in (h1, b, match b with Some _ => OK | None => ERR end)
  else (h, None, ERR).
(* parse_termstr: charset conversion of the bytes at the cursor *)
Definition parse_termstr (h : heap) (bytes_ok : bool) : heap * option buffer * status :=
  if bytes_ok then let '(h1, b) := sta_buffer_create h in (h1, b, match b with Some _ => OK | None => ERR end)
  else (h, None, ERR).
Definition parse_inline := parse_termstr.
(* parse_tableref / parse_literal: an mb_u_int32, then the string-table reference *)
Definition parse_tableref (h : heap) (mb_ok index_ok : bool) : heap * option buffer * status :=
  if mb_ok then get_strtbl_reference h index_ok else (h, None, ERR).
Definition parse_literal := parse_tableref.
Definition parse_string (h : heap) (inline mb_ok ok : bool) : heap * option buffer * status :=
  if inline then parse_inline h ok else parse_tableref h mb_ok ok.

(* parse_tag: known token -> wbxml_tag_create(TOKEN); unknown (best effort) -> wbxml_tag_create_literal("unknown") *)
Definition parse_tag (h : heap) (byte_ok known : bool) : heap * option named * status :=
  if byte_ok then
    let '(h1, t) := if known then named_create h false else named_create_literal h in
    (h1, t, match t with Some _ => OK | None => ERR end)
  else (h, None, ERR).
(* parse_stag: literal tag: parse_literal gives `name`, the tag copies it, `name` is destroyed on EVERY path *)
Definition parse_stag (h : heap) (literal mb_ok index_ok byte_ok known : bool) : heap * option named * status :=
  if literal then
    let '(h1, name, st) := parse_literal h mb_ok index_ok in
    match st, name with
    | OK, Some nm =>
      let '(h2, t) := named_create_literal (use h1 (Some (b_blk nm))) in
      (buffer_destroy h2 (Some nm), t, match t with Some _ => OK | None => ERR end)
    | _, _ => (h1, None, ERR)
    end
  else parse_tag h byte_ok known.

(* parse_attr_value: a static buffer for the value token / string / extension / entity / opaque piece *)
Definition parse_attr_value (h : heap) (piece_ok : bool) : heap * option buffer * status :=
  if piece_ok then let '(h1, b) := sta_buffer_create h in (h1, b, match b with Some _ => OK | None => ERR end)
  else (h, None, ERR).

(* parse_attribute.  literal_name: the attribute name is a LITERAL (copied from a string-table reference) or a token.
   pieces: one boolean per attrValue piece (false = that piece is malformed).  datetime: Some ok for the SI / EMN
   date attributes (ok = decode_datetime succeeds).  release_name_on_datetime_error = true is the code as it is;
   false is the seeded change seeded/C01_r22 (the destroy of attr_name dropped on that branch). *)
Fixpoint attr_value_loop (h : heap) (name : named) (value : buffer) (pieces : list bool)
    : heap * option buffer * status :=
  match pieces with
  | [] => (h, Some value, OK)
  | p :: r =>
    let '(h1, tmp, st) := parse_attr_value h p in
    match st, tmp with
    | OK, Some tmp =>
      let '(h2, value', ok) := insert_data_fixed (use h1 (Some (b_blk tmp))) value true in   (* wbxml_buffer_append *)
      if ok then attr_value_loop (buffer_destroy h2 (Some tmp)) name value' r
      else (buffer_destroy (buffer_destroy (named_destroy h2 (Some name)) (Some value')) (Some tmp), None, ERR)
    | _, _ => (buffer_destroy (named_destroy h1 (Some name)) (Some value), None, ERR)
    end
  end.

Definition parse_attribute (release_name_on_datetime_error : bool) (h : heap)
    (name_ok token_name start_value : bool) (pieces : list bool) (datetime : option bool)
    : heap * option attribute * status :=
  (* parse_attr_start (its LITERAL branch is attr_start_literal of Alloc.v; here the token branch or a malformed start) *)
  if negb name_ok then (h, None, ERR) else
  let '(h1, nm) := if token_name then named_create h false else named_create_literal h in
  match nm with
  | None => (h1, None, ERR)
  | Some nm =>
    let '(h2, v) := buffer_create h1 start_value in
    match v with
    | None => (named_destroy h2 (Some nm), None, ERR)
    | Some v =>
      let '(h3, v', st) := attr_value_loop h2 nm v pieces in
      match st, v' with
      | OK, Some v' =>
        match datetime with
        | Some false =>
          ((if release_name_on_datetime_error then buffer_destroy (named_destroy h3 (Some nm)) (Some v')
            else buffer_destroy h3 (Some v')), None, ERR)
        | _ =>
          let '(h4, v'', ok) := insert_data_fixed h3 v' true in                 (* the terminating NUL *)
          if negb ok then (buffer_destroy (named_destroy h4 (Some nm)) (Some v''), None, ERR) else
          let '(h5, a) := attribute_create h4 in
          match a with
          | None => (buffer_destroy (named_destroy h5 (Some nm)) (Some v''), None, ERR)
          | Some a => (h5, Some (mkAttr (a_blk a) (Some nm) (Some v'')), OK)
          end
        end
      | _, _ => (h3, None, ERR)
      end
    end
  end.

(* parse_opaque + the OPAQUE case of parse_content.  The typed decoding (decode_opaque_content) may fail on its own
   (decode_ok = false) or need memory (a temporary block and a realloc of the bytes, as decode_base64_value does).
   old = the code before /repo 08a9d63 (defect D3): a failed decoding left *result allocated, and no caller frees
   the result of a failed parse_content. *)
Definition content_opaque (old : bool) (h : heap) (len_ok decode_ok needs_memory : bool) : heap * option buffer * status :=
  if negb len_ok then (h, None, ERR) else
  let '(h1, b) := buffer_create h true in
  match b with
  | None => (h1, None, ERR)
  | Some b =>
    let '(h2, b', st) :=
      if negb decode_ok then (h1, b, ERR)
      else if needs_memory then
        let '(h2, tmp) := alloc h1 in
        match tmp with
        | None => (h2, b, ERR)
        | Some t => let '(h3, b', ok) := insert_data_fixed h2 b true in (free h3 (Some t), b', if ok then OK else ERR)
        end
      else (h1, b, OK) in
    match st with
    | OK => (h2, Some b', OK)
    | ERR => (if old then h2 else buffer_destroy h2 (Some b'), None, ERR)
    end
  end.

(* the content loop of parse_element: every content item is a buffer that is destroyed after the callback; a failed
   parse_content destroys the element tag; the tag is destroyed at the end *)
Fixpoint element_contents (h : heap) (element : named) (items : list bool) : heap * status :=
  match items with
  | [] => (named_destroy h (Some element), OK)
  | it :: r =>
    let '(h1, c, st) := parse_termstr h it in
    match st with
    | ERR => (named_destroy h1 (Some element), ERR)
    | OK => element_contents (buffer_destroy (use h1 (match c with Some c => Some (b_blk c) | None => None end)) c) element r
    end
  end.

(* ====================================================================== *)
(* trees                                                                   *)
(* a node: its structure block, its content buffer (text), the embedded tree it carries (a block standing for the
   whole WBXMLTree, owned by the node), its children *)
Inductive tnode := TN (blk : N) (content : option buffer) (tree : option N) (children : list tnode).
Definition tn_blk (n : tnode) := match n with TN b _ _ _ => b end.
Definition tn_content (n : tnode) := match n with TN _ c _ _ => c end.

Definition tree_node_create (h : heap) : heap * option tnode :=
  let '(h1, p) := alloc h in
  match p with None => (h1, None) | Some b => (h1, Some (TN b None None [])) end.
(* wbxml_tree_node_destroy: the node alone (name, attributes, content, embedded tree), not its children *)
Definition tree_node_destroy (h : heap) (n : tnode) : heap :=
  match n with TN b c t _ => free (free (buffer_destroy (use h (Some b)) c) t) (Some b) end.
(* wbxml_tree_node_destroy_all: the whole sub-tree, leaves first *)
Fixpoint tree_node_destroy_all (h : heap) (n : tnode) : heap :=
  match n with
  | TN b c t ch => tree_node_destroy (fold_left tree_node_destroy_all ch h) (TN b c t [])
  end.

(* wbxml_tree_add_node(tree, parent, node) where `last` is the last child of parent (None: no child yet).
   Text after text: the new text is appended to the old node's buffer, the NEW node takes that buffer, its own buffer
   and the OLD node are released.  Result: the children that replace `last`, and TRUE/FALSE. *)
Definition tree_add_node (h : heap) (last : option tnode) (node : tnode) (both_text : bool)
    : heap * list tnode * bool :=
  match last with
  | None => (h, [node], true)
  | Some l =>
    if both_text then
      match tn_content l, node with
      | Some lc, TN nb nc nt nch =>
        let '(h1, lc', ok) := insert_data_fixed (use h (match nc with Some c => b_data c | None => None end)) lc true in
        if ok then (tree_node_destroy (buffer_destroy h1 nc) (TN (tn_blk l) None None []), [TN nb (Some lc') nt nch], true)
        else (h1, [TN (tn_blk l) (Some lc') None []], false)
      | None, _ => (h, [l; node], true)
      end
    else (h, [l; node], true)
  end.

(* wbxml_tree_add_text *)
Definition tree_add_text (h : heap) (last : option tnode) (last_is_text : bool) : heap * option (list tnode) :=
  let '(h1, n) := tree_node_create h in
  match n with
  | None => (h1, None)
  | Some (TN nb _ _ _) =>
    let '(h2, c) := buffer_create h1 true in
    match c with
    | None => (tree_node_destroy h2 (TN nb None None []), None)
    | Some c =>
      let node := TN nb (Some c) None [] in
      let '(h3, ch, ok) := tree_add_node h2 last node last_is_text in
      if ok then (h3, Some ch) else (tree_node_destroy h3 node, None)
    end
  end.

(* wbxml_tree_add_tree(tree, parent, new_tree): can_add = FALSE stands for the refusals of wbxml_tree_add_node that need
   no memory (a root already exists).  The new tree is handed to the node only on success. *)
Definition tree_add_tree (h : heap) (new_tree : N) (can_add : bool) : heap * option tnode :=
  let '(h1, n) := tree_node_create h in
  match n with
  | None => (h1, None)
  | Some (TN nb _ _ _) =>
    if can_add then (h1, Some (TN nb None (Some new_tree) []))
    else (tree_node_destroy h1 (TN nb None None []), None)
  end.

(* wbxml_tree_clb_wbxml_characters, SyncML <Data> holding WBXML: wbxml_tree_from_wbxml_embedded on the bytes (modelled as a
   parser block and a tree block, everything released on failure), then wbxml_tree_add_tree.  In the OLD code ANY failure
   of the embedded parse — out of memory included — went to `text_node`: the bytes were added as text (finding P9). *)
Inductive emb_result := EmbTree | EmbText | EmbError.
(* what the embedded parse reports: a tree, "this is not WBXML" (any error code but NOT_ENOUGH_MEMORY), or out of memory *)
Inductive emb_parse := PTree (t : N) | PNotParsable | POutOfMemory.
Definition embedded_parse (h : heap) (parsable : bool) : heap * emb_parse :=
  let '(h1, p) := alloc h in                         (* the parser *)
  match p with
  | None => (h1, POutOfMemory)
  | Some p =>
    let '(h2, t) := alloc h1 in                      (* the tree *)
    match t with
    | None => (free h2 (Some p), POutOfMemory)
    | Some t =>
      if negb parsable then (free (free h2 (Some t)) (Some p), PNotParsable)
      else (free h2 (Some p), PTree t)               (* the parser is destroyed, the tree is the result *)
    end
  end.
(* old = the code before the repair (props/C16/P9-fix.patch): `!= WBXML_OK` -> text_node, whatever the error.
   repaired: NOT_ENOUGH_MEMORY is reported (tree_ctx->error), only the other errors mean "not parsable". *)
Definition embedded_characters (old : bool) (h : heap) (parsable : bool) : heap * emb_result * option (list tnode) :=
  let '(h1, t) := embedded_parse h parsable in
  let as_text (h1 : heap) :=
    let '(h2, ch) := tree_add_text h1 None false in
    match ch with Some ch => (h2, EmbText, Some ch) | None => (h2, EmbError, None) end in
  match t with
  | PTree t =>
    let '(h2, n) := tree_add_tree h1 t true in
    match n with
    | Some n => (h2, EmbTree, Some [n])
    | None => (free h2 (Some t), EmbError, None)     (* tree_ctx->error set; wbxml_tree_destroy(tmp_tree) *)
    end
  | PNotParsable => as_text h1                       (* "Not parsable ? Just add it as a Text Node..." *)
  | POutOfMemory => if old then as_text h1 else (h1, EmbError, None)
  end.
