(* C17 — what the encoder WRITES into the caller's tree.  parse_text (common to WBXML and XML output) rewrites the
   content buffer of the text node it is given, in place:
     - wbxml_buffer_strip_blanks(node->content) when remove_text_blanks is set, the node is not in a CDATA section,
       not under a binary-flagged tag, and the output is not canonical XML;
     - inside a CDATA section of a SyncML document (WBXML output) a content that is exactly "\n" gets a "\r" inserted.
   Nothing else of a node is written by the encoder.  Model/EncWbxml.v and Model/EncXml.v are functions of node VALUES
   and do not return the rewritten node; `text_after` below is the value node->content holds after
   EncWbxml.enc_text (WBXML output), so that the effect can be stated.  Definitions only. *)
From Coq Require Import List NArith Bool.
From Wbxml Require Import Model.Codec Model.EncWbxml.
Import ListNotations.
Local Open Scope N_scope.

Definition text_after (e : env) (st : est) (parent : option tagname) (c : bytes) : bytes :=
  if is_binary_tag st parent then c
  else if negb (in_cdata st) && e_ignore_empty e && only_ws c then c
  else
    let c' := if negb (in_cdata st) && e_remove_blanks e then strip_blanks c else c in
    if in_cdata st then
      match cdata st with
      | None => c'                                                   (* WBXML_ERROR_INTERNAL before the insert *)
      | Some _ => if is_syncml (e_lang e) && beq c' [10] then [13; 10] else c'
      end
    else c'.
