(* Model of the token-table lookups of libwbxml — transcriptions of the loops in
   src/wbxml_tables.c (name -> token direction, used by the XML side and the encoder) and
   src/wbxml_parser.c (token -> name direction, the loops inside parse_tag, parse_attr_start,
   parse_attr_value, parse_extension).  Every lookup is a first-match linear scan of a
   NULL-terminated array; the arrays are the lists of Gen/TablesData.v (table order kept).
   No proofs here (Proofs/TablesProofs.v). *)
From Coq Require Import List NArith String Ascii Bool.
From Wbxml Require Import Model.TablesDefs.
Import ListNotations.
Local Open Scope N_scope.

(* ---------------------------------------------------------------- strings (C library) *)

(* strcmp(a,b) == 0 *)
Definition streq (a b : string) : bool := String.eqb a b.

(* tolower() in the "C" locale *)
Definition lower_ascii (c : ascii) : ascii :=
  let n := N_of_ascii c in
  if (65 <=? n) && (n <=? 90) then ascii_of_N (n + 32) else c.

(* strcasecmp(a,b) == 0 *)
Fixpoint strcaseeq (a b : string) : bool :=
  match a, b with
  | EmptyString, EmptyString => true
  | String x a', String y b' => Ascii.eqb (lower_ascii x) (lower_ascii y) && strcaseeq a' b'
  | _, _ => false
  end.

(* strncmp(p, s, strlen(p)) == 0 : p is a prefix of s *)
Fixpoint is_prefix (p s : string) : bool :=
  match p, s with
  | EmptyString, _ => true
  | String x p', String y s' => Ascii.eqb x y && is_prefix p' s'
  | String _ _, EmptyString => false
  end.

(* strncasecmp(p, s, strlen(p)) == 0 *)
Fixpoint is_caseprefix (p s : string) : bool :=
  match p, s with
  | EmptyString, _ => true
  | String x p', String y s' => Ascii.eqb (lower_ascii x) (lower_ascii y) && is_caseprefix p' s'
  | String _ _, EmptyString => false
  end.

(* strstr(s, needle) != NULL  (an empty needle is found in every string, as in C) *)
Fixpoint is_substr (needle s : string) : bool :=
  is_prefix needle s ||
  match s with
  | EmptyString => false
  | String _ s' => is_substr needle s'
  end.

(* s + n *)
Fixpoint str_drop (n : nat) (s : string) : string :=
  match n, s with
  | O, _ => s
  | S n', String _ s' => str_drop n' s'
  | S _, EmptyString => EmptyString
  end.

(* strrchr(s, c) != NULL *)
Fixpoint str_has (c : ascii) (s : string) : bool :=
  match s with
  | EmptyString => false
  | String x s' => Ascii.eqb x c || str_has c s'
  end.

(* ---------------------------------------------------------------- result of a parser-side scan *)

Inductive lookup (A : Type) :=
| NoTable            (* the language has a NULL table: WBXML_ERROR_*_TABLE_UNDEFINED *)
| Unknown            (* the scan reached the NULL sentinel *)
| Found (a : A).
Arguments NoTable {A}.
Arguments Unknown {A}.
Arguments Found {A} a.

Definition scan {A} (tbl : option (list A)) (hit : A -> bool) : lookup A :=
  match tbl with
  | None => NoTable
  | Some rows => match find hit rows with Some r => Found r | None => Unknown end
  end.

(* ---------------------------------------------------------------- global tokens (wbxml_internals.h) *)

Definition WBXML_TOKEN_MASK : N := 63.           (* 0x3F *)
Definition global_tokens : list N :=
  [0;  (* SWITCH_PAGE *) 1; (* END *) 2; (* ENTITY *) 3; (* STR_I *) 4; (* LITERAL *)
   64; 65; 66; (* EXT_I_0..2 *) 67; (* PI *) 68; (* LITERAL_C *)
   128; 129; 130; (* EXT_T_0..2 *) 131; (* STR_T *) 132; (* LITERAL_A *)
   192; 193; 194; (* EXT_0..2 *) 195; (* OPAQUE *) 196 (* LITERAL_AC *)].
Definition is_global (t : N) : bool := existsb (N.eqb t) global_tokens.

(* ---------------------------------------------------------------- token -> name (wbxml_parser.c) *)

(* parse_tag: token = *tag & WBXML_TOKEN_MASK; while (name != NULL && (tok != token || page != tagCodePage)) index++ *)
Definition tag_of_token (l : lang) (page tok : N) : lookup tag_row :=
  scan (l_tags l) (fun r => (t_tok r =? tok) && (t_page r =? page)).
Definition tag_of_byte (l : lang) (page byte : N) : lookup tag_row :=
  tag_of_token l page (N.land byte WBXML_TOKEN_MASK).

(* parse_attr_start: the byte is compared unmasked *)
Definition attr_of_token (l : lang) (page tok : N) : lookup attr_row :=
  scan (l_attrs l) (fun r => (a_tok r =? tok) && (a_page r =? page)).

(* parse_attr_value *)
Definition val_of_token (l : lang) (page tok : N) : lookup val_row :=
  scan (l_vals l) (fun r => (v_tok r =? tok) && (v_page r =? page)).

(* parse_extension, Wireless Village branch: ext_value is an mb_u_int32 compared with the WB_UTINY token *)
Definition ext_of_token (l : lang) (v : N) : lookup ext_row :=
  scan (l_exts l) (fun r => e_tok r =? v).

(* ---------------------------------------------------------------- name -> token (wbxml_tables.c) *)

(* wbxml_tables_get_tag_from_xml, first loop: stops at the first row of another page once the
   current page has been seen *)
Fixpoint tag_pass1 (rows : list tag_row) (cur : N) (name : string) (found_current : bool) : option tag_row :=
  match rows with
  | [] => None
  | e :: rest =>
    if t_page e =? cur then
      if streq (t_name e) name then Some e else tag_pass1 rest cur name true
    else if found_current then None
    else tag_pass1 rest cur name false
  end.

(* second loop: all rows that are not of the current page *)
Definition tag_pass2 (rows : list tag_row) (cur : option N) (name : string) : option tag_row :=
  find (fun e => negb (match cur with Some c => t_page e =? c | None => false end) && streq (t_name e) name) rows.

(* cur = None stands for cur_code_page < 0 *)
Definition tag_from_xml (l : lang) (cur : option N) (name : string) : option tag_row :=
  match l_tags l with
  | None => None
  | Some rows =>
    match (match cur with Some c => tag_pass1 rows c name false | None => None end) with
    | Some e => Some e
    | None => tag_pass2 rows cur name
    end
  end.

(* wbxml_tables_get_attr_from_xml.  Result: the row and *value_left (None = NULL pointer,
   Some s = pointer to the rest s of xml_value). *)
Fixpoint attr_loop (rows : list attr_row) (name : string) (value : option string)
         (found : option attr_row) (found_comp : nat) : option attr_row * option string :=
  match rows with
  | [] =>
    match found with
    | Some r => (Some r, option_map (str_drop found_comp) value)
    | None => (None, value)
    end
  | e :: rest =>
    if streq (a_name e) name then
      match a_value e with
      | None =>
        match value with
        | None => (Some e, None)
        | Some _ => attr_loop rest name value (match found with None => Some e | Some _ => found end) found_comp
        end
      | Some ev =>
        match value with
        | Some v =>
          if streq ev v then (Some e, None)
          else if Nat.ltb (String.length ev) (String.length v) && Nat.ltb found_comp (String.length ev) && is_prefix ev v
               then attr_loop rest name value (Some e) (String.length ev)
               else attr_loop rest name value found found_comp
        | None => attr_loop rest name value found found_comp
        end
      end
    else attr_loop rest name value found found_comp
  end.

Definition attr_from_xml (l : lang) (name : string) (value : option string) : option attr_row * option string :=
  match l_attrs l with
  | None => (None, value)        (* returns before *value_left is written: the caller's initial value; see tie *)
  | Some rows => attr_loop rows name value None 0
  end.

(* wbxml_tables_get_ext_from_xml *)
Definition ext_from_xml (l : lang) (value : string) : option ext_row :=
  match l_exts l with
  | None => None
  | Some rows => find (fun r => streq (e_name r) value) rows
  end.

(* wbxml_tables_contains_attr_value_from_xml *)
Definition contains_attr_value (l : lang) (value : string) : bool :=
  match l_vals l with
  | None => false
  | Some rows => existsb (fun r => is_substr (v_name r) value) rows
  end.

(* the first value row the encoder's tokenisation loop (wbxml_encode_value_element_buffer, attribute
   context) finds inside a string: rows are tried in table order, each with a substring search *)
Definition val_first_in (l : lang) (s : string) : option val_row :=
  match l_vals l with
  | None => None
  | Some rows => find (fun r => is_substr (v_name r) s) rows
  end.

(* wbxml_tables_get_xmlns / wbxml_tables_get_code_page (the latter answers 0 when nothing matches) *)
Definition xmlns_of_page (l : lang) (page : N) : option string :=
  match l_ns l with
  | None => None
  | Some rows => option_map ns_name (find (fun r => ns_page r =? page) rows)
  end.

Definition page_of_xmlns_opt (l : lang) (ns : string) : option N :=
  match l_ns l with
  | None => None
  | Some rows => option_map ns_page (find (fun r => streq (ns_name r) ns) rows)
  end.

Definition page_of_xmlns (l : lang) (ns : string) : N :=
  match page_of_xmlns_opt l ns with Some p => p | None => 0 end.

(* ---------------------------------------------------------------- main table *)

(* wbxml_tables_get_table *)
Definition get_table (main : list lang) (id : N) : option lang :=
  find (fun l => l_id l =? id) main.

(* first entry with a numeric / textual public id, system id, root element — the scans of
   check_public_id and wbxml_tables_search_table, each started at index 0 (LangSelect.v keeps the
   shared index variable; these are the simple reference finders used by C09) *)
Definition first_by_pubnum (main : list lang) (n : N) : option lang := find (fun l => l_pub_num l =? n) main.
Definition first_by_pubtext (main : list lang) (s : string) : option lang :=
  find (fun l => match l_pub_text l with Some p => strcaseeq p s | None => false end) main.
Definition first_by_dtd (main : list lang) (s : string) : option lang :=
  find (fun l => match l_dtd l with Some p => streq p s | None => false end) main.
Definition first_by_root (main : list lang) (s : string) : option lang :=
  find (fun l => match l_root l with Some p => streq p s | None => false end) main.
