(* C01 — the concrete whole WBXML -> XML conversion: Conv.conv_run instantiated with
     tree_from_doc := wbxml_tree_from_wbxml  = parser (Model/Parser.v) + tree builder (Model/TreeBuild.v),
                      with the converter's forced language and charset,
     encode        := wbxml_tree_to_xml      = XML generator (Model/EncXml.v: header + body) on the converted tree
                      (Model/TreeConv.v), with gen_type / indent / keep_ignorable_ws as wbxml_tree_to_xml applies them.
   Definitions only.  Error codes are the numeric values of wbxml_errors.h.
   Fuel: the parser gets S (length doc), at both levels (never exhausted: C01p_total_linear_fuel); EMBEDDED documents
   (a document inside the character data of a <Data> element) nest at most WBXML_MAX_EMBEDDED_DEPTH = 1 deep, and
   the tree builder's recursion is structural in that number.  The code MODEL_FUEL, which no C function returns,
   stands for an exhausted fuel; C01c_never_out_of_fuel shows that it is never the result. *)
From Coq Require Import String Ascii.
From Coq Require Import List NArith Bool.
From Wbxml Require Import Model.Codec Model.TablesDefs Model.Parser Model.TreeBuild Model.TreeConv Model.Conv.
From Wbxml Require Model.EncXml.
Import ListNotations.
Local Open Scope N_scope.

Record w2x_opts := mk_w2x {
  wo_lang : N;        (* conv->lang: forced language, 0 = none *)
  wo_charset : N;     (* conv->charset: meta charset, 0 = none *)
  wo_gen : N;         (* WBXMLGenXMLType: 0 compact, 1 indent, 2 canonical *)
  wo_indent : N;      (* WB_UTINY *)
  wo_keep_ws : bool
}.

Definition perr_code (e : perr) : N :=
  match e with
  | PE_END_OF_BUFFER => 45 | PE_UNVALID_MBUINT32 => 70 | PE_INVALID_UNICODE => 122 | PE_EMPTY_WBXML => 44
  | PE_CHARSET_NOT_FOUND => 35 | PE_STRTBL_LENGTH => 54 | PE_UNKNOWN_PUBLIC_ID => 64
  | PE_TAG_TABLE_UNDEFINED => 17 | PE_ATTR_TABLE_UNDEFINED => 10 | PE_ATTR_VALUE_TABLE_UNDEFINED => 40
  | PE_EXT_VALUE_TABLE_UNDEFINED => 47 | PE_UNKNOWN_ATTR_VALUE => 61 | PE_UNKNOWN_EXTENSION_TOKEN => 62
  | PE_BAD_OPAQUE_LENGTH => 43 | PE_NULL_STRING_TABLE => 52 | PE_INVALID_STRTBL_INDEX => 48
  | PE_CHARSET_STR_LEN => 31 | PE_NO_CHARSET_CONV => 30 | PE_B64_ENC => 18 | PE_BAD_DATETIME => 11
  | PE_WV_INTEGER_OVERFLOW => 80 | PE_WV_DATETIME_FORMAT => 20 | PE_INTERNAL => 13 | PE_NESTING_TOO_DEEP => 55
  end.

Definition xerr_code (e : EncXml.xerr) : N :=
  match e with EncXml.X_NOT_IMPLEMENTED => 16 | EncXml.X_B64_ENC => 18 | EncXml.X_BAD_PARAMETER => 12 end.

Definition MODEL_FUEL : N := 9999.
Definition INTERNAL : N := 13.
Definition NOT_ENOUGH_MEMORY : N := 15.

Definition gen_of (g : N) : EncXml.gen_type :=
  if g =? 0 then EncXml.Compact else if g =? 2 then EncXml.Canonical else EncXml.Indent.

Section Concrete.
Variable tbl : list lang.

Definition w2x_tree_from_doc (o : w2x_opts) (doc : list N) : wtree + N :=
  match wbxml_tree_from_wbxml tbl (wo_lang o) (wo_charset o) doc with
  | BOk t => inl t
  | BErr (BE_PARSE e) => inr (perr_code e)
  | BErr BE_INTERNAL => inr INTERNAL
  | BErr BE_NOT_ENOUGH_MEMORY => inr NOT_ENOUGH_MEMORY
  | BFuel => inr MODEL_FUEL
  end.

Definition w2x_encode (o : w2x_opts) (t : wtree) : list N + N :=
  match to_xroots tbl t with
  | None => inr INTERNAL            (* the tree's language is always one of the table: not reachable *)
  | Some (xl, roots) =>
    match EncXml.enc_xml xl (gen_of (wo_gen o)) (wo_indent o) (wo_keep_ws o) roots with
    | EncXml.XOk out => inl out
    | EncXml.XErr e => inr (xerr_code e)
    end
  end.

(* wbxml_conv_wbxml2xml_run; the output block carries the NUL that xml_build_result stores after the document *)
Definition wbxml2xml_model (o : w2x_opts) (doc : list N) : conv_result :=
  conv_run wtree w2x_opts w2x_tree_from_doc w2x_encode true o doc.
End Concrete.
