(* C16 — which allocation call sites are covered by what.  Hand-maintained (committed); compared on every run with
   the regenerated Gen/AllocSites.v: a call site of wbxml_malloc / wbxml_realloc / wbxml_strdup or of a _create /
   _duplicate wrapper that appears in a function not listed here, or a changed number of sites in a listed
   function, is an unproved obligation (C16_alloc_sites_covered).
     modelled_sites   : functions transcribed at the ownership level in Model/Alloc.v and Model/AllocParserTree.v
                        (theorems in Proofs/AllocProofs.v, AllocInduction.v, AllocParserTreeProofs.v)
     enumerated_sites : everything else: covered by exhaustive single-fault ENUMERATION only (harness/c16_harness.c) —
                        exploration, not a theorem.  (parse_attr_start: its LITERAL branch is also modelled; wbxml_fill_header: its public-id / string-table part.) *)
From Coq Require Import List String NArith Bool.
Import ListNotations.
Local Open Scope string_scope.
Local Open Scope N_scope.

Definition modelled_sites : list (string * string * N) := [
  ("wbxml_buffers.c", "grow_buff", 1);
  ("wbxml_buffers.c", "wbxml_buffer_create_real", 2);
  ("wbxml_buffers.c", "wbxml_buffer_duplicate", 1);
  ("wbxml_elt.c", "wbxml_attribute_create", 1);
  ("wbxml_elt.c", "wbxml_attribute_duplicate", 3);
  ("wbxml_elt.c", "wbxml_attribute_name_create", 1);
  ("wbxml_elt.c", "wbxml_attribute_name_create_literal", 2);
  ("wbxml_elt.c", "wbxml_attribute_name_create_token", 1);
  ("wbxml_elt.c", "wbxml_attribute_name_duplicate", 2);
  ("wbxml_elt.c", "wbxml_tag_create", 1);
  ("wbxml_elt.c", "wbxml_tag_create_literal", 2);
  ("wbxml_elt.c", "wbxml_tag_create_token", 1);
  ("wbxml_elt.c", "wbxml_tag_duplicate", 2);
  ("wbxml_encoder.c", "encoder_init_output", 1);
  ("wbxml_lists.c", "wbxml_elt_create_real", 1);
  ("wbxml_lists.c", "wbxml_list_append", 2);
  ("wbxml_lists.c", "wbxml_list_create_real", 1);
  ("wbxml_lists.c", "wbxml_list_insert", 1);
  ("wbxml_parser.c", "parse_element", 1);
  ("wbxml_tree.c", "wbxml_tree_node_add_attr", 2);
  ("wbxml_encoder.c", "wbxml_encode_tag_literal", 2);
  ("wbxml_encoder.c", "wbxml_encode_attr_start_literal", 2);
  ("wbxml_encoder.c", "wbxml_fill_header", 2);
  ("wbxml_encoder.c", "wbxml_strtbl_element_create", 1);
  ("wbxml_buffers.c", "wbxml_buffer_sta_create_real", 1);
  ("wbxml_parser.c", "get_strtbl_reference", 1);
  ("wbxml_parser.c", "parse_attr_start", 3);
  ("wbxml_parser.c", "parse_attr_value", 1);
  ("wbxml_parser.c", "parse_attribute", 3);
  ("wbxml_parser.c", "parse_opaque", 1);
  ("wbxml_parser.c", "parse_stag", 1);
  ("wbxml_parser.c", "parse_tag", 2);
  ("wbxml_tree.c", "wbxml_tree_add_text", 2);
  ("wbxml_tree.c", "wbxml_tree_add_tree", 1);
  ("wbxml_tree.c", "wbxml_tree_node_create", 1)
].

Definition enumerated_sites : list (string * string * N) := [
  ("wbxml_base64.c", "wbxml_base64_decode", 1);
  ("wbxml_base64.c", "wbxml_base64_encode", 1);
  ("wbxml_buffers.c", "wbxml_buffer_split_words_real", 2);
  ("wbxml_charset.c", "wbxml_charset_conv", 1);
  ("wbxml_conv.c", "wbxml_conv_wbxml2xml_create", 1);
  ("wbxml_conv.c", "wbxml_conv_wbxml2xml_withlen", 1);
  ("wbxml_conv.c", "wbxml_conv_xml2wbxml_create", 1);
  ("wbxml_conv.c", "wbxml_conv_xml2wbxml_withlen", 1);
  ("wbxml_encoder.c", "encoder_duplicate", 1);
  ("wbxml_encoder.c", "parse_cdata", 1);
  ("wbxml_encoder.c", "wbxml_build_result", 2);
  ("wbxml_encoder.c", "wbxml_encode_datetime", 1);
  ("wbxml_encoder.c", "wbxml_encode_tree", 1);
  ("wbxml_encoder.c", "wbxml_encode_value_element_buffer", 12);
  ("wbxml_encoder.c", "wbxml_encode_wv_datetime_inline", 1);
  ("wbxml_encoder.c", "wbxml_encode_wv_datetime_opaque", 7);
  ("wbxml_encoder.c", "wbxml_encoder_create_real", 2);
  ("wbxml_encoder.c", "wbxml_encoder_encode_node_with_elt_end", 2);
  ("wbxml_encoder.c", "wbxml_strtbl_check_references", 4);
  ("wbxml_encoder.c", "wbxml_strtbl_initialize", 1);
  ("wbxml_encoder.c", "wbxml_value_element_create", 1);
  ("wbxml_encoder.c", "xml_build_result", 2);
  ("wbxml_encoder.c", "xml_encode_attr", 1);
  ("wbxml_encoder.c", "xml_encode_text", 3);
  ("wbxml_encoder.c", "xml_encode_tree", 1);
  ("wbxml_parser.c", "parse_entity", 2);
  ("wbxml_parser.c", "parse_extension", 4);
  ("wbxml_parser.c", "parse_pi", 2);
  ("wbxml_parser.c", "parse_strtbl", 1);
  ("wbxml_parser.c", "wbxml_parser_create", 1);
  ("wbxml_parser.c", "wbxml_parser_parse", 1);
  ("wbxml_tree.c", "wbxml_tree_add_cdata", 1);
  ("wbxml_tree.c", "wbxml_tree_add_elt", 2);
  ("wbxml_tree.c", "wbxml_tree_add_xml_elt", 3);
  ("wbxml_tree.c", "wbxml_tree_create", 1);
  ("wbxml_tree.c", "wbxml_tree_from_wbxml_embedded", 2);
  ("wbxml_tree.c", "wbxml_tree_from_xml", 1);
  ("wbxml_tree.c", "wbxml_tree_node_add_xml_attr", 5);
  ("wbxml_tree.c", "wbxml_tree_node_create_cdata", 2);
  ("wbxml_tree.c", "wbxml_tree_node_create_text", 2);
  ("wbxml_tree.c", "wbxml_tree_node_create_tree", 2);
  ("wbxml_tree.c", "wbxml_tree_node_create_xml_elt", 3);
  ("wbxml_tree.c", "wbxml_tree_node_create_xml_elt_with_text", 2);
  ("wbxml_tree.c", "wbxml_tree_node_get_all_children", 1);
  ("wbxml_tree.c", "wbxml_tree_to_wbxml", 1);
  ("wbxml_tree.c", "wbxml_tree_to_xml", 1);
  ("wbxml_tree_clb_xml.c", "wbxml_tree_clb_xml_characters", 1);
  ("wbxml_tree_clb_xml.c", "wbxml_tree_clb_xml_end_element", 1)
].

(* a (file, function, number of allocation call sites) of the current sources is covered by a classified entry b of
   the same function when it has NO MORE call sites than b had when it was classified: merging duplicated call sites
   (a refactoring) keeps the classification, a new call site in a known function or any unknown function does not *)
Definition site_eqb (a b : string * string * N) : bool :=
  String.eqb (fst (fst a)) (fst (fst b)) && String.eqb (snd (fst a)) (snd (fst b)) && N.leb (snd a) (snd b).
Definition site_covered (s : string * string * N) : bool :=
  existsb (site_eqb s) modelled_sites || existsb (site_eqb s) enumerated_sites.
Definition sites_covered (l : list (string * string * N)) : bool := forallb site_covered l.
(* the first site that is not covered (for the replay of a broken obligation) *)
Definition first_uncovered (l : list (string * string * N)) : option (string * string * N) :=
  find (fun s => negb (site_covered s)) l.
