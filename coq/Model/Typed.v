(* C12 — executable model of the typed-content codecs.
   Transcribed from:
     wbxml_parser.c   decode_datetime, decode_wv_integer, decode_wv_datetime, decode_base64_value,
                      decode_opaque_content, decode_opaque_attr_value, decode_wv_content (dispatch),
                      the SI/EMN branch of parse_attribute
     wbxml_encoder.c  wbxml_encode_datetime, wbxml_encode_wv_integer, wbxml_encode_wv_datetime(_inline/_opaque),
                      wbxml_encode_wv_content (dispatch), wbxml_encode_drmrel_content,
                      wbxml_encode_ota_nokia_icon, wbxml_encode_opaque_data, the WBXML_TAG_OPTION_BINARY
                      paths of parse_text / xml_encode_text, wbxml_tree_clb_xml_end_element
     wbxml_buffers.c  wbxml_buffer_remove_trailing_zeros, insert / delete as used above
   The low-level codecs (multi-byte integers, base64, hex) are those of Model/Codec.v.
   libc (atol, strtol, strtoul, sprintf %u/%02u/%04u, isdigit) is modelled as the obvious
   conversions on ASCII strings (glibc, 64-bit long) — an assumption that the correspondence exercises.
   Strings are byte lists without the terminating NUL.  Definitions only. *)
From Coq Require Import List NArith Bool.
From Wbxml Require Import Model.Codec.
Import ListNotations.
Local Open Scope N_scope.

Inductive terr :=
  | T_BAD_DATETIME            (* WBXML_ERROR_BAD_DATETIME = 11 *)
  | T_INTERNAL                (* WBXML_ERROR_INTERNAL = 13 *)
  | T_B64_ENC                 (* WBXML_ERROR_B64_ENC = 18 *)
  | T_B64_DEC                 (* WBXML_ERROR_B64_DEC = 19 *)
  | T_WV_DATETIME_FORMAT      (* WBXML_ERROR_WV_DATETIME_FORMAT = 20 *)
  | T_WV_INTEGER_OVERFLOW.    (* WBXML_ERROR_WV_INTEGER_OVERFLOW = 80 *)

Inductive tres (A : Type) := TOk (a : A) | TErr (e : terr).
Arguments TOk {A} a.
Arguments TErr {A} e.

(* what an encoding routine did with the text it was given *)
Inductive enc_out :=
  | Emit (bytes : list N)        (* these bytes were appended to the output (OPAQUE len data) *)
  | EInline (s : list N)         (* wbxml_encode_inline_string: STR_I s 00 *)
  | ENotEncoded                  (* WBXML_NOT_ENCODED: the caller goes on with the generic string path *)
  | EErr (e : terr).

(* ------------------------------------------------------------------ *)
(* libc                                                                 *)

Definition is_digit (c : N) : bool := (48 <=? c) && (c <=? 57).

(* sprintf "%u": decimal digits, most significant first, no leading zero *)
Fixpoint dec_fuel (fuel : nat) (n : N) : list N :=
  match fuel with
  | O => []
  | S f => if n <? 10 then [48 + n] else dec_fuel f (n / 10) ++ [48 + n mod 10]
  end.
(* a 32-bit value has at most 10 digits; 20 would do for 64 bits *)
Definition sprintf_u (n : N) : list N := dec_fuel 20 n.
(* "%0<w>u" *)
Definition sprintf_0u (w : nat) (n : N) : list N :=
  let d := sprintf_u n in repeat 48 (w - length d) ++ d.

Fixpoint skip_space (l : list N) : list N :=
  match l with c :: r => if is_cspace c then skip_space r else l | [] => [] end.

Definition dec_digit (c : N) : option N := if is_digit c then Some (c - 48) else None.
Definition hex_digit (c : N) : option N :=
  if is_digit c then Some (c - 48)
  else if (97 <=? c) && (c <=? 102) then Some (c - 87)
  else if (65 <=? c) && (c <=? 70) then Some (c - 55)
  else None.

(* the digit loop of strtol/strtoul: stops at the first character that is not a digit of the base *)
Fixpoint digits_val (base : N) (digit : N -> option N) (acc : N) (l : list N) : N :=
  match l with
  | c :: r => match digit c with Some d => digits_val base digit (acc * base + d) r | None => acc end
  | [] => acc
  end.

Definition split_sign (l : list N) : bool * list N :=
  match l with 45 :: r => (true, r) | 43 :: r => (false, r) | _ => (false, l) end.

(* (WB_ULONG) of a long that strtol saturated at LONG_MIN / LONG_MAX (64-bit long) *)
Definition long_to_u32 (neg : bool) (mag : N) : N :=
  if neg then u32 (4294967296 - u32 (N.min mag 9223372036854775808))
  else u32 (N.min mag 9223372036854775807).

(* (WB_ULONG) atol(s) *)
Definition atol_u32 (s : list N) : N :=
  let '(neg, r) := split_sign (skip_space s) in long_to_u32 neg (digits_val 10 dec_digit 0 r).

(* (WB_ULONG) strtol(s, NULL, 16): optional 0x / 0X prefix when a hex digit follows *)
Definition strtol16_u32 (s : list N) : N :=
  let '(neg, r) := split_sign (skip_space s) in
  let r' := match r with
            | 48 :: x :: h :: t =>
                if ((x =? 120) || (x =? 88)) && (match hex_digit h with Some _ => true | None => false end)
                then h :: t else r
            | _ => r
            end in
  long_to_u32 neg (digits_val 16 hex_digit 0 r').

(* strtoul(s, NULL, 10) on a string the caller has checked to be all digits (at most 4 of them) *)
Definition strtoul10 (s : list N) : N := digits_val 10 dec_digit 0 s.

(* ------------------------------------------------------------------ *)
(* buffers                                                              *)

(* wbxml_buffer_insert_cstr(buff, x, pos), pos <= len *)
Definition insert_at (pos : nat) (x l : list N) : list N := firstn pos l ++ x ++ skipn pos l.
(* wbxml_buffer_delete(buff, pos, n), pos + n <= len (nothing happens when pos >= len) *)
Definition delete_at (pos n : nat) (l : list N) : list N :=
  if Nat.leb (length l) pos then l else firstn pos l ++ skipn (pos + n) l.

(* wbxml_buffer_remove_trailing_zeros: while (len > 0) { if last == 0 then delete last else return } *)
Fixpoint rtz_loop (fuel : nat) (l : list N) : list N :=
  match fuel with
  | O => l
  | S f => match rev l with
           | 0 :: r => rtz_loop f (rev r)
           | _ => l
           end
  end.
Definition rtz (l : list N) : list N := rtz_loop (length l) l.

(* wbxml_encode_opaque_data: OPAQUE, mb_u_int32 length, bytes *)
Definition enc_opaque (data : list N) : list N :=
  195 :: mb_write (u32 (N.of_nat (length data))) ++ data.

(* reading it back (parse_opaque on exactly these bytes): Some payload *)
Definition opaque_payload (bs : list N) : option (list N) :=
  match bs with
  | 195 :: r =>
      match mb_read r with
      | Ok (len, data) => if len =? N.of_nat (length data) then Some data else None
      | Err _ => None
      end
  | _ => None
  end.

Definition payload_of (o : enc_out) : option (list N) :=
  match o with Emit bs => opaque_payload bs | _ => None end.

(* ------------------------------------------------------------------ *)
(* SI / EMN %Datetime                                                   *)

(* wbxml_encode_datetime, first loop: digits stay, 'T' 'Z' '-' ':' are removed, anything else is refused *)
Fixpoint dt_filter (l : list N) : option (list N) :=
  match l with
  | [] => Some []
  | ch :: r =>
      if is_digit ch then match dt_filter r with Some d => Some (ch :: d) | None => None end
      else if negb ((ch =? 84) || (ch =? 90) || (ch =? 45) || (ch =? 58)) then None
      else dt_filter r
  end.

Definition enc_datetime (buffer : list N) : enc_out :=
  match dt_filter buffer with
  | None => EErr T_BAD_DATETIME
  | Some digits => Emit (enc_opaque (rtz (hex_to_bin digits)))
  end.

Definition s_zeros8 : list N := [48;48;58;48;48;58;48;48].   (* "00:00:00" *)
Definition s_zeros6 : list N := [58;48;48;58;48;48].         (* ":00:00" *)
Definition s_zeros3 : list N := [58;48;48].                  (* ":00" *)

(* decode_datetime *)
Definition dec_datetime (bs : list N) : tres (list N) :=
  let hex := bin_to_hex true bs in
  let len := length hex in
  if Nat.ltb len 8 || Nat.ltb 14 len || Nat.eqb len 9 || Nat.eqb len 11 || Nat.eqb len 13
  then TErr T_BAD_DATETIME
  else
    let b1 := insert_at 4 [45] hex in
    let b2 := insert_at 7 [45] b1 in
    let b3 := insert_at 10 [84] b2 in
    let b4 := if Nat.ltb 10 len then insert_at 13 [58] b3 else b3 in
    let b5 := if Nat.ltb 12 len then insert_at 16 [58] b4 else b4 in
    let b6 := match len with
              | 8%nat => b5 ++ s_zeros8
              | 10%nat => b5 ++ s_zeros6
              | 12%nat => b5 ++ s_zeros3
              | _ => b5
              end in
    TOk (b6 ++ [90]).

(* ------------------------------------------------------------------ *)
(* Wireless-Village integer                                             *)

(* for (i = 3; the_int > 0 && i >= 0; i--) { octets[i] = the_int & 0xff; the_int >>= 8; } *)
Fixpoint wv_int_octets (iters : nat) (the_int : N) (acc : list N) : list N :=
  match iters with
  | O => acc
  | S k => if the_int =? 0 then acc
           else wv_int_octets k (N.shiftr the_int 8) (N.land the_int 255 :: acc)
  end.

(* wbxml_encode_wv_integer; buffer is not empty (the caller returns before on an empty value) *)
Definition enc_wv_int (buffer : list N) : enc_out :=
  let c1 := nth 1 buffer 0 in
  let the_int := if (c1 =? 120) || (c1 =? 88) then strtol16_u32 buffer else atol_u32 buffer in
  let octets := wv_int_octets 4 the_int [] in
  Emit (195 :: mb_write (N.of_nat (length octets)) ++ octets).

(* decode_wv_integer: for each octet { if (the_int > 0x00ffffff) overflow; the_int = (the_int << 8) | ch; } *)
Fixpoint wv_int_loop (bs : list N) (the_int : N) : tres N :=
  match bs with
  | [] => TOk the_int
  | ch :: r =>
      if 16777215 <? the_int then TErr T_WV_INTEGER_OVERFLOW
      else wv_int_loop r (u32 (N.lor (N.shiftl the_int 8) (N.land ch 255)))
  end.

Definition dec_wv_int (bs : list N) : tres (list N) :=
  match wv_int_loop bs 0 with
  | TOk v => TOk (sprintf_u v)
  | TErr e => TErr e
  end.

(* ------------------------------------------------------------------ *)
(* Wireless-Village date and time                                       *)

Definition mem (c : N) (l : list N) : bool := existsb (N.eqb c) l.

Definition enc_wv_datetime_opaque (buffer : list N) : enc_out :=
  let len0 := length buffer in
  let tmp := if Nat.eqb len0 13 then buffer ++ [48; 48]
             else if Nat.eqb len0 14 then insert_at 13 [48; 48] buffer
             else buffer in
  let len := length tmp in
  if negb (Nat.eqb len 15 || Nat.eqb len 16) then EErr T_WV_DATETIME_FORMAT
  else if negb (nth 8 buffer 0 =? 84) then EErr T_WV_DATETIME_FORMAT
  else
    let ch := nth 15 tmp 0 in
    if Nat.eqb len 16 && ((ch <? 65) || (ch =? 74) || (90 <? ch)) then EErr T_WV_DATETIME_FORMAT
    else
      let o5 := if Nat.eqb len 16 then ch else 0 in
      let tmp1 := if Nat.eqb len 16 then delete_at 15 1 tmp else tmp in
      let tmp2 := delete_at 8 1 tmp1 in
      if negb (forallb is_digit tmp2) then EErr T_WV_DATETIME_FORMAT
      else
        let year := strtoul10 (delete_at 4 10 tmp2) in
        let o0 := u8 (N.shiftr (N.land year 4032) 6) in
        let o1 := u8 (N.land year 63) in
        let month := strtoul10 (delete_at 2 8 (delete_at 0 4 tmp2)) in
        let o1 := u8 (N.shiftl o1 2) in
        let o1 := u8 (o1 + u8 (N.shiftr (N.land month 12) 2)) in
        let o2 := u8 (N.land month 3) in
        let day := strtoul10 (delete_at 2 6 (delete_at 0 6 tmp2)) in
        let o2 := u8 (N.shiftl o2 5) in
        let o2 := u8 (o2 + u8 (N.land day 31)) in
        let hour := strtoul10 (delete_at 2 4 (delete_at 0 8 tmp2)) in
        let o2 := u8 (N.shiftl o2 1) in
        let o2 := u8 (o2 + u8 (N.shiftr (N.land hour 16) 4)) in
        let o3 := u8 (N.land hour 15) in
        let minute := strtoul10 (delete_at 2 2 (delete_at 0 10 tmp2)) in
        let o3 := u8 (N.shiftl o3 4) in
        let o3 := u8 (o3 + u8 (N.shiftr (N.land minute 60) 2)) in
        let o4 := u8 (N.land minute 3) in
        let second := strtoul10 (delete_at 0 12 tmp2) in
        let o4 := u8 (N.shiftl o4 6) in
        let o4 := u8 (o4 + u8 (N.land second 63)) in
        Emit (enc_opaque [o0; o1; o2; o3; o4; o5]).

(* wbxml_encode_wv_datetime: texts with '-', '+', ':' or ending in 'Z' go out as an inline string *)
Definition enc_wv_datetime (buffer : list N) : enc_out :=
  if mem 45 buffer || mem 43 buffer || mem 58 buffer || (nth (length buffer - 1) buffer 0 =? 90)
  then EInline buffer
  else enc_wv_datetime_opaque buffer.

(* decode_wv_datetime *)
Definition dec_wv_datetime (bs : list N) : tres (list N) :=
  match bs with
  | [d0; d1; d2; d3; d4; d5] =>
      let the_year := sprintf_0u 4 (N.shiftl (N.land d0 63) 6 + N.land (N.shiftr d1 2) 63) in
      let the_month := sprintf_0u 2 (N.lor (N.shiftl (N.land d1 3) 2) (N.land (N.shiftr d2 6) 3)) in
      let the_date := sprintf_0u 2 (N.land (N.shiftr d2 1) 31) in
      let the_hour := sprintf_0u 2 (N.lor (N.shiftl (N.land d2 1) 4) (N.land (N.shiftr d3 4) 15)) in
      let the_minute := sprintf_0u 2 (N.lor (N.shiftl (N.land d3 15) 2) (N.land (N.shiftr d4 6) 3)) in
      let sec := N.land d4 63 in
      let the_second := if sec =? 0 then [] else sprintf_0u 2 sec in
      let body := the_year ++ the_month ++ the_date ++ [84] ++ the_hour ++ the_minute ++ the_second in
      if d5 =? 0 then TOk (body ++ [90])
      else if (d5 <? 65) || (90 <? d5) || (d5 =? 74) then TOk body
      else TOk (body ++ [d5])
  | _ => TErr T_WV_DATETIME_FORMAT
  end.

(* ------------------------------------------------------------------ *)
(* base64-carried binary content                                        *)

(* decode_base64_value (parser) and wbxml_buffer_encode_base64 (XML generator): the same call *)
Definition dec_base64_value (bs : list N) : tres (list N) :=
  match b64_enc bs with Some t => TOk t | None => TErr T_B64_ENC end.

(* wbxml_encode_drmrel_content / wbxml_encode_ota_nokia_icon once the element / attribute matched:
   wbxml_base64_decode(buffer, -1, &data) never returns < 0; a count of 0 gives an empty OPAQUE;
   white space is NOT removed on this path (decoding stops at the first non-alphabet character) *)
Definition enc_b64_cstr (buffer : list N) : enc_out :=
  match b64_dec (cstr buffer) with
  | Some d => Emit (enc_opaque d)
  | None => Emit (enc_opaque [])
  end.

(* binary-flagged tags, XML side: wbxml_tree_clb_xml_end_element decodes the collected text with
   wbxml_buffer_decode_base64 (white space removed first), the encoder's parse_text emits OPAQUE *)
Definition enc_binary_tag (text : list N) : enc_out :=
  match buffer_b64_dec text with
  | Some d => Emit (enc_opaque d)
  | None => EErr T_B64_DEC
  end.

(* ------------------------------------------------------------------ *)
(* dispatch: which (language, code page, token) gets which treatment     *)

Inductive tkind := K_Plain | K_WVInteger | K_WVDateTime | K_Base64 | K_Datetime.

Definition L_SI10 : N := 1301.
Definition L_EMN10 : N := 1701.
Definition L_DRMREL10 : N := 1801.
Definition L_OTA_SETTINGS : N := 1901.
Definition L_SYNCML10 : N := 2001.
Definition L_SYNCML11 : N := 2101.
Definition L_SYNCML12 : N := 2201.
Definition L_WV_CSP11 : N := 2301.
Definition L_WV_CSP12 : N := 2302.

Definition in_list (x : N) (l : list N) : bool := existsb (N.eqb x) l.

(* decode_wv_content: the switch on current_tag->wbxmlCodePage / wbxmlToken *)
Definition wv_dec_kind (page tok : N) : tkind :=
  match page with
  | 0 => if in_list tok [11; 15; 26; 60] then K_WVInteger
         else if tok =? 17 then K_WVDateTime else K_Plain
  | 1 => if in_list tok [28; 37; 38; 39; 40; 50] then K_WVInteger else K_Plain
  | 3 => if in_list tok [5; 6; 12; 13; 14; 18; 19] then K_WVInteger else K_Plain
  | 5 => if in_list tok [5; 9; 50] then K_WVInteger else K_Plain
  | 6 => if tok =? 26 then K_WVDateTime else K_Plain
  | 9 => if in_list tok [8; 10] then K_WVInteger else K_Plain
  | _ => K_Plain
  end.

(* decode_opaque_content *)
Definition opaque_content_kind (lang page tok : N) : tkind :=
  if (lang =? L_WV_CSP11) || (lang =? L_WV_CSP12) then wv_dec_kind page tok
  else if lang =? L_DRMREL10 then (if (page =? 0) && (tok =? 12) then K_Base64 else K_Plain)
  else if (lang =? L_SYNCML10) || (lang =? L_SYNCML11) || (lang =? L_SYNCML12)
       then (if (page =? 1) && (tok =? 16) then K_Base64 else K_Plain)
  else K_Plain.

(* decode_opaque_attr_value *)
Definition opaque_attr_kind (lang : N) : tkind :=
  if lang =? L_OTA_SETTINGS then K_Base64 else K_Plain.

(* the SI / EMN branch of parse_attribute (applied to the whole non-empty value of a token attribute) *)
Definition attr_value_kind (lang page tok : N) : tkind :=
  if lang =? L_SI10 then (if (page =? 0) && ((tok =? 10) || (tok =? 16)) then K_Datetime else K_Plain)
  else if lang =? L_EMN10 then (if (page =? 0) && (tok =? 5) then K_Datetime else K_Plain)
  else K_Plain.

Definition decode_by_kind (k : tkind) (bs : list N) : tres (list N) :=
  match k with
  | K_Plain => TOk bs
  | K_WVInteger => dec_wv_int bs
  | K_WVDateTime => dec_wv_datetime bs
  | K_Base64 => dec_base64_value bs
  | K_Datetime => dec_datetime bs
  end.

Definition decode_opaque_content (lang page tok : N) (bs : list N) : tres (list N) :=
  decode_by_kind (opaque_content_kind lang page tok) bs.
Definition decode_opaque_attr_value (lang : N) (bs : list N) : tres (list N) :=
  decode_by_kind (opaque_attr_kind lang) bs.
Definition decode_attr_value (lang page tok : N) (bs : list N) : tres (list N) :=
  match bs with [] => TOk [] | _ => decode_by_kind (attr_value_kind lang page tok) bs end.

(* wbxml_encode_wv_content: data type of the current element.  The encoder's integer list differs
   from the parser's: page 5 (Altitude, Accuracy, Cpriority) is typed on the parser side only. *)
Definition wv_enc_kind (page tok : N) : tkind :=
  match page with
  | 0 => if in_list tok [11; 15; 26; 60] then K_WVInteger
         else if tok =? 17 then K_WVDateTime else K_Plain
  | 1 => if in_list tok [28; 37; 38; 39; 40; 50] then K_WVInteger else K_Plain
  | 3 => if in_list tok [5; 6; 12; 13; 14; 18; 19] then K_WVInteger else K_Plain
  | 6 => if tok =? 26 then K_WVDateTime else K_Plain
  | 9 => if in_list tok [8; 10] then K_WVInteger else K_Plain
  | _ => K_Plain
  end.

(* typed part of wbxml_encode_wv_content (strings / booleans: extension-token lookup, not modelled here) *)
Definition enc_wv_content (page tok : N) (buffer : list N) : enc_out :=
  match wv_enc_kind page tok with
  | K_WVInteger => enc_wv_int buffer
  | K_WVDateTime => enc_wv_datetime buffer
  | _ => ENotEncoded
  end.

(* the attribute-value branch of wbxml_encode_value_element_buffer for SI / EMN *)
Definition enc_attr_value (lang page tok : N) (buffer : list N) : enc_out :=
  match attr_value_kind lang page tok with
  | K_Datetime => enc_datetime buffer
  | _ => ENotEncoded
  end.

(* wbxml_encode_drmrel_content: ds:KeyValue is (page 0, token 0x0C) *)
Definition enc_drmrel_content (page tok : N) (buffer : list N) : enc_out :=
  if (page =? 0) && (tok =? 12) then enc_b64_cstr buffer else ENotEncoded.

(* ------------------------------------------------------------------ *)
(* specification side (used by the theorems and, extracted, as an oracle cross-check)  *)

Definition d2 (n : N) : list N := [48 + n / 10; 48 + n mod 10].
Definition d4 (n : N) : list N := [48 + n / 1000; 48 + (n / 100) mod 10; 48 + (n / 10) mod 10; 48 + n mod 10].

(* canonical SI/EMN form YYYY-MM-DDThh:mm:ssZ *)
Definition canonical (Y M D h m s : N) : list N :=
  d4 Y ++ [45] ++ d2 M ++ [45] ++ d2 D ++ [84] ++ d2 h ++ [58] ++ d2 m ++ [58] ++ d2 s ++ [90].

(* the text with t trailing time fields left out (t = 0: none, 1: seconds, 2: minutes too, 3: the hour too) *)
Definition render (t : nat) (Y M D h m s : N) : list N :=
  d4 Y ++ [45] ++ d2 M ++ [45] ++ d2 D ++
  match t with
  | 0%nat => [84] ++ d2 h ++ [58] ++ d2 m ++ [58] ++ d2 s ++ [90]
  | 1%nat => [84] ++ d2 h ++ [58] ++ d2 m ++ [90]
  | 2%nat => [84] ++ d2 h ++ [90]
  | _ => [90]
  end.

Definition bcd (n : N) : N := (n / 10) * 16 + n mod 10.
(* the seven octets of the untruncated WBXML form *)
Definition bcd7 (Y M D h m s : N) : list N :=
  [bcd (Y / 100); bcd (Y mod 100); bcd M; bcd D; bcd h; bcd m; bcd s].

Definition valid_dt (Y M D h m s : N) : Prop :=
  Y <= 9999 /\ 1 <= M <= 12 /\ 1 <= D <= 31 /\ h < 24 /\ m < 60 /\ s < 60.

(* big-endian value of an octet string *)
Definition be_value (bs : list N) : N := fold_left (fun a b => a * 256 + b) bs 0.

(* WV date-time text YYYYMMDDThhmm[ss][z]; z = 0 stands for "no zone designator" *)
Definition wv_render (with_sec : bool) (Y M D h m s z : N) : list N :=
  d4 Y ++ d2 M ++ d2 D ++ [84] ++ d2 h ++ d2 m ++ (if with_sec then d2 s else []) ++
  (if z =? 0 then [] else [z]).
(* the six octets of the WV specification *)
Definition wv_octets (Y M D h m s z : N) : list N :=
  [Y / 64; (Y mod 64) * 4 + M / 4; (M mod 4) * 64 + D * 2 + h / 16; (h mod 16) * 16 + m / 4;
   (m mod 4) * 64 + s; z].
Definition wv_zone_ok (z : N) : bool := (65 <=? z) && (z <=? 90) && negb (z =? 74).

(* hypotheses and auxiliary notions of the theorem statements *)

(* the digit loop of atol / strtoul on a decimal text *)
Definition parse_dec (l : list N) : N := digits_val 10 dec_digit 0 l.

(* which trailing fields a text may leave out *)
Definition trunc_ok (t : nat) (h m s : N) : Prop :=
  match t with
  | 0%nat => True
  | 1%nat => s = 0
  | 2%nat => m = 0 /\ s = 0
  | 3%nat => h = 0 /\ m = 0 /\ s = 0
  | _ => False
  end.

Definition wv_fields_ok (Y M D h m s : N) : Prop :=
  Y <= 4095 /\ M <= 15 /\ D <= 31 /\ h <= 31 /\ m <= 59 /\ s <= 59.

(* what the decoder prints for the zone octet *)
Definition zone_suffix (z : N) : list N :=
  if z =? 0 then [90] else if (z <? 65) || (90 <? z) || (z =? 74) then [] else [z].

