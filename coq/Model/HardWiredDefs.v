(* Types of Gen/HardWired.v (the behavioural probe of the typed elements) and the checkers over it. *)
From Coq Require Import List NArith String Bool.
From Wbxml Require Import Model.TablesDefs Model.Tables.
Import ListNotations.
Local Open Scope N_scope.

(* HMime / HMimeDm: the SyncML MIME-type rewrite application/vnd.syncml-devinf+wbxml <-> +xml (resp. dmtnds) *)
Inductive hw_kind := HInteger | HDateTime | HBase64 | HMime | HMimeDm | HOther.
(* where the typed handling applies: element content under tag (page, token); every opaque attribute value of the
   language (page/token unused); the value of the attribute start (page, token) *)
(* HAttrVal: the value of the attribute start (page, token), other than date-time; HContentAny: the text of every element of the language *)
Inductive hw_where := HContent | HAttrAny | HAttrDT | HAttrVal | HContentAny.

Record hw := mk_hw { hw_lang : N; hw_place : hw_where; hw_page : N; hw_tok : N; hw_type : hw_kind }.
Record intended := mk_intended { i_langs : list N; i_place : hw_where; i_type : hw_kind; i_names : list string }.

Definition kind_eqb (a b : hw_kind) : bool :=
  match a, b with HInteger, HInteger | HDateTime, HDateTime | HBase64, HBase64 | HMime, HMime | HMimeDm, HMimeDm | HOther, HOther => true | _, _ => false end.
Definition where_eqb (a b : hw_where) : bool :=
  match a, b with HContent, HContent | HAttrAny, HAttrAny | HAttrDT, HAttrDT | HAttrVal, HAttrVal | HContentAny, HContentAny => true | _, _ => false end.

Definition hw_eqb (a b : hw) : bool :=
  (hw_lang a =? hw_lang b) && where_eqb (hw_place a) (hw_place b) && (hw_page a =? hw_page b) && (hw_tok a =? hw_tok b) &&
  kind_eqb (hw_type a) (hw_type b).

(* the name the table binds to the place of a hard-wired entry (None: no row — the number has drifted) *)
Definition hw_row_name (main : list lang) (h : hw) : option string :=
  match get_table main (hw_lang h) with
  | None => None
  | Some l =>
    match hw_place h with
    | HContent => match tag_of_token l (hw_page h) (hw_tok h) with Found r => Some (t_name r) | _ => None end
    | HAttrDT | HAttrVal => match attr_of_token l (hw_page h) (hw_tok h) with Found r => Some (a_name r) | _ => None end
    | HAttrAny | HContentAny => Some EmptyString
    end
  end.

(* h is intended: some pinned entry lists its language, place and type, and (except for language-wide handling)
   the name of its table row *)
Definition hw_intended (main : list lang) (pins : list intended) (h : hw) : bool :=
  match hw_row_name main h with
  | None => false
  | Some n =>
    existsb (fun i => existsb (N.eqb (hw_lang h)) (i_langs i) && where_eqb (hw_place h) (i_place i) && kind_eqb (hw_type h) (i_type i) &&
                      match hw_place h with HAttrAny | HContentAny => true | _ => existsb (String.eqb n) (i_names i) end) pins
  end.

(* what the encoder writes typed is decoded with the same type: the same entry is in the parser's list, or the
   parser applies that type to every opaque attribute value of the language *)
(* what the encoder writes typed is handled with the same type in the other direction: the same entry is in the parser /
   XML-generator list, or the parser applies that type to every opaque attribute value of the language, or the entry is
   one of the pinned one-sided entries (exc) *)
Definition enc_matched (dec exc : list hw) (e : hw) : bool :=
  existsb (hw_eqb e) exc ||
  existsb (hw_eqb e) dec ||
  match hw_place e with
  | HAttrDT | HAttrAny | HAttrVal =>
    existsb (fun d => (hw_lang d =? hw_lang e) && where_eqb (hw_place d) HAttrAny && kind_eqb (hw_type d) (hw_type e)) dec
  | HContent | HContentAny => false
  end.

(* every pinned name is really singled out (the pinned set is not larger than the code) *)
Definition pin_realised (main : list lang) (dec : list hw) (i : intended) : bool :=
  forallb (fun lid => match i_place i with
                      | HAttrAny | HContentAny => existsb (fun d => (hw_lang d =? lid) && where_eqb (hw_place d) (i_place i) && kind_eqb (hw_type d) (i_type i)) dec
                      | _ => forallb (fun n => existsb (fun d => (hw_lang d =? lid) && where_eqb (hw_place d) (i_place i) && kind_eqb (hw_type d) (i_type i) &&
                                                        match hw_row_name main d with Some m => String.eqb m n | None => false end) dec) (i_names i)
                      end) (i_langs i).

(* exc = pinned one-sided entries: really written by the encoder and really not handled in the other direction *)
Definition hardwired_ok (main : list lang) (pins : list intended) (exc dec enc : list hw) : bool :=
  forallb (hw_intended main pins) dec && forallb (hw_intended main pins) enc &&
  forallb (enc_matched dec exc) enc && forallb (pin_realised main (dec ++ enc)) pins &&
  forallb (fun x => existsb (hw_eqb x) enc && negb (existsb (hw_eqb x) dec)) exc.

(* ---- the table option WBXML_TAG_OPTION_BINARY (0x1): probed on every real tag row.  enc_rows = rows whose text the WBXML
   encoder writes as OPAQUE, xml_rows = rows whose text the XML generator renders in base64: both are exactly the flagged rows *)
Definition mem3 (x : N * N * N) (l : list (N * N * N)) : bool :=
  existsb (fun y => let '(a, b, c) := x in let '(a', b', c') := y in (a =? a') && (b =? b') && (c =? c')) l.

Definition binary_rows_ok (main : list lang) (enc_rows xml_rows : list (N * N * N)) : bool :=
  forallb (fun l => forallb (fun r =>
      let flagged := existsb (fun x => (t_page x =? t_page r) && (t_tok x =? t_tok r) && N.testbit (t_opts x) 0) (opt_list (l_tags l)) in
      Bool.eqb flagged (mem3 (l_id l, t_page r, t_tok r) enc_rows) && Bool.eqb flagged (mem3 (l_id l, t_page r, t_tok r) xml_rows))
    (opt_list (l_tags l))) main &&
  forallb (fun x => let '(i, p, t) := x in
     match get_table main i with Some l => match tag_of_token l p t with Found _ => true | _ => false end | None => false end)
    (enc_rows ++ xml_rows).
