(* C17 — the flow-mode state machine of Model/Flow.v instantiated with the REAL per-node WBXML encoding of
   Model/EncWbxml.v (the transcription of parse_node / parse_single_node / parse_element / parse_element_end of
   wbxml_encoder.c), string table disabled as wbxml_encoder_set_flow_mode does.

   The encoder state of EncWbxml is est = (tagcp, attrcp, cur_tag, in_cdata, cdata, strtbl, strtbl_len).
   The CONTEXT of flow mode is what survives from one top-level node to the next and is read by the next one:
     wctx = (tag code page, attribute code page, current tag).
   That this is enough is proved in Proofs/FlowEncProofs.v: with the string table disabled parse_node neither reads nor
   writes strtbl / strtbl_len (frame), and it returns in_cdata = false, cdata = None whenever it is entered so
   (balance), so between top-level nodes those two are constants.  cur_tag IS read (parse_text: binary-flagged current
   tag; WV typed content) — it is the third thing wbxml_encoder_delete_last_node has to restore, besides the two pages.
   A failing encode (EErr) is modelled as a no-op on the flow state: in the C it leaves partial output behind; such
   histories are outside the property's domain (the theorems that mention EncWbxml's own batch encoding assume it
   succeeds).  Definitions only. *)
From Coq Require Import List NArith Bool.
From Wbxml Require Import Model.Codec Model.EncWbxml Model.Flow.
Import ListNotations.
Local Open Scope N_scope.

Record wctx := mk_wctx { w_tagcp : N; w_attrcp : N; w_cur_tag : option (N * N * N) }.

Definition st_of (c : wctx) : est := mk_est (w_tagcp c) (w_attrcp c) (w_cur_tag c) false None [] 0.
Definition ctx_of (st : est) : wctx := mk_wctx (tagcp st) (attrcp st) (cur_tag st).
Definition wctx0 : wctx := mk_wctx 0 0 None.          (* wbxml_encoder_create *)

(* the encoder object of a flow-mode run: wbxml_encoder_set_flow_mode(TRUE) switches the string table off *)
Definition flow_env (l : blang) (ignore_empty remove_blanks : bool) (version : N) : env :=
  make_env l false ignore_empty remove_blanks version false.

Section FlowEnc.
  Variables (tbl : list blang) (e : env).

  (* wbxml_encoder_encode_node on a detached node: parse_node(node) with no parent *)
  Definition w_enc_node (c : wctx) (n : node) : Flow.bytes * wctx :=
    match parse_node tbl e None n (st_of c) with
    | EOk (b, st') => (b, ctx_of st')
    | EErr _ => ([], c)
    end.

  (* wbxml_encoder_encode_raw_elt_start: parse_element(node, has_content) *)
  Definition w_enc_start (c : wctx) (n : node) (has_content : bool) : Flow.bytes * wctx :=
    match n with
    | NElt tag attrs _ =>
      match enc_element_start e (st_of c) tag attrs has_content with
      | EOk (b, st') => (b, ctx_of st')
      | EErr _ => ([], c)
      end
    | _ => ([], c)
    end.

  (* wbxml_encoder_encode_raw_elt_end: parse_element_end = END when the element has content; no state *)
  Definition w_enc_end (c : wctx) (n : node) (has_content : bool) : Flow.bytes * wctx :=
    ((if has_content then [1] else []), c).

  (* wbxml_fill_header for an encoder whose string table is disabled *)
  Definition w_header : Flow.bytes := fill_header e (init_est [] 0).

  Definition w_step := step wctx node w_enc_node w_enc_start w_enc_end w_header.
  Definition w_step_fixed := step_fixed wctx node w_enc_node w_enc_start w_enc_end w_header.
  Definition w_run := run wctx node wctx0 w_enc_node w_enc_start w_enc_end w_header.
  Definition w_run_fixed := run_fixed wctx node wctx0 w_enc_node w_enc_start w_enc_end w_header.
  Definition w_spec_output := spec_output wctx node wctx0 w_enc_node w_enc_start w_enc_end w_header.
  Definition w_live (ops : list (op node)) : list (frag node) := live node ops.
  Definition w_init := init wctx wctx0.
End FlowEnc.

Definition w_get_output := get_output wctx.
