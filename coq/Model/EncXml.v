(* C05 / C07 (XML half) — executable model of the XML output half of src/wbxml_encoder.c.

   Transcribed from (line numbers of the current tree):
     wbxml_tree.c     wbxml_tree_to_xml (options -> encoder setters), wbxml_tree_node_have_child_elt
     wbxml_encoder.c  wbxml_encoder_encode_tree_to_xml / encoder_encode_tree / parse_node (loop over the siblings) /
                      parse_single_node / parse_element /
                      parse_attribute / parse_text / parse_cdata / parse_pi / parse_tree (output_type = XML),
                      xml_build_result, xml_fill_header, xml_encode_tag, xml_encode_end_tag, xml_encode_attr,
                      xml_encode_end_attrs, xml_encode_text, xml_encode_text_entities, xml_encode_new_line,
                      xml_encode_cdata, xml_encode_end_cdata, xml_encode_tree, encoder_duplicate
     wbxml_buffers.c  wbxml_buffer_strip_blanks, wbxml_buffer_contains_only_whitespaces, wbxml_buffer_compare_cstr
     wbxml_tables.c   wbxml_tables_get_xmlns
   Compile-time configuration of the file (both #defined unconditionally at its top):
     WBXML_ENCODER_XML_GEN_EMPTY_ELT, WBXML_ENCODER_XML_NO_EMPTY_ELT_INDENT.

   The tree is the WBXMLTree the encoder is fed (src/wbxml_tree.h): a node is an element (token-or-literal
   name, attribute list, children), a text (content buffer), a CDATA node (children), a PI node or an embedded
   tree.  Token names carry the table row they point to (Gen/TablesData.v rows: name, page, token, options).
   Text, PI and embedded-tree nodes have no children in any tree produced by the WBXML tree builder
   (wbxml_tree_clb_wbxml.c only ever makes an element or a CDATA node the current node); the harness checks it.

   Output is produced compositionally (every function returns the bytes it appended); the encoder fields that
   matter for XML output are threaded as [est].  Definitions only. *)
From Coq Require Import List NArith Bool String Ascii.
From Wbxml Require Import Model.TablesDefs Model.Codec.
Import ListNotations.
Local Open Scope N_scope.

Definition bytes := list N.

Definition bs (s : string) : bytes := bytes_of_string s.

(* ------------------------------------------------------------------ *)
(* table rows and language entries as the encoder sees them.  The extracted program must not mention Coq's
   [string] (driver/conv.ml opens the extracted module), so the model works on byte strings; [xlang_of],
   [trow_of], [arow_of] below convert the regenerated rows (Gen/TablesData.v) and the driver gets the converted
   tables computed inside Coq (Extract_C05.v: Eval vm_compute). *)

Record trow := mk_trow { tr_name : bytes; tr_page : N; tr_tok : N; tr_opts : N }.   (* WBXMLTagEntry *)
Record arow := mk_arow { ar_name : bytes }.                                         (* WBXMLAttrEntry: only xmlName is read *)
Record nsrow := mk_nsrow { nr_name : bytes; nr_page : N }.                          (* WBXMLNameSpaceEntry *)

Record xlang := mk_xlang {
  xl_id : N;                       (* langID *)
  xl_root : bytes;                 (* publicID->xmlRootElt (NULL = empty: append_cstr(NULL) appends nothing) *)
  xl_pub : option bytes;           (* publicID->xmlPublicID when non-NULL and non-empty *)
  xl_dtd : bytes;                  (* publicID->xmlDTD *)
  xl_ns : option (list nsrow);     (* nsTable (NULL = None) *)
  xl_has_attrs : bool;             (* attrTable != NULL *)
  xl_tags : list trow;             (* tagTable rows, in order (the driver resolves row indices) *)
  xl_attrs : list arow             (* attrTable rows, in order *)
}.

Definition trow_of (r : tag_row) : trow := mk_trow (bs (t_name r)) (t_page r) (t_tok r) (t_opts r).
Definition arow_of (r : attr_row) : arow := mk_arow (bs (a_name r)).
Definition nsrow_of (r : ns_row) : nsrow := mk_nsrow (bs (ns_name r)) (ns_page r).
Definition obs (o : option string) : bytes := match o with Some s => bs s | None => [] end.
Definition xlang_of (l : lang) : xlang :=
  mk_xlang (l_id l) (obs (l_root l))
    (match l_pub_text l with Some EmptyString => None | Some s => Some (bs s) | None => None end)
    (obs (l_dtd l))
    (match l_ns l with Some t => Some (map nsrow_of t) | None => None end)
    (match l_attrs l with Some _ => true | None => false end)
    (map trow_of (opt_list (l_tags l)))
    (map arow_of (opt_list (l_attrs l))).

(* string constants as byte lists (computed here so that no [string] is left in the extracted code) *)
Definition s_xmldecl : bytes := Eval vm_compute in bs "<?xml version=""1.0""?>".
Definition s_doctype : bytes := Eval vm_compute in bs "<!DOCTYPE ".
Definition s_public : bytes := Eval vm_compute in bs " PUBLIC """.
Definition s_system : bytes := Eval vm_compute in bs " SYSTEM".
Definition s_dtd_open : bytes := Eval vm_compute in bs " """.
Definition s_dtd_close : bytes := Eval vm_compute in bs """>".
Definition s_lt : bytes := Eval vm_compute in bs "&lt;".
Definition s_gt : bytes := Eval vm_compute in bs "&gt;".
Definition s_amp : bytes := Eval vm_compute in bs "&amp;".
Definition s_quot : bytes := Eval vm_compute in bs "&quot;".
Definition s_apos : bytes := Eval vm_compute in bs "&apos;".
Definition s_cr : bytes := Eval vm_compute in bs "&#13;".
Definition s_lf : bytes := Eval vm_compute in bs "&#10;".
Definition s_tab : bytes := Eval vm_compute in bs "&#9;".
Definition s_xmlns : bytes := Eval vm_compute in bs " xmlns=""".
Definition s_eq_quote : bytes := Eval vm_compute in bs "=""".
Definition s_empty_end : bytes := Eval vm_compute in bs "/>".
Definition s_end_open : bytes := Eval vm_compute in bs "</".
Definition s_cdata_open : bytes := Eval vm_compute in bs "<![CDATA[".
Definition s_cdata_close : bytes := Eval vm_compute in bs "]]>".
Definition s_cdata_split : bytes := Eval vm_compute in bs "]]]]><![CDATA[>".
Definition s_devinf_wbxml : bytes := Eval vm_compute in bs "application/vnd.syncml-devinf+wbxml".
Definition s_devinf_xml : bytes := Eval vm_compute in bs "application/vnd.syncml-devinf+xml".
Definition s_dmtnds_wbxml : bytes := Eval vm_compute in bs "application/vnd.syncml.dmtnds+wbxml".
Definition s_dmtnds_xml : bytes := Eval vm_compute in bs "application/vnd.syncml.dmtnds+xml".

(* ------------------------------------------------------------------ *)
(* the tree                                                            *)

Inductive tname := TTok (r : trow) | TLit (s : bytes).
Inductive aname := ATok (r : arow) | ALit (s : bytes).
Record attr := mk_attr_node { at_name : aname; at_value : option bytes (* NULL buffer = None *) }.

Inductive node :=
| Elt (nm : tname) (attrs : list attr) (ch : list node)
| Text (s : bytes)
| CData (ch : list node)
| Pi
| SubTree (l : option xlang) (roots : list node).    (* WBXML_TREE_TREE_NODE: node->tree->lang, node->tree->root and its siblings *)

(* ------------------------------------------------------------------ *)
(* options (WBXMLGenXMLParams as applied by wbxml_tree_to_xml)          *)

Inductive gen_type := Compact | Indent | Canonical.

Record opts := mk_opts {
  o_gen : gen_type;            (* encoder->xml_gen_type *)
  o_delta : N;                 (* encoder->indent_delta, WB_UTINY *)
  o_ignore_empty : bool;       (* encoder->ignore_empty_text *)
  o_remove_blanks : bool       (* encoder->remove_text_blanks *)
}.

(* wbxml_tree_to_xml with params != NULL: indent_delta is only set for INDENT (default 1 otherwise, never read);
   keep_ignorable_ws switches both text flags together *)
Definition opts_of_params (g : gen_type) (indent : N) (keep_ws : bool) : opts :=
  mk_opts g (match g with Indent => u8 indent | _ => 1 end) (negb keep_ws) (negb keep_ws).

Definition is_indent (o : opts) : bool := match o_gen o with Indent => true | _ => false end.
Definition is_canonical (o : opts) : bool := match o_gen o with Canonical => true | _ => false end.

(* ------------------------------------------------------------------ *)
(* errors, result                                                      *)

Inductive xerr := X_NOT_IMPLEMENTED | X_B64_ENC | X_BAD_PARAMETER.
Inductive xres (A : Type) := XOk (a : A) | XErr (e : xerr).
Arguments XOk {A} a.
Arguments XErr {A} e.

(* encoder fields read or written on the XML path *)
Record est := mk_est {
  e_indent : N;                 (* WB_UTINY indent: wraps at 256 *)
  e_in_content : bool;
  e_in_cdata : bool;
  e_cur_tag : option trow    (* current_tag (NULL for a literal tag and after every node) *)
}.

Definition est0 (indent : N) : est := mk_est indent false false None.

(* ------------------------------------------------------------------ *)
(* small pieces                                                        *)

Definition nl : bytes := [10].                       (* WBXML_ENCODER_XML_NEW_LINE "\n" *)
Definition nl_if (o : opts) : bytes := if is_indent o then nl else [].

(* for (i=0; i<(encoder->indent * encoder->indent_delta); i++) append ' '   — WB_ULONG counter, both factors
   are unsigned char promoted to int: at most 255*255, no wrap *)
Definition spaces (n : N) : bytes := repeat 32 (N.to_nat n).
Definition indent_bytes (o : opts) (s : est) : bytes := spaces (e_indent s * o_delta o).

(* isspace() in the "C" locale *)
Definition c_isspace (c : N) : bool := is_cspace c.

(* wbxml_buffer_contains_only_whitespaces *)
Definition only_ws (s : bytes) : bool := forallb c_isspace s.

(* wbxml_buffer_strip_blanks: drop leading isspace bytes, then trailing ones *)
Fixpoint drop_ws (s : bytes) : bytes :=
  match s with
  | c :: r => if c_isspace c then drop_ws r else s
  | [] => []
  end.
Definition strip_blanks (s : bytes) : bytes := rev (drop_ws (rev (drop_ws s))).

(* byte-string equality (wbxml_buffer_compare_cstr(...) == 0 against a NUL-free literal: equal length and bytes) *)
Fixpoint bytes_eqb (a b : bytes) : bool :=
  match a, b with
  | [], [] => true
  | x :: a', y :: b' => (x =? y) && bytes_eqb a' b'
  | _, _ => false
  end.

(* wbxml_tree_node_have_child_elt *)
Definition have_child_elt (ch : list node) : bool :=
  existsb (fun n => match n with Elt _ _ _ => true | _ => false end) ch.

(* wbxml_tables_get_xmlns: first row of the namespace table with that code page *)
Fixpoint get_xmlns (t : list nsrow) (page : N) : option bytes :=
  match t with
  | [] => None
  | r :: t' => if nr_page r =? page then Some (nr_name r) else get_xmlns t' page
  end.

(* wbxml_tag_get_xml_name / wbxml_attribute_get_xml_name: table string, or the literal buffer as a C string *)
Definition tname_bytes (n : tname) : bytes :=
  match n with TTok r => tr_name r | TLit s => cstr s end.
Definition aname_bytes (n : aname) : bytes :=
  match n with ATok r => ar_name r | ALit s => cstr s end.

(* ------------------------------------------------------------------ *)
(* xml_encode_text_entities: the switch with its fall-through
     case '\r': if (normalize) { "&#13;"; break; }      -- falls into
     case '\n': if (normalize) { "&#10;"; break; }      -- falls into
     case '\t': if (normalize) { "&#9;";  break; }      -- falls into
     default:   append ch                                                  *)
Definition esc_char (normalize : bool) (ch : N) : bytes :=
  if ch =? 60 then s_lt
  else if ch =? 62 then s_gt
  else if ch =? 38 then s_amp
  else if ch =? 34 then s_quot
  else if ch =? 39 then s_apos
  else if ch =? 13 then (if normalize then s_cr else [ch])
  else if ch =? 10 then (if normalize then s_lf else [ch])
  else if ch =? 9 then (if normalize then s_tab else [ch])
  else [ch].

Definition escape (normalize : bool) (s : bytes) : bytes := flat_map (esc_char normalize) s.

(* ------------------------------------------------------------------ *)
(* xml_fill_header                                                     *)

Definition xml_header (l : xlang) (o : opts) : bytes :=
  s_xmldecl ++ nl_if o ++
  s_doctype ++ xl_root l ++
  (match xl_pub l with
   | Some p => s_public ++ p ++ [34]
   | None => s_system
   end) ++
  s_dtd_open ++ xl_dtd l ++ s_dtd_close ++ nl_if o.

(* ------------------------------------------------------------------ *)
(* xml_encode_tag                                                      *)

(* what xml_encode_tag looks for above the node: the code page of the nearest ancestor that is an element with
   a token name (the loop over node->parent skips literal elements and CDATA nodes); None = there is none *)
Record pinfo := mk_pinfo {
  p_page : option N;          (* code page of the nearest token-named ancestor element *)
  p_tag : option trow         (* node->parent's tag entry when the parent is an element with a token name *)
}.
Definition proot : pinfo := mk_pinfo None None.

(* the information the children of an element / of a CDATA node are encoded with *)
Definition pinfo_below (parent : pinfo) (nm : tname) : pinfo :=
  match nm with TTok r => mk_pinfo (Some (tr_page r)) (Some r) | TLit _ => mk_pinfo (p_page parent) None end.
(* below a CDATA node: node->parent is not an element *)
Definition pinfo_cdata (parent : pinfo) : pinfo := mk_pinfo (p_page parent) None.

(* only a token name has a code page (node->name->type == WBXML_VALUE_TOKEN is tested first) *)
Definition ns_wanted (parent : pinfo) (nm : tname) : bool :=
  match nm with
  | TLit _ => false
  | TTok r => match p_page parent with None => true | Some pg => negb (pg =? tr_page r) end
  end.

Definition xmlns_part (l : xlang) (parent : pinfo) (nm : tname) : bytes :=
  match xl_ns l, nm with
  | Some nst, TTok r =>
    if ns_wanted parent nm then
      match get_xmlns nst (tr_page r) with
      | Some ns => s_xmlns ++ ns ++ [34]
      | None => []
      end
    else []
  | _, _ => []
  end.

Definition xml_encode_tag (l : xlang) (o : opts) (parent : pinfo) (nm : tname) (s : est) : bytes * est :=
  let s1 := mk_est (e_indent s) (e_in_content s) (e_in_cdata s)
                   (match nm with TTok r => Some r | TLit _ => None end) in
  ((if is_indent o then indent_bytes o s else []) ++ [60] ++ tname_bytes nm ++ xmlns_part l parent nm, s1).

(* xml_encode_attr (reached through parse_attribute, which emits nothing when lang->attrTable == NULL) *)
Definition attr_value_bytes (a : attr) : bytes :=
  match at_value a with Some v => cstr v | None => [] end.

Definition xml_encode_attr (o : opts) (a : attr) : bytes :=
  [32] ++ aname_bytes (at_name a) ++ s_eq_quote ++ escape (is_canonical o) (attr_value_bytes a) ++ [34].

Definition parse_attributes (l : xlang) (o : opts) (attrs : list attr) : bytes :=
  if xl_has_attrs l then flat_map (xml_encode_attr o) attrs else [].

(* xml_encode_end_attrs *)
Definition xml_encode_end_attrs (o : opts) (ch : list node) (s : est) : bytes * est :=
  match ch with
  | [] => (s_empty_end ++ nl_if o, s)
  | _ =>
    if is_indent o && have_child_elt ch
    then ([62] ++ nl, mk_est (u8 (e_indent s + 1)) (e_in_content s) (e_in_cdata s) (e_cur_tag s))
    else ([62], s)
  end.

(* xml_encode_end_tag (only called when node->children != NULL) *)
Definition xml_encode_end_tag (o : opts) (nm : tname) (ch : list node) (s : est) : bytes * est :=
  let '(pre, ind) :=
    if is_indent o && have_child_elt ch then
      let ind := u8 (e_indent s + 255) in     (* encoder->indent-- on an unsigned char *)
      ((if e_in_content s then nl else []) ++ spaces (ind * o_delta o), ind)
    else ([], e_indent s) in
  (pre ++ s_end_open ++ tname_bytes nm ++ [62] ++ nl_if o,
   mk_est ind false (e_in_cdata s) (e_cur_tag s)).

(* ------------------------------------------------------------------ *)
(* parse_text + xml_encode_text                                        *)

Definition tag_is_binary (t : option trow) : bool :=
  match t with Some r => N.odd (tr_opts r) (* options & WBXML_TAG_OPTION_BINARY (0x1) *) | None => false end.

Definition is_syncml (l : xlang) : bool :=
  (xl_id l =? 2001) || (xl_id l =? 2101) || (xl_id l =? 2201).

Definition tag_is_type (t : option trow) : bool :=
  match t with Some r => (tr_page r =? 1) && (tr_tok r =? 19) | None => false end.

Definition syncml_type_rewrite (l : xlang) (t : option trow) (tmp : bytes) : bytes :=
  let tmp1 :=
    if is_syncml l && tag_is_type t && bytes_eqb tmp s_devinf_wbxml
    then s_devinf_xml else tmp in
  if (xl_id l =? 2201) && tag_is_type t && bytes_eqb tmp1 s_dmtnds_wbxml
  then s_dmtnds_xml else tmp1.

(* returns None when the node is skipped by parse_text (ignorable blank text) *)
(* the tag whose WBXML_TAG_OPTION_BINARY option decides how a text node is treated: encoder->current_tag, which
   is only set while the FIRST child of an element is encoded (it is reset after every node).  The parent's own
   tag entry ([p_tag parent]) is NOT consulted by the current code — pending finding "binary-later-text":
   the repair makes this  match e_cur_tag s with Some r => Some r | None => p_tag parent end . *)
Definition text_tag (s : est) (parent : pinfo) : option trow :=
  match e_cur_tag s with Some r => Some r | None => p_tag parent end.

Definition text_policy (o : opts) (parent : pinfo) (s : est) (content : bytes) : option bytes :=
  if negb (e_in_cdata s) && negb (tag_is_binary (text_tag s parent)) && negb (is_canonical o) then
    if o_ignore_empty o && only_ws content then None
    else Some (if o_remove_blanks o then strip_blanks content else content)
  else Some content.

(* in a CDATA section the text is copied, except that every "]]>" is emitted as "]]]]><![CDATA[>": "]]" ends
   the current section and ">" starts the next one (the loop scans left to right, occurrences cannot overlap) *)
Fixpoint split_cdata_end (s : bytes) : bytes :=
  match s with
  | [] => []
  | a :: t =>
    match t with
    | b :: c :: r =>
      if (a =? 93) && (b =? 93) && (c =? 62)
      then s_cdata_split ++ split_cdata_end r
      else a :: split_cdata_end t
    | _ => a :: split_cdata_end t
    end
  end.

Definition xml_encode_text (l : xlang) (o : opts) (parent : pinfo) (s : est) (str : bytes) : xres (bytes * est) :=
  let s' := mk_est (e_indent s) true (e_in_cdata s) (e_cur_tag s) in
  if e_in_cdata s then XOk (split_cdata_end str, s')
  else
    (* the "Indent Content" loop is guarded by wbxml_tree_node_have_child_elt(node) on the TEXT node itself,
       which has no children: never taken *)
    let tmp := syncml_type_rewrite l (e_cur_tag s) str in
    if tag_is_binary (text_tag s parent) then
      match b64_enc tmp with
      | Some e => XOk (escape (is_canonical o) e, s')
      | None => XErr X_B64_ENC
      end
    else XOk (escape (is_canonical o) tmp, s').

Definition parse_text (l : xlang) (o : opts) (parent : pinfo) (s : est) (content : bytes) : xres (bytes * est) :=
  match text_policy o parent s content with
  | None => XOk ([], s)
  | Some c => xml_encode_text l o parent s c
  end.

(* ------------------------------------------------------------------ *)
(* parse_node                                                          *)

Definition reset_cur (s : est) : est := mk_est (e_indent s) (e_in_content s) (e_in_cdata s) None.
Definition set_cdata (b : bool) (s : est) : est := mk_est (e_indent s) (e_in_content s) b (e_cur_tag s).

(* parse_node: while (node != NULL) { parse_single_node(node); node = node->next; }  — parse_single_node ends
   with current_tag = NULL.  A NULL first node (empty list) emits nothing and succeeds. *)
Definition seq_nodes (f : est -> node -> xres (bytes * est)) : list node -> est -> xres (bytes * est) :=
  fix go (ns : list node) (s : est) : xres (bytes * est) :=
    match ns with
    | [] => XOk ([], s)
    | n :: r =>
      match f s n with
      | XOk (b1, s1) =>
        match go r (reset_cur s1) with
        | XOk (b2, s2) => XOk (b1 ++ b2, s2)
        | XErr e => XErr e
        end
      | XErr e => XErr e
      end
    end.

Fixpoint enc_node (l : xlang) (o : opts) (parent : pinfo) (s : est) (n : node) {struct n} : xres (bytes * est) :=
  match n with
  | Elt nm attrs ch =>
    let '(b1, s1) := xml_encode_tag l o parent nm s in
    let b2 := parse_attributes l o attrs in
    let '(b3, s3) := xml_encode_end_attrs o ch s1 in
    match ch with
    | [] => XOk (b1 ++ b2 ++ b3, s3)
    | _ =>
      match seq_nodes (enc_node l o (pinfo_below parent nm)) ch s3 with
      | XOk (b4, s4) =>
        let '(b5, s5) := xml_encode_end_tag o nm ch s4 in
        XOk (b1 ++ b2 ++ b3 ++ b4 ++ b5, s5)
      | XErr e => XErr e
      end
    end
  | Text c => parse_text l o parent s c
  | CData ch =>
    match seq_nodes (enc_node l o (pinfo_cdata parent)) ch (set_cdata true s) with
    | XOk (b, s1) => XOk (s_cdata_open ++ b ++ s_cdata_close, set_cdata false s1)
    | XErr e => XErr e
    end
  | Pi => XErr X_NOT_IMPLEMENTED
  | SubTree sl roots =>
    (* xml_encode_tree: encoder_duplicate (options, indent_delta and the CURRENT indent are copied; no header;
       lang taken from the embedded tree), encode, append the result as a C string *)
    match sl with
    | None => XErr X_BAD_PARAMETER
    | Some l' =>
      match seq_nodes (enc_node l' o proot) roots (est0 (e_indent s)) with
      | XOk (b, _) => XOk (cstr b, s)
      | XErr e => XErr e
      end
    end
  end.

Definition enc_nodes (l : xlang) (o : opts) (parent : pinfo) : list node -> est -> xres (bytes * est) :=
  seq_nodes (enc_node l o parent).

(* wbxml_tree_to_xml: header (xml_build_result / xml_fill_header) followed by the body *)
Definition enc_xml_opts (l : xlang) (o : opts) (roots : list node) : xres bytes :=
  match enc_nodes l o proot roots (est0 0) with
  | XOk (b, _) => XOk (xml_header l o ++ b)
  | XErr e => XErr e
  end.

Definition enc_xml (l : xlang) (g : gen_type) (indent : N) (keep_ws : bool) (roots : list node) : xres bytes :=
  enc_xml_opts l (opts_of_params g indent keep_ws) roots.
