(* C20 — executable model of the two command-line tools.
   Transcribed from:
     tools/attgetopt.c      wbxml_getopt   (static int sp; globals optind, optarg)
     tools/wbxml2xml_tool.c get_lang, get_charset, main
     tools/xml2wbxml_tool.c get_version, main
   The library call (wbxml_conv_*_run), fopen on the input and on the output are INPUTS of the model
   (record `world`).  A C string is the list of its bytes without the terminating NUL; `ch s i` is s[i]
   and yields the NUL when i = strlen s.  Definitions only. *)
From Coq Require Import String Ascii.
From Coq Require Import List NArith ZArith Bool.
Import ListNotations.
Local Open Scope N_scope.

Definition str := list N.

Fixpoint s2l (s : string) : str :=
  match s with EmptyString => [] | String a r => N_of_ascii a :: s2l r end.

Definition ch (s : str) (i : nat) : N := nth i s 0.

Fixpoint str_eqb (a b : str) : bool :=
  match a, b with
  | [], [] => true
  | x :: a', y :: b' => (x =? y) && str_eqb a' b'
  | _, _ => false
  end.

Definition c_dash : N := 45.   (* '-' *)
Definition c_colon : N := 58.  (* ':' *)
Definition c_qm : N := 63.     (* '?' *)
Definition s_dash : str := [45].
Definition s_dashdash : str := [45; 45].

(* ------------------------------------------------------------------ *)
(* what the tools print (classes of lines) and where the bytes go      *)

Inductive tool := W2X | X2W.

Inductive msg :=
| MIllegalOpt (prog : str) (c : N)     (* "<argv0>: illegal option -- c"            (getopt)  *)
| MReqArg (prog : str) (c : N)         (* "<argv0>: option requires an argument -- c" (getopt) *)
| MHelp (t : tool)                     (* the usage text                                       *)
| MMissingArgs                         (* "Missing arguments"                                  *)
| MFailedOpenIn (name : str)           (* "Failed to open <name>"                              *)
| MReadErr (name : str)                (* "Error while reading from file <name>"               *)
| MFailed (t : tool) (code : N)        (* "<tool> failed: <wbxml_errors_string(code)>"         *)
| MSucceeded (t : tool)                (* "<tool> succeeded"                                   *)
| MFailedOpenOut (name : str).         (* "Failed to open output file: <name>"                 *)

Inductive sink :=
| SNone                                (* no output stream was opened or written               *)
| SStdout (bs : list N)                (* fwrite(bytes) on stdout                              *)
| SFile (name : str) (bs : list N).    (* fopen(name, "w") succeeded, fwrite(bytes), fclose    *)

(* ------------------------------------------------------------------ *)
(* tools/attgetopt.c                                                   *)

Record gst := mkG { g_optind : nat; g_sp : nat }.
Inductive gret := GEof | GOpt (c : N).

(* strchr(opts, c) followed by the test  *++cp == ':'  — None: c does not occur in opts *)
Fixpoint opt_lookup (opts : str) (c : N) : option bool :=
  match opts with
  | [] => None
  | x :: r => if x =? c then Some (match r with y :: _ => y =? c_colon | [] => false end)
              else opt_lookup r c
  end.

Definition att_getopt (argv : list str) (opts : str) (st : gst)
  : gret * gst * option str * list msg :=
  let argc := length argv in
  let i := g_optind st in
  let sp := g_sp st in
  let cur := nth i argv [] in
  let prog := nth 0 argv [] in
  if (sp =? 1)%nat && (argc <=? i)%nat then (GEof, st, None, [])
  else if (sp =? 1)%nat && (negb (ch cur 0 =? c_dash) || (ch cur 1 =? 0)) then (GEof, st, None, [])
  else if negb (sp =? 1)%nat && str_eqb cur s_dashdash then (GEof, mkG (S i) sp, None, [])
  else
    let c := ch cur sp in
    match (if c =? c_colon then None else opt_lookup opts c) with
    | None =>
        (* fprintf(stderr, "%s: illegal option -- %c\n"); if (argv[optind][++sp] == '\0') { optind++; sp = 1; } return '?' *)
        let st' := if ch cur (S sp) =? 0 then mkG (S i) 1 else mkG i (S sp) in
        (GOpt c_qm, st', None, [MIllegalOpt prog c])
    | Some true =>
        if negb (ch cur (S sp) =? 0) then (GOpt c, mkG (S i) 1, Some (skipn (S sp) cur), [])
        else if (argc <=? S i)%nat then (GOpt c_qm, mkG (S i) 1, None, [MReqArg prog c])
        else (GOpt c, mkG (S (S i)) 1, Some (nth (S i) argv []), [])
    | Some false =>
        let st' := if ch cur (S sp) =? 0 then mkG (S i) 1 else mkG i (S sp) in
        (GOpt c, st', None, [])
    end.

(* ------------------------------------------------------------------ *)
(* atoi, as glibc implements it: (int) strtol(s, NULL, 10)             *)

Definition is_space (c : N) : bool := (c =? 32) || ((9 <=? c) && (c <=? 13)).
Definition is_digit (c : N) : bool := (48 <=? c) && (c <=? 57).

Fixpoint skip_spaces (s : str) : str :=
  match s with c :: r => if is_space c then skip_spaces r else s | [] => [] end.

Fixpoint digits_val (s : str) (acc : Z) : Z :=
  match s with
  | c :: r => if is_digit c then digits_val r (acc * 10 + Z.of_N (c - 48))%Z else acc
  | [] => acc
  end.

Definition long_max : Z := 9223372036854775807%Z.
Definition long_min : Z := (-9223372036854775808)%Z.

Definition strtol10 (s : str) : Z :=
  let s1 := skip_spaces s in
  let '(neg, s2) := match s1 with
                    | c :: r => if c =? 45 then (true, r) else if c =? 43 then (false, r) else (false, s1)
                    | [] => (false, [])
                    end in
  let v := digits_val s2 0%Z in
  let v' := if neg then (- v)%Z else v in
  if (long_max <? v')%Z then long_max else if (v' <? long_min)%Z then long_min else v'.

(* conversion long -> int keeps the low 32 bits (two's complement) *)
Definition wrap32 (z : Z) : Z :=
  let m := (z mod 4294967296)%Z in if (m <? 2147483648)%Z then m else (m - 4294967296)%Z.

Definition atoi (s : str) : Z := wrap32 (strtol10 s).

(* (WB_TINY) atoi(optarg) passed to a WB_UTINY parameter: the low 8 bits *)
Definition to_utiny (z : Z) : N := Z.to_N (z mod 256)%Z.

(* ------------------------------------------------------------------ *)
(* name tables of the tools (same order as the strcmp chains).  String literals are converted to byte
   lists when this file is compiled (Eval vm_compute), so that the extracted code contains no `string`. *)

Definition lang_names : list (str * N) := Eval vm_compute in
  map (fun p => (s2l (fst p), snd p))
  [ ("WML10"%string, 1101); ("WML11"%string, 1102); ("WML12"%string, 1103); ("WML13"%string, 1104);
    ("WTA10"%string, 1201); ("WTAWML12"%string, 1202); ("CHANNEL11"%string, 1203); ("CHANNEL12"%string, 1204);
    ("SI10"%string, 1301); ("SL10"%string, 1401); ("CO10"%string, 1501); ("PROV10"%string, 1601);
    ("EMN10"%string, 1701); ("DRMREL10"%string, 1801); ("OTA"%string, 1901);
    ("SYNCML10"%string, 2001); ("DEVINF10"%string, 2002); ("SYNCML11"%string, 2101); ("DEVINF11"%string, 2102);
    ("METINF11"%string, 2103); ("SYNCML12"%string, 2201); ("DEVINF12"%string, 2202); ("METINF12"%string, 2203);
    ("DMDDF12"%string, 2204); ("CSP11"%string, 2301); ("CSP12"%string, 2302);
    ("AIRSYNC"%string, 2401); ("ACTIVESYNC"%string, 2402); ("CONML"%string, 2501) ].

Definition charset_names : list (str * N) := Eval vm_compute in
  map (fun p => (s2l (fst p), snd p))
  [ ("ASCII"%string, 3); ("ISO-8859-1"%string, 4); ("ISO-8859-2"%string, 5); ("ISO-8859-3"%string, 6);
    ("ISO-8859-4"%string, 7); ("ISO-8859-5"%string, 8); ("ISO-8859-6"%string, 9); ("ISO-8859-7"%string, 10);
    ("ISO-8859-8"%string, 11); ("ISO-8859-9"%string, 12); ("ISO-10646-UCS-2"%string, 1000);
    ("SHIFT_JIS"%string, 17); ("BIG5"%string, 2026); ("UTF-8"%string, 106); ("UTF-16"%string, 1015) ].

Fixpoint lookup_name (tbl : list (str * N)) (s : str) : N :=
  match tbl with
  | [] => 0                      (* WBXML_LANG_UNKNOWN = WBXML_CHARSET_UNKNOWN = 0 *)
  | (n, v) :: r => if str_eqb s n then v else lookup_name r s
  end.

Definition get_lang (s : str) : N := lookup_name lang_names s.
Definition get_charset (s : str) : N := lookup_name charset_names s.

(* get_version: WBXML_VERSION_UNKNOWN = -1 *)
Definition s_v10 : str := Eval vm_compute in s2l "1.0".
Definition s_v11 : str := Eval vm_compute in s2l "1.1".
Definition s_v12 : str := Eval vm_compute in s2l "1.2".
Definition s_v13 : str := Eval vm_compute in s2l "1.3".
Definition get_version (s : str) : Z :=
  if str_eqb s s_v10 then 0%Z else if str_eqb s s_v11 then 1%Z
  else if str_eqb s s_v12 then 2%Z else if str_eqb s s_v13 then 3%Z else (-1)%Z.

(* ------------------------------------------------------------------ *)
(* converter objects as the tools configure them                       *)

Record w2x_cfg := mkW { wc_gen : N; wc_lang : N; wc_charset : N; wc_indent : N; wc_keep : bool }.
Record x2w_cfg := mkX { xc_version : Z; xc_keep : bool; xc_strtbl : bool; xc_anon : bool }.

(* wbxml_conv_wbxml2xml_create / wbxml_conv_xml2wbxml_create defaults *)
Definition w2x_default : w2x_cfg := mkW 1 0 0 0 false.
Definition x2w_default : x2w_cfg := mkX 3%Z false true false.

Inductive lib_opts := LW (c : w2x_cfg) | LX (c : x2w_cfg).

(* state of main between getopt calls: converter configuration and `output` *)
Definition pst := (lib_opts * option str)%type.

Definition oarg (oa : option str) : str := match oa with Some s => s | None => [] end.

(* switch (opt) of wbxml2xml's main; None = help(); goto clean_up *)
Definition w2x_apply (c : N) (oa : option str) (p : w2x_cfg * option str) : option (w2x_cfg * option str) :=
  let '(w, out) := p in
  if c =? 107 (* k *) then Some (mkW (wc_gen w) (wc_lang w) (wc_charset w) (wc_indent w) true, out)
  else if c =? 105 (* i *) then Some (mkW (wc_gen w) (wc_lang w) (wc_charset w) (to_utiny (atoi (oarg oa))) (wc_keep w), out)
  else if c =? 108 (* l *) then Some (mkW (wc_gen w) (get_lang (oarg oa)) (wc_charset w) (wc_indent w) (wc_keep w), out)
  else if c =? 99 (* c *) then Some (mkW (wc_gen w) (wc_lang w) (get_charset (oarg oa)) (wc_indent w) (wc_keep w), out)
  else if c =? 109 (* m *) then
    let a := atoi (oarg oa) in
    let g := if (a =? 0)%Z then 0 else if (a =? 1)%Z then 1 else if (a =? 2)%Z then 2 else 1 in
    Some (mkW g (wc_lang w) (wc_charset w) (wc_indent w) (wc_keep w), out)
  else if c =? 111 (* o *) then Some (w, Some (oarg oa))
  else None.

(* switch (opt) of xml2wbxml's main *)
Definition x2w_apply (c : N) (oa : option str) (p : x2w_cfg * option str) : option (x2w_cfg * option str) :=
  let '(x, out) := p in
  if c =? 118 (* v *) then Some (mkX (get_version (oarg oa)) (xc_keep x) (xc_strtbl x) (xc_anon x), out)
  else if c =? 110 (* n *) then Some (mkX (xc_version x) (xc_keep x) false (xc_anon x), out)
  else if c =? 107 (* k *) then Some (mkX (xc_version x) true (xc_strtbl x) (xc_anon x), out)
  else if c =? 97 (* a *) then Some (mkX (xc_version x) (xc_keep x) (xc_strtbl x) true, out)
  else if c =? 111 (* o *) then Some (x, Some (oarg oa))
  else None.

Definition w2x_optstring : str := Eval vm_compute in s2l "kh?o:m:i:l:c:".
Definition x2w_optstring : str := Eval vm_compute in s2l "nkah?o:v:".

(* result of the option loop: help was printed / the loop ended with this state, this argv and optind *)
Inductive parsed (C : Type) :=
| PHelp (ms : list msg)
| PArgs (cfg : C) (argv' : list str) (optind : nat)
| POutOfFuel.
Arguments PHelp {C} ms.
Arguments PArgs {C} cfg argv' optind.
Arguments POutOfFuel {C}.

(* while ((opt = wbxml_getopt(argc, argv, opts)) != EOF) switch (opt) ... *)
Fixpoint att_loop {C : Type} (apply : N -> option str -> C -> option C) (opts : str)
         (fuel : nat) (argv : list str) (st : gst) (cfg : C) : parsed C :=
  match fuel with
  | O => POutOfFuel
  | S f =>
    match att_getopt argv opts st with
    | (GEof, st', _, _) => PArgs cfg argv (g_optind st')
    | (GOpt c, st', oa, ms) =>
        match apply c oa cfg with
        | Some cfg' => att_loop apply opts f argv st' cfg'
        | None => PHelp ms
        end
    end
  end.

Definition total_len (argv : list str) : nat := fold_right (fun s n => (S (length s) + n)%nat) O argv.
Definition parse_fuel (argv : list str) : nat := S (total_len argv).

(* ------------------------------------------------------------------ *)
(* POSIX getopt as glibc provides it (the configuration CMake selects when getopt() exists:
   FOUND_POSIX_GETOPT, attgetopt.c not compiled).  This is a description of glibc's documented
   behaviour for short options with POSIXLY_CORRECT unset, NOT a transcription of repository code:
   non-option words are skipped and moved behind the options, "--" ends the options. *)

Inductive kind := KIllegal | KFlag | KArg.
Definition opt_kind (opts : str) (c : N) : kind :=
  if (c =? c_colon) || (c =? 59) then KIllegal
  else match opt_lookup opts c with None => KIllegal | Some true => KArg | Some false => KFlag end.

Inductive cluster (C : Type) := CHelp (ms : list msg) | CNext (cfg : C) (used_next : bool).
Arguments CHelp {C} ms.
Arguments CNext {C} cfg used_next.

(* the characters of one option word after its '-'.  An option that is not in the table, or an option
   that lacks its value, makes getopt print a message and return '?', which both mains answer with help. *)
Fixpoint scan_cluster {C : Type} (apply : N -> option str -> C -> option C) (kindof : N -> kind)
         (prog : str) (cs : list N) (next : option str) (cfg : C) : cluster C :=
  match cs with
  | [] => CNext cfg false
  | c :: cs' =>
    match kindof c with
    | KIllegal => CHelp [MIllegalOpt prog c]
    | KFlag => match apply c None cfg with
               | None => CHelp []
               | Some cfg' => scan_cluster apply kindof prog cs' next cfg'
               end
    | KArg =>
        match cs' with
        | _ :: _ => match apply c (Some cs') cfg with None => CHelp [] | Some cfg' => CNext cfg' false end
        | [] => match next with
                | Some v => match apply c (Some v) cfg with None => CHelp [] | Some cfg' => CNext cfg' true end
                | None => CHelp [MReqArg prog c]
                end
        end
    end
  end.

Definition is_option_word (a : str) : bool :=
  match a with c :: _ :: _ => c =? c_dash | _ => false end.

Fixpoint posix_scan {C : Type} (apply : N -> option str -> C -> option C) (opts : str) (prog : str)
         (args : list str) (done nonopts : list str) (cfg : C) : parsed C :=
  match args with
  | [] => PArgs cfg (prog :: done ++ nonopts) (S (length done))
  | a :: rest =>
    if str_eqb a s_dashdash then PArgs cfg (prog :: done ++ [a] ++ nonopts ++ rest) (S (S (length done)))
    else if is_option_word a then
      match scan_cluster apply (opt_kind opts) prog (tl a) (hd_error rest) cfg with
      | CHelp ms => PHelp ms
      | CNext cfg' false => posix_scan apply opts prog rest (done ++ [a]) nonopts cfg'
      | CNext cfg' true =>
          match rest with
          | v :: rest' => posix_scan apply opts prog rest' (done ++ [a; v]) nonopts cfg'
          | [] => POutOfFuel   (* unreachable: used_next = true only when next = Some _ *)
          end
      end
    else posix_scan apply opts prog rest done (nonopts ++ [a]) cfg
  end.

Inductive flavour := Att | Posix.

Definition run_getopt {C : Type} (fl : flavour) (apply : N -> option str -> C -> option C) (opts : str)
           (argv : list str) (cfg : C) : parsed C :=
  match fl with
  | Att => att_loop apply opts (parse_fuel argv) argv (mkG 1 1) cfg
  | Posix => match argv with
             | [] => PArgs cfg [] 1     (* argc = 0: glibc returns -1 at once *)
             | prog :: args => posix_scan apply opts prog args [] [] cfg
             end
  end.

Definition map_parsed {A B : Type} (f : A -> B) (p : parsed A) : parsed B :=
  match p with PHelp ms => PHelp ms | PArgs c a i => PArgs (f c) a i | POutOfFuel => POutOfFuel end.

Definition tool_parse (t : tool) (fl : flavour) (argv : list str) : parsed pst :=
  match t with
  | W2X => map_parsed (fun p => (LW (fst p), snd p)) (run_getopt fl w2x_apply w2x_optstring argv (w2x_default, None))
  | X2W => map_parsed (fun p => (LX (fst p), snd p)) (run_getopt fl x2w_apply x2w_optstring argv (x2w_default, None))
  end.

(* ------------------------------------------------------------------ *)
(* the environment: inputs of the model                                *)

Inductive in_result :=
| InOpenFail                  (* fopen(name, "r") == NULL                               *)
| InReadErr                   (* opened, but ferror() after fread (e.g. a directory)    *)
| InBytes (bs : list N).      (* the bytes the stream delivers                          *)

Record world := mkWorld {
  w_stdin : option (list N);                      (* None: reading stdin fails             *)
  w_open_in : str -> in_result;                   (* fopen + fread of a named input        *)
  w_lib : lib_opts -> list N -> N * list N;       (* wbxml_conv_*_run: (code, output)      *)
  w_open_out : str -> bool                        (* fopen(name, "w") != NULL              *)
}.

Definition block_size : nat := 1000.   (* INPUT_BUFFER_SIZE *)

(* while (!feof(f)) { count = fread(buf, 1, 1000, f); total += count; realloc; memcpy; } *)
Fixpoint read_blocks (fuel : nat) (rest acc : list N) : option (list N) :=
  match fuel with
  | O => None
  | S f =>
    let chunk := firstn block_size rest in
    let acc' := acc ++ chunk in
    if (length chunk <? block_size)%nat then Some acc' else read_blocks f (skipn block_size rest) acc'
  end.

Record obs := mkObs {
  o_exit : N;                                   (* exit status as the parent sees it (8 bits)  *)
  o_sink : sink;                                (* the output stream and its bytes             *)
  o_stdout : list msg;                          (* message lines printed on stdout             *)
  o_stderr : list msg;                          (* message lines printed on stderr, in order   *)
  o_call : option (lib_opts * list N)           (* the call made to wbxml_conv_*_run, if any   *)
}.

Inductive outcome := Stuck | Done (o : obs).

(* the stream the input name selects: "-" is stdin *)
Definition input_of (w : world) (name : str) : in_result :=
  if str_eqb name s_dash
  then match w_stdin w with Some bs => InBytes bs | None => InReadErr end
  else w_open_in w name.

Definition tool_main (t : tool) (fl : flavour) (argv : list str) (w : world) : outcome :=
  match tool_parse t fl argv with
  | POutOfFuel => Stuck
  | PHelp ms => Done (mkObs 0 SNone [] (ms ++ [MHelp t]) None)
  | PArgs (lo, out) argv' i =>
    if (length argv' <=? i)%nat then Done (mkObs 0 SNone [] [MMissingArgs; MHelp t] None)
    else
      let name := nth i argv' [] in
      match input_of w name with
      | InOpenFail =>
          Done (mkObs 0 SNone [] [MFailedOpenIn name] None)   (* both tools: fprintf(stderr, ...) since 1510f5b *)
      | InReadErr =>
          match t with
          | W2X => Done (mkObs 0 SNone [] [MReadErr name] None)
          | X2W => Done (mkObs 0 SNone [] [MReadErr (nth 1 argv' [])] None)   (* argv[1], not argv[optind] *)
          end
      | InBytes bs =>
          match read_blocks (S (length bs)) bs [] with
          | None => Stuck
          | Some data =>
            let '(code, outb) := w_lib w lo data in
            if code =? 0 then
              match out with
              | None => Done (mkObs 0 SNone [] [MSucceeded t] (Some (lo, data)))
              | Some oname =>
                  if str_eqb oname s_dash
                  then Done (mkObs 0 (SStdout outb) [] [MSucceeded t] (Some (lo, data)))
                  else if w_open_out w oname
                       then Done (mkObs 0 (SFile oname outb) [] [MSucceeded t] (Some (lo, data)))
                       else Done (mkObs 0 SNone [] [MSucceeded t; MFailedOpenOut oname] (Some (lo, data)))
              end
            else Done (mkObs (code mod 256) SNone [] [MFailed t code] (Some (lo, data)))
          end
      end
  end.

(* what the arguments ask for: None = usage text; Some (options, output name, input name) *)
Definition request (t : tool) (fl : flavour) (argv : list str) : option (lib_opts * option str * str) :=
  match tool_parse t fl argv with
  | PArgs (lo, out) argv' i => if (length argv' <=? i)%nat then None else Some (lo, out, nth i argv' [])
  | _ => None
  end.

(* where the bytes must go, given the requested output name, the library's answer and fopen's answer *)
Definition sink_spec (w : world) (out : option str) (code : N) (outb : list N) : sink :=
  match out with
  | None => SNone
  | Some n => if negb (code =? 0) then SNone
              else if str_eqb n s_dash then SStdout outb
              else if w_open_out w n then SFile n outb else SNone
  end.

(* ------------------------------------------------------------------ *)
(* SPECIFICATION: the documented option grammar, by recursion on the words.
     args    ::= { option-word [value] } [ file ... ]
     option-word ::= '-' flag* ( flag | argopt value-rest )      (at least one character after '-')
   `kind_w2x` / `kind_x2w` are the option tables of the usage texts, written independently of the
   option strings.  "-" alone and any word not starting with '-' end the options. *)

Definition kind_w2x (c : N) : kind :=
  if (c =? 107) || (c =? 104) || (c =? 63) then KFlag                         (* k h ? *)
  else if (c =? 111) || (c =? 109) || (c =? 105) || (c =? 108) || (c =? 99) then KArg   (* o m i l c *)
  else KIllegal.

Definition kind_x2w (c : N) : kind :=
  if (c =? 110) || (c =? 107) || (c =? 97) || (c =? 104) || (c =? 63) then KFlag   (* n k a h ? *)
  else if (c =? 111) || (c =? 118) then KArg                                   (* o v *)
  else KIllegal.

Fixpoint spec_args {C : Type} (apply : N -> option str -> C -> option C) (kindof : N -> kind) (prog : str)
         (argv : list str) (args : list str) (idx : nat) (cfg : C) : parsed C :=
  match args with
  | [] => PArgs cfg argv idx
  | a :: rest =>
    if is_option_word a then
      match scan_cluster apply kindof prog (tl a) (hd_error rest) cfg with
      | CHelp ms => PHelp ms
      | CNext cfg' false => spec_args apply kindof prog argv rest (S idx) cfg'
      | CNext cfg' true =>
          match rest with
          | _ :: rest' => spec_args apply kindof prog argv rest' (S (S idx)) cfg'
          | [] => PArgs cfg' argv (S (S idx))
          end
      end
    else PArgs cfg argv idx
  end.

Definition spec_parse {C : Type} (apply : N -> option str -> C -> option C) (kindof : N -> kind)
           (argv : list str) (cfg : C) : parsed C :=
  match argv with
  | [] => PArgs cfg argv 1
  | prog :: args => spec_args apply kindof prog argv args 1 cfg
  end.

(* command lines of the documented form  tool [options] file ... : every option word (with its value) comes
   before the first file name, and "--" is not used as an option word.  (A word that stops with usage counts:
   both getopt flavours print the usage text there.) *)
Fixpoint options_first {C : Type} (apply : N -> option str -> C -> option C) (kindof : N -> kind) (prog : str)
         (args : list str) (cfg : C) : bool :=
  match args with
  | [] => true
  | a :: rest =>
    if str_eqb a s_dashdash then false
    else if is_option_word a then
      match scan_cluster apply kindof prog (tl a) (hd_error rest) cfg with
      | CHelp _ => true
      | CNext cfg' false => options_first apply kindof prog rest cfg'
      | CNext cfg' true => match rest with _ :: rest' => options_first apply kindof prog rest' cfg' | [] => true end
      end
    else forallb (fun w => negb (is_option_word w)) rest
  end.

Definition documented_form (t : tool) (argv : list str) : bool :=
  match argv with
  | [] => true
  | prog :: args =>
      match t with
      | W2X => options_first w2x_apply kind_w2x prog args (w2x_default, None)
      | X2W => options_first x2w_apply kind_x2w prog args (x2w_default, None)
      end
  end.

Definition tool_spec_parse (t : tool) (argv : list str) : parsed pst :=
  match t with
  | W2X => map_parsed (fun p => (LW (fst p), snd p)) (spec_parse w2x_apply kind_w2x argv (w2x_default, None))
  | X2W => map_parsed (fun p => (LX (fst p), snd p)) (spec_parse x2w_apply kind_x2w argv (x2w_default, None))
  end.
