(* C08 — boolean checkers over one language entry (specification side of "the tables form a
   consistent, self-inverse code").  The lookups are the transcriptions of Model/Tables.v. *)
From Coq Require Import List NArith String Bool.
From Wbxml Require Import Model.TablesDefs Model.Tables Model.RegistryCheck.
Import ListNotations.
Local Open Scope string_scope.
Local Open Scope N_scope.

(* the aliases that exist today, pinned: (code page, token, name the token decodes to, other name bound to it) *)
Definition known_tag_aliases : list (N * N * string * string) :=
  [ (14, 16, "DeviceEncryptionEnabled", "RequireStorageCardEncryption") ].

(* Wireless Village gives two extension tokens to the same string (access/presence and common/presence
   value tokens of the CSP specification): (string, token it is written with, other token that also decodes to it) *)
Definition known_ext_synonyms : list (string * N * N) :=
  [ ("SMS", 67, 117); ("IM", 18, 104) ].

Definition alias_eqb (a b : N * N * string * string) : bool :=
  let '(p, t, n, m) := a in let '(p', t', n', m') := b in
  (p =? p') && (t =? t') && String.eqb n n' && String.eqb m m'.
Definition syn_eqb (a b : string * N * N) : bool :=
  let '(n, t, u) := a in let '(n', t', u') := b in String.eqb n n' && (t =? t') && (u =? u').

(* ---- token ranges *)
Definition tag_row_range (r : tag_row) : bool :=
  (5 <=? t_tok r) && (t_tok r <=? 63) && (N.land (t_tok r) WBXML_TOKEN_MASK =? t_tok r) &&
  negb (is_global (N.land (t_tok r) WBXML_TOKEN_MASK)) && (t_page r <? 256).
Definition attr_row_range (r : attr_row) : bool :=
  (5 <=? a_tok r) && (a_tok r <=? 127) && negb (is_global (a_tok r)) && (a_page r <? 256).
Definition val_row_range (r : val_row) : bool :=
  (133 <=? v_tok r) && (v_tok r <=? 255) && negb (is_global (v_tok r)) && (v_page r <? 256).
Definition ext_row_range (r : ext_row) : bool := e_tok r <? 256.

Definition ranges_ok (l : lang) : bool :=
  forallb tag_row_range (opt_list (l_tags l)) && forallb attr_row_range (opt_list (l_attrs l)) &&
  forallb val_row_range (opt_list (l_vals l)) && forallb ext_row_range (opt_list (l_exts l)) &&
  (N.of_nat (List.length (opt_list (l_exts l))) <? 256).     (* parse_extension indexes the table with a WB_UTINY *)

(* ---- tags *)
Definition tag_dec_enc_row (l : lang) (r : tag_row) : bool :=
  match tag_of_token l (t_page r) (t_tok r) with
  | Found r1 =>
    match tag_from_xml l (Some (t_page r)) (t_name r1) with
    | Some r2 => (t_page r2 =? t_page r) && (t_tok r2 =? t_tok r)
    | None => false
    end
  | _ => false
  end.

Definition tag_pages (l : lang) : list N := nodup N.eq_dec (map t_page (opt_list (l_tags l))).

Definition tag_enc_dec_at (l : lang) (r : tag_row) (cur : option N) : bool :=
  match tag_from_xml l cur (t_name r) with
  | Some r' =>
    match tag_of_token l (t_page r') (t_tok r') with
    | Found r'' => String.eqb (t_name r'') (t_name r) ||
                   existsb (alias_eqb (t_page r', t_tok r', t_name r'', t_name r)) known_tag_aliases
    | _ => false
    end
  | None => false
  end.

(* asked without a current page and with the row's own page; for a current page that has no row of
   this name the library's answer is the one without a current page (Proofs/TablesProofs.v,
   tag_from_xml_other_page), so these two cover every value of cur_code_page *)
Definition tag_enc_dec_row (l : lang) (r : tag_row) : bool :=
  tag_enc_dec_at l r None && tag_enc_dec_at l r (Some (t_page r)).

(* ---- attribute starts *)
Definition attr_dec_enc_row (l : lang) (r : attr_row) : bool :=
  match attr_of_token l (a_page r) (a_tok r) with
  | Found r1 =>
    match attr_from_xml l (a_name r1) (a_value r1) with
    | (Some r2, None) =>
      (a_tok r2 =? a_tok r) &&
      match attr_of_token l (a_page r2) (a_tok r2) with
      | Found r3 => String.eqb (a_name r3) (a_name r1) && ostr_eqb (a_value r3) (a_value r1)
      | _ => false
      end
    | _ => false
    end
  | _ => false
  end.

Definition attr_enc_dec_row (l : lang) (r : attr_row) : bool :=
  match attr_from_xml l (a_name r) (a_value r) with
  | (Some r', None) =>
    match attr_of_token l (a_page r') (a_tok r') with
    | Found r'' => String.eqb (a_name r'') (a_name r) && ostr_eqb (a_value r'') (a_value r)
    | _ => false
    end
  | _ => false
  end.

(* ---- attribute values: the encoder finds a value by substring search in table order *)
Definition val_dec_enc_row (l : lang) (r : val_row) : bool :=
  match val_of_token l (v_page r) (v_tok r) with
  | Found r1 =>
    match val_first_in l (v_name r1) with
    | Some r2 => String.eqb (v_name r2) (v_name r1) && (v_tok r2 =? v_tok r)
    | None => false
    end
  | _ => false
  end.

Definition val_enc_dec_row (l : lang) (r : val_row) : bool :=
  match val_first_in l (v_name r) with
  | Some r' =>
    match val_of_token l (v_page r') (v_tok r') with
    | Found r'' => String.eqb (v_name r'') (v_name r)
    | _ => false
    end
  | None => false
  end && contains_attr_value l (v_name r).

(* ---- extension values *)
Definition ext_dec_enc_row (l : lang) (r : ext_row) : bool :=
  match ext_of_token l (e_tok r) with
  | Found r1 =>
    match ext_from_xml l (e_name r1) with
    | Some r2 => (e_tok r2 =? e_tok r) || existsb (syn_eqb (e_name r1, e_tok r2, e_tok r)) known_ext_synonyms
    | None => false
    end
  | _ => false
  end.

Definition ext_enc_dec_row (l : lang) (r : ext_row) : bool :=
  match ext_from_xml l (e_name r) with
  | Some r' =>
    match ext_of_token l (e_tok r') with
    | Found r'' => String.eqb (e_name r'') (e_name r)
    | _ => false
    end
  | None => false
  end.

(* ---- namespaces *)
Definition ns_row_bij (l : lang) (r : ns_row) : bool :=
  ostr_eqb (xmlns_of_page l (ns_page r)) (Some (ns_name r)) &&
  on_eqb (page_of_xmlns_opt l (ns_name r)) (Some (ns_page r)) && (ns_page r <? 256).

(* when a language has a namespace table, every code page of its tag table has a namespace *)
Definition tag_pages_have_ns (l : lang) : bool :=
  match l_ns l with
  | None => true
  | Some _ => forallb (fun p => match xmlns_of_page l p with Some _ => true | None => false end) (tag_pages l)
  end.

Definition self_inverse_ok (l : lang) : bool :=
  forallb (tag_dec_enc_row l) (opt_list (l_tags l)) &&
  forallb (tag_enc_dec_row l) (opt_list (l_tags l)) &&
  forallb (attr_dec_enc_row l) (opt_list (l_attrs l)) &&
  forallb (attr_enc_dec_row l) (opt_list (l_attrs l)) &&
  forallb (val_dec_enc_row l) (opt_list (l_vals l)) &&
  forallb (val_enc_dec_row l) (opt_list (l_vals l)) &&
  forallb (ext_dec_enc_row l) (opt_list (l_exts l)) &&
  forallb (ext_enc_dec_row l) (opt_list (l_exts l)) &&
  forallb (ns_row_bij l) (opt_list (l_ns l)) && tag_pages_have_ns l.

(* the conjunction the generic parser / encoder theorems assume about a language entry *)
Definition tables_ok (l : lang) : bool := ranges_ok l && self_inverse_ok l.
