(* Model of language selection — transcriptions of
     wbxml_tables_search_table            (src/wbxml_tables.c)   XML side: public id, system id, root
     check_public_id + the header part of wbxml_parser_parse     (src/wbxml_parser.c)   WBXML side
     the DOCTYPE-then-root chain of the XML callbacks            (src/wbxml_tree_clb_xml.c)
     wbxml_fill_header's choice of numeric vs textual public id  (src/wbxml_encoder.c)
   The main table is the list of Gen/TablesData.v; its end is the sentinel entry
   { WBXML_LANG_UNKNOWN, NULL, ... } at which both loop conditions of the C (langID != UNKNOWN,
   publicID != NULL) become false.  Every scan that shares the C's `index` variable with the scan
   before it is written with an explicit index.  No proofs here. *)
From Coq Require Import List NArith String Ascii Bool.
From Wbxml Require Import Model.TablesDefs Model.Tables Model.Codec.
Import ListNotations.
Local Open Scope N_scope.

(* while (main_table[index].<end test>) { if (hit) return &main_table[index]; index++; }
   started at `index`; returns the entry found (if any) and the value of index afterwards *)
Fixpoint scan_rest (hit : lang -> bool) (rest : list lang) (index : nat) : option lang * nat :=
  match rest with
  | [] => (None, index)
  | l :: r => if hit l then (Some l, index) else scan_rest hit r (S index)
  end.
Definition scan_idx (hit : lang -> bool) (main : list lang) (index : nat) : option lang * nat :=
  scan_rest hit (skipn index main) index.

Definition has_pub_text_ci (s : string) (l : lang) : bool :=
  match l_pub_text l with Some p => strcaseeq p s | None => false end.
Definition has_dtd (s : string) (l : lang) : bool :=
  match l_dtd l with Some p => streq p s | None => false end.
Definition has_root (s : string) (l : lang) : bool :=
  match l_root l with Some p => streq p s | None => false end.
(* nsTable != NULL && nsTable[0].xmlNameSpace && strncasecmp(nsTable[0].xmlNameSpace, root, strlen(ns0)) == 0 *)
Definition ns0_prefixes (root : string) (l : lang) : bool :=
  match l_ns l with
  | Some (r0 :: _) => is_caseprefix (ns_name r0) root
  | _ => false
  end.

(* WBXML_NAMESPACE_SEPARATOR (wbxml_internals.h): the separator handed to XML_ParserCreateNS *)
Definition NAMESPACE_SEPARATOR : ascii := "|"%char.

(* strrchr(s, c) + 1 when c occurs in s *)
Fixpoint after_last (c : ascii) (s : string) : option string :=
  match s with
  | EmptyString => None
  | String x r =>
    match after_last c r with
    | Some t => Some t
    | None => if Ascii.eqb x c then Some r else None
    end
  end.

(* the root-element test of the scan (after fix 8a5d5ba): the table's root element equals the name, or — for a
   namespaced name "namespace|local" only — the local part of the table's root element (after its last ':',
   e.g. o-ex:rights -> rights) equals the local part of the name *)
Definition root_matches (root : string) (l : lang) : bool :=
  match l_root l with
  | None => false
  | Some elt =>
    streq elt root ||
    match after_last NAMESPACE_SEPARATOR root with
    | Some local => streq (match after_last ":"%char elt with Some e => e | None => elt end) local
    | None => false
    end
  end.

(* wbxml_tables_search_table *)
Definition search_table (main : list lang) (public_id system_id root : option string) : option lang :=
  match (match public_id with Some p => fst (scan_idx (has_pub_text_ci p) main 0) | None => None end) with
  | Some l => Some l
  | None =>
    match (match system_id with Some s => fst (scan_idx (has_dtd s) main 0) | None => None end) with
    | Some l => Some l
    | None =>
      match root with
      | None => None
      | Some r =>
        (* index = 0; the namespace scan runs only when the root contains '|' *)
        let '(found, _) := if str_has NAMESPACE_SEPARATOR r then scan_idx (ns0_prefixes r) main 0 else (None, O) in
        match found with
        | Some l => Some l
        | None => fst (scan_idx (root_matches r) main 0)      (* index = 0 again (fix 8a5d5ba) *)
        end
      end
    end
  end.

(* wbxml_tree_clb_xml.c: the DOCTYPE callback searches with (pubid, sysid, NULL) — it is not called at all
   when the document has no DOCTYPE, which gives the same result as two NULLs —; if that found nothing
   the start-element callback of the root searches with (NULL, NULL, localName).  localName is what Expat
   delivers with namespace processing: "namespace|local" for a namespaced root. *)
Definition xml_select (main : list lang) (public_id system_id : option string) (root : string) : option lang :=
  match search_table main public_id system_id None with
  | Some l => Some l
  | None => search_table main None None (Some root)
  end.

(* ---------------------------------------------------------------- WBXML side *)

Definition WBXML_LANG_UNKNOWN : N := 0.
Definition WBXML_PUBLIC_ID_UNKNOWN : N := 1.
Definition NO_INDEX : N := 4294967295.       (* public_id_index = -1 in a WB_LONG, compared as the same 32-bit pattern *)
Definition CHARSET_UTF_8 : N := 106.
Definition CHARSET_US_ASCII : N := 3.
(* wbxml_charset_entries *)
Definition known_charsets : list N := [3; 4; 5; 6; 7; 8; 9; 10; 11; 12; 17; 106; 1000; 1015; 2026].
Definition charset_known (c : N) : bool := existsb (N.eqb c) known_charsets.

(* wbxml_tables_get_wbxml_publicid *)
Definition get_wbxml_publicid (main : list lang) (id : N) : N :=
  match find (fun l => l_id l =? id) main with
  | Some l => l_pub_num l
  | None => WBXML_PUBLIC_ID_UNKNOWN
  end.

Inductive perr :=
| P_EMPTY_WBXML | P_END_OF_BUFFER | P_UNVALID_MBUINT32 | P_CHARSET_NOT_FOUND | P_STRTBL_LENGTH | P_UNKNOWN_PUBLIC_ID.

Inductive pres (A : Type) := POk (a : A) | PErr (e : perr).
Arguments POk {A} a.
Arguments PErr {A} e.

Definition perr_of (e : cerr) : perr :=
  match e with E_END_OF_BUFFER => P_END_OF_BUFFER | E_UNVALID_MBUINT32 => P_UNVALID_MBUINT32 | E_INVALID_UNICODE => P_END_OF_BUFFER end.

Record header := mk_header {
  h_version : N;
  h_public_id : N;            (* parser->public_id after the forced-language override *)
  h_public_id_index : N;      (* NO_INDEX when the document carries a numeric id *)
  h_charset : N;
  h_strtbl : option (list N); (* with the four padding NULs when the table is not terminated *)
  h_strtbl_len : N;           (* declared length *)
  h_body : list N
}.

Fixpoint take_n {A} (n : nat) (l : list A) : list A :=
  match n, l with S k, x :: r => x :: take_n k r | _, _ => [] end.

(* parse_publicid: first byte 0 -> index form (public_id stays 'unknown'), else numeric *)
Definition parse_publicid_part (r1 : list N) : pres (N * N * list N) :=
  match r1 with
  | [] => PErr P_END_OF_BUFFER
  | b :: r1' =>
    if b =? 0 then
      match mb_read r1' with Ok (i, r) => POk (WBXML_PUBLIC_ID_UNKNOWN, i, r) | Err e => PErr (perr_of e) end
    else
      match mb_read r1 with Ok (p, r) => POk (p, NO_INDEX, r) | Err e => PErr (perr_of e) end
  end.

Definition default_charset (meta_charset : N) : N := if meta_charset =? 0 then CHARSET_UTF_8 else meta_charset.

(* parse_charset (not called for version 1.0 = byte 0) followed by the "Check charset" default *)
Definition parse_charset_part (version meta_charset : N) (r2 : list N) : pres (N * list N) :=
  if version =? 0 then POk (default_charset meta_charset, r2)
  else match mb_read r2 with
       | Err e => PErr (perr_of e)
       | Ok (c, r) =>
         let c' := if c =? 0 then default_charset meta_charset else c in
         if charset_known c' then POk (if c' =? 0 then default_charset meta_charset else c', r)
         else PErr P_CHARSET_NOT_FOUND
       end.

(* parse_strtbl *)
Definition parse_strtbl_part (version public_id index charset : N) (r3 : list N) : pres header :=
  match mb_read r3 with
  | Err _ => PErr P_END_OF_BUFFER
  | Ok (len, r4) =>
    if len =? 0 then POk (mk_header version public_id index charset None 0 r4)
    else if N.of_nat (List.length r4) <? len then PErr P_STRTBL_LENGTH
    else
      let st := take_n (N.to_nat len) r4 in
      let st' := if last st 1 =? 0 then st else st ++ [0; 0; 0; 0] in
      POk (mk_header version public_id index charset (Some st') len (skipn (N.to_nat len) r4))
  end.

(* the header part of wbxml_parser_parse: parse_version, parse_publicid, forced override, parse_charset
   (not for version 1.0 = byte 0), default charset, parse_strtbl *)
Definition parse_header (main : list lang) (forced meta_charset : N) (doc : list N) : pres header :=
  match doc with
  | [] => PErr P_EMPTY_WBXML
  | version :: r1 =>
    match parse_publicid_part r1 with
    | PErr e => PErr e
    | POk (public_id0, index, r2) =>
      let public_id := if forced =? WBXML_LANG_UNKNOWN then public_id0 else get_wbxml_publicid main forced in
      match parse_charset_part version meta_charset r2 with
      | PErr e => PErr e
      | POk (charset, r3) => parse_strtbl_part version public_id index charset r3
      end
    end
  end.

Fixpoint cstr_at (bs : list N) : list N :=
  match bs with [] => [] | b :: r => if b =? 0 then [] else b :: cstr_at r end.

Definition string_of_bytes (bs : list N) : string :=
  fold_right (fun b s => String (ascii_of_N b) s) EmptyString bs.

(* get_strtbl_reference in the build configuration of the pinned tree: only US-ASCII and UTF-8 strings can
   be delivered (no converter for anything else); no table and index 0 gives "xmlns" (Nokia workaround) *)
Definition strtbl_ref (h : header) (index : N) : option string :=
  match h_strtbl h with
  | None => if index =? 0 then Some "xmlns"%string else None
  | Some st =>
    if h_strtbl_len h <=? index then None
    else if (h_charset h =? CHARSET_UTF_8) || (h_charset h =? CHARSET_US_ASCII)
         then Some (string_of_bytes (cstr_at (skipn (N.to_nat index) st)))
         else None
  end.

(* check_public_id: ONE index variable runs through the forced-language, numeric and textual scans *)
Definition check_public_id (main : list lang) (forced : N) (h : header) : option lang :=
  if (forced =? WBXML_LANG_UNKNOWN) && (h_public_id h =? WBXML_PUBLIC_ID_UNKNOWN) && (h_public_id_index h =? NO_INDEX)
  then None
  else
    let '(r1, i1) := if forced =? WBXML_LANG_UNKNOWN then (None, O)
                     else scan_idx (fun l => l_id l =? forced) main O in
    match r1 with
    | Some l => Some l
    | None =>
      let '(r2, i2) := if h_public_id h =? WBXML_PUBLIC_ID_UNKNOWN then (None, i1)
                       else scan_idx (fun l => l_pub_num l =? h_public_id h) main i1 in
      match r2 with
      | Some l => Some l
      | None =>
        if h_public_id_index h =? NO_INDEX then None
        else match strtbl_ref h (h_public_id_index h) with
             | None => None
             | Some s => fst (scan_idx (has_pub_text_ci s) main i2)
             end
      end
    end.

(* language chosen for a document (the langTable handed to the start-document callback) *)
Definition select_lang (main : list lang) (forced meta_charset : N) (doc : list N) : pres lang :=
  match parse_header main forced meta_charset doc with
  | PErr e => PErr e
  | POk h => match check_public_id main forced h with Some l => POk l | None => PErr P_UNKNOWN_PUBLIC_ID end
  end.

(* ---------------------------------------------------------------- encoder: wbxml_fill_header *)

Inductive pubid_form :=
| PubNum (n : N)          (* mb_u_int32 public id *)
| PubIdx (s : string).    (* 00 index, and the string in the string table *)

Definition header_pubid (l : lang) (produce_anonymous textual_publicid : bool) : pubid_form :=
  let public_id := if produce_anonymous then WBXML_PUBLIC_ID_UNKNOWN else l_pub_num l in
  if (textual_publicid || (public_id =? WBXML_PUBLIC_ID_UNKNOWN)) && negb produce_anonymous then
    match l_pub_text l with
    | Some s => PubIdx s
    | None => PubNum public_id
    end
  else PubNum public_id.
