(* Model of language selection — transcriptions of
     wbxml_tables_search_table            (src/wbxml_tables.c)   XML side: public id, system id, root
     check_public_id + the header part of wbxml_parser_parse     (src/wbxml_parser.c)   WBXML side
     the DOCTYPE-then-root chain of the XML callbacks            (src/wbxml_tree_clb_xml.c)
     wbxml_fill_header's choice of numeric vs textual public id  (src/wbxml_encoder.c)
   The main table is the list of Gen/TablesData.v; its end is the sentinel entry
   { WBXML_LANG_UNKNOWN, NULL, ... } at which both loop conditions of the C (langID != UNKNOWN,
   publicID != NULL) become false.  Every scan that shares the C's `index` variable with the scan
   before it is written with an explicit index.  No proofs here. *)
From Coq Require Import List NArith String Ascii Bool.
From Wbxml Require Import Model.TablesDefs Model.Tables Model.Codec.
Import ListNotations.
Local Open Scope N_scope.

(* while (main_table[index].<end test>) { if (hit) return &main_table[index]; index++; }
   started at `index`; returns the entry found (if any) and the value of index afterwards *)
Fixpoint scan_rest (hit : lang -> bool) (rest : list lang) (index : nat) : option lang * nat :=
  match rest with
  | [] => (None, index)
  | l :: r => if hit l then (Some l, index) else scan_rest hit r (S index)
  end.
Definition scan_idx (hit : lang -> bool) (main : list lang) (index : nat) : option lang * nat :=
  scan_rest hit (skipn index main) index.

Definition has_pub_text_ci (s : string) (l : lang) : bool :=
  match l_pub_text l with Some p => strcaseeq p s | None => false end.
Definition has_dtd (s : string) (l : lang) : bool :=
  match l_dtd l with Some p => streq p s | None => false end.
Definition has_root (s : string) (l : lang) : bool :=
  match l_root l with Some p => streq p s | None => false end.
(* nsTable != NULL && nsTable[0].xmlNameSpace && strncasecmp(nsTable[0].xmlNameSpace, root, strlen(ns0)) == 0 *)
Definition ns0_prefixes (root : string) (l : lang) : bool :=
  match l_ns l with
  | Some (r0 :: _) => is_caseprefix (ns_name r0) root
  | _ => false
  end.

Definition NAMESPACE_SEPARATOR : ascii := ":"%char.

(* wbxml_tables_search_table *)
Definition search_table (main : list lang) (public_id system_id root : option string) : option lang :=
  match (match public_id with Some p => fst (scan_idx (has_pub_text_ci p) main 0) | None => None end) with
  | Some l => Some l
  | None =>
    match (match system_id with Some s => fst (scan_idx (has_dtd s) main 0) | None => None end) with
    | Some l => Some l
    | None =>
      match root with
      | None => None
      | Some r =>
        (* index = 0; the namespace scan runs only when the root contains ':' and leaves index where it stopped *)
        let '(found, index) := if str_has NAMESPACE_SEPARATOR r then scan_idx (ns0_prefixes r) main 0 else (None, O) in
        match found with
        | Some l => Some l
        | None => fst (scan_idx (has_root r) main index)
        end
      end
    end
  end.
