(* C04 — specification side: abstract syntax of WBXML 1.0-1.3 documents written from the BNF
   (WAP-192-WBXML section 5), its serialization, and its denotation as parser events.
   Nothing here refers to Model/Parser.v except the event / outcome types and the byte helpers;
   table lookups, string-table reads, page tracking and typed decoding are written again,
   as simply as possible.

     start     = version publicid charset strtbl body
     body      = *pi element *pi
     element   = ([switchPage] stag) [ 1*attribute END ] [ *content END ]
     content   = element | string | extension | entity | pi | opaque
     stag      = TAG | (literalTag index)
     attribute = attrStart *attrValue
     attrStart = ([switchPage] ATTRSTART) | ( LITERAL index )
     attrValue = ([switchPage] ATTRVALUE) | string | extension | entity | opaque
     extension = [switchPage] (( EXT_I termstr ) | ( EXT_T index ) | EXT)
     string    = inline | tableref ;  pi = PI attrStart *attrValue END

   `denote` returns None where the document is not well-formed for the language (a token that
   does not exist under the page in force, a dangling index, a NUL inside a string, a value that
   does not fit its field, a typed payload of the wrong size ...): wf tbl d := denote tbl d <> None. *)
From Coq Require Import String Ascii.
From Coq Require Import List NArith Bool.
From Wbxml Require Import Model.Codec Model.TablesDefs Model.Parser.
Import ListNotations.
Local Open Scope N_scope.

(* ------------------------------------------------------------------ *)
(* abstract syntax                                                      *)

Inductive wpub := PubNum (n : N) | PubIdx (i : N).

Inductive wext :=
  | ExtI (k : N) (s : bytes)      (* EXT_I_k termstr *)
  | ExtT (k : N) (v : N)          (* EXT_T_k mb_u_int32 *)
  | ExtE (k : N).                 (* EXT_k *)

Inductive wstr :=
  | WStrI (s : bytes)             (* STR_I termstr *)
  | WStrT (idx : N)               (* STR_T index *)
  | WEntity (code : N)            (* ENTITY entcode *)
  | WOpaque (d : bytes)           (* OPAQUE length *byte *)
  | WExt (sw : option N) (x : wext).

Inductive wval := WValTok (sw : option N) (tok : N) | WValStr (s : wstr).
Inductive wastart := AStartTok (sw : option N) (tok : N) | AStartLit (idx : N).
Record wattr := mk_wattr { wa_start : wastart; wa_vals : list wval }.

Inductive wtag := WTagTok (tok : N) | WTagLit (idx : N).

(* an element is a content item; hasc = false: no content part at all (then items = []) *)
Inductive witem :=
  | WItemElt (sw : option N) (tag : wtag) (attrs : list wattr) (hasc : bool) (items : list witem)
  | WItemStr (s : wstr)
  | WItemPi (p : wattr).

Record wdoc := mk_wdoc {
  wd_ver : N;
  wd_pub : wpub;
  wd_charset : option N;        (* None: WBXML 1.0 has no charset field *)
  wd_strtbl : bytes;
  wd_pis_before : list wattr;
  wd_root : witem;              (* must be a WItemElt *)
  wd_pis_after : list wattr
}.

(* ------------------------------------------------------------------ *)
(* serialization                                                        *)

Definition ser_sw (sw : option N) : bytes := match sw with Some p => [0; p] | None => [] end.

Definition ser_ext (x : wext) : bytes :=
  match x with
  | ExtI k s => (64 + k) :: s ++ [0]
  | ExtT k v => (128 + k) :: mb_write v
  | ExtE k => [192 + k]
  end.

Definition ser_str (s : wstr) : bytes :=
  match s with
  | WStrI s => 3 :: s ++ [0]
  | WStrT i => 131 :: mb_write i
  | WEntity c => 2 :: mb_write c
  | WOpaque d => 195 :: mb_write (blen d) ++ d
  | WExt sw x => ser_sw sw ++ ser_ext x
  end.

Definition ser_val (v : wval) : bytes :=
  match v with WValTok sw t => ser_sw sw ++ [t] | WValStr s => ser_str s end.

Definition ser_astart (a : wastart) : bytes :=
  match a with AStartTok sw t => ser_sw sw ++ [t] | AStartLit i => 4 :: mb_write i end.

Definition ser_attr (a : wattr) : bytes := ser_astart (wa_start a) ++ flat_map ser_val (wa_vals a).

Definition ser_pi (p : wattr) : bytes := 67 :: ser_attr p ++ [1].

Definition tag_bits (attrs : list wattr) (hasc : bool) : N :=
  (match attrs with [] => 0 | _ => 128 end) + (if hasc then 64 else 0).

Fixpoint ser_item (i : witem) : bytes :=
  match i with
  | WItemElt sw tag attrs hasc items =>
    ser_sw sw
    ++ (match tag with
        | WTagTok t => [t + tag_bits attrs hasc]
        | WTagLit idx => (4 + tag_bits attrs hasc) :: mb_write idx
        end)
    ++ (match attrs with [] => [] | _ => flat_map ser_attr attrs ++ [1] end)
    ++ (if hasc then flat_map ser_item items ++ [1] else [])
  | WItemStr s => ser_str s
  | WItemPi p => ser_pi p
  end.

Definition ser_pub (p : wpub) : bytes :=
  match p with PubNum n => mb_write n | PubIdx i => 0 :: mb_write i end.

Definition ser_header (d : wdoc) : bytes :=
  [wd_ver d] ++ ser_pub (wd_pub d)
  ++ (match wd_charset d with Some c => mb_write c | None => [] end)
  ++ mb_write (blen (wd_strtbl d)) ++ wd_strtbl d.

Definition serialize (d : wdoc) : bytes :=
  ser_header d ++ flat_map ser_pi (wd_pis_before d) ++ ser_item (wd_root d) ++ flat_map ser_pi (wd_pis_after d).

(* ------------------------------------------------------------------ *)
(* well-formedness helpers                                              *)

Definition is_byte (b : N) : bool := b <? 256.
Definition bytes_okb (l : bytes) : bool := forallb is_byte l.
Definition nul_free (l : bytes) : bool := forallb (fun b => negb (b =? 0)) l.
Definition str_okb (l : bytes) : bool := bytes_okb l && nul_free l.
Definition u32_okb (v : N) : bool := v <? 4294967296.
Definition sw_okb (sw : option N) : bool := match sw with Some p => is_byte p | None => true end.

(* global tokens: 0..4 in each of the four quarters *)
Definition is_global (t : N) : bool := N.land t 63 <? 5.
Definition tag_tok_okb (t : N) : bool := (5 <=? t) && (t <? 64).
Definition astart_tok_okb (t : N) : bool := (t <? 128) && negb (is_global t).
Definition aval_tok_okb (t : N) : bool := (128 <=? t) && (t <? 256) && negb (is_global t).

(* ------------------------------------------------------------------ *)
(* string table                                                         *)

Fixpoint until_nul (l : bytes) : bytes :=
  match l with [] => [] | b :: r => if b =? 0 then [] else b :: until_nul r end.

(* the string that starts at offset idx: up to the next NUL (to the end of an unterminated table) *)
Definition str_at (tb : bytes) (idx : N) : option bytes :=
  if idx <? blen tb then Some (until_nul (drop idx tb)) else None.

(* ------------------------------------------------------------------ *)
(* table lookups (first row that matches, as every consumer of the tables does)            *)

Definition lookup_tag (l : lang) (page tok : N) : option tag_row :=
  find (fun r => (t_page r =? page) && (t_tok r =? tok)) (opt_list (l_tags l)).
Definition lookup_attr (l : lang) (page tok : N) : option attr_row :=
  find (fun r => (a_page r =? page) && (a_tok r =? tok)) (opt_list (l_attrs l)).
Definition lookup_val (l : lang) (page tok : N) : option val_row :=
  find (fun r => (v_page r =? page) && (v_tok r =? tok)) (opt_list (l_vals l)).
Definition lookup_ext (l : lang) (v : N) : option ext_row :=
  find (fun r => e_tok r =? v) (opt_list (l_exts l)).

(* ------------------------------------------------------------------ *)
(* typed content (the languages' documented rules)                      *)

(* OMA-WV-CSP DataTypes: an integer is a number 0..4294967295 in decimal *)
Fixpoint be_value (d : bytes) (acc : N) : N :=
  match d with [] => acc | b :: r => be_value r (acc * 256 + b) end.

Fixpoint dec_spec (fuel : nat) (v : N) : bytes :=
  match fuel with
  | O => []
  | S f => if v <? 10 then [48 + v] else dec_spec f (v / 10) ++ [48 + v mod 10]
  end.
Definition decimal (v : N) : bytes := dec_spec 40 v.
Definition two_digits (v : N) : bytes := [48 + v / 10; 48 + v mod 10].
Definition four_digits (v : N) : bytes := [48 + v / 1000; 48 + (v / 100) mod 10; 48 + (v / 10) mod 10; 48 + v mod 10].

Definition spec_wv_integer (d : bytes) : option bytes :=
  if be_value d 0 <? 4294967296 then Some (decimal (be_value d 0)) else None.

(* 6 octets: 2 reserved bits, year 12, month 4, day 5, hour 5, minute 6, second 6 bits, time zone octet.
   Written as a 40-bit number.  Seconds are omitted when zero, the zone letter when it is not A-I, K-Z
   (0 is read as Z): the behaviour of the library, kept here as the documented rule of this build. *)
Definition spec_wv_datetime (d : bytes) : option bytes :=
  match d with
  | [d0; d1; d2; d3; d4; z] =>
    let n := be_value [d0; d1; d2; d3; d4] 0 in
    let second := n mod 64 in
    let minute := (n / 64) mod 64 in
    let hour := (n / 4096) mod 32 in
    let day := (n / 131072) mod 32 in
    let month := (n / 4194304) mod 16 in
    let year := (n / 67108864) mod 4096 in
    let body := four_digits year ++ two_digits month ++ two_digits day ++ [84] ++ two_digits hour ++ two_digits minute
                ++ (if second =? 0 then [] else two_digits second) in
    Some (if z =? 0 then body ++ [90]
          else if (65 <=? z) && (z <=? 90) && negb (z =? 74) then body ++ [z] else body)
  | _ => None
  end.

Definition spec_base64 (d : bytes) : option bytes :=
  match d with [] => None | _ => Some (rfc4648 d) end.

Inductive okind := OPlain | OWvInt | OWvDate | OBase64.

Definition wv_int_elts : list (N * N) :=
  [(0,11);(0,15);(0,26);(0,60);(1,28);(1,37);(1,38);(1,39);(1,40);(1,50);
   (3,5);(3,6);(3,12);(3,13);(3,14);(3,18);(3,19);(5,5);(5,9);(5,50);(9,8);(9,10)].
Definition wv_date_elts : list (N * N) := [(0,17);(6,26)].
Definition pair_in (p : N * N) (l : list (N * N)) : bool :=
  existsb (fun q => (fst q =? fst p) && (snd q =? snd p)) l.

(* which rule applies to an opaque inside the element (page, token) of language id *)
Definition opaque_kind (id : N) (elt : option (N * N)) : okind :=
  match elt with
  | None => OPlain
  | Some p =>
    if (id =? 2301) || (id =? 2302) then
      (if pair_in p wv_int_elts then OWvInt else if pair_in p wv_date_elts then OWvDate else OPlain)
    else if id =? 1801 then (if pair_in p [(0,12)] then OBase64 else OPlain)
    else if (id =? 2001) || (id =? 2101) || (id =? 2201) then (if pair_in p [(1,16)] then OBase64 else OPlain)
    else OPlain
  end.

Definition spec_opaque (k : okind) (d : bytes) : option bytes :=
  match k with
  | OPlain => Some d
  | OWvInt => spec_wv_integer d
  | OWvDate => spec_wv_datetime d
  | OBase64 => spec_base64 d
  end.

Definition okind_eqb (a b : okind) : bool :=
  match a, b with
  | OPlain, OPlain | OWvInt, OWvInt | OWvDate, OWvDate | OBase64, OBase64 => true
  | _, _ => false
  end.

(* SI / EMN %Datetime attribute values: 4..7 octets of BCD -> ISO 8601 *)
Definition hex_digit (d : N) : N := if d <? 10 then 48 + d else 55 + d.
Definition hex_upper (l : bytes) : bytes := flat_map (fun b => [hex_digit (b / 16); hex_digit (b mod 16)]) l.

Definition spec_datetime (v : bytes) : option bytes :=
  if negb (bytes_okb v) then None else
  match hex_upper v with
  | y1 :: y2 :: y3 :: y4 :: m1 :: m2 :: d1 :: d2 :: t =>
    let date := [y1; y2; y3; y4; 45; m1; m2; 45; d1; d2; 84] in
    match t with
    | [] => Some (date ++ B "00:00:00Z")
    | [h1; h2] => Some (date ++ [h1; h2] ++ B ":00:00Z")
    | [h1; h2; n1; n2] => Some (date ++ [h1; h2; 58; n1; n2] ++ B ":00Z")
    | [h1; h2; n1; n2; s1; s2] => Some (date ++ [h1; h2; 58; n1; n2; 58; s1; s2] ++ B "Z")
    | _ => None
    end
  | _ => None
  end.

Definition is_datetime_attr (id page tok : N) : bool :=
  ((id =? 1301) && (page =? 0) && ((tok =? 10) || (tok =? 16))) || ((id =? 1701) && (page =? 0) && (tok =? 5)).

(* ------------------------------------------------------------------ *)
(* denotation                                                           *)

Record denv := mk_denv { de_lang : lang; de_strtbl : bytes }.

Record dstate := mk_dstate {
  ds_tagcp : N;                 (* tag code page in force *)
  ds_attrcp : N;                (* attribute code page in force *)
  ds_cur : option (N * N)       (* the element the parser takes as "current" for typed content *)
}.

Definition apply_sw (sp : space) (sw : option N) (st : dstate) : dstate :=
  match sw with
  | None => st
  | Some p => match sp with
              | TagSpace => mk_dstate p (ds_attrcp st) (ds_cur st)
              | AttrSpace => mk_dstate (ds_tagcp st) p (ds_cur st)
              end
  end.

Definition is_wml_family (id : N) : bool := existsb (N.eqb id) [1101; 1102; 1103; 1104; 1202].
Definition is_wv_family (id : N) : bool := existsb (N.eqb id) [2301; 2302].

(* extensions: WML variables, Wireless Village extension values; no other language defines any *)
Definition den_ext (env : denv) (x : wext) : option bytes :=
  let id := l_id (de_lang env) in
  if is_wml_family id then
    match x with
    | ExtI k s =>
      if (k <? 3) && str_okb s then
        Some (B "$(" ++ s ++ (if k =? 0 then B ":escape" else if k =? 1 then B ":unesc" else B ":noesc") ++ B ")")
      else None
    | ExtT k i =>
      if (k <? 3) && u32_okb i then
        match str_at (de_strtbl env) i with
        | Some s => Some (B "$(" ++ s ++ (if k =? 0 then B ":escape" else if k =? 1 then B ":unesc" else B ":noesc") ++ B ")")
        | None => None
        end
      else None
    | ExtE k => if k <? 3 then Some [] else None
    end
  else if is_wv_family id then
    match x with
    | ExtT 0 v => if u32_okb v then
                    match lookup_ext (de_lang env) v with Some r => Some (B (e_name r)) | None => None end
                  else None
    | _ => None
    end
  else None.

(* parent = the enclosing element if it has a token tag (content), None in attribute values *)
Definition den_str (env : denv) (sp : space) (parent : option (N * N)) (s : wstr) (st : dstate)
  : option (bytes * dstate) :=
  match s with
  | WStrI s => if str_okb s then Some (s, st) else None
  | WStrT i => if u32_okb i then
                 match str_at (de_strtbl env) i with Some s => Some (s, st) | None => None end
               else None
  | WEntity c => if is_scalar c && negb (c =? 0) then Some (utf8_spec c, st) else None
  | WOpaque d =>
    if bytes_okb d && u32_okb (blen d) then
      match sp with
      | TagSpace =>
        (* the rule of the enclosing element; the document is outside the specification where the
           parser's notion of "current element" (reset after every child element, inherited through
           literal-tagged elements) would select a different rule *)
        let k := opaque_kind (l_id (de_lang env)) parent in
        if okind_eqb k (opaque_kind (l_id (de_lang env)) (ds_cur st)) then
          match spec_opaque k d with Some o => Some (o, st) | None => None end
        else None
      | AttrSpace =>
        if l_id (de_lang env) =? 1901 then
          match spec_base64 d with Some o => Some (o, st) | None => None end
        else Some (d, st)
      end
    else None
  | WExt sw x =>
    if sw_okb sw then
      match den_ext env x with Some o => Some (o, apply_sw sp sw st) | None => None end
    else None
  end.

Definition den_val (env : denv) (v : wval) (st : dstate) : option (bytes * dstate) :=
  match v with
  | WValTok sw t =>
    if sw_okb sw && aval_tok_okb t then
      let st' := apply_sw AttrSpace sw st in
      match lookup_val (de_lang env) (ds_attrcp st') t with
      | Some r => Some (B (v_name r), st')
      | None => None
      end
    else None
  | WValStr s => den_str env AttrSpace None s st
  end.

Fixpoint den_vals (env : denv) (vs : list wval) (st : dstate) : option (bytes * dstate) :=
  match vs with
  | [] => Some ([], st)
  | v :: r =>
    match den_val env v st with
    | Some (b, st1) =>
      match den_vals env r st1 with Some (b', st2) => Some (b ++ b', st2) | None => None end
    | None => None
    end
  end.

(* name, prefix of the value *)
Definition den_astart (env : denv) (a : wastart) (st : dstate) : option (attrname * bytes * dstate) :=
  match a with
  | AStartTok sw t =>
    if sw_okb sw && astart_tok_okb t then
      let st' := apply_sw AttrSpace sw st in
      match lookup_attr (de_lang env) (ds_attrcp st') t with
      | Some r => Some (AttrTok (a_page r) (a_tok r) (B (a_name r)),
                        match a_value r with Some v => B v | None => [] end, st')
      | None => None
      end
    else None
  | AStartLit i =>
    if u32_okb i then
      match str_at (de_strtbl env) i with Some s => Some (AttrLit s, [], st) | None => None end
    else None
  end.

(* attribute value = start-token prefix ++ the values in order *)
Definition den_attr_raw (env : denv) (a : wattr) (st : dstate) : option (attrname * bytes * dstate) :=
  match den_astart env (wa_start a) st with
  | Some (name, prefix, st1) =>
    match den_vals env (wa_vals a) st1 with
    | Some (v, st2) => Some (name, prefix ++ v, st2)
    | None => None
    end
  | None => None
  end.

Definition den_attr (env : denv) (a : wattr) (st : dstate) : option (attrname * bytes * dstate) :=
  match den_attr_raw env a st with
  | Some (name, v, st') =>
    match name, v with
    | AttrTok p t _, _ :: _ =>
      if is_datetime_attr (l_id (de_lang env)) p t then
        match spec_datetime v with Some v' => Some (name, v', st') | None => None end
      else Some (name, v, st')
    | _, _ => Some (name, v, st')
    end
  | None => None
  end.

Fixpoint den_attrs (env : denv) (l : list wattr) (st : dstate) : option (list (attrname * bytes) * dstate) :=
  match l with
  | [] => Some ([], st)
  | a :: r =>
    match den_attr env a st with
    | Some (n, v, st1) =>
      match den_attrs env r st1 with Some (l', st2) => Some ((n, v) :: l', st2) | None => None end
    | None => None
    end
  end.

(* processing instruction: target = the attribute name, data = its value (a C string: no NUL) *)
Definition den_pi (env : denv) (p : wattr) (st : dstate) : option (list event * dstate) :=
  match den_attr_raw env p st with
  | Some (name, v, st') => if nul_free v then Some ([EvPi (attr_xml_name name) v], st') else None
  | None => None
  end.

Fixpoint den_pis (env : denv) (l : list wattr) (st : dstate) : option (list event * dstate) :=
  match l with
  | [] => Some ([], st)
  | p :: r =>
    match den_pi env p st with
    | Some (e, st1) =>
      match den_pis env r st1 with Some (e', st2) => Some (e ++ e', st2) | None => None end
    | None => None
    end
  end.

Definition chars_of (b : bytes) : list event := match b with [] => [] | _ => [EvChars b] end.

Definition set_dcur (st : dstate) (c : option (N * N)) : dstate := mk_dstate (ds_tagcp st) (ds_attrcp st) c.

(* depth: 0 for the root; the library refuses elements nested deeper than 1000 below the root *)
Fixpoint den_item (env : denv) (depth : N) (parent : option (N * N)) (i : witem) (st : dstate)
  : option (list event * dstate) :=
  match i with
  | WItemStr s =>
    match den_str env TagSpace parent s st with
    | Some (b, st') => Some (chars_of b, st')
    | None => None
    end
  | WItemPi p => den_pi env p st
  | WItemElt sw tag attrs hasc items =>
    if sw_okb sw && (depth <=? 1000) then
      let st0 := apply_sw TagSpace sw st in
      let named :=
        match tag with
        | WTagTok t =>
          if tag_tok_okb t then
            match lookup_tag (de_lang env) (ds_tagcp st0) t with
            | Some r => Some (TagTok (t_page r) (t_tok r) (B (t_name r)), Some (t_page r, t_tok r),
                              set_dcur st0 (Some (t_page r, t_tok r)))
            | None => None
            end
          else None
        | WTagLit idx =>
          if u32_okb idx then
            match str_at (de_strtbl env) idx with
            | Some s => Some (TagLit s, None, st0)
            | None => None
            end
          else None
        end in
      match named with
      | None => None
      | Some (name, me, st1) =>
        match den_attrs env attrs st1 with
        | None => None
        | Some (al, st2) =>
          if hasc then
            match (fix den_items (l : list witem) (st : dstate) : option (list event * dstate) :=
                     match l with
                     | [] => Some ([], st)
                     | x :: r =>
                       match den_item env (depth + 1) me x st with
                       | Some (e, st') =>
                         match den_items r st' with Some (e', st'') => Some (e ++ e', st'') | None => None end
                       | None => None
                       end
                     end) items st2 with
            | Some (evs, st3) => Some (EvStartElt name al :: evs ++ [EvEndElt name], set_dcur st3 None)
            | None => None
            end
          else
            match items with
            | [] => Some ([EvStartElt name al; EvEndElt name], set_dcur st2 None)
            | _ => None
            end
        end
      end
    else None
  end.

(* header: language from the public identifier, charset *)
Definition ci_lower (c : N) : N := if (65 <=? c) && (c <=? 90) then c + 32 else c.
Fixpoint ci_eqb (a b : bytes) : bool :=
  match a, b with
  | [], [] => true
  | x :: a', y :: b' => (ci_lower x =? ci_lower y) && ci_eqb a' b'
  | _, _ => false
  end.

Definition lang_of_pub (tbl : list lang) (tb : bytes) (p : wpub) : option lang :=
  match p with
  | PubNum n => if (n =? 1) || negb (u32_okb n) || (n =? 0) then None else find (fun l => l_pub_num l =? n) tbl
  | PubIdx i =>
    if u32_okb i && negb (i =? 4294967295) then
      match str_at tb i with
      | Some s => find (fun l => match l_pub_text l with Some t => ci_eqb (B t) s | None => false end) tbl
      | None => None
      end
    else None
  end.

Definition charset_of (d : wdoc) : option N :=
  match wd_ver d, wd_charset d with
  | 0, None => Some 106
  | 0, Some _ => None
  | _, None => None
  | _, Some c => if c =? 0 then Some 106 else if (c =? 3) || (c =? 106) then Some c else None
  end.

(* forced: Some l = the caller forces language l (the public identifier is then not consulted) *)
Definition denote_with (tbl : list lang) (forced : option lang) (d : wdoc) : option (list event) :=
  if (wd_ver d <? 4) && bytes_okb (wd_strtbl d) && u32_okb (blen (wd_strtbl d))
     && (match wd_pub d with PubNum n => u32_okb n && negb (n =? 0) | PubIdx i => u32_okb i end) then
    match charset_of d with
    | None => None
    | Some cs =>
      let lg := match forced with Some l => Some l | None => lang_of_pub tbl (wd_strtbl d) (wd_pub d) end in
      match lg with
      | None => None
      | Some l =>
        let env := mk_denv l (wd_strtbl d) in
        match wd_root d with
        | WItemElt _ _ _ _ _ =>
          match den_pis env (wd_pis_before d) (mk_dstate 0 0 None) with
          | None => None
          | Some (e1, st1) =>
            match den_item env 0 None (wd_root d) st1 with
            | None => None
            | Some (e2, st2) =>
              match den_pis env (wd_pis_after d) st2 with
              | None => None
              | Some (e3, _) => Some (EvStartDoc cs (l_id l) :: (e1 ++ e2 ++ e3) ++ [EvEndDoc])
              end
            end
          end
        | _ => None
        end
      end
    end
  else None.

Definition denote (tbl : list lang) (d : wdoc) : option (list event) := denote_with tbl None d.

Definition wf (tbl : list lang) (d : wdoc) : Prop := denote tbl d <> None.

(* ------------------------------------------------------------------ *)
(* strict decoder: bytes -> wdoc (the grammar only, no tables), strictness, then denote      *)

(* 1. reader of the concrete syntax (inverse of serialize; fuel = nesting + sequence) *)

Definition rd_sw (r : bytes) : option N * bytes :=
  match r with
  | b :: p :: r' => if b =? 0 then (Some p, r') else (None, r)
  | _ => (None, r)
  end.

(* a multi-byte integer in its shortest form *)
Definition rd_mb (r : bytes) : option (N * bytes) :=
  match mb_read r with
  | Ok (v, r') => if bytes_eqb (mb_write v ++ r') r then Some (v, r') else None
  | Err _ => None
  end.

Definition rd_ext (r : bytes) : option (wext * bytes) :=
  match r with
  | [] => None
  | t :: r' =>
    if (64 <=? t) && (t <=? 66) then
      match split_nul r' with Some (s, r2) => Some (ExtI (t - 64) s, r2) | None => None end
    else if (128 <=? t) && (t <=? 130) then
      match rd_mb r' with Some (v, r2) => Some (ExtT (t - 128) v, r2) | None => None end
    else if (192 <=? t) && (t <=? 194) then Some (ExtE (t - 192), r')
    else None
  end.

(* string | entity | opaque | [switchPage] extension *)
Definition rd_str (r : bytes) : option (wstr * bytes) :=
  match r with
  | [] => None
  | t :: r' =>
    if t =? 3 then match split_nul r' with Some (s, r2) => Some (WStrI s, r2) | None => None end
    else if t =? 131 then match rd_mb r' with Some (i, r2) => Some (WStrT i, r2) | None => None end
    else if t =? 2 then match rd_mb r' with Some (c, r2) => Some (WEntity c, r2) | None => None end
    else if t =? 195 then
      match rd_mb r' with
      | Some (len, r2) => if len <=? blen r2 then Some (WOpaque (take len r2), drop len r2) else None
      | None => None
      end
    else
      let '(sw, r1) := rd_sw r in
      match rd_ext r1 with Some (x, r2) => Some (WExt sw x, r2) | None => None end
  end.

Definition rd_val (r : bytes) : option (wval * bytes) :=
  match rd_str r with
  | Some (s, r') => Some (WValStr s, r')
  | None =>
    let '(sw, r1) := rd_sw r in
    match r1 with
    | t :: r2 => if aval_tok_okb t then Some (WValTok sw t, r2) else None
    | [] => None
    end
  end.

(* *attrValue: as long as a value can be read *)
Fixpoint rd_vals (fuel : nat) (r : bytes) : list wval * bytes :=
  match fuel with
  | O => ([], r)
  | S f =>
    match rd_val r with
    | Some (v, r') => let '(vs, r2) := rd_vals f r' in (v :: vs, r2)
    | None => ([], r)
    end
  end.

Definition rd_astart (r : bytes) : option (wastart * bytes) :=
  match r with
  | [] => None
  | t :: r' =>
    if t =? 4 then match rd_mb r' with Some (i, r2) => Some (AStartLit i, r2) | None => None end
    else
      let '(sw, r1) := rd_sw r in
      match r1 with
      | t1 :: r2 => if astart_tok_okb t1 then Some (AStartTok sw t1, r2) else None
      | [] => None
      end
  end.

Definition rd_attr (fuel : nat) (r : bytes) : option (wattr * bytes) :=
  match rd_astart r with
  | Some (a, r1) => let '(vs, r2) := rd_vals fuel r1 in Some (mk_wattr a vs, r2)
  | None => None
  end.

(* 1*attribute END *)
Fixpoint rd_attrs (fuel : nat) (r : bytes) : option (list wattr * bytes) :=
  match fuel with
  | O => None
  | S f =>
    match rd_attr f r with
    | None => None
    | Some (a, r1) =>
      match r1 with
      | b :: r2 => if b =? 1 then Some ([a], r2)
                   else match rd_attrs f r1 with Some (l, r3) => Some (a :: l, r3) | None => None end
      | [] => None
      end
    end
  end.

(* PI attrStart *attrValue END, after the PI token *)
Definition rd_pi (fuel : nat) (r : bytes) : option (wattr * bytes) :=
  match rd_attr fuel r with
  | Some (a, r1) => match r1 with b :: r2 => if b =? 1 then Some (a, r2) else None | [] => None end
  | None => None
  end.

Fixpoint rd_item (fuel : nat) (r : bytes) : option (witem * bytes) :=
  match fuel with
  | O => None
  | S f =>
    match rd_str r with
    | Some (s, r') => Some (WItemStr s, r')
    | None =>
      match r with
      | [] => None
      | t0 :: r0 =>
        if t0 =? 67 then
          match rd_pi f r0 with Some (p, r') => Some (WItemPi p, r') | None => None end
        else
          let '(sw, r1) := rd_sw r in
          match r1 with
          | [] => None
          | t :: r2 =>
            let low := N.land t 63 in
            let stag :=
              if low =? 4 then match rd_mb r2 with Some (i, r3) => Some (WTagLit i, r3) | None => None end
              else if (5 <=? low) && (t <? 256) then Some (WTagTok low, r2) else None in
            match stag with
            | None => None
            | Some (tag, r3) =>
              let attrs := if N.land t 128 =? 128 then rd_attrs f r3 else Some ([], r3) in
              match attrs with
              | None => None
              | Some (al, r4) =>
                if N.land t 64 =? 64 then
                  match (fix rd_items (g : nat) (r : bytes) : option (list witem * bytes) :=
                           match g with
                           | O => None
                           | S g' =>
                             match r with
                             | [] => None
                             | b :: r' =>
                               if b =? 1 then Some ([], r')
                               else
                                 match rd_item f r with
                                 | Some (x, r1) =>
                                   match rd_items g' r1 with Some (l, r'') => Some (x :: l, r'') | None => None end
                                 | None => None
                                 end
                             end
                           end) fuel r4 with
                  | Some (items, r5) => Some (WItemElt sw tag al true items, r5)
                  | None => None
                  end
                else Some (WItemElt sw tag al false [], r4)
              end
            end
          end
      end
    end
  end.

Fixpoint rd_pis (fuel : nat) (r : bytes) : list wattr * bytes :=
  match fuel with
  | O => ([], r)
  | S f =>
    match r with
    | b :: r0 =>
      if b =? 67 then
        match rd_pi f r0 with
        | Some (p, r1) => let '(l, r2) := rd_pis f r1 in (p :: l, r2)
        | None => ([], r)
        end
      else ([], r)
    | [] => ([], r)
    end
  end.

Definition unser (bs : bytes) : option wdoc :=
  let fuel := S (length bs) in
  match bs with
  | [] => None
  | ver :: r0 =>
    let pub :=
      match r0 with
      | b :: r1 =>
        if b =? 0 then match rd_mb r1 with Some (i, r2) => Some (PubIdx i, r2) | None => None end
        else match rd_mb r0 with Some (n, r2) => Some (PubNum n, r2) | None => None end
      | [] => None
      end in
    match pub with
    | None => None
    | Some (p, r2) =>
      let cs := if ver =? 0 then Some (None, r2)
                else match rd_mb r2 with Some (c, r3) => Some (Some c, r3) | None => None end in
      match cs with
      | None => None
      | Some (c, r3) =>
        match rd_mb r3 with
        | None => None
        | Some (len, r4) =>
          if blen r4 <? len then None
          else
            let tb := take len r4 in
            let '(p1, r5) := rd_pis fuel (drop len r4) in
            match rd_item fuel r5 with
            | Some (WItemElt sw tag al hc items, r6) =>
              let '(p2, r7) := rd_pis fuel r6 in
              match r7 with
              | [] => Some (mk_wdoc ver p c tb p1 (WItemElt sw tag al hc items) p2)
              | _ => None                       (* no bytes after the body *)
              end
            | _ => None
            end
        end
      end
    end
  end.

(* 2. strictness of the document read: the table is NUL-terminated, every reference points at the
      start of an entry, no [switchPage] in front of an extension *)
Definition entry_start (tb : bytes) (i : N) : bool :=
  (i <? blen tb) && ((i =? 0) || (nth (N.to_nat (i - 1)) tb 1 =? 0)).

Definition strict_str (tb : bytes) (s : wstr) : bool :=
  match s with
  | WStrT i => entry_start tb i
  | WExt sw (ExtT _ _) => match sw with None => true | Some _ => false end
  | WExt sw _ => match sw with None => true | Some _ => false end
  | _ => true
  end.
Definition strict_val (tb : bytes) (v : wval) : bool :=
  match v with WValStr s => strict_str tb s | WValTok _ _ => true end.
Definition strict_attr (tb : bytes) (a : wattr) : bool :=
  (match wa_start a with AStartLit i => entry_start tb i | AStartTok _ _ => true end)
  && forallb (strict_val tb) (wa_vals a).

Fixpoint strict_item (tb : bytes) (i : witem) : bool :=
  match i with
  | WItemStr s => strict_str tb s
  | WItemPi p => strict_attr tb p
  | WItemElt _ tag attrs _ items =>
    (match tag with WTagLit i => entry_start tb i | WTagTok _ => true end)
    && forallb (strict_attr tb) attrs && forallb (strict_item tb) items
  end.

(* WML / WTA-WML EXT_T arguments are string-table references too *)
Definition strict_doc (d : wdoc) : bool :=
  let tb := wd_strtbl d in
  (match tb with [] => true | _ => last tb 1 =? 0 end)
  && (match wd_pub d with PubIdx i => entry_start tb i | PubNum _ => true end)
  && forallb (strict_attr tb) (wd_pis_before d) && strict_item tb (wd_root d)
  && forallb (strict_attr tb) (wd_pis_after d).

(* 3. the strict decoder *)
Definition decode (tbl : list lang) (bs : bytes) : option (list event) :=
  match unser bs with
  | Some d => if strict_doc d then denote tbl d else None
  | None => None
  end.

(* the caller names the language (as the encoder's users do) *)
Definition decode_lang (tbl : list lang) (id : N) (bs : bytes) : option (list event) :=
  match unser bs with
  | Some d => if strict_doc d then denote_with tbl (find (fun l => l_id l =? id) tbl) d else None
  | None => None
  end.
