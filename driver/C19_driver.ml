(* C19 model driver: same line protocol as harness/c19_harness.c, run on the extracted model.
   Lines starting with "S " query the extracted specification side instead:
       S <contents hex> <static 0|1> <op ...>   ->   <return value> | <len> <contents hex> <static> *)
open Model
open Conv

let n_of s = n_of_int (int_of_string s)
let hx = bytes_of_hex

let parse_op (t : string list) : op option =
  match t with
  | ["new"; h; blk] -> Some (OCreate (hx h, n_of blk))
  | ["sta"; h] -> Some (OStaCreate (hx h))
  | ["dup"] -> Some ODuplicate
  | ["len"] -> Some OLen
  | ["get"; p] -> Some (OGetChar (n_of p))
  | ["set"; p; c] -> Some (OSetChar (n_of p, n_of c))
  | ["ins"; h; p] -> Some (OInsert (hx h, n_of p))
  | ["insc"; h; p] -> Some (OInsertCstr (hx h, n_of p))
  | ["app"; h] -> Some (OAppend (hx h))
  | ["appd"; h] -> Some (OAppendData (hx h))
  | ["appc"; h] -> Some (OAppendCstr (hx h))
  | ["appch"; c] -> Some (OAppendChar (n_of c))
  | ["appmb"; v] -> Some (OAppendMb (n_of v))
  | ["del"; p; n] -> Some (ODelete (n_of p, n_of n))
  | ["shrink"] -> Some OShrink
  | ["strip"] -> Some OStrip
  | ["nosp"] -> Some ONoSpaces
  | ["cmp"; h] -> Some (OCompare (hx h))
  | ["cmpc"; h] -> Some (OCompareCstr (hx h))
  | ["words"] -> Some OSplitWords
  | ["schr"; c; p] -> Some (OSearchChar (n_of c, n_of p))
  | ["srch"; h; p] -> Some (OSearch (hx h, n_of p))
  | ["srchc"; h; p] -> Some (OSearchCstr (hx h, n_of p))
  | ["onlyws"] -> Some OOnlyWs
  | ["h2b"] -> Some OHexToBin
  | ["b2h"; u] -> Some (OBinToHex (u = "U"))
  | ["b64d"] -> Some ODecodeB64
  | ["b64e"] -> Some OEncodeB64
  | ["rtz"] -> Some ORemoveTrailingZeros
  | _ -> None

let show_ret (r : ret) : string =
  match r with
  | RVoid -> "v"
  | RBool true -> "T" | RBool false -> "F"
  | RVal (Some v) -> Printf.sprintf "some %d" (int_of_n v)
  | RVal None -> "none"
  | RLen n -> Printf.sprintf "len %d" (int_of_n n)
  | RCmp Lt -> "cmp -1" | RCmp Eq -> "cmp 0" | RCmp Gt -> "cmp 1"
  | RWords [] -> "words none"
  | RWords ws -> "words " ^ String.concat "," (List.map hex_of_bytes ws)
  | RNull -> "null"
  | RFuel -> "fuel"

let rec nth_opt l i = match l with [] -> None | x :: r -> if i = 0 then Some x else nth_opt r (i - 1)

let show_buf (b : buf) : string =
  let n = int_of_nat b.blen in
  let term = if b.bstatic || b.cells = [] then "--"
    else (match nth_opt b.cells n with Some v -> Printf.sprintf "%02x" (int_of_n v) | None -> "oob") in
  Printf.sprintf "%d %s %s %d%s" n (hex_of_bytes (contents b)) term (if b.bstatic then 1 else 0)
    (if b.bfault then " FAULT" else "")

let show_list (l : wlist) : string =
  let items = if l.chain = [] then "-" else String.concat "," (List.map (fun x -> string_of_int (int_of_n x)) l.chain) in
  let k = List.length l.chain in
  let tail_ok = (match l.ltail with None -> k = 0 | Some t -> k > 0 && int_of_nat t = k - 1) in
  Printf.sprintf "%d %s %d%s" (int_of_nat l.llen) items (if tail_ok then 1 else 0) (if l.lfault then " FAULT" else "")

let show_lret = function
  | LRBool true -> "T" | LRBool false -> "F"
  | LRItem (Some x) -> Printf.sprintf "some %d" (int_of_n x)
  | LRItem None -> "none"
  | LRLen n -> Printf.sprintf "len %d" (int_of_n n)

(* "F<k>" = only the k-th allocation request of this operation is refused, "A<k>" = the k-th and all later *)
let oracle_of (tk : string) : bool list option =
  let n = String.length tk in
  if n >= 2 && (tk.[0] = 'F' || tk.[0] = 'A') && tk.[1] >= '0' && tk.[1] <= '9' then
    (match int_of_string_opt (String.sub tk 1 (n - 1)) with
     | Some k when k >= 1 ->
       let pre = List.init (k - 1) (fun _ -> true) in
       Some (if tk.[0] = 'F' then pre @ [false] else pre @ List.init 4096 (fun _ -> false))
     | _ -> None)
  else None

let () =
  let cur : buf option ref = ref None in
  let lst : wlist option ref = ref None in
  try while true do
    let line = input_line stdin in
    let t0 = split_line line in
    let (orc, t) = (match t0 with
        | tk :: rest when rest <> [] -> (match oracle_of tk with Some o -> (o, rest) | None -> ([], t0))
        | _ -> ([], t0)) in
    (match t with
     | "S" :: h :: st :: rest ->
       (match parse_op rest with
        | Some o ->
          let ((s', st'), r) = spec_step (hx h, st = "1") o in
          Printf.printf "%s | %d %s %d%s\n" (show_ret r) (List.length s') (hex_of_bytes s') (if st' then 1 else 0)
            (if op_ok (hx h, st = "1") o then "" else " OUT-OF-CONTRACT")
        | None -> print_endline "bad")
     | ["lnew"] ->
       (match fst (lcreate_a orc), !lst with
        | Some l, _ -> lst := Some l; Printf.printf "v | %s\n" (show_list l)
        | None, Some l -> Printf.printf "null | %s\n" (show_list l)
        | None, None -> print_endline "null | nolist")
     | (("lapp" | "lins" | "lget" | "lext" | "llen") :: _) ->
       (match !lst with
        | None -> print_endline "nolist"
        | Some l ->
          let o = (match t with
              | ["lapp"; x] -> Some (LAppend (n_of x))
              | ["lins"; x; p] -> Some (LInsert (n_of x, n_of p))
              | ["lget"; i] -> Some (LGet (n_of i))
              | ["lext"] -> Some LExtractFirst
              | ["llen"] -> Some LLen
              | _ -> None) in
          (match o with
           | None -> print_endline "bad"
           | Some o ->
             let (l', r) = lstep_a orc l o in
             lst := Some l';
             Printf.printf "%s | %s\n" (show_lret r) (show_list l')))
     | _ ->
       (match parse_op t with
        | None -> print_endline "bad"
        | Some o ->
          let start = (match o with OCreate _ | OStaCreate _ -> true | _ -> false) in
          (match !cur, start with
           | None, false -> print_endline "nobuf"
           | _ ->
             let b = (match !cur with Some b -> b | None -> create [] N0) in
             let (b', r) = step_a orc b o in
             if !cur = None && r = RNull then print_endline "null | nobuf"
             else begin
               cur := Some b';
               Printf.printf "%s | %s\n" (show_ret r) (show_buf b')
             end)))
  done with End_of_file -> ()
