(* C11 model driver: same line protocol as harness/c11_harness.c *)
open Model
open Conv

let errname = function
  | E_END_OF_BUFFER -> "END_OF_BUFFER" | E_UNVALID_MBUINT32 -> "UNVALID_MBUINT32" | E_INVALID_UNICODE -> "INVALID_UNICODE"

let () =
  try while true do
    let line = input_line stdin in
    (match split_line line with
     | ["mbw"; v] -> print_endline (hex_of_bytes (mb_write (n_of_int (int_of_string v))))
     | ["mbr"; h] ->
       let bs = bytes_of_hex h in
       (match mb_read bs with
        | Ok (v, r) -> Printf.printf "ok %d %d\n" (int_of_n v) (List.length bs - List.length r)
        | Err e -> Printf.printf "err %s\n" (errname e))
     | ["ent"; h] ->
       (* skip the ENTITY token, read the code, convert *)
       (match bytes_of_hex h with
        | _ :: bs ->
          (match mb_read bs with
           | Ok (code, _) ->
             (match entity_utf8 code with
              | Ok out -> Printf.printf "ok %s\n" (hex_of_bytes out)
              | Err e -> Printf.printf "err %s\n" (errname e))
           | Err e -> Printf.printf "err %s\n" (errname e))
        | [] -> print_endline "err END_OF_BUFFER")
     | ["b64e"; h] -> (match b64_enc (bytes_of_hex h) with Some o -> Printf.printf "ok %s\n" (hex_of_bytes o) | None -> print_endline "none")
     | ["b64d"; h] -> (match buffer_b64_dec (bytes_of_hex h) with Some o -> Printf.printf "ok %s\n" (hex_of_bytes o) | None -> print_endline "none")
     | ["h2b"; h] -> Printf.printf "ok %s\n" (hex_of_bytes (hex_to_bin (bytes_of_hex h)))
     | ["b2hU"; h] -> Printf.printf "ok %s\n" (hex_of_bytes (bin_to_hex true (bytes_of_hex h)))
     | ["b2hL"; h] -> Printf.printf "ok %s\n" (hex_of_bytes (bin_to_hex false (bytes_of_hex h)))
     (* specification side, used as oracle cross-check *)
     | ["spec_utf8"; c] -> print_endline (hex_of_bytes (utf8_spec (n_of_int (int_of_string c))))
     | ["spec_b64"; h] -> print_endline (hex_of_bytes (rfc4648 (bytes_of_hex h)))
     | ["spec_mblen"; v] -> Printf.printf "%d\n" (int_of_nat (mb_len (n_of_int (int_of_string v))))
     | _ -> print_endline "bad")
  done with End_of_file -> ()
