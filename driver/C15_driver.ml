(* C15 model driver: the transcribed create / reinit / reset / derived-value functions of Model/Lifecycle.v on the
   abstract struct dumps printed by harness/c15_harness.c (same field order, pointers as 0 / non-0). *)
open Model
open Conv

let z_of_int (i : int) : z = if i = 0 then Z0 else if i > 0 then Zpos (pos_of_int i) else Zneg (pos_of_int (-i))
let int_of_z (x : z) : int = match x with Z0 -> 0 | Zpos p -> int_of_pos p | Zneg p -> - (int_of_pos p)
let ints s = List.map int_of_string (String.split_on_char ',' s)
let b i = i <> 0
let ib x = if x then 1 else 0
let optl i = opt_of_flag (n_of_int i)                 (* 0 -> None, else Some [] *)
let optn i = if i = 0 then None else Some (n_of_int i)
let flag o = match o with None -> 0 | Some _ -> 1
let nopt o = match o with None -> 0 | Some v -> int_of_n v
let tag_of i = if i = 0 then None else Some (n_of_int ((i - 1) / 256), n_of_int ((i - 1) mod 256))
let int_of_tag o = match o with None -> 0 | Some (p, t) -> 1 + int_of_n p * 256 + int_of_n t

let parser_of = function
  | [ud; ch; wb; st; stl; lt; mt; ct; lf; pid; pidx; cs; mcs; pos; ver; tcp; acp; nest] ->
    { p_user_data = n_of_int ud; p_content_hdl = n_of_int ch; p_wbxml = optl wb; p_strstbl = optl st;
      p_strstbl_len = n_of_int stl; p_langTable = optn lt; p_mainTable = n_of_int mt; p_current_tag = tag_of ct;
      p_lang_forced = n_of_int lf; p_public_id = n_of_int pid; p_public_id_index = z_of_int pidx;
      p_charset = n_of_int cs; p_meta_charset = n_of_int mcs; p_pos = n_of_int pos; p_version = n_of_int ver;
      p_tagCodePage = n_of_int tcp; p_attrCodePage = n_of_int acp; p_nesting = n_of_int nest }
  | _ -> failwith "parser dump: wrong number of fields"
let dump_parser p =
  String.concat "," (List.map string_of_int
    [int_of_n p.p_user_data; int_of_n p.p_content_hdl; flag p.p_wbxml; flag p.p_strstbl; int_of_n p.p_strstbl_len;
     nopt p.p_langTable; int_of_n p.p_mainTable; int_of_tag p.p_current_tag; int_of_n p.p_lang_forced;
     int_of_n p.p_public_id; int_of_z p.p_public_id_index; int_of_n p.p_charset; int_of_n p.p_meta_charset;
     int_of_n p.p_pos; int_of_n p.p_version; int_of_n p.p_tagCodePage; int_of_n p.p_attrCodePage; int_of_n p.p_nesting])

let enc_of = function
  | [tr; lg; out; oh; ct; ctp; ca; cn; tcp; acp; ig; rb; ot; gt; idl; ind; inc; incd; cd; st; stl; us; xh; an; ver; oc; fm; pl; ptc; pac; pin; pic; ptg; tp] ->
    { e_tree = n_of_int tr; e_lang = optn lg; e_output = optl out; e_output_header = optl oh;
      e_current_tag = (if ct = 0 then None else Some (N0, N0)); e_current_text_parent = n_of_int ctp;
      e_current_attr = n_of_int ca; e_current_node = n_of_int cn; e_tagCodePage = n_of_int tcp; e_attrCodePage = n_of_int acp;
      e_ignore_empty_text = b ig; e_remove_text_blanks = b rb; e_output_type = n_of_int ot; e_xml_gen_type = n_of_int gt;
      e_indent_delta = n_of_int idl; e_indent = n_of_int ind; e_in_content = b inc; e_in_cdata = b incd; e_cdata = optl cd;
      e_strstbl = list_of_len (n_of_int st); e_strstbl_len = n_of_int stl; e_use_strtbl = b us; e_xml_encode_header = b xh;
      e_produce_anonymous = b an; e_wbxml_version = n_of_int ver; e_output_charset = n_of_int oc; e_flow_mode = b fm;
      e_pre_last_node_len = n_of_int pl; e_pre_last_tagCodePage = n_of_int ptc; e_pre_last_attrCodePage = n_of_int pac;
      e_pre_last_indent = n_of_int pin; e_pre_last_in_content = b pic;
      e_pre_last_tag = (if ptg = 0 then None else Some (N0, N0)); e_textual_publicid = b tp }
  | _ -> failwith "encoder dump: wrong number of fields"
let dump_enc e =
  String.concat "," (List.map string_of_int
    [(if int_of_n e.e_tree = 0 then 0 else 1); nopt e.e_lang; flag e.e_output; flag e.e_output_header; flag e.e_current_tag;
     int_of_n e.e_current_text_parent; int_of_n e.e_current_attr; int_of_n e.e_current_node; int_of_n e.e_tagCodePage;
     int_of_n e.e_attrCodePage; ib e.e_ignore_empty_text; ib e.e_remove_text_blanks; int_of_n e.e_output_type;
     int_of_n e.e_xml_gen_type; int_of_n e.e_indent_delta; int_of_n e.e_indent; ib e.e_in_content; ib e.e_in_cdata;
     flag e.e_cdata; (match e.e_strstbl with None -> 0 | Some l -> 1 + List.length l); int_of_n e.e_strstbl_len;
     ib e.e_use_strtbl; ib e.e_xml_encode_header; ib e.e_produce_anonymous; int_of_n e.e_wbxml_version;
     int_of_n e.e_output_charset; ib e.e_flow_mode; int_of_n e.e_pre_last_node_len; int_of_n e.e_pre_last_tagCodePage;
     int_of_n e.e_pre_last_attrCodePage; int_of_n e.e_pre_last_indent; ib e.e_pre_last_in_content; flag e.e_pre_last_tag;
     ib e.e_textual_publicid])

let () =
  try while true do
    let line = input_line stdin in
    (try match split_line line with
     | ["pcreate"] -> print_endline (dump_parser parser_create)
     | ["preinit"; d] -> print_endline (dump_parser (parser_reinit (parser_of (ints d))))
     (* a fresh parser on which the harness' settings were made: user_data / handler set (1), language, meta charset *)
     | ["pfresh"; d] ->
       let p = parser_of (ints d) in print_endline (dump_parser (parser_fresh (p_settings p)))
     | ["ecreate"] -> print_endline (dump_enc enc_create)
     | ["ereset"; d] -> print_endline (dump_enc (enc_reset (enc_of (ints d))))
     | ["ereset_fixed"; d] -> print_endline (dump_enc (enc_reset_fixed (enc_of (ints d))))
     (* settings stored by set_output_type + encoder_encode_tree's prologue; "badparam" when neither side has a
        language; "mustfail" when the WBXML run starts with a NULL string-table list and the table switched on *)
     | ["ederive"; d; tl; tc; ot] ->
       let e = enc_of (ints d) in
       let s2 = es_apply (e_settings e) (ESetOutputType (n_of_int (int_of_string ot))) in
       let tlang = optn (int_of_string tl) in
       (match s2.es_lang, tlang with
        | None, None -> print_endline ("badparam " ^ dump_enc (e_make s2 (e_runstate e)))
        | _ ->
          let s3 = enc_derive s2 tlang (n_of_int (int_of_string tc)) in
          let mustfail = int_of_n s3.es_output_type = int_of_n oUT_WBXML && s3.es_use_strtbl && e.e_strstbl = None in
          print_endline ((if mustfail then "mustfail " else "run ") ^ dump_enc (e_make s3 (e_runstate e))))
     | _ -> print_endline "bad"
    with Failure m -> print_endline ("bad " ^ m))
  done with End_of_file -> ()
