(* C06 model driver.
   One line in:  <version> <use_strtbl> <keep_ws> <anonymous> <tree dump as printed by harness/c06_harness.c>
   One line out: W OK <hex> | W ERR <code> | bad <why>
   The tree is the C's own tree (Expat is an oracle); the bytes come from the extracted enc_wbxml. *)
open Model
open Conv

exception Bad of string

let toks = ref [||]
let pos = ref 0
let next () =
  if !pos >= Array.length !toks then raise (Bad "eof");
  let t = !toks.(!pos) in incr pos; t
let next_int () = let t = next () in try int_of_string t with _ -> raise (Bad ("int " ^ t))
let next_n () = n_of_int (next_int ())
let next_hex () = bytes_of_hex (next ())

let rec rep n f = if n <= 0 then [] else let x = f () in x :: rep (n - 1) f

let rec p_node () : node =
  match next () with
  | "E" ->
    let tag = (match next () with
        | "t" -> let p = next_n () in let t = next_n () in let o = next_n () in let nm = next_hex () in TagTok (p, t, o, nm)
        | "l" -> TagLit (next_hex ())
        | x -> raise (Bad ("tag " ^ x))) in
    let na = next_int () in
    if na = 0 then raise (Bad "empty non-NULL attribute list");
    let attrs = rep na (fun () ->
        match next () with
        | "t" ->
          let p = next_n () in let t = next_n () in let nm = next_hex () in
          let v = (match next () with "~" -> None | h -> Some (bytes_of_hex h)) in
          let value = next_hex () in
          { at_name = AttrTok (p, t, nm, v); at_value = value }
        | "l" -> let nm = next_hex () in let value = next_hex () in { at_name = AttrLit nm; at_value = value }
        | x -> raise (Bad ("attr " ^ x))) in
    let nc = next_int () in
    let ch = rep nc p_node in
    NElt (tag, attrs, ch)
  | "T" -> NText (next_hex ())
  | "C" -> let nc = next_int () in NCData (rep nc p_node)
  | "P" -> NPi
  | "R" -> let lid = next_n () in let n = next_int () in NTree (lid, rep n p_node)
  | x -> raise (Bad ("node " ^ x))

let () =
  try while true do
    let line = input_line stdin in
    (try
      toks := Array.of_list (List.filter (fun s -> s <> "") (split_line line));
      pos := 0;
      let textpid = (!toks).(0) = "tp" in
      if textpid then pos := 1;
      let version = next_n () in
      let use_strtbl = next_int () <> 0 in
      let keep_ws = next_int () <> 0 in
      let anon = next_int () <> 0 in
      let lid = next_n () in
      let n = next_int () in
      let roots = rep n p_node in
      if !pos <> Array.length !toks then raise (Bad "trailing tokens");
      (match find_lang main_btable lid with
       | None -> print_endline "bad unknown-language"
       | Some l ->
         let o = { o_version = version; o_use_strtbl = use_strtbl; o_keep_ws = keep_ws; o_anonymous = anon } in
         (match (if textpid then enc_wbxml_textpid else enc_wbxml) main_btable l o roots with
          | EOk b -> Printf.printf "W OK %s\n" (hex_of_bytes b)
          | EErr c -> Printf.printf "W ERR %d\n" (int_of_n c)))
    with Bad why -> Printf.printf "bad %s\n" why
       | Stack_overflow -> print_endline "bad stack-overflow")
  done with End_of_file -> ()
