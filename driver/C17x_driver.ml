(* C17 model driver, XML output: Model/Flow.v instantiated with the REAL per-node XML encoding (Model/FlowEncXml.v over
   Model/EncXml.v; tables = the regenerated main_table in EncXml's form) on the `flow` lines of harness/c17_harness.c.
     flowenc      <langid> X <xmlgen> <pool> <ops>     the code as it is      (x_step)
     flowencfixed <langid> X <xmlgen> <pool> <ops>     the repaired code      (x_step_fixed)
   xmlgen: 0 compact, 1 indent (delta 2, as the harness sets), 2 canonical; +10 = ignore_empty_text and remove_text_blanks.
   Answer: per op  <err 0|1>:<has header>:<body hex>:0.0.<indent>.<in_content>  joined by '|', then " S=<spec body hex>".
   Anything it cannot read is answered "skip". *)
open Model
open Conv

exception Unsupported

let find_xlang (id : int) : xlang option = List.find_opt (fun l -> int_of_n l.xl_id = id) xmain_table

let nth_row (l : 'a list) (i : int) : 'a = match List.nth_opt l i with Some r -> r | None -> raise Unsupported

let parse_xpool (lang : xlang) (spec : string) : node array =
  let parse_one part =
    let toks = Array.of_list (String.split_on_char '.' part) in
    let pos = ref 0 in
    let peek () = if !pos < Array.length toks then toks.(!pos) else "" in
    let rest t = String.sub t 1 (String.length t - 1) in
    let rec kids (l : xlang) : node list =
      if peek () = "(" then begin
        incr pos;
        let acc = ref [] in
        while !pos < Array.length toks && peek () <> ")" do acc := node l :: !acc done;
        incr pos;
        List.rev !acc
      end else []
    and node (l : xlang) : node =
      let t = toks.(!pos) in
      incr pos;
      if t = "" then raise Unsupported;
      match t.[0] with
      | 'x' -> Text (bytes_of_hex (rest t))
      | 'c' -> CData (kids l)
      | 't' ->
        (match find_xlang (int_of_string (rest t)) with
         | None -> raise Unsupported
         | Some sl -> (match kids sl with [r] -> SubTree (Some sl, [r]) | _ -> raise Unsupported))
      | 'e' | 'l' ->
        let nm = if t.[0] = 'e' then TTok (nth_row l.xl_tags (int_of_string (rest t))) else TLit (bytes_of_hex (rest t)) in
        let attrs = ref [] in
        while peek () <> "" && (peek ()).[0] = 'a' do
          let a = peek () in
          incr pos;
          let e = String.index a '=' in
          let r = nth_row l.xl_attrs (int_of_string (String.sub a 1 (e - 1))) in
          let v = bytes_of_hex (String.sub a (e + 1) (String.length a - e - 1)) in
          attrs := { at_name = ATok r; at_value = Some v } :: !attrs
        done;
        let ch = kids l in
        Elt (nm, List.rev !attrs, ch)
      | _ -> raise Unsupported in
    node lang in
  Array.of_list (List.map parse_one (String.split_on_char '/' spec))

let run fixed lang xmlgen pool_s ops_s =
  match find_xlang lang with
  | None -> print_endline "skip"
  | Some l ->
    (try
      let pool = parse_xpool l pool_s in
      let strip = xmlgen >= 10 in
      let g = (match xmlgen mod 10 with 0 -> Compact | 1 -> Indent | 2 -> Canonical | _ -> raise Unsupported) in
      let o = { o_gen = g; o_delta = n_of_int 2; o_ignore_empty = strip; o_remove_blanks = strip } in
      let ops = List.map (fun op ->
          let k () = let e = try String.index op ',' with Not_found -> String.length op in int_of_string (String.sub op 1 (e - 1)) in
          let c () = let e = String.index op ',' in String.sub op (e + 1) (String.length op - e - 1) <> "0" in
          match op.[0] with
          | 'N' -> Node pool.(k ())
          | 'S' -> (match pool.(k ()) with Elt (_, _, _) as n -> EltStart (n, c ()) | _ -> raise Unsupported)
          | 'F' -> (match pool.(k ()) with Elt (_, _, _) as n -> EltEnd (n, c ()) | _ -> raise Unsupported)
          | 'D' -> DeleteLast
          | 'G' -> GetOutput
          | _ -> raise Unsupported) (if ops_s = "" then [] else String.split_on_char ';' ops_s) in
      let step = if fixed then x_step_fixed l o else x_step l o in
      let s = ref x_init in
      let b = Buffer.create 256 in
      List.iteri (fun i op ->
          let err = (match op with
              | Node n -> (match enc_node l o proot (xs_of !s.cx) n with XOk _ -> 0 | XErr _ -> 1)
              | _ -> 0) in
          s := step !s op;
          if i > 0 then Buffer.add_char b '|';
          let cx = !s.cx in
          Buffer.add_string b (Printf.sprintf "%d:%d:%s:0.0.%d.%d" err (match !s.hdr with Some _ -> 1 | None -> 0)
                                 (hex_of_bytes !s.out) (int_of_n cx.x_indent) (if cx.x_in_content then 1 else 0))) ops;
      let spec = x_spec_output l o ops in
      let hl = (match !s.hdr with Some h -> List.length h | None -> 0) in
      let rec drop n l = if n <= 0 then l else match l with [] -> [] | _ :: r -> drop (n - 1) r in
      Buffer.add_string b (Printf.sprintf " S=%s" (hex_of_bytes (drop hl spec)));
      print_endline (Buffer.contents b)
    with Unsupported | Not_found | Invalid_argument _ | Failure _ -> print_endline "skip")

let () =
  try while true do
    let line = input_line stdin in
    (match split_line line with
     | ["flowenc"; lg; "X"; g; pool; ops] -> run false (int_of_string lg) (int_of_string g) pool ops
     | ["flowencfixed"; lg; "X"; g; pool; ops] -> run true (int_of_string lg) (int_of_string g) pool ops
     | _ -> print_endline "skip")
  done with End_of_file -> ()
