(* C17 model driver: the concrete instance of Model/Flow.v (token tags, SWITCH_PAGE, inline strings) on the `flow`
   lines of harness/c17_harness.c that lie in the subset it covers (WBXML output; pool nodes = elements with token
   tags and no attributes, text nodes).  Anything else is answered "skip".
     flow      <langid> W <xmlgen> <pool> <ops>   the code as it is      (step)
     flowfixed <langid> W <xmlgen> <pool> <ops>   the repaired code      (step_fixed)
   Answer: per op  0:<has header 0|1>:<body hex>:<tagCP>.<attrCP>.0.0  joined by '|' (indent and in_content stay 0 in WBXML output), then " S=<spec body hex> safe=<0|1>".
   Tag tables from $C18_TABLES (same file as the C18 driver).

   The instance with the REAL per-node WBXML encoding (Model/FlowEnc.v over Model/EncWbxml.v, tables = the extracted
   main_btable), every language and every pool shape of the harness (attributes, literal tags, CDATA, embedded trees):
     flowenc      <langid> W <xmlgen> <pool> <ops>     the code as it is      (w_step)
     flowencfixed <langid> W <xmlgen> <pool> <ops>     the repaired code      (w_step_fixed)
   Answer: per op  <err>:<has header>:<body hex>:<tagCP>.<attrCP>.0.0.<current tag page,token or ->  then " S=<spec body hex>";
   err = the error code EncWbxml gives for that operation on the current context (0 = OK; the flow model treats a failing encode as a no-op). *)
open Model
open Conv

let tags : (int, (int * int) array) Hashtbl.t = Hashtbl.create 64

let load_tables () =
  match Sys.getenv_opt "C18_TABLES" with
  | None -> ()
  | Some path ->
    let ic = open_in path in
    let cur = ref (-1) and acc = ref [] in
    let flush () = if !cur >= 0 then Hashtbl.replace tags !cur (Array.of_list (List.rev !acc)) in
    (try while true do
       match split_line (input_line ic) with
       | ["lang"; i] -> flush (); cur := int_of_string i; acc := []
       | ["tag"; _; p; t] -> acc := (int_of_string p, int_of_string t) :: !acc
       | _ -> ()
     done with End_of_file -> ());
    flush (); close_in ic

exception Unsupported

let parse_pool (tg : (int * int) array) (spec : string) : cnode array =
  let parse_one part =
    let toks = Array.of_list (String.split_on_char '.' part) in
    let pos = ref 0 in
    let rec node () : cnode =
      let t = toks.(!pos) in
      incr pos;
      if t.[0] = 'x' then CText (bytes_of_hex (String.sub t 1 (String.length t - 1)))
      else if t.[0] = 'e' then begin
        let (p, k) = tg.(int_of_string (String.sub t 1 (String.length t - 1))) in
        if !pos < Array.length toks && toks.(!pos).[0] = 'a' then raise Unsupported;
        let kids = ref [] in
        if !pos < Array.length toks && toks.(!pos) = "(" then begin
          incr pos;
          while !pos < Array.length toks && toks.(!pos) <> ")" do kids := node () :: !kids done;
          incr pos
        end;
        CElt (n_of_int p, n_of_int k, List.rev !kids)
      end else raise Unsupported in
    node () in
  Array.of_list (List.map parse_one (String.split_on_char '/' spec))

let run_flow fixed lang pool_s ops_s =
  match Hashtbl.find_opt tags lang with
  | None -> print_endline "skip"
  | Some tg ->
    (try
      let pool = parse_pool tg pool_s in
      let ops = List.map (fun o ->
          let k () = let e = try String.index o ',' with Not_found -> String.length o in int_of_string (String.sub o 1 (e - 1)) in
          let c () = let e = String.index o ',' in String.sub o (e + 1) (String.length o - e - 1) <> "0" in
          match o.[0] with
          | 'N' -> Node pool.(k ())
          | 'S' -> EltStart (pool.(k ()), c ())
          | 'F' -> EltEnd (pool.(k ()), c ())
          | 'D' -> DeleteLast
          | 'G' -> GetOutput
          | _ -> raise Unsupported) (if ops_s = "" then [] else String.split_on_char ';' ops_s) in
      let step = if fixed then c_step_fixed [] else c_step [] in
      let s = ref c_init in
      let b = Buffer.create 256 in
      List.iteri (fun i o ->
          s := step !s o;
          if i > 0 then Buffer.add_char b '|';
          let (tp, ap) = !s.cx in
          Buffer.add_string b (Printf.sprintf "0:%d:%s:%d.%d.0.0" (match !s.hdr with Some _ -> 1 | None -> 0)
                                 (hex_of_bytes !s.out) (int_of_n tp) (int_of_n ap))) ops;
      Buffer.add_string b (Printf.sprintf " S=%s safe=%d" (hex_of_bytes (c_spec_output [] ops)) (if c_safe ops then 1 else 0));
      print_endline (Buffer.contents b)
    with Unsupported | Not_found | Invalid_argument _ | Failure _ -> print_endline "skip")

(* ---- the real encoder ---- *)

let nth_row (o : 'a list option) (i : int) : 'a =
  match o with Some l -> (match List.nth_opt l i with Some r -> r | None -> raise Unsupported) | None -> raise Unsupported

let parse_wpool (lang : blang) (spec : string) : node array =
  let parse_one part =
    let toks = Array.of_list (String.split_on_char '.' part) in
    let pos = ref 0 in
    let peek () = if !pos < Array.length toks then toks.(!pos) else "" in
    let rest t = String.sub t 1 (String.length t - 1) in
    let rec kids (l : blang) : node list =
      if peek () = "(" then begin
        incr pos;
        let acc = ref [] in
        while !pos < Array.length toks && peek () <> ")" do acc := node l :: !acc done;
        incr pos;
        List.rev !acc
      end else []
    and node (l : blang) : node =
      let t = toks.(!pos) in
      incr pos;
      if t = "" then raise Unsupported;
      match t.[0] with
      | 'x' -> NText (bytes_of_hex (rest t))
      | 'c' -> NCData (kids l)
      | 't' ->
        let lid = n_of_int (int_of_string (rest t)) in
        (match find_lang main_btable lid with
         | None -> raise Unsupported
         | Some sl -> (match kids sl with [r] -> NTree (lid, [r]) | _ -> raise Unsupported))
      | 'e' | 'l' ->
        let tag =
          if t.[0] = 'e' then
            let r = nth_row l.bl_tags (int_of_string (rest t)) in TagTok (r.bt_page, r.bt_tok, r.bt_opts, r.bt_name)
          else TagLit (bytes_of_hex (rest t)) in
        let attrs = ref [] in
        while peek () <> "" && (peek ()).[0] = 'a' do
          let a = peek () in
          incr pos;
          let e = String.index a '=' in
          let r = nth_row l.bl_attrs (int_of_string (String.sub a 1 (e - 1))) in
          let v = bytes_of_hex (String.sub a (e + 1) (String.length a - e - 1)) in
          attrs := { at_name = AttrTok (r.ba_page, r.ba_tok, r.ba_name, r.ba_value); at_value = v } :: !attrs
        done;
        let ch = kids l in
        NElt (tag, List.rev !attrs, ch)
      | _ -> raise Unsupported in
    node lang in
  Array.of_list (List.map parse_one (String.split_on_char '/' spec))

let run_flowenc fixed lang xmlgen pool_s ops_s =
  match find_lang main_btable (n_of_int lang) with
  | None -> print_endline "skip"
  | Some l ->
    (try
      let pool = parse_wpool l pool_s in
      let strip = xmlgen >= 10 in
      let e = flow_env l strip strip (n_of_int 3) in
      let ops = List.map (fun o ->
          let k () = let e = try String.index o ',' with Not_found -> String.length o in int_of_string (String.sub o 1 (e - 1)) in
          let c () = let e = String.index o ',' in String.sub o (e + 1) (String.length o - e - 1) <> "0" in
          match o.[0] with
          | 'N' -> Node pool.(k ())
          | 'S' -> EltStart (pool.(k ()), c ())
          | 'F' -> EltEnd (pool.(k ()), c ())
          | 'D' -> DeleteLast
          | 'G' -> GetOutput
          | _ -> raise Unsupported) (if ops_s = "" then [] else String.split_on_char ';' ops_s) in
      let step = if fixed then w_step_fixed main_btable e else w_step main_btable e in
      let s = ref w_init in
      let b = Buffer.create 256 in
      List.iteri (fun i o ->
          let err = (match o with
              | Node n -> (match parse_node main_btable e None n (st_of !s.cx) with EOk _ -> 0 | EErr c -> int_of_n c)
              | EltStart (NElt (tag, attrs, _), c) ->
                (match enc_element_start e (st_of !s.cx) tag attrs c with EOk _ -> 0 | EErr c -> int_of_n c)
              | EltStart (_, _) | EltEnd (NText _, _) | EltEnd (NCData _, _) | EltEnd (NPi, _) | EltEnd (NTree (_, _), _) -> raise Unsupported
              | _ -> 0) in
          s := step !s o;
          if i > 0 then Buffer.add_char b '|';
          let cx = !s.cx in
          Buffer.add_string b (Printf.sprintf "%d:%d:%s:%d.%d.0.0.%s" err (match !s.hdr with Some _ -> 1 | None -> 0)
                                 (hex_of_bytes !s.out) (int_of_n cx.w_tagcp) (int_of_n cx.w_attrcp)
                                 (match cx.w_cur_tag with Some ((p, t), _) -> Printf.sprintf "%d,%d" (int_of_n p) (int_of_n t) | None -> "-"))) ops;
      let spec = w_spec_output main_btable e ops in
      let hl = (match !s.hdr with Some h -> List.length h | None -> 0) in
      let rec drop n l = if n <= 0 then l else match l with [] -> [] | _ :: r -> drop (n - 1) r in
      Buffer.add_string b (Printf.sprintf " S=%s" (hex_of_bytes (drop hl spec)));
      print_endline (Buffer.contents b)
    with Unsupported | Not_found | Invalid_argument _ | Failure _ -> print_endline "skip")

let () =
  load_tables ();
  try while true do
    let line = input_line stdin in
    (match split_line line with
     | ["flow"; lg; "W"; _; pool; ops] -> run_flow false (int_of_string lg) pool ops
     | ["flowfixed"; lg; "W"; _; pool; ops] -> run_flow true (int_of_string lg) pool ops
     | ["flow"; lg; "W"; _; pool] -> run_flow false (int_of_string lg) pool ""
     | ["flowenc"; lg; "W"; g; pool; ops] -> run_flowenc false (int_of_string lg) (int_of_string g) pool ops
     | ["flowencfixed"; lg; "W"; g; pool; ops] -> run_flowenc true (int_of_string lg) (int_of_string g) pool ops
     | _ -> print_endline "skip")
  done with End_of_file -> ()
