(* C17 model driver: the concrete instance of Model/Flow.v (token tags, SWITCH_PAGE, inline strings) on the `flow`
   lines of harness/c17_harness.c that lie in the subset it covers (WBXML output; pool nodes = elements with token
   tags and no attributes, text nodes).  Anything else is answered "skip".
     flow      <langid> W <xmlgen> <pool> <ops>   the code as it is      (step)
     flowfixed <langid> W <xmlgen> <pool> <ops>   the repaired code      (step_fixed)
   Answer: per op  0:<has header 0|1>:<body hex>:<tagCP>.<attrCP>.0.0  joined by '|' (indent and in_content stay 0 in WBXML output), then " S=<spec body hex> safe=<0|1>".
   Tag tables from $C18_TABLES (same file as the C18 driver). *)
open Model
open Conv

let tags : (int, (int * int) array) Hashtbl.t = Hashtbl.create 64

let load_tables () =
  match Sys.getenv_opt "C18_TABLES" with
  | None -> ()
  | Some path ->
    let ic = open_in path in
    let cur = ref (-1) and acc = ref [] in
    let flush () = if !cur >= 0 then Hashtbl.replace tags !cur (Array.of_list (List.rev !acc)) in
    (try while true do
       match split_line (input_line ic) with
       | ["lang"; i] -> flush (); cur := int_of_string i; acc := []
       | ["tag"; _; p; t] -> acc := (int_of_string p, int_of_string t) :: !acc
       | _ -> ()
     done with End_of_file -> ());
    flush (); close_in ic

exception Unsupported

let parse_pool (tg : (int * int) array) (spec : string) : cnode array =
  let parse_one part =
    let toks = Array.of_list (String.split_on_char '.' part) in
    let pos = ref 0 in
    let rec node () : cnode =
      let t = toks.(!pos) in
      incr pos;
      if t.[0] = 'x' then CText (bytes_of_hex (String.sub t 1 (String.length t - 1)))
      else if t.[0] = 'e' then begin
        let (p, k) = tg.(int_of_string (String.sub t 1 (String.length t - 1))) in
        if !pos < Array.length toks && toks.(!pos).[0] = 'a' then raise Unsupported;
        let kids = ref [] in
        if !pos < Array.length toks && toks.(!pos) = "(" then begin
          incr pos;
          while !pos < Array.length toks && toks.(!pos) <> ")" do kids := node () :: !kids done;
          incr pos
        end;
        CElt (n_of_int p, n_of_int k, List.rev !kids)
      end else raise Unsupported in
    node () in
  Array.of_list (List.map parse_one (String.split_on_char '/' spec))

let run_flow fixed lang pool_s ops_s =
  match Hashtbl.find_opt tags lang with
  | None -> print_endline "skip"
  | Some tg ->
    (try
      let pool = parse_pool tg pool_s in
      let ops = List.map (fun o ->
          let k () = let e = try String.index o ',' with Not_found -> String.length o in int_of_string (String.sub o 1 (e - 1)) in
          let c () = let e = String.index o ',' in String.sub o (e + 1) (String.length o - e - 1) <> "0" in
          match o.[0] with
          | 'N' -> Node pool.(k ())
          | 'S' -> EltStart (pool.(k ()), c ())
          | 'F' -> EltEnd (pool.(k ()), c ())
          | 'D' -> DeleteLast
          | 'G' -> GetOutput
          | _ -> raise Unsupported) (if ops_s = "" then [] else String.split_on_char ';' ops_s) in
      let step = if fixed then c_step_fixed [] else c_step [] in
      let s = ref c_init in
      let b = Buffer.create 256 in
      List.iteri (fun i o ->
          s := step !s o;
          if i > 0 then Buffer.add_char b '|';
          let (tp, ap) = !s.cx in
          Buffer.add_string b (Printf.sprintf "0:%d:%s:%d.%d.0.0" (match !s.hdr with Some _ -> 1 | None -> 0)
                                 (hex_of_bytes !s.out) (int_of_n tp) (int_of_n ap))) ops;
      Buffer.add_string b (Printf.sprintf " S=%s safe=%d" (hex_of_bytes (c_spec_output [] ops)) (if c_safe ops then 1 else 0));
      print_endline (Buffer.contents b)
    with Unsupported | Not_found | Invalid_argument _ | Failure _ -> print_endline "skip")

let () =
  load_tables ();
  try while true do
    let line = input_line stdin in
    (match split_line line with
     | ["flow"; lg; "W"; _; pool; ops] -> run_flow false (int_of_string lg) pool ops
     | ["flowfixed"; lg; "W"; _; pool; ops] -> run_flow true (int_of_string lg) pool ops
     | ["flow"; lg; "W"; _; pool] -> run_flow false (int_of_string lg) pool ""
     | _ -> print_endline "skip")
  done with End_of_file -> ()
