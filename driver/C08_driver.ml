(* C08/C09 model driver: same line protocol as harness/c08_lookup.c, answers computed by the
   extracted Model/Tables.v over the extracted Gen/TablesData.v *)
open Model
open Conv

let bit b i = (b lsr i) land 1 = 1
let ascii_of_char (c : char) : ascii =
  let b = Char.code c in Ascii (bit b 0, bit b 1, bit b 2, bit b 3, bit b 4, bit b 5, bit b 6, bit b 7)
let char_of_ascii (Ascii (a, b, c, d, e, f, g, h)) : char =
  let v x i = if x then 1 lsl i else 0 in
  Char.chr (v a 0 + v b 1 + v c 2 + v d 3 + v e 4 + v f 5 + v g 6 + v h 7)
let coq_of_str (s : String.t) : string =
  let r = ref EmptyString in
  for i = String.length s - 1 downto 0 do r := String (ascii_of_char s.[i], !r) done; !r
let rec str_of_coq (s : string) : String.t =
  let b = Buffer.create 16 in
  let rec go = function EmptyString -> () | String (c, r) -> Buffer.add_char b (char_of_ascii c); go r in
  go s; Buffer.contents b
let hex_of_str (s : String.t) : String.t =
  if s = "" then "-" else String.concat "" (List.map (fun c -> Printf.sprintf "%02x" (Char.code c)) (List.init (String.length s) (String.get s)))
let str_of_hex (h : String.t) : String.t =
  if h = "-" then "" else String.init (String.length h / 2) (fun i -> Char.chr (hexv h.[2*i] * 16 + hexv h.[2*i+1]))
let hx s = hex_of_str (str_of_coq s)
let hxo = function None -> "~" | Some s -> hx s

let () =
  try while true do
    let line = input_line stdin in
    let toks = split_line line in
    let lang = match toks with "s" :: _ -> None | _ :: id :: _ -> get_table main_table (n_of_int (int_of_string id)) | _ -> None in
    (match toks, lang with
     | ["s"; a; b; c], _ ->
       let o h = if h = "~" then None else Some (coq_of_str (str_of_hex h)) in
       (match search_table main_table (o a) (o b) (o c) with
        | Some l -> Printf.printf "%d\n" (int_of_n l.l_id) | None -> print_endline "none")
     | ["g"; _], None -> print_endline "none"
     | _, None -> print_endline "nolang"
     | ["g"; id], Some l ->
       let rec idx i = function [] -> -1 | x :: r -> if x == l then i else idx (i + 1) r in
       Printf.printf "%d\n" (idx 0 main_table)
     | ["T"; _; p], Some l ->
       let page = n_of_int (int_of_string p) in
       let f b = match tag_of_byte l page (n_of_int b) with
         | NoTable -> "notable" | Unknown -> "?" | Found r -> hx r.t_name ^ ":" ^ string_of_int (int_of_n r.t_opts) in
       print_endline (String.concat " " (List.init 256 f))
     | ["A"; _; p], Some l ->
       let page = n_of_int (int_of_string p) in
       let f b = if b = 0 || b = 4 then "!" else match attr_of_token l page (n_of_int b) with
         | NoTable -> "notable" | Unknown -> "?" | Found r -> hx r.a_name ^ "=" ^ hxo r.a_value in
       print_endline (String.concat " " (List.init 256 f))
     | ["V"; _; p], Some l ->
       let page = n_of_int (int_of_string p) in
       let f b = if is_global (n_of_int b) then "!" else match val_of_token l page (n_of_int b) with
         | NoTable -> "notable" | Unknown -> "?" | Found r -> hx r.v_name in
       print_endline (String.concat " " (List.init 256 f))
     | ["E"; _; v], Some l ->
       let v = int_of_string v in
       if v > 255 then print_endline "!" else
       (match ext_of_token l (n_of_int v) with
        | NoTable -> print_endline "notable" | Unknown -> print_endline "?" | Found r -> print_endline (hx r.e_name))
     | ["t"; _; cur; name], Some l ->
       let c = int_of_string cur in
       let cur = if c < 0 then None else Some (n_of_int c) in
       (match tag_from_xml l cur (coq_of_str (str_of_hex name)) with
        | Some r -> Printf.printf "%d %d %s\n" (int_of_n r.t_page) (int_of_n r.t_tok) (hx r.t_name)
        | None -> print_endline "none")
     | ["a"; _; name; value], Some l ->
       let v = if value = "~" then None else Some (coq_of_str (str_of_hex value)) in
       (match attr_from_xml l (coq_of_str (str_of_hex name)) v with
        | (Some r, left) -> Printf.printf "%d %d %s %s %s\n" (int_of_n r.a_page) (int_of_n r.a_tok) (hx r.a_name) (hxo r.a_value) (hxo left)
        | (None, _) -> print_endline "none")
     | ["e"; _; value], Some l ->
       (match ext_from_xml l (coq_of_str (str_of_hex value)) with
        | Some r -> Printf.printf "%d\n" (int_of_n r.e_tok) | None -> print_endline "none")
     | ["c"; _; value], Some l -> print_endline (if contains_attr_value l (coq_of_str (str_of_hex value)) then "1" else "0")
     | ["n"; _; p], Some l ->
       (match xmlns_of_page l (n_of_int (int_of_string p)) with Some s -> print_endline (hx s) | None -> print_endline "none")
     | ["p"; _; ns], Some l -> Printf.printf "%d\n" (int_of_n (page_of_xmlns l (coq_of_str (str_of_hex ns))))
     | _ -> print_endline "bad")
  done with End_of_file -> ()
