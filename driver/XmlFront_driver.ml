(* XML front-end model driver (Model/XmlFront.v).
   One line in:  <input hex> <expat status 0|1> <nsub> { <embedded document hex> <OK <lang> <n> node* | ERR <code>> }*nsub <events>
                 (events and tree dumps in the notation of harness/xmlfront_harness.c)
   One line out: T OK <charset> <lang> <n> node*   |   T ERR <code>   |   NEED <embedded document hex>   |   bad <why>
   The nested wbxml_tree_from_xml (parameter `sub` of the model) is answered from the table on the line; when the model
   asks for a document that is not in the table the driver prints NEED and the runner supplies the C's answer for it
   (and corresponds that nested document on its own). *)
exception Bad of string
open Model
open Conv

let toks = ref [||]
let pos = ref 0
let more () = !pos < Array.length !toks
let next () =
  if !pos >= Array.length !toks then raise (Bad "eof");
  let t = !toks.(!pos) in incr pos; t
let next_int () = let t = next () in try int_of_string t with _ -> raise (Bad ("int " ^ t))
let next_n () = n_of_int (next_int ())
let next_hex () = bytes_of_hex (next ())
let next_ohex () = match next () with "~" -> None | h -> Some (bytes_of_hex h)

let rec rep n f = if n <= 0 then [] else let x = f () in x :: rep (n - 1) f

let rec p_node () : node =
  match next () with
  | "E" ->
    let tag = (match next () with
        | "t" -> let p = next_n () in let t = next_n () in let o = next_n () in let nm = next_hex () in TagTok (p, t, o, nm)
        | "l" -> TagLit (next_hex ())
        | x -> raise (Bad ("tag " ^ x))) in
    let na = next_int () in
    let attrs = rep na (fun () ->
        match next () with
        | "t" ->
          let p = next_n () in let t = next_n () in let nm = next_hex () in
          let v = next_ohex () in
          let value = next_hex () in
          { at_name = AttrTok (p, t, nm, v); at_value = value }
        | "l" -> let nm = next_hex () in let value = next_hex () in { at_name = AttrLit nm; at_value = value }
        | x -> raise (Bad ("attr " ^ x))) in
    let nc = next_int () in
    let ch = rep nc p_node in
    NElt (tag, attrs, ch)
  | "T" -> NText (next_hex ())
  | "C" -> let nc = next_int () in NCData (rep nc p_node)
  | "P" -> NPi
  | "R" -> let lid = next_n () in let n = next_int () in NTree (lid, rep n p_node)
  | x -> raise (Bad ("node " ^ x))

let p_event () : event =
  match next () with
  | "X" -> let v = next_ohex () in let e = next_ohex () in EvXmlDecl (v, e)
  | "D" -> let n = next_hex () in let s = next_ohex () in let p = next_ohex () in EvStartDoctype (n, s, p)
  | "S" ->
    let n = next_hex () in let idx = next_n () in let na = next_int () in
    let attrs = rep na (fun () -> let a = next_hex () in let v = next_hex () in (a, v)) in
    EvStartElement (n, attrs, idx)
  | "E" -> let n = next_hex () in let idx = next_n () in EvEndElement (n, idx)
  | "C" -> EvCharacters (next_hex ())
  | "[" -> EvStartCdata
  | "]" -> EvEndCdata
  | "P" -> let t = next_hex () in let d = next_hex () in EvPi (t, d)
  | x -> raise (Bad ("event " ^ x))

(* printing: iterative over siblings, recursive over depth (bounded by the model's nesting limit + embedded levels) *)
let buf = Buffer.create 65536
let add s = Buffer.add_char buf ' '; Buffer.add_string buf s
let addi i = add (string_of_int i)
let rec pr_node (n : node) : unit =
  match n with
  | NElt (tag, attrs, kids) ->
    add "E";
    (match tag with
     | TagTok (p, t, o, nm) -> add "t"; addi (int_of_n p); addi (int_of_n t); addi (int_of_n o); add (hex_of_bytes nm)
     | TagLit nm -> add "l"; add (hex_of_bytes nm));
    if attrs = [] then add "-1" else begin
      addi (List.length attrs);
      List.iter (fun a ->
          (match a.at_name with
           | AttrTok (p, t, nm, v) ->
             add "t"; addi (int_of_n p); addi (int_of_n t); add (hex_of_bytes nm);
             add (match v with None -> "~" | Some b -> hex_of_bytes b)
           | AttrLit nm -> add "l"; add (hex_of_bytes nm));
          add (hex_of_bytes a.at_value)) attrs
    end;
    addi (List.length kids);
    List.iter pr_node kids
  | NText b -> add "T"; add (hex_of_bytes b)
  | NCData kids -> add "C"; addi (List.length kids); List.iter pr_node kids
  | NPi -> add "P"
  | NTree (lid, roots) -> add "R"; addi (int_of_n lid); addi (List.length roots); List.iter pr_node roots

let () =
  try while true do
    let line = input_line stdin in
    (try
      toks := Array.of_list (List.filter (fun s -> s <> "") (split_line line));
      pos := 0;
      (* LFOLD prefix: the characters callback before the LF-hack fix (Model/XmlFrontLfOld.v) *)
      let old_lf = (Array.length !toks > 0 && !toks.(0) = "LFOLD") in
      if old_lf then begin toks := Array.sub !toks 1 (Array.length !toks - 1) end;
      if !toks.(0) = "V" then begin
        (* events mode:  V <lang> <n> node*   ->   EVS <canonical 0|1> <events of the tree, notation of the harness>
           (canonical: root_canon with no embedded tree accepted) *)
        ignore (next ());
        let lid = next_n () in
        let n = next_int () in
        let roots = rep n p_node in
        (match get_table main_table lid, roots with
         | Some l, [root] ->
           let canon = root_canon l (fun _ _ -> false) root in
           let evs = events_of l root in
           Buffer.clear buf;
           let oh = function None -> "~" | Some b -> hex_of_bytes b in
           List.iter (fun e -> match e with
               | EvXmlDecl (v, e) -> add "X"; add (oh v); add (oh e)
               | EvStartDoctype (nm, s, p) -> add "D"; add (hex_of_bytes nm); add (oh s); add (oh p)
               | EvEndDoctype -> ()
               | EvStartElement (nm, attrs, idx) ->
                 add "S"; add (hex_of_bytes nm); addi (int_of_n idx); addi (List.length attrs);
                 List.iter (fun (a, v) -> add (hex_of_bytes a); add (hex_of_bytes v)) attrs
               | EvEndElement (nm, idx) -> add "E"; add (hex_of_bytes nm); addi (int_of_n idx)
               | EvCharacters ch -> add "C"; add (hex_of_bytes ch)
               | EvStartCdata -> add "["
               | EvEndCdata -> add "]"
               | EvPi (t, d) -> add "P"; add (hex_of_bytes t); add (hex_of_bytes d)) evs;
           Printf.printf "EVS %d%s\n" (if canon then 1 else 0) (Buffer.contents buf)
         | _ -> print_endline "EVS 0");
        raise Exit
      end;
      if !toks.(0) = "W" then begin
        (* W <lang> <n> node*   ->   W <root_canon with every embedded tree accepted 0|1> *)
        ignore (next ());
        let lid = next_n () in
        let n = next_int () in
        let roots = rep n p_node in
        (match get_table main_table lid, roots with
         | Some l, [root] -> Printf.printf "W %d\n" (if root_canon l (fun _ _ -> true) root then 1 else 0)
         | _ -> print_endline "W 0");
        raise Exit
      end;
      if !toks.(0) = "K" then begin
        (* clause mode:  K <events>   ->   K <first clause violated, every embedded tree accepted> <the same, none accepted>
           (Model/XmlFrontCanonEvents.evs_clause; 0 = evs_canon holds).  For documents the C accepted: the nested parse
           succeeded, and no clause looks inside an embedded tree, so the nested parse is answered with an empty tree. *)
        ignore (next ());
        let rec evs acc = if more () then evs (p_event () :: acc) else List.rev acc in
        let events = evs [] in
        let sub (_ : n list) = Inl { xt_lang = N0; xt_charset = N0; xt_roots = [] } in
        let k1 = evs_clause main_table sub [n_of_int 60] (fun _ _ -> true) events in
        let k2 = evs_clause main_table sub [n_of_int 60] (fun _ _ -> false) events in
        Printf.printf "K %d %d\n" (int_of_n k1) (int_of_n k2);
        raise Exit
      end;
      if !toks.(0) = "R" then begin
        (* replay mode:  R <nsub> {<doc hex> <answer>}* <events>   ->   Q <error> <skip_lvl> <depth> <pending> <charset> <lang> <n> node* *)
        ignore (next ());
        let nsub = next_int () in
        let subs = Hashtbl.create 8 in
        for _ = 1 to nsub do
          let doc = next () in
          let ans = (match next () with
              | "OK" -> let lid = next_n () in let n = next_int () in
                let roots = rep n p_node in Inl { xt_lang = lid; xt_charset = N0; xt_roots = roots }
              | "ERR" -> Inr (next_n ())
              | x -> raise (Bad ("sub " ^ x))) in
          Hashtbl.replace subs doc ans
        done;
        let rec evs acc = if more () then evs (p_event () :: acc) else List.rev acc in
        let events = evs [] in
        let missing = ref [] in
        let sub (doc : n list) =
          let h = hex_of_bytes doc in
          match Hashtbl.find_opt subs h with
          | Some a -> a
          | None -> missing := h :: !missing; Inr (n_of_int 996) in
        let c = (if old_lf then run_old else run) main_table sub [n_of_int 120] init_ctx events in
        (match !missing with
         | _ :: _ -> Printf.printf "NEED %s\n" (List.hd (List.rev !missing))
         | [] ->
           let t = tree_of_ctx c in
           let pending = (match c.c_spine with
               | f :: _ -> (match f.f_kind with FElt (_, _, Some b) -> List.length b | _ -> -1)
               | [] -> -1) in
           Buffer.clear buf;
           addi (int_of_n c.c_error); addi (int_of_n c.c_skip_lvl); addi (List.length c.c_spine); addi pending;
           addi (int_of_n t.xt_charset); addi (int_of_n t.xt_lang); addi (List.length t.xt_roots);
           List.iter pr_node t.xt_roots;
           Printf.printf "Q%s\n" (Buffer.contents buf));
        raise Exit
      end;
      let input = next_hex () in
      let st = next_int () <> 0 in
      let nsub = next_int () in
      let subs = Hashtbl.create 8 in
      for _ = 1 to nsub do
        let doc = next () in
        let ans = (match next () with
            | "OK" -> let lid = next_n () in let n = next_int () in
              let roots = rep n p_node in Inl { xt_lang = lid; xt_charset = N0; xt_roots = roots }
            | "ERR" -> Inr (next_n ())
            | x -> raise (Bad ("sub " ^ x))) in
        Hashtbl.replace subs doc ans
      done;
      let rec evs acc = if more () then evs (p_event () :: acc) else List.rev acc in
      let events = evs [] in
      let missing = ref [] in
      let sub (doc : n list) =
        let h = hex_of_bytes doc in
        match Hashtbl.find_opt subs h with
        | Some a -> a
        | None -> missing := h :: !missing; Inr (n_of_int 996) in
      let r = (if old_lf then tree_from_xml_old else tree_from_xml) main_table sub input events st in
      (match !missing with
       | h :: _ -> Printf.printf "NEED %s\n" (List.hd (List.rev !missing))
       | [] ->
         (match r with
          | Inl t ->
            Buffer.clear buf;
            addi (int_of_n t.xt_charset); addi (int_of_n t.xt_lang); addi (List.length t.xt_roots);
            List.iter pr_node t.xt_roots;
            Printf.printf "T OK%s\n" (Buffer.contents buf)
          | Inr e -> Printf.printf "T ERR %d\n" (int_of_n e)))
    with Bad why -> Printf.printf "bad %s\n" why
       | Exit -> ()
       | Stack_overflow -> print_endline "bad stack-overflow")
  done with End_of_file -> ()
