(* C18 model driver: same line protocol as harness/c18_harness.c (see there).
   The language tables come from the file named by $C18_TABLES (written by the check from the dump of the
   library compiled from the current tree): lines  lang <id> | tag <namehex> <page> <tok> |
   ns <namehex> <page> | attr <namehex> <valhex or null> <page> <tok>. *)
open Model
open Conv

let langs : (int, tlang) Hashtbl.t = Hashtbl.create 64

let load_tables () =
  match Sys.getenv_opt "C18_TABLES" with
  | None -> ()
  | Some path ->
    let ic = open_in path in
    let cur = ref (-1) and tags = ref [] and ns = ref [] and attrs = ref [] in
    let flush () =
      if !cur >= 0 then
        Hashtbl.replace langs !cur
          { tl_id = n_of_int !cur;
            tl_tags = (if !tags = [] then None else Some (List.rev !tags));
            tl_ns = (if !ns = [] then None else Some (List.rev !ns));
            tl_attrs = (if !attrs = [] then None else Some (List.rev !attrs)) } in
    (try while true do
       let l = input_line ic in
       match split_line l with
       | ["lang"; i] -> flush (); cur := int_of_string i; tags := []; ns := []; attrs := []
       | ["tag"; n; p; t] -> tags := { tg_name = bytes_of_hex n; tg_page = n_of_int (int_of_string p); tg_tok = n_of_int (int_of_string t) } :: !tags
       | ["ns"; n; p] -> ns := { nsr_name = bytes_of_hex n; nsr_page = n_of_int (int_of_string p) } :: !ns
       | ["attr"; n; v; p; t] ->
         attrs := { at_name = bytes_of_hex n; at_val = (if v = "null" then None else Some (bytes_of_hex v));
                    at_page = n_of_int (int_of_string p); at_tok = n_of_int (int_of_string t) } :: !attrs
       | _ -> ()
     done with End_of_file -> ());
    flush (); close_in ic

(* traversal order: the tree, then the detached sub-trees; bounded so that a cyclic graph terminates *)
exception Overflow
let order (c : cstate) : n list =
  let h = c.ts.heap_of in
  let acc = ref [] and cnt = ref 0 in
  let rec collect (cur : n option) =
    match cur with
    | None -> ()
    | Some i ->
      if !cnt >= 4096 then raise Overflow;
      incr cnt; acc := i :: !acc;
      (match h i with
       | None -> ()
       | Some nd -> collect nd.n_children; collect nd.n_next) in
  collect c.ts.root;
  List.iter (fun d -> collect (Some d)) c.det;
  List.rev !acc

let idx_of (ord : n list) (i : n) : int =
  let rec go k = function [] -> -2 | x :: r -> if x = i then k else go (k + 1) r in go 0 ord

let putref ord b = function
  | None -> Buffer.add_string b "-"
  | Some i -> let k = idx_of ord i in if k < 0 then Buffer.add_string b "?" else Buffer.add_string b (string_of_int k)

let dump (c : cstate) : string =
  match (try Some (order c) with Overflow -> None) with
  | None -> "OVERFLOW"
  | Some [] -> "empty"
  | Some ord ->
    let b = Buffer.create 256 in
    let h = c.ts.heap_of in
    List.iteri (fun k i ->
      if k > 0 then Buffer.add_char b ',';
      if idx_of ord i <> k then Buffer.add_string b "DUP";
      match h i with
      | None -> Buffer.add_string b "FREED"
      | Some nd ->
        (match nd.n_data with
         | DElt (tg, ats) ->
           Buffer.add_string b "e:";
           (match tg with
            | TagTok (p, t, nm) -> Buffer.add_string b (Printf.sprintf "t%d.%d.%s" (int_of_n p) (int_of_n t) (hex_of_bytes nm))
            | TagLit nm -> Buffer.add_string b ("l" ^ hex_of_bytes nm));
           List.iter (fun (an, v) ->
             Buffer.add_char b '@';
             (match an with
              | AttrTok (p, t, nm, vo) ->
                Buffer.add_string b (Printf.sprintf "t%d.%d.%s.%s" (int_of_n p) (int_of_n t) (hex_of_bytes nm)
                                       (match vo with None -> "-" | Some x -> hex_of_bytes x))
              | AttrLit nm -> Buffer.add_string b ("l" ^ hex_of_bytes nm));
             Buffer.add_char b '='; Buffer.add_string b (hex_of_bytes v)) ats
         | DText t -> Buffer.add_string b ("x:" ^ hex_of_bytes t)
         | DCdata -> Buffer.add_string b "c:-"
         | DPi -> Buffer.add_string b "p:-"
         | DTree (l, tr) -> Buffer.add_string b (Printf.sprintf "r:%d" (match tr with Some _ -> int_of_n l | None -> -1)));
        Buffer.add_char b ':'; putref ord b nd.n_parent;
        Buffer.add_char b ':'; putref ord b nd.n_children;
        Buffer.add_char b ':'; putref ord b nd.n_prev;
        Buffer.add_char b ':'; putref ord b nd.n_next) ord;
    Buffer.contents b

let rec pairs = function a :: b :: r -> (bytes_of_hex a, bytes_of_hex b) :: pairs r | _ -> []

let nth_opt l k = try Some (List.nth l k) with _ -> None

let run_seq langid ops_s =
  match Hashtbl.find_opt langs langid with
  | None -> print_endline "nolang"
  | Some l ->
    let c = ref init_state in
    let out = Buffer.create 1024 in
    let first = ref true in
    let stuck = ref false in
    let ntrees = ref 0 in
    let ops = if ops_s = "" then [] else String.split_on_char ';' ops_s in
    (try List.iter (fun o ->
      let f = String.split_on_char ',' o in
      let ord = order !c in
      let ref_ s = let k = int_of_string s in if k < 0 then None else nth_opt ord k in
      let some_ref s = match ref_ s with Some i -> i | None -> n_of_int 1000000000 (* never allocated *) in
      let tags = match l.tl_tags with Some t -> t | None -> [] in
      let attrs = match l.tl_attrs with Some t -> t | None -> [] in
      let tag_of k = let r = List.nth tags (int_of_string k) in TagTok (r.tg_page, r.tg_tok, r.tg_name) in
      let residx = ref None in
      let mop : op option =
        match f with
        | "E" :: p :: nm :: _ -> Some (OpAddXmlElt (ref_ p, bytes_of_hex nm, [], []))
        | "A" :: p :: nm :: kv -> Some (OpAddXmlElt (ref_ p, bytes_of_hex nm, pairs kv, []))
        | ["Y"; p; nm; tx] -> Some (OpAddXmlElt (ref_ p, bytes_of_hex nm, [], bytes_of_hex tx))
        | ["G"; p; k] -> Some (OpAddElt (ref_ p, tag_of k, []))
        | ["L"; p; nm] -> Some (OpAddElt (ref_ p, TagLit (bytes_of_hex nm), []))
        | "H" :: p :: k :: av ->
          let rec go = function
            | ai :: v :: r ->
              let i = int_of_string ai in
              let an = if i >= 0 then (let r = List.nth attrs i in AttrTok (r.at_page, r.at_tok, r.at_name, r.at_val))
                       else AttrLit (bytes_of_hex "6b") in
              (an, bytes_of_hex v) :: go r
            | _ -> [] in
          Some (OpAddElt (ref_ p, tag_of k, go av))
        | ["T"; p; tx] -> Some (OpAddText (ref_ p, bytes_of_hex tx))
        | ["C"; p] -> Some (OpAddCdata (ref_ p))
        | ["R"; p; lg; _; _] -> incr ntrees; Some (OpAddTree (ref_ p, n_of_int (int_of_string lg), n_of_int !ntrees))
        | ["ZG"; _; k] -> Some (OpAddNull (DElt (tag_of k, [])))
        | "ZH" :: _ :: k :: _ -> Some (OpAddNull (DElt (tag_of k, [])))
        | ["ZL"; _; nm] -> Some (OpAddNull (DElt (TagLit (bytes_of_hex nm), [])))
        | ["ZT"; _; tx] -> Some (OpAddNull (DText (bytes_of_hex tx)))
        | ["ZC"; _] -> Some (OpAddNull DCdata)
        | ["ZR"; _; _; _; _] -> incr ntrees; Some (OpAddNull (DTree (n_of_int 0, None)))
        | ["B"; i; k; v] -> Some (OpAddAttr (some_ref i, bytes_of_hex k, bytes_of_hex v))
        | ["X"; i] -> Some (OpExtract (some_ref i))
        | ["I"; p; j] -> Some (OpReAdd (ref_ p, some_ref j))
        | ["K"; j] -> Some (OpDestroy (some_ref j))
        | ["N"; i; nm; rc] ->
          (match elt_get_from_name (fuel_of !c.ts) !c.ts.heap_of (ref_ i) (bytes_of_hex nm) (rc <> "0") with
           | TOk None -> residx := Some (-1)
           | TOk (Some x) -> residx := Some (idx_of ord x)
           | _ -> stuck := true);
          None
        | _ -> None in
      let ok =
        match mop with
        | None -> !residx <> None
        | Some m ->
          (match exec l !c m with
           | TOk (c', b) -> c := c'; b
           | TFail -> false
           | TStuck -> stuck := true; false) in
      if not !first then Buffer.add_char out '|';
      first := false;
      Buffer.add_string out (if !stuck then "STUCK" else if ok then "ok" else "fail");
      (match !residx with Some k -> Buffer.add_string out (string_of_int k) | None -> ());
      Buffer.add_char out '#';
      Buffer.add_string out (dump !c);
      if !stuck then raise Exit) ops
     with Exit -> ());
    (* the end of the sequence: everything is destroyed; report how many nodes were released and whether
       the heap is empty afterwards *)
    let nodes = (try List.length (order !c) with Overflow -> -1) in
    (match finish !c with
     | TOk (h, rel) ->
       let live = List.exists (fun i -> h i <> None) (try order !c with Overflow -> []) in
       let sorted = List.sort_uniq compare (List.map int_of_n rel) in
       Buffer.add_string out (Printf.sprintf " F=%d/%d/%d/%s" nodes (List.length rel) (List.length sorted) (if live then "live" else "clean"))
     | _ -> Buffer.add_string out " F=STUCK");
    print_endline (Buffer.contents out)

(* fe <langid> <doc>: the model of the XML front end (Model/TreeGraph.v fe_doc) on a document given as '.'-separated
   tokens:  e<namehex> [a<khex>=<vhex>]* ( item* )  |  x<hex>[+<hex>]*   (a text item and its chunks) *)
let run_fe langid spec =
  match Hashtbl.find_opt langs langid with
  | None -> print_endline "nolang"
  | Some l ->
    let toks = Array.of_list (String.split_on_char '.' spec) in
    let pos = ref 0 in
    let rec item () : xnode =
      let t = toks.(!pos) in
      incr pos;
      if t.[0] = 'x' then XText (List.map bytes_of_hex (String.split_on_char '+' (String.sub t 1 (String.length t - 1))))
      else begin
        let name = bytes_of_hex (String.sub t 1 (String.length t - 1)) in
        let kvs = ref [] in
        while !pos < Array.length toks && String.length toks.(!pos) > 0 && toks.(!pos).[0] = 'a' do
          let a = toks.(!pos) in
          let e = String.index a '=' in
          kvs := (bytes_of_hex (String.sub a 1 (e - 1)), bytes_of_hex (String.sub a (e + 1) (String.length a - e - 1))) :: !kvs;
          incr pos
        done;
        let kids = ref [] in
        if !pos < Array.length toks && toks.(!pos) = "(" then begin
          incr pos;
          while toks.(!pos) <> ")" do kids := item () :: !kids done;
          incr pos
        end;
        XElt (name, List.rev !kvs, List.rev !kids)
      end in
    (try
      let x = item () in
      match fe_doc (nat_of_int (int_of_nat (xsize x) + 3)) l x with
      | TOk (t', Some _) -> print_endline (Printf.sprintf "ok%d#%s" langid (dump { ts = t'; det = [] }))
      | TOk (_, None) -> print_endline "nocurrent"
      | TFail -> print_endline "fail"
      | TStuck -> print_endline "STUCK"
    with _ -> print_endline "bad")

let () =
  load_tables ();
  try while true do
    let line = input_line stdin in
    (match split_line line with
     | ["seq"; lg; _; ops] -> run_seq (int_of_string lg) ops
     | ["seq"; lg; _] -> run_seq (int_of_string lg) ""
     | ["fe"; lg; spec] -> run_fe (int_of_string lg) spec
     | _ -> print_endline "bad")
  done with End_of_file -> ()
