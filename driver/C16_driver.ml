(* C16 driver: the extracted, verified trace checker on the traces recorded by harness/c16_harness.c.
   line:  t <events>   events separated by ',': a<id> | f<id> | u (free of an unknown block) | r<old>:<new> | x
   answer: ok | bad <number of blocks still live, or "discipline"> *)
open Model
open Conv

let ev_of (s : string) : ev option =
  if s = "" then None else
  match s.[0] with
  | 'a' -> Some (EA (n_of_int (int_of_string (String.sub s 1 (String.length s - 1)))))
  | 'f' -> Some (EF (n_of_int (int_of_string (String.sub s 1 (String.length s - 1)))))
  | 'u' -> Some (EF N0)
  | 'x' -> Some EX
  | 'r' ->
    (match String.split_on_char ':' (String.sub s 1 (String.length s - 1)) with
     | [o; n] -> Some (ER (n_of_int (int_of_string o), n_of_int (int_of_string n)))
     | _ -> None)
  | _ -> None

let () =
  try while true do
    let line = input_line stdin in
    (match split_line line with
     | ["t"; evs] ->
       let t = List.filter_map ev_of (String.split_on_char ',' evs) in
       if trace_ok t then print_endline "ok"
       else (match trace_run [] t with
             | Some l -> Printf.printf "bad leaked=%d\n" (List.length l)
             | None -> print_endline "bad discipline")
     | ["t"] -> print_endline "ok"
     | _ -> print_endline "bad input")
  done with End_of_file -> ()
