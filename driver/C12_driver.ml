(* C12 model driver: same line protocol as harness/c12_harness.c and harness/c12_enc_harness.c *)
open Model
open Conv

let errname = function
  | T_BAD_DATETIME -> "BAD_DATETIME" | T_INTERNAL -> "INTERNAL" | T_B64_ENC -> "B64_ENC" | T_B64_DEC -> "B64_DEC"
  | T_WV_DATETIME_FORMAT -> "WV_DATETIME_FORMAT" | T_WV_INTEGER_OVERFLOW -> "WV_INTEGER_OVERFLOW"

let dec = function
  | TOk bs -> Printf.printf "ok %s\n" (hex_of_bytes bs)
  | TErr e -> Printf.printf "err %s\n" (errname e)

let enc = function
  | Emit bs -> Printf.printf "emit %s\n" (hex_of_bytes bs)
  | EInline s -> Printf.printf "emit %s\n" (hex_of_bytes ((n_of_int 3 :: s) @ [n_of_int 0]))
  | ENotEncoded -> print_endline "notenc"
  | EErr e -> Printf.printf "err %s\n" (errname e)

let ni s = n_of_int (int_of_string s)
let nat s = nat_of_int (int_of_string s)

(* the C receives the text as a C string: cut at the first NUL *)
let cstr_of_hex h = cstr (bytes_of_hex h)

(* pattr: one attribute start token, then OPAQUE items / inline strings, up to END; only what the
   generators produce (token < 128 looked up by the harness side; here we only need the value) *)
let () =
  try while true do
    let line = input_line stdin in
    (match split_line line with
     | ["dint"; h] -> dec (dec_wv_int (bytes_of_hex h))
     | ["ddt"; h] -> dec (dec_datetime (bytes_of_hex h))
     | ["dwvdt"; h] -> dec (dec_wv_datetime (bytes_of_hex h))
     | ["db64"; h] -> dec (dec_base64_value (bytes_of_hex h))
     | ["doc"; l; p; t; h] -> dec (decode_opaque_content (ni l) (ni p) (ni t) (bytes_of_hex h))
     | ["doa"; l; h] -> dec (decode_opaque_attr_value (ni l) (bytes_of_hex h))
     | ["dattr"; l; p; t; h] -> dec (decode_attr_value (ni l) (ni p) (ni t) (bytes_of_hex h))
     | ["eint"; h] -> enc (enc_wv_int (cstr_of_hex h))
     | ["edt"; h] -> enc (enc_datetime (cstr_of_hex h))
     | ["ewvdt"; h] -> enc (enc_wv_datetime (cstr_of_hex h))
     | ["ewv"; _; p; t; h] -> enc (enc_wv_content (ni p) (ni t) (cstr_of_hex h))
     | ["edrm"; p; t; h] -> enc (enc_drmrel_content (ni p) (ni t) (cstr_of_hex h))
     | ["eattr"; l; p; t; h] -> enc (enc_attr_value (ni l) (ni p) (ni t) (cstr_of_hex h))
     | ["ebin"; h] -> enc (enc_binary_tag (bytes_of_hex h))
     | ["eb64"; h] -> enc (enc_b64_cstr (bytes_of_hex h))
     (* specification side, used as oracle cross-check against python *)
     | ["spec_canon"; y; mo; d; h; mi; s] -> print_endline (hex_of_bytes (canonical (ni y) (ni mo) (ni d) (ni h) (ni mi) (ni s)))
     | ["spec_render"; t; y; mo; d; h; mi; s] -> print_endline (hex_of_bytes (render (nat t) (ni y) (ni mo) (ni d) (ni h) (ni mi) (ni s)))
     | ["spec_bcd7"; y; mo; d; h; mi; s] -> print_endline (hex_of_bytes (bcd7 (ni y) (ni mo) (ni d) (ni h) (ni mi) (ni s)))
     | ["spec_wvrender"; ws; y; mo; d; h; mi; s; z] -> print_endline (hex_of_bytes (wv_render (ws = "1") (ni y) (ni mo) (ni d) (ni h) (ni mi) (ni s) (ni z)))
     | ["spec_wvoctets"; y; mo; d; h; mi; s; z] -> print_endline (hex_of_bytes (wv_octets (ni y) (ni mo) (ni d) (ni h) (ni mi) (ni s) (ni z)))
     | ["spec_be"; h] -> print_endline (hex_of_bytes (sprintf_u (be_value (bytes_of_hex h))))
     | ["spec_dec"; v] -> print_endline (hex_of_bytes (sprintf_u (ni v)))
     | ["spec_b64"; h] -> print_endline (hex_of_bytes (rfc4648 (bytes_of_hex h)))
     | _ -> print_endline "bad")
  done with End_of_file -> ()
