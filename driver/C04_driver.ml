(* C04 / C13 model driver: same line protocol and event syntax as harness/c04_harness.c *)
open Model
open Conv

let errname = function
  | PE_END_OF_BUFFER -> "END_OF_BUFFER" | PE_UNVALID_MBUINT32 -> "UNVALID_MBUINT32"
  | PE_INVALID_UNICODE -> "INVALID_UNICODE" | PE_EMPTY_WBXML -> "EMPTY_WBXML"
  | PE_CHARSET_NOT_FOUND -> "CHARSET_NOT_FOUND" | PE_STRTBL_LENGTH -> "STRTBL_LENGTH"
  | PE_UNKNOWN_PUBLIC_ID -> "UNKNOWN_PUBLIC_ID" | PE_TAG_TABLE_UNDEFINED -> "TAG_TABLE_UNDEFINED"
  | PE_ATTR_TABLE_UNDEFINED -> "ATTR_TABLE_UNDEFINED"
  | PE_ATTR_VALUE_TABLE_UNDEFINED -> "ATTR_VALUE_TABLE_UNDEFINED"
  | PE_EXT_VALUE_TABLE_UNDEFINED -> "EXT_VALUE_TABLE_UNDEFINED"
  | PE_UNKNOWN_ATTR_VALUE -> "UNKNOWN_ATTR_VALUE" | PE_UNKNOWN_EXTENSION_TOKEN -> "UNKNOWN_EXTENSION_TOKEN"
  | PE_BAD_OPAQUE_LENGTH -> "BAD_OPAQUE_LENGTH" | PE_NULL_STRING_TABLE -> "NULL_STRING_TABLE"
  | PE_INVALID_STRTBL_INDEX -> "INVALID_STRTBL_INDEX" | PE_CHARSET_STR_LEN -> "CHARSET_STR_LEN"
  | PE_NO_CHARSET_CONV -> "NO_CHARSET_CONV" | PE_B64_ENC -> "B64_ENC" | PE_BAD_DATETIME -> "BAD_DATETIME"
  | PE_WV_INTEGER_OVERFLOW -> "WV_INTEGER_OVERFLOW" | PE_WV_DATETIME_FORMAT -> "WV_DATETIME_FORMAT"
  | PE_INTERNAL -> "INTERNAL" | PE_NESTING_TOO_DEEP -> "NESTING_TOO_DEEP"

let s_tag = function
  | TagTok (p, t, n) -> Printf.sprintf "T.%d.%d.%s" (int_of_n p) (int_of_n t) (hex_of_bytes n)
  | TagLit n -> "L." ^ hex_of_bytes n
let s_attrname = function
  | AttrTok (p, t, n) -> Printf.sprintf "T.%d.%d.%s" (int_of_n p) (int_of_n t) (hex_of_bytes n)
  | AttrLit n -> "L." ^ hex_of_bytes n
let s_event = function
  | EvStartDoc (c, l) -> Printf.sprintf "SD:%d:%d" (int_of_n c) (int_of_n l)
  | EvStartElt (t, attrs) ->
    "SE:" ^ s_tag t ^ String.concat "" (List.map (fun (a, v) -> "," ^ s_attrname a ^ "=" ^ hex_of_bytes v) attrs)
  | EvChars b -> "CH:" ^ hex_of_bytes b
  | EvPi (t, d) -> "PI:" ^ hex_of_bytes t ^ ":" ^ hex_of_bytes d
  | EvEndElt t -> "EE:" ^ s_tag t
  | EvEndDoc -> "ED"
let s_events evs = String.concat " " (List.map s_event evs)

(* ---- reader of the textual wdoc form written by vlib/parser_gen.py (wdoc_text) ---- *)
exception Bad of Stdlib.String.t
let n_of s = n_of_int (int_of_string s)
let sw_of s = if s = "-" then None else Some (n_of s)

let rec rd_strlike toks =
  match toks with
  | "S" :: h :: r -> (WStrI (bytes_of_hex h), r)
  | "R" :: i :: r -> (WStrT (n_of i), r)
  | "N" :: c :: r -> (WEntity (n_of c), r)
  | "O" :: h :: r -> (WOpaque (bytes_of_hex h), r)
  | "XI" :: sw :: k :: h :: r -> (WExt (sw_of sw, ExtI (n_of k, bytes_of_hex h)), r)
  | "XT" :: sw :: k :: v :: r -> (WExt (sw_of sw, ExtT (n_of k, n_of v)), r)
  | "XE" :: sw :: k :: r -> (WExt (sw_of sw, ExtE (n_of k)), r)
  | t :: _ -> raise (Bad ("strlike " ^ t))
  | [] -> raise (Bad "strlike eof")

let rec rd_n f n toks = if n = 0 then ([], toks) else
  let (x, r) = f toks in let (l, r') = rd_n f (n - 1) r in (x :: l, r')

let rd_val toks =
  match toks with
  | "V" :: sw :: t :: r -> (WValTok (sw_of sw, n_of t), r)
  | _ -> let (s, r) = rd_strlike toks in (WValStr s, r)

let rd_attr toks =
  let (start, r) = match toks with
    | "AL" :: i :: r -> (AStartLit (n_of i), r)
    | "AT" :: sw :: t :: r -> (AStartTok (sw_of sw, n_of t), r)
    | _ -> raise (Bad "attr") in
  match r with
  | n :: r1 -> let (vs, r2) = rd_n rd_val (int_of_string n) r1 in ({ wa_start = start; wa_vals = vs }, r2)
  | [] -> raise (Bad "attr eof")

let rec rd_item toks =
  match toks with
  | "P" :: r -> let (a, r') = rd_attr r in (WItemPi a, r')
  | "EL" :: _ | "ET" :: _ -> rd_elt toks
  | _ -> let (s, r) = rd_strlike toks in (WItemStr s, r)
and rd_elt toks =
  let (sw, tag, r) = match toks with
    | "EL" :: i :: r -> (None, WTagLit (n_of i), r)
    | "ET" :: sw :: t :: r -> (sw_of sw, WTagTok (n_of t), r)
    | _ -> raise (Bad "elt") in
  match r with
  | n :: r1 ->
    let (attrs, r2) = rd_n rd_attr (int_of_string n) r1 in
    (match r2 with
     | "-" :: r3 -> (WItemElt (sw, tag, attrs, false, []), r3)
     | "C" :: k :: r3 -> let (items, r4) = rd_n rd_item (int_of_string k) r3 in (WItemElt (sw, tag, attrs, true, items), r4)
     | _ -> raise (Bad "content"))
  | [] -> raise (Bad "elt eof")

let rd_doc toks =
  match toks with
  | ver :: pk :: pv :: cs :: tb :: npb :: r ->
    let pub = if pk = "I" then PubIdx (n_of pv) else PubNum (n_of pv) in
    let (pb, r1) = rd_n rd_attr (int_of_string npb) r in
    let (root, r2) = rd_elt r1 in
    (match r2 with
     | npa :: r3 ->
       let (pa, _) = rd_n rd_attr (int_of_string npa) r3 in
       { wd_ver = n_of ver; wd_pub = pub; wd_charset = (if cs = "-" then None else Some (n_of cs));
         wd_strtbl = bytes_of_hex tb; wd_pis_before = pb; wd_root = root; wd_pis_after = pa }
     | [] -> raise (Bad "doc eof"))
  | _ -> raise (Bad "doc")

let find_lang id = List.find_opt (fun l -> int_of_n l.l_id = id) main_table

let out_opt = function Some evs -> print_endline ("ok " ^ s_events evs) | None -> print_endline "none"

(* ---- tree dump (same syntax as harness/c04_harness.c) ---- *)
let rec s_node = function
  | TElt (t, attrs, ch) ->
    Printf.sprintf "E %s %d%s %d%s" (s_tag t) (List.length attrs)
      (String.concat "" (List.map (fun (a, v) -> " " ^ s_attrname a ^ " " ^ hex_of_bytes v) attrs))
      (List.length ch) (String.concat "" (List.map (fun c -> " " ^ s_node c) ch))
  | TText b -> "T " ^ hex_of_bytes b
  | TCData ch -> Printf.sprintf "C %d%s" (List.length ch) (String.concat "" (List.map (fun c -> " " ^ s_node c) ch))
  | TSub (l, cs, root) -> s_root l cs root
and s_root l cs root =
  Printf.sprintf "R %d %d %s" (int_of_n l) (int_of_n cs) (match root with Some n -> "1 " ^ s_node n | None -> "0")

let berrname = function BE_INTERNAL -> "INTERNAL" | BE_NOT_ENOUGH_MEMORY -> "NOT_ENOUGH_MEMORY" | BE_PARSE e -> errname e

let () =
  try while true do
    let line = input_line stdin in
    (match split_line line with
     | ["p"; forced; meta; h] ->
       let bs = bytes_of_hex h in
       (match parse_with main_table (n_of_int (int_of_string forced)) (n_of_int (int_of_string meta))
                (nat_of_int (List.length bs + 1)) bs with
        | POk evs -> print_endline ("ok " ^ s_events evs)
        | PErr e -> print_endline ("err " ^ errname e)
        | PFuel -> print_endline "fuel")
     | ["t"; forced; meta; h] ->
       let bs = bytes_of_hex h in
       (match wbxml_tree_from_wbxml main_table (n_of_int (int_of_string forced)) (n_of_int (int_of_string meta)) bs with
        | BOk t -> print_endline ("ok " ^ s_root t.wt_lang t.wt_charset t.wt_root)
        | BErr e -> print_endline ("err " ^ berrname e ^ " tree=null")
        | BFuel -> print_endline "fuel")
     (* specification side *)
     | "ser" :: toks -> (try print_endline (hex_of_bytes (serialize (rd_doc toks))) with Bad m -> print_endline ("bad " ^ m))
     | "den" :: forced :: _meta :: toks ->
       (try
          let d = rd_doc toks in
          let f = int_of_string forced in
          out_opt (denote_with main_table (if f = 0 then None else find_lang f) d)
        with Bad m -> print_endline ("bad " ^ m))
     | ["strict"; lang; h] -> out_opt (decode_lang main_table (n_of lang) (bytes_of_hex h))
     | ["decode"; h] -> out_opt (decode main_table (bytes_of_hex h))
     | ["unser"; h] -> (match unser (bytes_of_hex h) with Some d -> print_endline ("ok " ^ hex_of_bytes (serialize d)) | None -> print_endline "none")
     | _ -> print_endline "bad")
  done with End_of_file -> ()
