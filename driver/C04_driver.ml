(* C04 / C13 model driver: same line protocol and event syntax as harness/c04_harness.c *)
open Model
open Conv

let errname = function
  | PE_END_OF_BUFFER -> "END_OF_BUFFER" | PE_UNVALID_MBUINT32 -> "UNVALID_MBUINT32"
  | PE_INVALID_UNICODE -> "INVALID_UNICODE" | PE_EMPTY_WBXML -> "EMPTY_WBXML"
  | PE_CHARSET_NOT_FOUND -> "CHARSET_NOT_FOUND" | PE_STRTBL_LENGTH -> "STRTBL_LENGTH"
  | PE_UNKNOWN_PUBLIC_ID -> "UNKNOWN_PUBLIC_ID" | PE_TAG_TABLE_UNDEFINED -> "TAG_TABLE_UNDEFINED"
  | PE_ATTR_TABLE_UNDEFINED -> "ATTR_TABLE_UNDEFINED"
  | PE_ATTR_VALUE_TABLE_UNDEFINED -> "ATTR_VALUE_TABLE_UNDEFINED"
  | PE_EXT_VALUE_TABLE_UNDEFINED -> "EXT_VALUE_TABLE_UNDEFINED"
  | PE_UNKNOWN_ATTR_VALUE -> "UNKNOWN_ATTR_VALUE" | PE_UNKNOWN_EXTENSION_TOKEN -> "UNKNOWN_EXTENSION_TOKEN"
  | PE_BAD_OPAQUE_LENGTH -> "BAD_OPAQUE_LENGTH" | PE_NULL_STRING_TABLE -> "NULL_STRING_TABLE"
  | PE_INVALID_STRTBL_INDEX -> "INVALID_STRTBL_INDEX" | PE_CHARSET_STR_LEN -> "CHARSET_STR_LEN"
  | PE_NO_CHARSET_CONV -> "NO_CHARSET_CONV" | PE_B64_ENC -> "B64_ENC" | PE_BAD_DATETIME -> "BAD_DATETIME"
  | PE_WV_INTEGER_OVERFLOW -> "WV_INTEGER_OVERFLOW" | PE_WV_DATETIME_FORMAT -> "WV_DATETIME_FORMAT"
  | PE_INTERNAL -> "INTERNAL" | PE_NESTING_TOO_DEEP -> "NESTING_TOO_DEEP"

let s_tag = function
  | TagTok (p, t, n) -> Printf.sprintf "T.%d.%d.%s" (int_of_n p) (int_of_n t) (hex_of_bytes n)
  | TagLit n -> "L." ^ hex_of_bytes n
let s_attrname = function
  | AttrTok (p, t, n) -> Printf.sprintf "T.%d.%d.%s" (int_of_n p) (int_of_n t) (hex_of_bytes n)
  | AttrLit n -> "L." ^ hex_of_bytes n
let s_event = function
  | EvStartDoc (c, l) -> Printf.sprintf "SD:%d:%d" (int_of_n c) (int_of_n l)
  | EvStartElt (t, attrs) ->
    "SE:" ^ s_tag t ^ String.concat "" (List.map (fun (a, v) -> "," ^ s_attrname a ^ "=" ^ hex_of_bytes v) attrs)
  | EvChars b -> "CH:" ^ hex_of_bytes b
  | EvPi (t, d) -> "PI:" ^ hex_of_bytes t ^ ":" ^ hex_of_bytes d
  | EvEndElt t -> "EE:" ^ s_tag t
  | EvEndDoc -> "ED"
let s_events evs = String.concat " " (List.map s_event evs)

let () =
  try while true do
    let line = input_line stdin in
    (match split_line line with
     | ["p"; forced; meta; h] ->
       let bs = bytes_of_hex h in
       (match parse_with main_table (n_of_int (int_of_string forced)) (n_of_int (int_of_string meta))
                (nat_of_int (List.length bs + 1)) bs with
        | POk evs -> print_endline ("ok " ^ s_events evs)
        | PErr e -> print_endline ("err " ^ errname e)
        | PFuel -> print_endline "fuel")
     | _ -> print_endline "bad")
  done with End_of_file -> ()
