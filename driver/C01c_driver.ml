(* C01 concrete conversion model driver.  Input lines as harness/c01_harness.c's w2x lines:
     w2x <api> <lang> <charset> <gen> <indent> <keepws> <dump> <hexdoc>
   Answer: st=<code> len=<n> null_out=<0|1> nul=<0|1> [out=<hex>]      (out only with dump=1 and status OK)
   The api field is ignored (run / withlen / nolen have the same model). *)
open Model
open Conv

let () =
  try while true do
    let line = input_line stdin in
    (match split_line line with
     | ["w2x"; _api; lang; charset; gen; indent; keep; dump; h] ->
       let o = { wo_lang = n_of_int (int_of_string lang); wo_charset = n_of_int (int_of_string charset);
                 wo_gen = n_of_int (int_of_string gen); wo_indent = n_of_int (int_of_string indent);
                 wo_keep_ws = (keep <> "0") } in
       let doc = bytes_of_hex h in
       let r = wbxml2xml_model main_table o doc in
       let st = (match r.r_status with ST_OK -> 0 | ST_ERR c -> int_of_n c) in
       (match r.r_out with
        | None -> Printf.printf "st=%d len=%d null_out=1 nul=0\n" st (int_of_n r.r_len)
        | Some out ->
          let n = int_of_n r.r_len in
          let body = List.filteri (fun i _ -> i < n) out in
          let nul = (match List.nth_opt out n with Some N0 -> 1 | _ -> 0) in
          Printf.printf "st=%d len=%d null_out=0 nul=%d%s\n" st n nul
            (if dump <> "0" then " out=" ^ hex_of_bytes body else ""))
     | _ -> print_endline "bad")
  done with End_of_file -> ()
