(* C02 whole-conversion model driver (Model/ConvXml2Wbxml.v: front end + EncWbxml.enc_wbxml inside Conv.conv_run).
   One line in:  <input hex> <expat status 0|1> <version> <keep_ws> <use_strtbl> <anonymous> <nsub>
                 { <embedded document hex> <OK <lang> <n> node* | ERR <code>> }*nsub <events>
                 (events and tree dumps in the notation of harness/xmlfront_harness.c)
   One line out: W OK <wbxml hex>   |   W ERR <code>   |   NEED <embedded document hex>   |   bad <why> *)
exception Bad of string
open Model
open Conv

let toks = ref [||]
let pos = ref 0
let more () = !pos < Array.length !toks
let next () =
  if !pos >= Array.length !toks then raise (Bad "eof");
  let t = !toks.(!pos) in incr pos; t
let next_int () = let t = next () in try int_of_string t with _ -> raise (Bad ("int " ^ t))
let next_n () = n_of_int (next_int ())
let next_hex () = bytes_of_hex (next ())
let next_ohex () = match next () with "~" -> None | h -> Some (bytes_of_hex h)
let rec rep n f = if n <= 0 then [] else let x = f () in x :: rep (n - 1) f

let rec p_node () : node =
  match next () with
  | "E" ->
    let tag = (match next () with
        | "t" -> let p = next_n () in let t = next_n () in let o = next_n () in let nm = next_hex () in TagTok (p, t, o, nm)
        | "l" -> TagLit (next_hex ())
        | x -> raise (Bad ("tag " ^ x))) in
    let na = next_int () in
    let attrs = rep na (fun () ->
        match next () with
        | "t" ->
          let p = next_n () in let t = next_n () in let nm = next_hex () in
          let v = next_ohex () in
          let value = next_hex () in
          { at_name = AttrTok (p, t, nm, v); at_value = value }
        | "l" -> let nm = next_hex () in let value = next_hex () in { at_name = AttrLit nm; at_value = value }
        | x -> raise (Bad ("attr " ^ x))) in
    let nc = next_int () in
    let ch = rep nc p_node in
    NElt (tag, attrs, ch)
  | "T" -> NText (next_hex ())
  | "C" -> let nc = next_int () in NCData (rep nc p_node)
  | "P" -> NPi
  | "R" -> let lid = next_n () in let n = next_int () in NTree (lid, rep n p_node)
  | x -> raise (Bad ("node " ^ x))

let p_event () : event =
  match next () with
  | "X" -> let v = next_ohex () in let e = next_ohex () in EvXmlDecl (v, e)
  | "D" -> let n = next_hex () in let s = next_ohex () in let p = next_ohex () in EvStartDoctype (n, s, p)
  | "S" ->
    let n = next_hex () in let idx = next_n () in let na = next_int () in
    let attrs = rep na (fun () -> let a = next_hex () in let v = next_hex () in (a, v)) in
    EvStartElement (n, attrs, idx)
  | "E" -> let n = next_hex () in let idx = next_n () in EvEndElement (n, idx)
  | "C" -> EvCharacters (next_hex ())
  | "[" -> EvStartCdata
  | "]" -> EvEndCdata
  | "P" -> let t = next_hex () in let d = next_hex () in EvPi (t, d)
  | x -> raise (Bad ("event " ^ x))

let () =
  try while true do
    let line = input_line stdin in
    (try
      toks := Array.of_list (List.filter (fun s -> s <> "") (split_line line));
      pos := 0;
      (* LFOLD: the characters callback before the LF-hack fix (Model/XmlFrontLfOld.v) *)
      let old_lf = (Array.length !toks > 0 && !toks.(0) = "LFOLD") in
      if old_lf then ignore (next ());
      let input = next_hex () in
      let st = next_int () <> 0 in
      let version = next_n () in
      let keep_ws = next_int () <> 0 in
      let use_strtbl = next_int () <> 0 in
      let anon = next_int () <> 0 in
      let nsub = next_int () in
      let subs = Hashtbl.create 8 in
      for _ = 1 to nsub do
        let doc = next () in
        let ans = (match next () with
            | "OK" -> let lid = next_n () in let n = next_int () in
              let roots = rep n p_node in Inl { xt_lang = lid; xt_charset = N0; xt_roots = roots }
            | "ERR" -> Inr (next_n ())
            | x -> raise (Bad ("sub " ^ x))) in
        Hashtbl.replace subs doc ans
      done;
      let rec evs acc = if more () then evs (p_event () :: acc) else List.rev acc in
      let events = evs [] in
      let missing = ref [] in
      let sub (doc : n list) =
        let h = hex_of_bytes doc in
        match Hashtbl.find_opt subs h with
        | Some a -> a
        | None -> missing := h :: !missing; Inr (n_of_int 996) in
      let o = { o_version = version; o_use_strtbl = use_strtbl; o_keep_ws = keep_ws; o_anonymous = anon } in
      let r = (if old_lf then xml2wbxml_events_old else xml2wbxml_events) main_table main_btable sub events st o input in
      (match !missing with
       | _ :: _ -> Printf.printf "NEED %s\n" (List.hd (List.rev !missing))
       | [] ->
         (match r.r_status, r.r_out with
          | ST_OK, Some b ->
            if int_of_n r.r_len <> List.length b then print_endline "bad length-mismatch"
            else Printf.printf "W OK %s\n" (hex_of_bytes b)
          | ST_OK, None -> print_endline "bad ok-without-output"
          | ST_ERR c, None -> Printf.printf "W ERR %d\n" (int_of_n c)
          | ST_ERR _, Some _ -> print_endline "bad error-with-output"))
    with Bad why -> Printf.printf "bad %s\n" why
       | Stack_overflow -> print_endline "bad stack-overflow")
  done with End_of_file -> ()
