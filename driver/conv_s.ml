(* copy of conv.ml with OCaml strings written String.t: a model that extracts Coq's `string` shadows the built-in type name *)
open Model

let rec pos_of_int (i : int) : positive =
  if i = 1 then XH else if i land 1 = 1 then XI (pos_of_int (i lsr 1)) else XO (pos_of_int (i lsr 1))
let n_of_int (i : int) : n = if i = 0 then N0 else Npos (pos_of_int i)
let rec int_of_pos (p : positive) : int =
  match p with XH -> 1 | XO q -> 2 * int_of_pos q | XI q -> 2 * int_of_pos q + 1
let int_of_n (x : n) : int = match x with N0 -> 0 | Npos p -> int_of_pos p
let rec nat_of_int (i : int) : nat = if i <= 0 then O else S (nat_of_int (i - 1))
let rec int_of_nat (x : nat) : int = match x with O -> 0 | S y -> 1 + int_of_nat y

let hexv c = match c with
  | '0'..'9' -> Char.code c - 48 | 'a'..'f' -> Char.code c - 87 | 'A'..'F' -> Char.code c - 55 | _ -> 0
let bytes_of_hex (s : String.t) : n list =
  if s = "-" then [] else
  let n = String.length s / 2 in
  List.init n (fun i -> n_of_int (hexv s.[2*i] * 16 + hexv s.[2*i+1]))
let hex_of_bytes (l : n list) : String.t =
  if l = [] then "-" else String.concat "" (List.map (fun b -> Printf.sprintf "%02x" (int_of_n b)) l)
let ints_of_hex (s : String.t) : int list = List.map int_of_n (bytes_of_hex s)
let split_line (l : String.t) : String.t list = String.split_on_char ' ' l
