(* C05 model driver.
   Input lines:
     enc <gen 0|1|2> <indent> <keep_ws 0|1> <tree dump tokens of harness/c05_harness.c ...>
        -> "OK <hex>" | "ERR <name>" | "unsupported <why>"
     read <xml hex>
        -> "OK <canonical infoset>" | "ERR" | "FUEL"     (Model/XmlRead.v read_xml on the text)
           canonical infoset:  D <root> <public|~> <system>  items    items := <n> item*
                               item := T <hex> | E <name> <n attrs> (<name> <value>)* items
     spec <gen> <indent> <keep_ws> <tree dump>
        -> "SPEC <lang_ok> <node_ok> <items | NONE>"     (hypotheses and specified infoset of the theorems)
     esc <0|1 normalize> <hex> -> escape ; unesc <hex> -> "OK <hex>" | "NONE"
   The tree is the one the C built (dumped by the harness); token names are resolved to the rows of the
   regenerated tables (Gen/TablesData.v main_table) by row index and cross-checked against the dumped
   page/token/options/name. *)
open Model
open Conv

exception Unsupported of string

let toks : string array ref = ref [||]
let pos = ref 0
let next () = let t = (!toks).(!pos) in incr pos; t
let next_int () = int_of_string (next ())

let find_lang (id : int) : xlang option =
  List.find_opt (fun l -> int_of_n l.xl_id = id) xmain_table

let parse_name (l : xlang option) : tname =
  match next () with
  | "t" ->
    let idx = next_int () in
    let page = next_int () in let tok = next_int () in let opts = next_int () in let nm = next () in
    let rows = match l with Some l -> l.xl_tags | None -> [] in
    (match List.nth_opt rows idx with
     | Some r when int_of_n r.tr_page = page && int_of_n r.tr_tok = tok && int_of_n r.tr_opts = opts
                   && hex_of_bytes r.tr_name = nm -> TTok r
     | _ -> raise (Unsupported "tag-row-mismatch"))
  | "l" -> TLit (bytes_of_hex (next ()))
  | _ -> raise (Unsupported "null-tag-name")

let parse_attr (l : xlang option) : attr =
  let nm = match next () with
    | "t" ->
      let idx = next_int () in let nm = next () in
      let rows = match l with Some l -> l.xl_attrs | None -> [] in
      (match List.nth_opt rows idx with
       | Some r when hex_of_bytes r = nm -> ATok r
       | _ -> raise (Unsupported "attr-row-mismatch"))
    | "l" -> ALit (bytes_of_hex (next ()))
    | _ -> let _ = next () in raise (Unsupported "null-attr-name") in
  let v = match next () with "~" -> None | h -> Some (bytes_of_hex h) in
  { at_name = nm; at_value = v }

let rec parse_n : 'a. int -> (unit -> 'a) -> 'a list = fun n f ->
  if n <= 0 then [] else let x = f () in x :: parse_n (n - 1) f

let rec parse_tree () : xlang option * node list =
  (match next () with "L" -> () | _ -> raise (Unsupported "tree-syntax"));
  let id = next_int () in
  let l = if id < 0 then None else find_lang id in
  if id >= 0 && l = None then raise (Unsupported "unknown-language");
  let n = next_int () in
  let roots = parse_n n (fun () -> parse_node l) in
  (l, roots)

and parse_node (l : xlang option) : node =
  match next () with
  | "E" ->
    let nm = parse_name l in
    let na = next_int () in
    let attrs = parse_n na (fun () -> parse_attr l) in
    let nc = next_int () in
    let ch = parse_n nc (fun () -> parse_node l) in
    Elt (nm, attrs, ch)
  | "T" ->
    let c = next () in
    if c = "~" then raise (Unsupported "null-text-content");
    let nc = next_int () in
    if nc <> 0 then raise (Unsupported "children-on-text");
    Text (bytes_of_hex c)
  | "C" -> let nc = next_int () in CData (parse_n nc (fun () -> parse_node l))
  | "P" -> let nc = next_int () in if nc <> 0 then raise (Unsupported "children-on-pi"); Pi
  | "S" ->
    let (sl, roots) = parse_tree () in
    let nc = next_int () in
    if nc <> 0 then raise (Unsupported "children-on-tree-node");
    SubTree (sl, roots)
  | _ -> raise (Unsupported "node-type")

let gen_of = function "0" -> Compact | "1" -> Indent | _ -> Canonical

let errname = function
  | X_NOT_IMPLEMENTED -> "NOT_IMPLEMENTED" | X_B64_ENC -> "B64_ENC" | X_BAD_PARAMETER -> "BAD_PARAMETER"

let () =
  try while true do
    let line = input_line stdin in
    (try
      match split_line line with
      | "enc" :: g :: ind :: kw :: rest ->
        toks := Array.of_list rest; pos := 0;
        let (l, roots) = parse_tree () in
        (match l with
         | None -> print_endline "ERR BAD_PARAMETER"
         | Some l ->
           (match enc_xml l (gen_of g) (n_of_int (int_of_string ind)) (kw = "1") roots with
            | XOk b -> Printf.printf "OK %s\n" (hex_of_bytes b)
            | XErr e -> Printf.printf "ERR %s\n" (errname e)))
      | "spec" :: g :: ind :: kw :: rest ->
        (* specification side (Proofs/EncXmlProofs.v): "SPEC <lang_ok> <node_ok> <items|NONE>" for a single root *)
        toks := Array.of_list rest; pos := 0;
        let (l, roots) = parse_tree () in
        (match l, roots with
         | Some l, [root] ->
           let ((lok, nok), info) = spec_doc l (gen_of g) (n_of_int (int_of_string ind)) (kw = "1") root in
           let b = Buffer.create 256 in
           let rec items l =
             Buffer.add_string b (Printf.sprintf " %d" (List.length l));
             List.iter (function
               | XT t -> Buffer.add_string b (" T " ^ hex_of_bytes t)
               | XE (n, a, ch) ->
                 Buffer.add_string b (Printf.sprintf " E %s %d" (hex_of_bytes n) (List.length a));
                 List.iter (fun (k, v) -> Buffer.add_string b (" " ^ hex_of_bytes k ^ " " ^ hex_of_bytes v)) a;
                 items ch) l in
           (match info with Some it -> items it | None -> Buffer.add_string b " NONE");
           Printf.printf "SPEC %b %b%s\n" lok nok (Buffer.contents b)
         | _ -> print_endline "SPEC false false NONE")
      | ["read"; h] ->
        (match read_xml_auto (bytes_of_hex h) with
         | ROk d ->
           let b = Buffer.create 256 in
           let rec items l =
             Buffer.add_string b (Printf.sprintf " %d" (List.length l));
             List.iter (function
               | XT t -> Buffer.add_string b (" T " ^ hex_of_bytes t)
               | XE (n, a, ch) ->
                 Buffer.add_string b (Printf.sprintf " E %s %d" (hex_of_bytes n) (List.length a));
                 List.iter (fun (k, v) -> Buffer.add_string b (" " ^ hex_of_bytes k ^ " " ^ hex_of_bytes v)) a;
                 items ch) l in
           Buffer.add_string b (Printf.sprintf "OK D %s %s %s" (hex_of_bytes d.d_root_name)
                                  (match d.d_public with Some p -> hex_of_bytes p | None -> "~") (hex_of_bytes d.d_system));
           items d.d_items;
           print_endline (Buffer.contents b)
         | RErr -> print_endline "ERR"
         | RFuel -> print_endline "FUEL")
      | ["esc"; m; h] -> print_endline (hex_of_bytes (escape (m = "1") (bytes_of_hex h)))
      | ["unesc"; h] -> (match unescape (bytes_of_hex h) with Some b -> print_endline ("OK " ^ hex_of_bytes b) | None -> print_endline "NONE")
      | _ -> print_endline "bad"
    with Unsupported w -> Printf.printf "unsupported %s\n" w
       | Invalid_argument _ | Failure _ -> print_endline "unsupported syntax")
  done with End_of_file -> ()
