(* C20 model driver.  Lines:
     parse <w2x|x2w> <att|posix> <argv>            argv = hex words joined by ',' ("-" = empty word)
     spec  <w2x|x2w> <argv>                        the specification grammar
     main  <w2x|x2w> <att|posix> <argv> <stdin hex|ERR> <in FAIL|ERR|hex> <lib code> <lib out hex> <out 0|1>
     lang|charset|version|atoi <hex> *)
open Model
open Conv

let int_of_z = function Z0 -> 0 | Zpos p -> int_of_pos p | Zneg p -> - (int_of_pos p)
let words s = if s = "" then [] else List.map bytes_of_hex (String.split_on_char ',' s)
let tool_of = function "w2x" -> W2X | _ -> X2W
let fl_of = function "att" -> Att | _ -> Posix
let b2i b = if b then 1 else 0
let hx = hex_of_bytes

let opts_str = function
  | LW c -> Printf.sprintf "w:%d:%d:%d:%d:%d" (int_of_n c.wc_gen) (int_of_n c.wc_lang) (int_of_n c.wc_charset)
              (int_of_n c.wc_indent) (b2i c.wc_keep)
  | LX c -> Printf.sprintf "x:%d:%d:%d:%d" (int_of_z c.xc_version) (b2i c.xc_keep) (b2i c.xc_strtbl) (b2i c.xc_anon)

let msg_str = function
  | MIllegalOpt (p, c) -> Printf.sprintf "illegal:%s:%d" (hx p) (int_of_n c)
  | MReqArg (p, c) -> Printf.sprintf "reqarg:%s:%d" (hx p) (int_of_n c)
  | MHelp _ -> "help"
  | MMissingArgs -> "missing"
  | MFailedOpenIn n -> "openin:" ^ hx n
  | MReadErr n -> "readerr:" ^ hx n
  | MFailed (_, c) -> Printf.sprintf "failed:%d" (int_of_n c)
  | MSucceeded _ -> "succeeded"
  | MFailedOpenOut n -> "openout:" ^ hx n

let msgs l = "[" ^ String.concat ";" (List.map msg_str l) ^ "]"

let rec nth_opt l i = match l with [] -> None | x :: r -> if i = 0 then Some x else nth_opt r (i - 1)

let show_parsed = function
  | PHelp ms -> "help " ^ msgs ms
  | POutOfFuel -> "stuck"
  | PArgs ((lo, out), argv', i) ->
    Printf.sprintf "args %s out=%s file=%s" (opts_str lo)
      (match out with None -> "none" | Some o -> hx o)
      (match nth_opt argv' (int_of_nat i) with None -> "none" | Some f -> hx f)

let () =
  try while true do
    let line = input_line stdin in
    (match split_line line with
     | ["parse"; t; fl; av] -> print_endline (show_parsed (tool_parse (tool_of t) (fl_of fl) (words av)))
     | ["spec"; t; av] -> print_endline (show_parsed (tool_spec_parse (tool_of t) (words av)))
     | ["main"; t; fl; av; sin; inp; code; lout; ook] ->
       let w = { w_stdin = (if sin = "ERR" then None else Some (bytes_of_hex sin));
                 w_open_in = (fun _ -> if inp = "FAIL" then InOpenFail else if inp = "ERR" then InReadErr
                               else InBytes (bytes_of_hex inp));
                 w_lib = (fun _ _ -> (n_of_int (int_of_string code), bytes_of_hex lout));
                 w_open_out = (fun _ -> ook = "1") } in
       (match tool_main (tool_of t) (fl_of fl) (words av) w with
        | Stuck -> print_endline "stuck"
        | Done o ->
          Printf.printf "exit=%d sink=%s stdout=%s stderr=%s call=%s\n" (int_of_n o.o_exit)
            (match o.o_sink with SNone -> "none" | SStdout b -> "stdout:" ^ hx b | SFile (n, b) -> "file:" ^ hx n ^ ":" ^ hx b)
            (msgs o.o_stdout) (msgs o.o_stderr)
            (match o.o_call with None -> "none" | Some (lo, d) -> opts_str lo ^ "/" ^ hx d))
     | ["lang"; h] -> Printf.printf "%d\n" (int_of_n (get_lang (bytes_of_hex h)))
     | ["charset"; h] -> Printf.printf "%d\n" (int_of_n (get_charset (bytes_of_hex h)))
     | ["version"; h] -> Printf.printf "%d\n" (int_of_z (get_version (bytes_of_hex h)))
     | ["atoi"; h] -> let a = atoi (bytes_of_hex h) in Printf.printf "%d %d\n" (int_of_z a) (int_of_n (to_utiny a))
     | _ -> print_endline "bad")
  done with End_of_file -> ()
