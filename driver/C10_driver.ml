(* C10 model driver.
     r <forced> <meta> <doc1> <doc2>     -> answer for doc1 ; answer for doc2 (parser reuse: no state in the model)
     w <forced> <meta> <hexdoc>          -> ok <langid> <charset> | err <name>     (select_lang)
     t <rev|dropN> <forced> <meta> <hexdoc>  -> the same with a custom main table (select_lang is parametric in it)
     X <pub|~> <sys|~> <roothex> <textual> <anon>
                                         -> ok <langid> num <n> | ok <langid> idx <hexstring> | err   (xml_select + header_pubid) *)
open Model
open Conv

let bit b i = (b lsr i) land 1 = 1
let ascii_of_char (c : char) : ascii =
  let b = Char.code c in Ascii (bit b 0, bit b 1, bit b 2, bit b 3, bit b 4, bit b 5, bit b 6, bit b 7)
let char_of_ascii (Ascii (a, b, c, d, e, f, g, h)) : char =
  let v x i = if x then 1 lsl i else 0 in
  Char.chr (v a 0 + v b 1 + v c 2 + v d 3 + v e 4 + v f 5 + v g 6 + v h 7)
let coq_of_str (s : String.t) : string =
  let r = ref EmptyString in
  for i = String.length s - 1 downto 0 do r := String (ascii_of_char s.[i], !r) done; !r
let str_of_coq (s : string) : String.t =
  let b = Buffer.create 16 in
  let rec go = function EmptyString -> () | String (c, r) -> Buffer.add_char b (char_of_ascii c); go r in
  go s; Buffer.contents b
let hex_of_str (s : String.t) : String.t =
  if s = "" then "-" else String.concat "" (List.map (fun c -> Printf.sprintf "%02x" (Char.code c)) (List.init (String.length s) (String.get s)))
let str_of_hex (h : String.t) : String.t =
  if h = "-" then "" else String.init (String.length h / 2) (fun i -> Char.chr (hexv h.[2*i] * 16 + hexv h.[2*i+1]))
let o h = if h = "~" then None else Some (coq_of_str (str_of_hex h))
let ename = function
  | P_EMPTY_WBXML -> "EMPTY_WBXML" | P_END_OF_BUFFER -> "END_OF_BUFFER" | P_UNVALID_MBUINT32 -> "UNVALID_MBUINT32"
  | P_CHARSET_NOT_FOUND -> "CHARSET_NOT_FOUND" | P_STRTBL_LENGTH -> "STRTBL_LENGTH" | P_UNKNOWN_PUBLIC_ID -> "UNKNOWN_PUBLIC_ID"

(* the charset the start-document handler receives is the header's; recomputed here from the model's header *)
let () =
  try while true do
    let line = input_line stdin in
    (match split_line line with
     | ["w"; f; m; h] ->
       let forced = n_of_int (int_of_string f) and meta = n_of_int (int_of_string m) in
       let doc = bytes_of_hex h in
       (match select_lang main_table forced meta doc with
        | POk l ->
          let cs = match parse_header main_table forced meta doc with POk hd -> int_of_n hd.h_charset | PErr _ -> -1 in
          Printf.printf "ok %d %d\n" (int_of_n l.l_id) cs
        | PErr e -> Printf.printf "err %s\n" (ename e))
     | ["t"; mode; f; m; h] ->
       (* wbxml_parser_set_main_table: the standard entries reversed / without the first N *)
       let rec drop k l = if k <= 0 then l else (match l with [] -> [] | _ :: r -> drop (k - 1) r) in
       let tbl = if mode = "rev" then List.rev main_table
                 else drop (int_of_string (String.sub mode 4 (String.length mode - 4))) main_table in
       let forced = n_of_int (int_of_string f) and meta = n_of_int (int_of_string m) in
       let doc = bytes_of_hex h in
       (match select_lang tbl forced meta doc with
        | POk l ->
          let cs = match parse_header tbl forced meta doc with POk hd -> int_of_n hd.h_charset | PErr _ -> -1 in
          Printf.printf "ok %d %d\n" (int_of_n l.l_id) cs
        | PErr e -> Printf.printf "err %s\n" (ename e))
     | ["r"; f; m; h1; h2] ->
       (* a parser object carries nothing from one document to the next: each document is judged on its own *)
       let forced = n_of_int (int_of_string f) and meta = n_of_int (int_of_string m) in
       let one h =
         let doc = bytes_of_hex h in
         match select_lang main_table forced meta doc with
         | POk l ->
           let cs = match parse_header main_table forced meta doc with POk hd -> int_of_n hd.h_charset | PErr _ -> -1 in
           Printf.sprintf "ok %d %d" (int_of_n l.l_id) cs
         | PErr e -> Printf.sprintf "err %s" (ename e) in
       Printf.printf "%s ; %s\n" (one h1) (one h2)
     | ["X"; p; s; r; t; a] ->
       (match xml_select main_table (o p) (o s) (coq_of_str (str_of_hex r)) with
        | None -> print_endline "err"
        | Some l ->
          (match header_pubid l (a = "1") (t = "1") with
           | PubNum n -> Printf.printf "ok %d num %d\n" (int_of_n l.l_id) (int_of_n n)
           | PubIdx s -> Printf.printf "ok %d idx %s\n" (int_of_n l.l_id) (hex_of_str (str_of_coq s))))
     | _ -> print_endline "bad")
  done with End_of_file -> ()
