/* pass 1 of the XML front-end harnesses: a fresh Expat parser created exactly as wbxml_tree_from_xml creates it, with
   LOGGING handlers only (shared by xmlfront_harness.c and c02c_harness.c; event notation: see xmlfront_harness.c) */
#ifndef XMLFRONT_LOG_H
#define XMLFRONT_LOG_H
#include "vh.h"
#include <expat.h>
#include "wbxml.h"
#include "wbxml_internals.h"

/* ------------------------------------------------------------------ pass 1: logging */

static XML_Parser g_parser;

static void hexs(const char *s) { vh_puthex(stdout, (const unsigned char *) s, strlen(s)); }
static void ohexs(const char *s) { if (s) hexs(s); else printf("~"); }

static void log_decl(void *ctx, const XML_Char *version, const XML_Char *encoding, int standalone) {
    (void) ctx; (void) standalone;
    printf(" X "); ohexs(version); printf(" "); ohexs(encoding);
}
static void log_doctype(void *ctx, const XML_Char *name, const XML_Char *sysid, const XML_Char *pubid, int has_internal_subset) {
    (void) ctx; (void) has_internal_subset;
    printf(" D "); hexs(name); printf(" "); ohexs(sysid); printf(" "); ohexs(pubid);
}
static void log_start(void *ctx, const XML_Char *name, const XML_Char **attrs) {
    const XML_Char **p;
    unsigned n = 0;
    (void) ctx;
    for (p = attrs; p && *p; p += 2) n++;
    printf(" S "); hexs(name); printf(" %ld %u", (long) XML_GetCurrentByteIndex(g_parser), n);
    for (p = attrs; p && *p; p += 2) { printf(" "); hexs(p[0]); printf(" "); hexs(p[1]); }
}
static void log_end(void *ctx, const XML_Char *name) {
    (void) ctx;
    printf(" E "); hexs(name); printf(" %ld", (long) XML_GetCurrentByteIndex(g_parser));
}
static void log_start_cdata(void *ctx) { (void) ctx; printf(" ["); }
static void log_end_cdata(void *ctx) { (void) ctx; printf(" ]"); }
static void log_chars(void *ctx, const XML_Char *ch, int len) {
    (void) ctx;
    printf(" C "); vh_puthex(stdout, (const unsigned char *) ch, (size_t) len);
}
static void log_pi(void *ctx, const XML_Char *target, const XML_Char *data) {
    (void) ctx;
    printf(" P "); hexs(target); printf(" "); hexs(data);
}

static int log_events(unsigned char *xml, size_t n) {
    int st;
    int dummy = 0;
    g_parser = XML_ParserCreateNS(NULL, WBXML_NAMESPACE_SEPARATOR);
    if (g_parser == NULL) return -1;
    XML_SetXmlDeclHandler(g_parser, log_decl);
    XML_SetStartDoctypeDeclHandler(g_parser, log_doctype);
    XML_SetElementHandler(g_parser, log_start, log_end);
    XML_SetCdataSectionHandler(g_parser, log_start_cdata, log_end_cdata);
    XML_SetProcessingInstructionHandler(g_parser, log_pi);
    XML_SetCharacterDataHandler(g_parser, log_chars);
    XML_SetUserData(g_parser, (void *) &dummy);
    st = XML_Parse(g_parser, (const char *) xml, (int) n, 1) != 0;
    XML_ParserFree(g_parser);
    g_parser = NULL;
    return st;
}

#endif
