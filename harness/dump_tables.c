/* Translator input: dumps every language entry and every table row reachable from
   wbxml_tables_get_main() of the library compiled from the current tree, as JSON. */
#include <stdio.h>
#include <string.h>
#include "wbxml.h"
#include "wbxml_tables.h"

static void js(const char *s) {
    if (!s) { printf("null"); return; }
    putchar('"');
    for (; *s; s++) {
        unsigned char c = (unsigned char) *s;
        if (c == '"' || c == '\\') printf("\\%c", c);
        else if (c < 32 || c > 126) printf("\\u%04x", c);
        else putchar(c);
    }
    putchar('"');
}

#define MAXT 512
static const void *seen[MAXT]; static int nseen = 0;
static int idof(const void *p) {
    int i;
    if (!p) return -1;
    for (i = 0; i < nseen; i++) if (seen[i] == p) return i;
    seen[nseen] = p; return nseen++;
}

int main(void) {
    const WBXMLLangEntry *m = wbxml_tables_get_main(), *l;
    int first = 1, i, emitted[MAXT];
    memset(emitted, 0, sizeof emitted);
    printf("{\"langs\":[\n");
    for (l = m; l->langID != (WBXMLLanguage) -1 && l->publicID != NULL; l++) {
        printf("%s{\"id\":%d,\"pub_num\":%u,\"pub_text\":", first ? "" : ",\n", (int) l->langID, (unsigned) l->publicID->wbxmlPublicID);
        js(l->publicID->xmlPublicID); printf(",\"root\":"); js(l->publicID->xmlRootElt);
        printf(",\"dtd\":"); js(l->publicID->xmlDTD);
        printf(",\"tags\":%d,\"ns\":%d,\"attrs\":%d,\"vals\":%d,\"exts\":%d}", idof(l->tagTable), idof(l->nsTable),
               idof(l->attrTable), idof(l->attrValueTable), idof(l->extValueTable));
        first = 0;
    }
    printf("\n],\n\"tables\":{\n");
    first = 1;
    for (l = m; l->langID != (WBXMLLanguage) -1 && l->publicID != NULL; l++) {
        const WBXMLTagEntry *t; const WBXMLNameSpaceEntry *n; const WBXMLAttrEntry *a;
        const WBXMLAttrValueEntry *v; const WBXMLExtValueEntry *e; int f2;
        if (l->tagTable && !emitted[i = idof(l->tagTable)]) {
            emitted[i] = 1; printf("%s\"%d\":{\"kind\":\"tags\",\"rows\":[", first ? "" : ",\n", i); first = 0; f2 = 1;
            for (t = l->tagTable; t->xmlName; t++) { printf("%s[", f2 ? "" : ","); js(t->xmlName); printf(",%u,%u,%u]", t->wbxmlCodePage, t->wbxmlToken, (unsigned) t->options); f2 = 0; }
            printf("]}");
        }
        if (l->nsTable && !emitted[i = idof(l->nsTable)]) {
            emitted[i] = 1; printf("%s\"%d\":{\"kind\":\"ns\",\"rows\":[", first ? "" : ",\n", i); first = 0; f2 = 1;
            for (n = l->nsTable; n->xmlNameSpace; n++) { printf("%s[", f2 ? "" : ","); js(n->xmlNameSpace); printf(",%u]", n->wbxmlCodePage); f2 = 0; }
            printf("]}");
        }
        if (l->attrTable && !emitted[i = idof(l->attrTable)]) {
            emitted[i] = 1; printf("%s\"%d\":{\"kind\":\"attrs\",\"rows\":[", first ? "" : ",\n", i); first = 0; f2 = 1;
            for (a = l->attrTable; a->xmlName; a++) { printf("%s[", f2 ? "" : ","); js(a->xmlName); printf(","); js(a->xmlValue); printf(",%u,%u]", a->wbxmlCodePage, a->wbxmlToken); f2 = 0; }
            printf("]}");
        }
        if (l->attrValueTable && !emitted[i = idof(l->attrValueTable)]) {
            emitted[i] = 1; printf("%s\"%d\":{\"kind\":\"vals\",\"rows\":[", first ? "" : ",\n", i); first = 0; f2 = 1;
            for (v = l->attrValueTable; v->xmlName; v++) { printf("%s[", f2 ? "" : ","); js(v->xmlName); printf(",%u,%u]", v->wbxmlCodePage, v->wbxmlToken); f2 = 0; }
            printf("]}");
        }
        if (l->extValueTable && !emitted[i = idof(l->extValueTable)]) {
            emitted[i] = 1; printf("%s\"%d\":{\"kind\":\"exts\",\"rows\":[", first ? "" : ",\n", i); first = 0; f2 = 1;
            for (e = l->extValueTable; e->xmlName; e++) { printf("%s[", f2 ? "" : ","); js(e->xmlName); printf(",%u]", e->wbxmlToken); f2 = 0; }
            printf("]}");
        }
    }
    printf("\n}}\n");
    return 0;
}
