/* C17 correspondence harness: drives the real encoder in flow mode over a history of operations and prints what
   wbxml_encoder_get_output returns after EVERY operation; the same command with a history that contains no deletion
   and a fresh encoder is the "replay" oracle; the `batch` command is the literal batch encoding (fresh encoder,
   flow mode off, string table disabled) of a tree whose root-level sibling chain is the given nodes.  It checks nothing.

   One case per input line:
     flow  <langid> <W|X> <xmlgen> <pool> <op>;<op>;...        (xmlgen + 10: ignore_empty_text and remove_text_blanks set)
     batch <langid> <W|X> <xmlgen> <pool> <i>,<i>,...
     header <langid> <W|X> <xmlgen>
   pool: detached nodes separated by '/', each in prefix form with '.'-separated tokens:
     e<tagidx> [a<attridx>=<valhex>]* ( node* )      element, token tag = lang->tagTable[tagidx], token attribute names
     l<namehex> ( node* )                             element with a literal tag
     x<texthex>                                       text node
     c ( x<hex>* )                                    CDATA node
     t<langid> ( node )                               TREE node: an embedded document of that language (root = node)
   ops:  N<i>      wbxml_encoder_encode_node(pool[i])      (N and M: pool[i] is first REBUILT from its description, see rebuild())
         M<i>      wbxml_encoder_encode_node_with_elt_end(pool[i], FALSE)
         S<i>,<c>  wbxml_encoder_encode_raw_elt_start(pool[i], c)
         F<i>,<c>  wbxml_encoder_encode_raw_elt_end(pool[i], c)
         D         wbxml_encoder_delete_last_node
         G         (nothing: get_output is called after every operation anyway)
   Answer of flow:  <err>:<h>:<hex>:<tagCP>.<attrCP>.<indent>.<in_content>.<current_tag index or -1>|...   (err = error code of the operation, 0 = OK;
                    h = 1: get_output = reference header ++ hex, h = 0: get_output = hex)
   Answer of batch: <err>:<h>:<hex> */
#include "vh.h"
#include "wbxml.h"
#include "wbxml_encoder.c"      /* the private struct is needed to show the code pages; static functions are not called */

#define MAXP 64
static WBXMLTreeNode *pool[MAXP];
static char *partcopy[MAXP];     /* the description of each pool node, to rebuild it */
static int npool;

static char *tokv[4096];
static int ntok, tpos;

static WBXMLTreeNode *parse_node_spec(const WBXMLLangEntry *lang);

static void parse_children(const WBXMLLangEntry *lang, WBXMLTreeNode *parent) {
    if (tpos < ntok && strcmp(tokv[tpos], "(") == 0) {
        tpos++;
        while (tpos < ntok && strcmp(tokv[tpos], ")") != 0) {
            WBXMLTreeNode *c = parse_node_spec(lang);
            if (c == NULL) break;
            wbxml_tree_node_add_child(parent, c);
        }
        if (tpos < ntok) tpos++;
    }
}

static WBXMLTreeNode *parse_node_spec(const WBXMLLangEntry *lang) {
    char *t;
    WBXMLTreeNode *n = NULL;
    if (tpos >= ntok) return NULL;
    t = tokv[tpos++];
    if (t[0] == 'x') {
        size_t len; unsigned char *d = vh_unhex(t + 1, &len);
        n = wbxml_tree_node_create_text(d, (WB_ULONG) len);
        free(d);
    } else if (t[0] == 't') {
        /* an embedded document: TREE node owning a nested tree of language <id> whose root is the child */
        int sublang = atoi(t + 1);
        const WBXMLLangEntry *sl = wbxml_tables_get_table((WBXMLLanguage) sublang);
        WBXMLTreeNode *root = NULL;
        if (tpos < ntok && strcmp(tokv[tpos], "(") == 0) {
            tpos++;
            if (sl != NULL && tpos < ntok && strcmp(tokv[tpos], ")") != 0) root = parse_node_spec(sl);
            while (tpos < ntok && strcmp(tokv[tpos], ")") != 0) tpos++;
            if (tpos < ntok) tpos++;
        }
        if (root != NULL) {
            n = wbxml_tree_node_create_tree(root, (WBXMLLanguage) sublang, WBXML_CHARSET_UNKNOWN);
            if (n == NULL) wbxml_tree_node_destroy_all(root);
        }
    } else if (t[0] == 'c') {
        n = wbxml_tree_node_create(WBXML_TREE_CDATA_NODE);
        parse_children(lang, n);
    } else if (t[0] == 'e' || t[0] == 'l') {
        n = wbxml_tree_node_create(WBXML_TREE_ELEMENT_NODE);
        if (t[0] == 'e') n->name = wbxml_tag_create_token(&lang->tagTable[atoi(t + 1)]);
        else {
            size_t len; unsigned char *d = vh_unhex(t + 1, &len);
            d = realloc(d, len + 1); d[len] = 0;
            n->name = wbxml_tag_create_literal(d);
            free(d);
        }
        while (tpos < ntok && tokv[tpos][0] == 'a') {
            char *eq = strchr(tokv[tpos], '=');
            WBXMLAttribute *a = wbxml_attribute_create();
            size_t len; unsigned char *v;
            *eq = 0;
            v = vh_unhex(eq + 1, &len);
            a->name = wbxml_attribute_name_create_token(&lang->attrTable[atoi(tokv[tpos] + 1)]);
            a->value = wbxml_buffer_create(v, (WB_ULONG) len, (WB_ULONG) len + 1);
            if (a->value == NULL) a->value = wbxml_buffer_create("", 0, 1);
            free(v);
            wbxml_tree_node_add_attr(n, a);
            wbxml_attribute_destroy(a);
            tpos++;
        }
        parse_children(lang, n);
    }
    return n;
}

static int split(char *s, char sep, char **tok, int max) {
    int n = 0;
    while (n < max) {
        tok[n++] = s;
        s = strchr(s, sep);
        if (!s) break;
        *s++ = 0;
    }
    return n;
}

static void build_pool(const WBXMLLangEntry *lang, char *spec) {
    static char *parts[MAXP];
    int np = split(spec, '/', parts, MAXP), i;
    npool = 0;
    for (i = 0; i < np; i++) {
        partcopy[i] = strdup(parts[i]);
        ntok = split(parts[i], '.', tokv, 4096);
        tpos = 0;
        pool[npool++] = parse_node_spec(lang);
    }
}

/* The encoder rewrites the text nodes it is given IN PLACE (parse_text: wbxml_buffer_strip_blanks(node->content) when
   remove_text_blanks is set; "\n" -> "\r\n" inside a SyncML CDATA section), so a pool object that has been encoded once
   is no longer the node the pool description says.  The property is about node VALUES: before every encode_node the
   pool entry is rebuilt from its description, so that each N/M operation encodes the described node.  (Raw element
   start/end do not modify the node.) */
static void rebuild(const WBXMLLangEntry *lang, int k) {
    char *tmp;
    if (k < 0 || k >= npool || partcopy[k] == NULL) return;
    if (pool[k] != NULL) wbxml_tree_node_destroy_all(pool[k]);
    tmp = strdup(partcopy[k]);
    ntok = split(tmp, '.', tokv, 4096);
    tpos = 0;
    pool[k] = parse_node_spec(lang);
    free(tmp);
}

static void free_pool(void) {
    int i;
    for (i = 0; i < npool; i++) { if (pool[i] != NULL) wbxml_tree_node_destroy_all(pool[i]); free(partcopy[i]); partcopy[i] = NULL; }
    npool = 0;
}

static WBXMLEncoder *make_encoder(int langid, char out, int xmlgen, int flow) {
    WBXMLEncoder *e = wbxml_encoder_create();
    wbxml_encoder_set_lang(e, (WBXMLLanguage) langid);
    wbxml_encoder_set_output_type(e, out == 'X' ? WBXML_ENCODER_OUTPUT_XML : WBXML_ENCODER_OUTPUT_WBXML);
    wbxml_encoder_set_xml_gen_type(e, (WBXMLGenXMLType) (xmlgen % 10));
    if (xmlgen >= 10) {          /* 1x: blank text nodes are ignored, text is stripped (such nodes encode to nothing) */
        wbxml_encoder_set_ignore_empty_text(e, TRUE);
        wbxml_encoder_set_remove_text_blanks(e, TRUE);
    }
    wbxml_encoder_set_indent(e, 2);
    wbxml_encoder_set_output_charset(e, WBXML_CHARSET_UTF_8);
    if (flow) wbxml_encoder_set_flow_mode(e, TRUE);
    else wbxml_encoder_set_use_strtbl(e, FALSE);
    return e;
}

/* reference header of the line (what wbxml_fill_header / xml_fill_header give for these options), used only to
   shorten the answers: an output that starts with it is printed as "1:<rest>", any other as "0:<all>" */
static unsigned char refhdr[1024];
static size_t refhdr_len;

static void set_refhdr(int langid, char out, int xmlgen);

static void put_output(WBXMLEncoder *e) {
    WB_UTINY *res = NULL; WB_ULONG len = 0;
    WBXMLError err = wbxml_encoder_get_output(e, &res, &len);
    if (err != WBXML_OK) printf("G%d", (int) err);
    else if (refhdr_len > 0 && len >= refhdr_len && memcmp(res, refhdr, refhdr_len) == 0) {
        printf("1:"); vh_puthex(stdout, res + refhdr_len, len - refhdr_len);
    } else { printf("0:"); vh_puthex(stdout, res, len); }
    if (res) wbxml_free(res);
}

static void run_flow(int langid, char out, int xmlgen, char *poolspec, char *opsline) {
    const WBXMLLangEntry *lang = wbxml_tables_get_table((WBXMLLanguage) langid);
    static char *ops[4096];
    int nops, i;
    WBXMLEncoder *e;
    if (lang == NULL) { printf("nolang\n"); return; }
    build_pool(lang, poolspec);
    set_refhdr(langid, out, xmlgen);
    e = make_encoder(langid, out, xmlgen, 1);
    nops = (opsline && *opsline) ? split(opsline, ';', ops, 4096) : 0;
    for (i = 0; i < nops; i++) {
        char *o = ops[i];
        int err = 0, k = atoi(o + 1), c = 0;
        char *comma = strchr(o, ',');
        if (comma) c = atoi(comma + 1);
        if ((o[0] == 'N' || o[0] == 'M') && k >= 0 && k < npool) rebuild(lang, k);
        if (o[0] != 'D' && o[0] != 'G' && (k < 0 || k >= npool || pool[k] == NULL)) err = -1;
        else if (o[0] == 'N') err = (int) wbxml_encoder_encode_node(e, pool[k]);
        else if (o[0] == 'M') err = (int) wbxml_encoder_encode_node_with_elt_end(e, pool[k], FALSE);
        else if (o[0] == 'S') err = (int) wbxml_encoder_encode_raw_elt_start(e, pool[k], c ? TRUE : FALSE);
        else if (o[0] == 'F') err = (int) wbxml_encoder_encode_raw_elt_end(e, pool[k], c ? TRUE : FALSE);
        else if (o[0] == 'D') wbxml_encoder_delete_last_node(e);
        printf("%s%d:", i ? "|" : "", err);
        put_output(e);
        printf(":%u.%u.%u.%u.%d", (unsigned) e->tagCodePage, (unsigned) e->attrCodePage, (unsigned) e->indent, (unsigned) e->in_content,
               e->current_tag ? (int) (e->current_tag - lang->tagTable) : -1);
    }
    wbxml_encoder_destroy(e);
    free_pool();
    printf("\n");
}

static void run_batch(int langid, char out, int xmlgen, char *poolspec, char *list) {
    const WBXMLLangEntry *lang = wbxml_tables_get_table((WBXMLLanguage) langid);
    static char *idx[256];
    WBXMLTreeNode *chain[256];
    int n, i, nc = 0;
    WBXMLEncoder *e;
    WBXMLTree *tree;
    WB_UTINY *res = NULL; WB_ULONG len = 0;
    WBXMLError err;
    if (lang == NULL) { printf("nolang\n"); return; }
    build_pool(lang, poolspec);
    n = (list && *list && strcmp(list, "-") != 0) ? split(list, ',', idx, 256) : 0;
    for (i = 0; i < n; i++) {
        int k = atoi(idx[i]);
        if (k >= 0 && k < npool && pool[k] != NULL) chain[nc++] = pool[k];
    }
    /* a node may occur several times in a history: the batch tree needs distinct nodes, so occurrences after
       the first are not supported (the check never asks for them) */
    tree = wbxml_tree_create((WBXMLLanguage) langid, WBXML_CHARSET_UNKNOWN);
    for (i = 0; i < nc; i++) {
        chain[i]->prev = i ? chain[i - 1] : NULL;
        chain[i]->next = (i + 1 < nc) ? chain[i + 1] : NULL;
    }
    tree->root = nc ? chain[0] : NULL;
    e = make_encoder(langid, out, xmlgen, 0);
    wbxml_encoder_set_tree(e, tree);
    if (out == 'X') err = wbxml_encoder_encode_tree_to_xml(e, &res, &len);
    else err = wbxml_encoder_encode_tree_to_wbxml(e, &res, &len);
    printf("%d:", (int) err);
    set_refhdr(langid, out, xmlgen);
    if (err != WBXML_OK) printf("-");
    else if (refhdr_len > 0 && len >= refhdr_len && memcmp(res, refhdr, refhdr_len) == 0) {
        printf("1:"); vh_puthex(stdout, res + refhdr_len, len - refhdr_len);
    } else { printf("0:"); vh_puthex(stdout, res, len); }
    if (res) wbxml_free(res);
    wbxml_encoder_destroy(e);
    for (i = 0; i < nc; i++) chain[i]->prev = chain[i]->next = NULL;
    tree->root = NULL;
    wbxml_tree_destroy(tree);
    free_pool();
    printf("\n");
}

static void set_refhdr(int langid, char out, int xmlgen) {
    WBXMLEncoder *e = make_encoder(langid, out, xmlgen, 1);
    WBXMLBuffer *h = wbxml_buffer_create("", 0, 64);
    WBXMLError err = (out == 'X') ? xml_fill_header(e, h) : wbxml_fill_header(e, h);
    refhdr_len = 0;
    if (err == WBXML_OK && wbxml_buffer_len(h) < sizeof refhdr) {
        refhdr_len = wbxml_buffer_len(h);
        memcpy(refhdr, wbxml_buffer_get_cstr(h), refhdr_len);
    }
    wbxml_buffer_destroy(h);
    wbxml_encoder_destroy(e);
}

/* the header flow mode builds at the first node (wbxml_fill_header / xml_fill_header) */
static void run_header(int langid, char out, int xmlgen) {
    WBXMLEncoder *e = make_encoder(langid, out, xmlgen, 1);
    WBXMLBuffer *h = wbxml_buffer_create("", 0, 64);
    WBXMLError err = (out == 'X') ? xml_fill_header(e, h) : wbxml_fill_header(e, h);
    printf("%d:", (int) err);
    vh_puthex(stdout, wbxml_buffer_get_cstr(h), wbxml_buffer_len(h));
    printf("\n");
    wbxml_buffer_destroy(h);
    wbxml_encoder_destroy(e);
}

int main(void) {
    char *line;
    while ((line = vh_line(stdin)) != NULL) {
        char *tok[6];
        int nt = split(line, ' ', tok, 6);
        if (nt >= 5 && strcmp(tok[0], "flow") == 0) run_flow(atoi(tok[1]), tok[2][0], atoi(tok[3]), tok[4], nt >= 6 ? tok[5] : NULL);
        else if (nt >= 4 && strcmp(tok[0], "header") == 0) run_header(atoi(tok[1]), tok[2][0], atoi(tok[3]));
        else if (nt >= 5 && strcmp(tok[0], "batch") == 0) run_batch(atoi(tok[1]), tok[2][0], atoi(tok[3]), tok[4], nt >= 6 ? tok[5] : NULL);
        else printf("bad\n");
        fflush(stdout);
    }
    return 0;
}
