/* C06 correspondence harness.
   One line in:   <xml hex> <version 0..3> <use_strtbl 0|1> <keep_ws 0|1> <anonymous 0|1> [<text public id 0|1>]
   One line out:  T <OK|ERR code> <tree dump> | W <OK|ERR code> <wbxml hex>
   The tree is the library's own (Expat front end, wbxml_tree_from_xml) and is dumped BEFORE encoding
   because the encoder trims text nodes in place.  Tree dump (prefix notation, space separated):
     tree  := <langID> <n> node*n
     node  := E tag <nattrs|-1> attr* <nchildren> node*
            | T <hex>                      text
            | C <nchildren> node*          CDATA section
            | P                            processing instruction
            | R tree                       embedded tree (SyncML DevInf / DM DDF)
     tag   := t <page> <token> <options> <name hex> | l <name hex>
     attr  := t <page> <token> <name hex> <value-prefix hex | ~> <value hex> | l <name hex> <value hex>
   nattrs = -1 means node->attrs == NULL. */
#include "vh.h"
#include "wbxml.h"
#include "wbxml_tree.h"
#include "wbxml_encoder.h"
#include "wbxml_tables.h"
#include "wbxml_elt.h"
#include "wbxml_lists.h"
#include "wbxml_buffers.h"

static void hexs(const char *s) { vh_puthex(stdout, (const unsigned char *) s, strlen(s)); }

static unsigned count_sibs(WBXMLTreeNode *n) { unsigned c = 0; for (; n; n = n->next) c++; return c; }

static void dump_tree(WBXMLTree *t);

static void dump_node(WBXMLTreeNode *n) {
    WB_ULONG i;
    WBXMLTreeNode *c;
    switch (n->type) {
    case WBXML_TREE_ELEMENT_NODE:
        printf(" E");
        if (n->name->type == WBXML_VALUE_TOKEN) {
            printf(" t %u %u %u ", n->name->u.token->wbxmlCodePage, n->name->u.token->wbxmlToken, (unsigned) n->name->u.token->options);
            hexs(n->name->u.token->xmlName);
        } else {
            printf(" l ");
            vh_puthex(stdout, wbxml_buffer_get_cstr(n->name->u.literal), wbxml_buffer_len(n->name->u.literal));
        }
        if (n->attrs == NULL) printf(" -1");
        else {
            printf(" %u", (unsigned) wbxml_list_len(n->attrs));
            for (i = 0; i < wbxml_list_len(n->attrs); i++) {
                WBXMLAttribute *a = (WBXMLAttribute *) wbxml_list_get(n->attrs, i);
                if (a->name->type == WBXML_VALUE_TOKEN) {
                    printf(" t %u %u ", a->name->u.token->wbxmlCodePage, a->name->u.token->wbxmlToken);
                    hexs(a->name->u.token->xmlName);
                    printf(" ");
                    if (a->name->u.token->xmlValue) hexs(a->name->u.token->xmlValue); else printf("~");
                } else {
                    printf(" l ");
                    vh_puthex(stdout, wbxml_buffer_get_cstr(a->name->u.literal), wbxml_buffer_len(a->name->u.literal));
                }
                printf(" ");
                vh_puthex(stdout, wbxml_buffer_get_cstr(a->value), wbxml_buffer_len(a->value));
            }
        }
        printf(" %u", count_sibs(n->children));
        for (c = n->children; c; c = c->next) dump_node(c);
        break;
    case WBXML_TREE_TEXT_NODE:
        printf(" T ");
        vh_puthex(stdout, wbxml_buffer_get_cstr(n->content), wbxml_buffer_len(n->content));
        if (n->children) printf(" !TEXT-WITH-CHILDREN");
        break;
    case WBXML_TREE_CDATA_NODE:
        printf(" C %u", count_sibs(n->children));
        for (c = n->children; c; c = c->next) dump_node(c);
        break;
    case WBXML_TREE_PI_NODE:
        printf(" P");
        break;
    case WBXML_TREE_TREE_NODE:
        printf(" R");
        dump_tree(n->tree);
        if (n->children) printf(" !TREE-WITH-CHILDREN");
        break;
    default:
        printf(" ?");
    }
}

static void dump_tree(WBXMLTree *t) {
    WBXMLTreeNode *c;
    printf(" %d %u", t->lang ? (int) t->lang->langID : 0, count_sibs(t->root));
    for (c = t->root; c; c = c->next) dump_node(c);
}

int main(void) {
    char *line, *tok[8];
    while ((line = vh_line(stdin)) != NULL) {
        int nt = vh_split(line, tok, 8);
        size_t n; unsigned char *xml;
        WBXMLTree *tree = NULL;
        WBXMLError e;
        WBXMLGenWBXMLParams p;
        WB_UTINY *out = NULL; WB_ULONG outlen = 0;
        if (nt < 5) { printf("bad\n"); continue; }
        xml = vh_unhex(tok[0], &n);
        p.wbxml_version = (WBXMLVersion) atoi(tok[1]);
        p.use_strtbl = atoi(tok[2]) ? TRUE : FALSE;
        p.keep_ignorable_ws = atoi(tok[3]) ? TRUE : FALSE;
        p.produce_anonymous = atoi(tok[4]) ? TRUE : FALSE;
        e = wbxml_tree_from_xml(xml, (WB_ULONG) n, &tree);
        if (e != WBXML_OK || tree == NULL) {
            printf("T ERR %d\n", (int) e);
            free(xml);
            continue;
        }
        printf("T OK");
        dump_tree(tree);
        if (nt >= 6 && atoi(tok[5])) {
            /* wbxml_tree_to_wbxml with one more setter: wbxml_encoder_set_text_public_id(TRUE) (the conversion parameters
               have no field for it) */
            WBXMLEncoder *enc = wbxml_encoder_create();
            if (enc == NULL) e = WBXML_ERROR_NOT_ENOUGH_MEMORY;
            else {
                wbxml_encoder_set_tree(enc, tree);
                wbxml_encoder_set_wbxml_version(enc, p.wbxml_version);
                if (!p.keep_ignorable_ws) {
                    wbxml_encoder_set_ignore_empty_text(enc, TRUE);
                    wbxml_encoder_set_remove_text_blanks(enc, TRUE);
                }
                wbxml_encoder_set_use_strtbl(enc, p.use_strtbl);
                wbxml_encoder_set_produce_anonymous(enc, p.produce_anonymous);
                wbxml_encoder_set_text_public_id(enc, TRUE);
                e = wbxml_encoder_encode_to_wbxml(enc, &out, &outlen);
                wbxml_encoder_destroy(enc);
            }
        }
        else
            e = wbxml_tree_to_wbxml(tree, &out, &outlen, &p);
        if (e != WBXML_OK) printf(" | W ERR %d\n", (int) e);
        else { printf(" | W OK "); vh_puthex(stdout, out, outlen); printf("\n"); }
        if (out) wbxml_free(out);
        wbxml_tree_destroy(tree);
        free(xml);
        fflush(stdout);
    }
    return 0;
}
