/* C14 exploration harness (built with -fsanitize=thread): N threads, each performing a seeded sequence of
 * mixed operations (xml2wbxml, wbxml2xml, parser run with callbacks, tree + encoder run, conversions of
 * damaged documents) on its own converter objects and its own copies of the inputs.  The same sequences
 * are first run one after the other in the main thread; every result (status + bytes, hashed) of the
 * concurrent run must equal the sequential one.  ThreadSanitizer reports any conflicting access.
 *
 * usage: c14_threads <threads> <seed> <ops per thread> <file with one document path per line>
 * output: "DIFF thread=<t> op=<k> kind=<kind> doc=<path> seq=<hash> par=<hash>" per difference,
 *         "DONE threads=<n> ops=<total> diffs=<d> nontrivial=<ops that produced bytes>"
 */
#include <pthread.h>
#include <stdint.h>
#include <stdio.h>
#include <stdlib.h>
#include <string.h>

#include "wbxml.h"
#include "wbxml_parser.h"
#include "wbxml_encoder.h"
#include "wbxml_tree.h"
#include "wbxml_elt.h"
#include "wbxml_tables.h"
#include "wbxml_handlers.h"
#include "wbxml_lists.h"
#include "wbxml_buffers.h"

#define MAXDOC 512
#define MAXTHREADS 64

typedef struct { char *path; unsigned char *xml; size_t xml_len; unsigned char *wb; size_t wb_len; WBXMLLanguage lang; } doc_t;
static doc_t docs[MAXDOC];
static int ndocs;
static int nthreads, nops;
static uint64_t seed;
static uint64_t *expected[MAXTHREADS], *got[MAXTHREADS];
static pthread_barrier_t barrier;

static uint64_t sm64(uint64_t *s) {
    uint64_t z = (*s += 0x9E3779B97F4A7C15ULL);
    z = (z ^ (z >> 30)) * 0xBF58476D1CE4E5B9ULL;
    z = (z ^ (z >> 27)) * 0x94D049BB133111EBULL;
    return z ^ (z >> 31);
}

static uint64_t fnv(uint64_t h, const void *p, size_t n) {
    const unsigned char *b = p; size_t i;
    for (i = 0; i < n; i++) { h ^= b[i]; h *= 0x100000001B3ULL; }
    return h;
}
#define FNV0 0xCBF29CE484222325ULL

static uint64_t hres(int ret, const unsigned char *p, size_t n) {
    uint64_t h = fnv(FNV0, &ret, sizeof ret);
    h = fnv(h, &n, sizeof n);
    if (p && n) h = fnv(h, p, n);
    return h;
}

/* ---- parser callbacks: hash every event ---- */
typedef struct { uint64_t h; unsigned long events; } pctx_t;
static void hstr(pctx_t *c, const unsigned char *s) { if (s) c->h = fnv(c->h, s, strlen((const char *) s)); c->h = fnv(c->h, "|", 1); }
static void cb_start_doc(void *ctx, WBXMLCharsetMIBEnum charset, const WBXMLLangEntry *lang) {
    pctx_t *c = ctx; int cs = (int) charset; c->h = fnv(c->h, &cs, sizeof cs);
    if (lang) { int l = (int) lang->langID; c->h = fnv(c->h, &l, sizeof l); }
    c->events++;
}
static void cb_end_doc(void *ctx) { pctx_t *c = ctx; c->h = fnv(c->h, "E", 1); c->events++; }
static void cb_start_elt(void *ctx, WBXMLTag *tag, WBXMLAttribute **atts) {
    pctx_t *c = ctx; int i;
    hstr(c, wbxml_tag_get_xml_name(tag));
    if (atts) for (i = 0; atts[i]; i++) { hstr(c, wbxml_attribute_get_xml_name(atts[i])); hstr(c, wbxml_attribute_get_xml_value(atts[i])); }
    c->events++;
}
static void cb_end_elt(void *ctx, WBXMLTag *tag) { pctx_t *c = ctx; hstr(c, wbxml_tag_get_xml_name(tag)); c->events++; }
static void cb_chars(void *ctx, WB_UTINY *ch, WB_ULONG start, WB_ULONG length) { pctx_t *c = ctx; c->h = fnv(c->h, ch + start, length); c->events++; }
static void cb_pi(void *ctx, const WB_UTINY *target, WB_UTINY *data) { pctx_t *c = ctx; hstr(c, target); hstr(c, data); c->events++; }

static const char *KIND[] = { "xml2wbxml", "wbxml2xml", "parser", "tree+encoder", "wbxml2xml-damaged", "xml2wbxml-damaged", "tree-api+encoder", "flow-mode-encoder", "tree-build-api" };

/* one operation; everything it touches is allocated here */
static uint64_t do_op(int t, int k, int *kind_out, int *doc_out, int *nontrivial) {
    uint64_t s = seed * 1000003ULL + (uint64_t) t * 7919ULL + (uint64_t) k * 104729ULL;
    int kind = (int) (sm64(&s) % 9);
    int d = (int) (sm64(&s) % (uint64_t) ndocs);
    uint64_t r = sm64(&s);
    uint64_t h = 0;
    doc_t *doc = &docs[d];
    *kind_out = kind; *doc_out = d;
    if ((kind == 1 || kind == 2 || kind == 4 || kind == 6 || kind == 7 || kind == 8) && doc->wb == NULL) kind = 0;
    switch (kind) {
    case 0: case 5: {
        WBXMLConvXML2WBXML *conv = NULL; WB_UTINY *out = NULL; WB_ULONG out_len = 0; WBXMLError ret;
        size_t n = doc->xml_len;
        unsigned char *in = malloc(n + 1);
        memcpy(in, doc->xml, n); in[n] = 0;
        if (kind == 5 && n > 8) { n = 8 + (size_t) (r % (n - 8)); in[n] = 0; }
        ret = wbxml_conv_xml2wbxml_create(&conv);
        if (ret == WBXML_OK) {
            if (r & 1) wbxml_conv_xml2wbxml_enable_preserve_whitespaces(conv);
            if (r & 2) wbxml_conv_xml2wbxml_disable_string_table(conv);
            if (r & 4) wbxml_conv_xml2wbxml_disable_public_id(conv);
            wbxml_conv_xml2wbxml_set_version(conv, (WBXMLVersion) ((r >> 3) & 3));
            ret = wbxml_conv_xml2wbxml_run(conv, in, (WB_ULONG) n, &out, &out_len);
            wbxml_conv_xml2wbxml_destroy(conv);
        }
        h = hres((int) ret, ret == WBXML_OK ? out : NULL, ret == WBXML_OK ? out_len : 0);
        if (ret == WBXML_OK && out_len) (*nontrivial)++;
        if (ret == WBXML_OK) free(out);
        free(in);
        break; }
    case 1: case 4: {
        WBXMLConvWBXML2XML *conv = NULL; WB_UTINY *out = NULL; WB_ULONG out_len = 0; WBXMLError ret;
        size_t n = doc->wb_len;
        unsigned char *in = malloc(n + 1);
        memcpy(in, doc->wb, n);
        if (kind == 4 && n > 4) { if (r & 1) n = 4 + (size_t) ((r >> 8) % (n - 4)); else in[4 + (size_t) ((r >> 8) % (n - 4))] ^= (unsigned char) (1u << ((r >> 4) & 7)); }
        ret = wbxml_conv_wbxml2xml_create(&conv);
        if (ret == WBXML_OK) {
            wbxml_conv_wbxml2xml_set_gen_type(conv, (WBXMLGenXMLType) ((r >> 16) % 3));
            wbxml_conv_wbxml2xml_set_indent(conv, (WB_UTINY) ((r >> 20) % 5));
            if (r & 2) wbxml_conv_wbxml2xml_enable_preserve_whitespaces(conv);
            if (r & 32) wbxml_conv_wbxml2xml_set_language(conv, doc->lang);      /* forced language: wbxml_tables_get_table */
            ret = wbxml_conv_wbxml2xml_run(conv, in, (WB_ULONG) n, &out, &out_len);
            wbxml_conv_wbxml2xml_destroy(conv);
        }
        h = hres((int) ret, ret == WBXML_OK ? out : NULL, ret == WBXML_OK ? out_len : 0);
        if (ret == WBXML_OK && out_len) (*nontrivial)++;
        if (ret == WBXML_OK) free(out);
        free(in);
        break; }
    case 2: {
        WBXMLParser *p = wbxml_parser_create();
        WBXMLContentHandler handler = { cb_start_doc, cb_end_doc, cb_start_elt, cb_end_elt, cb_chars, cb_pi };
        pctx_t c = { FNV0, 0 };
        WBXMLError ret = WBXML_ERROR_NOT_ENOUGH_MEMORY;
        unsigned char *in = malloc(doc->wb_len + 1);
        memcpy(in, doc->wb, doc->wb_len);
        if (p) {
            wbxml_parser_set_user_data(p, &c);
            wbxml_parser_set_content_handler(p, &handler);
            if (r & 32) wbxml_parser_set_language(p, doc->lang);
            ret = wbxml_parser_parse(p, in, (WB_ULONG) doc->wb_len);
            wbxml_parser_destroy(p);
        }
        h = hres((int) ret, (const unsigned char *) &c.h, sizeof c.h);
        if (c.events > 2) (*nontrivial)++;
        free(in);
        break; }
    case 6: {
        /* a tree made through the API for the document's language (wbxml_tree_create looks the language up), one root element, encoded */
        WBXMLTree *tree = wbxml_tree_create(doc->lang, WBXML_CHARSET_UTF_8);
        WB_UTINY *o = NULL; WB_ULONG l = 0; WBXMLError ret = WBXML_ERROR_NOT_ENOUGH_MEMORY;
        if (tree) {
            if (tree->lang && tree->lang->publicID && tree->lang->publicID->xmlRootElt) {
                WB_UTINY *name = (WB_UTINY *) strdup(tree->lang->publicID->xmlRootElt);
                WBXMLGenWBXMLParams params = { WBXML_VERSION_13, FALSE, TRUE, FALSE };
                if (wbxml_tree_add_xml_elt(tree, NULL, name) != NULL)
                    ret = wbxml_tree_to_wbxml(tree, &o, &l, &params);
                free(name);
            }
            wbxml_tree_destroy(tree);
        }
        h = hres((int) ret, ret == WBXML_OK ? o : NULL, ret == WBXML_OK ? l : 0);
        if (ret == WBXML_OK) { free(o); (*nontrivial)++; }
        break; }
    case 7: {
        /* flow mode: the children of the root element are encoded one by one with wbxml_encoder_encode_node, the output is
         * fetched after each; sometimes the last node is taken back (wbxml_encoder_delete_last_node) */
        WBXMLTree *tree = NULL; WBXMLError ret;
        unsigned char *in = malloc(doc->wb_len + 1);
        memcpy(in, doc->wb, doc->wb_len);
        ret = wbxml_tree_from_wbxml(in, (WB_ULONG) doc->wb_len, WBXML_LANG_UNKNOWN, WBXML_CHARSET_UNKNOWN, &tree);
        h = hres((int) ret, NULL, 0);
        if (ret == WBXML_OK && tree->root && tree->lang) {
            WBXMLEncoder *e = wbxml_encoder_create();
            if (e) {
                WBXMLTreeNode *n; int i = 0, produced = 0;
                wbxml_encoder_set_flow_mode(e, TRUE);
                wbxml_encoder_set_output_type(e, (r & 1) ? WBXML_ENCODER_OUTPUT_XML : WBXML_ENCODER_OUTPUT_WBXML);
                wbxml_encoder_set_lang(e, tree->lang->langID);
                wbxml_encoder_set_use_strtbl(e, FALSE);
                wbxml_encoder_set_xml_gen_type(e, (WBXMLGenXMLType) ((r >> 8) % 3));
                wbxml_encoder_set_indent(e, (WB_UTINY) ((r >> 12) % 3));
                ret = wbxml_encoder_encode_raw_elt_start(e, tree->root, TRUE);
                h = h * 31 + hres((int) ret, NULL, 0);
                for (n = tree->root->children; n != NULL && i < 24; n = n->next, i++) {
                    WB_UTINY *o = NULL; WB_ULONG l = 0; WBXMLError r2;
                    ret = wbxml_encoder_encode_node(e, n);
                    if (ret == WBXML_OK && ((r >> (16 + (i % 8))) & 1) && n->next != NULL)
                        wbxml_encoder_delete_last_node(e);
                    r2 = wbxml_encoder_get_output(e, &o, &l);
                    h = h * 31 + hres((int) ret, NULL, 0) + hres((int) r2, r2 == WBXML_OK ? o : NULL, r2 == WBXML_OK ? l : 0);
                    if (r2 == WBXML_OK) { if (l) produced = 1; free(o); }
                }
                ret = wbxml_encoder_encode_raw_elt_end(e, tree->root, TRUE);
                h = h * 31 + hres((int) ret, NULL, 0);
                { WB_UTINY *o = NULL; WB_ULONG l = 0; WBXMLError r2 = wbxml_encoder_get_output(e, &o, &l);
                  h = h * 31 + hres((int) r2, r2 == WBXML_OK ? o : NULL, r2 == WBXML_OK ? l : 0);
                  if (r2 == WBXML_OK) free(o); }
                if (produced) (*nontrivial)++;
                wbxml_encoder_destroy(e);
            }
        }
        if (tree) wbxml_tree_destroy(tree);
        free(in);
        break; }
    case 8: {
        /* tree build API: the parsed document is rebuilt node by node into a new tree with wbxml_tree_add_xml_elt_with_attrs /
         * wbxml_tree_add_text / wbxml_tree_add_cdata (names, attributes and texts taken from the parsed tree), one subtree is
         * extracted again (wbxml_tree_extract_node), and the new tree is encoded */
        WBXMLTree *src = NULL, *dst = NULL; WBXMLError ret;
        unsigned char *in = malloc(doc->wb_len + 1);
        memcpy(in, doc->wb, doc->wb_len);
        ret = wbxml_tree_from_wbxml(in, (WB_ULONG) doc->wb_len, WBXML_LANG_UNKNOWN, WBXML_CHARSET_UNKNOWN, &src);
        h = hres((int) ret, NULL, 0);
        if (ret == WBXML_OK && src->root && src->lang && (dst = wbxml_tree_create(src->lang->langID, WBXML_CHARSET_UTF_8)) != NULL) {
            /* iterative copy: stack of (source node, destination parent) */
            struct { WBXMLTreeNode *s; WBXMLTreeNode *dp; } st[256]; int sp = 0, nodes = 0;
            WBXMLTreeNode *victim = NULL;
            st[sp].s = src->root; st[sp].dp = NULL; sp++;
            while (sp > 0 && nodes < 4000) {
                WBXMLTreeNode *sn = st[sp - 1].s, *dp = st[sp - 1].dp, *dn = NULL;
                sp--;
                if (sn->next && sp < 255) { st[sp].s = sn->next; st[sp].dp = dp; sp++; }
                nodes++;
                if (sn->type == WBXML_TREE_ELEMENT_NODE && sn->name) {
                    const WB_UTINY *attrs[2 * 32 + 1]; int na = 0; WBXMLAttribute *a;
                    WBXMLList *al = sn->attrs; WB_ULONG k, cnt = al ? wbxml_list_len(al) : 0;
                    WB_UTINY *nm = (WB_UTINY *) strdup((const char *) wbxml_tag_get_xml_name(sn->name));
                    for (k = 0; k < cnt && na < 32; k++) {
                        a = (WBXMLAttribute *) wbxml_list_get(al, k);
                        attrs[2 * na] = wbxml_attribute_get_xml_name(a); attrs[2 * na + 1] = wbxml_attribute_get_xml_value(a); na++;
                    }
                    attrs[2 * na] = NULL;
                    dn = wbxml_tree_add_xml_elt_with_attrs(dst, dp, nm, attrs);
                    free(nm);
                    if (dn && dp && victim == NULL && ((r >> 4) & 3) == (unsigned) (nodes & 3)) victim = dn;
                    if (dn && sn->children && sp < 255) { st[sp].s = sn->children; st[sp].dp = dn; sp++; }
                } else if (sn->type == WBXML_TREE_TEXT_NODE && sn->content && dp) {
                    dn = wbxml_tree_add_text(dst, dp, wbxml_buffer_get_cstr(sn->content), wbxml_buffer_len(sn->content));
                } else if (sn->type == WBXML_TREE_CDATA_NODE && dp) {
                    dn = wbxml_tree_add_cdata(dst, dp);
                    if (dn && sn->children && sp < 255) { st[sp].s = sn->children; st[sp].dp = dn; sp++; }
                }
                h = h * 31 + (dn ? 1 : 0);
            }
            if (victim && (r & 1)) {
                WBXMLError re = wbxml_tree_extract_node(dst, victim);
                h = h * 31 + hres((int) re, NULL, 0);
                if (re == WBXML_OK) wbxml_tree_node_destroy_all(victim);
            }
            {
                WB_UTINY *o = NULL; WB_ULONG l = 0;
                WBXMLGenXMLParams xp; WBXMLGenWBXMLParams wp = { WBXML_VERSION_13, FALSE, (WB_BOOL) ((r >> 2) & 1), FALSE };
                WBXMLError re;
                xp.gen_type = WBXML_GEN_XML_CANONICAL; xp.lang = WBXML_LANG_UNKNOWN; xp.charset = WBXML_CHARSET_UNKNOWN; xp.indent = 0; xp.keep_ignorable_ws = TRUE;
                re = wbxml_tree_to_xml(dst, &o, &l, &xp);
                h = h * 31 + hres((int) re, re == WBXML_OK ? o : NULL, re == WBXML_OK ? l : 0);
                if (re == WBXML_OK) { free(o); if (l) (*nontrivial)++; }
                o = NULL; l = 0;
                re = wbxml_tree_to_wbxml(dst, &o, &l, &wp);
                h = h * 31 + hres((int) re, re == WBXML_OK ? o : NULL, re == WBXML_OK ? l : 0);
                if (re == WBXML_OK) free(o);
            }
        }
        if (dst) wbxml_tree_destroy(dst);
        if (src) wbxml_tree_destroy(src);
        free(in);
        break; }
    default: {
        WBXMLTree *tree = NULL; WBXMLError ret; WB_UTINY *o1 = NULL, *o2 = NULL; WB_ULONG l1 = 0, l2 = 0;
        unsigned char *in = malloc(doc->xml_len + 1);
        memcpy(in, doc->xml, doc->xml_len); in[doc->xml_len] = 0;
        ret = wbxml_tree_from_xml(in, (WB_ULONG) doc->xml_len, &tree);
        h = hres((int) ret, NULL, 0);
        if (ret == WBXML_OK) {
            WBXMLEncoder *e = wbxml_encoder_create();
            if (e) {
                WBXMLError r1, r2;
                wbxml_encoder_set_tree(e, tree);
                wbxml_encoder_set_use_strtbl(e, (WB_BOOL) ((r >> 1) & 1));
                wbxml_encoder_set_ignore_empty_text(e, TRUE);
                wbxml_encoder_set_remove_text_blanks(e, TRUE);
                r1 = wbxml_encoder_encode_tree_to_wbxml(e, &o1, &l1);
                h ^= hres((int) r1, r1 == WBXML_OK ? o1 : NULL, r1 == WBXML_OK ? l1 : 0);
                wbxml_encoder_destroy(e);
                e = wbxml_encoder_create();
                if (e) {
                    wbxml_encoder_set_tree(e, tree);
                    wbxml_encoder_set_xml_gen_type(e, (WBXMLGenXMLType) ((r >> 8) % 3));
                    wbxml_encoder_set_indent(e, (WB_UTINY) ((r >> 12) % 4));
                    r2 = wbxml_encoder_encode_tree_to_xml(e, &o2, &l2);
                    h = h * 31 + hres((int) r2, r2 == WBXML_OK ? o2 : NULL, r2 == WBXML_OK ? l2 : 0);
                    if (r2 == WBXML_OK) free(o2);
                    wbxml_encoder_destroy(e);
                }
                if (r1 == WBXML_OK) { free(o1); (*nontrivial)++; }
            }
            wbxml_tree_destroy(tree);
        }
        free(in);
        break; }
    }
    return h;
}

static void *worker(void *arg) {
    int t = (int) (intptr_t) arg, k, kind, d, nt = 0;
    pthread_barrier_wait(&barrier);
    for (k = 0; k < nops; k++) got[t][k] = do_op(t, k, &kind, &d, &nt);
    return NULL;
}

static unsigned char *slurp(const char *path, size_t *len) {
    FILE *f = fopen(path, "rb"); unsigned char *b; long n;
    if (!f) return NULL;
    fseek(f, 0, SEEK_END); n = ftell(f); fseek(f, 0, SEEK_SET);
    b = malloc((size_t) n + 1);
    if (fread(b, 1, (size_t) n, f) != (size_t) n) { fclose(f); free(b); return NULL; }
    b[n] = 0; *len = (size_t) n; fclose(f);
    return b;
}

int main(int argc, char **argv) {
    char line[4096]; FILE *lf; int t, k, diffs = 0, nontrivial = 0;
    pthread_t th[MAXTHREADS];
    if (argc != 5) { fprintf(stderr, "usage: %s threads seed ops listfile\n", argv[0]); return 2; }
    nthreads = atoi(argv[1]); seed = strtoull(argv[2], NULL, 10); nops = atoi(argv[3]);
    if (nthreads < 1 || nthreads > MAXTHREADS) return 2;
    lf = fopen(argv[4], "r");
    if (!lf) return 2;
    while (ndocs < MAXDOC && fgets(line, sizeof line, lf)) {
        size_t n = strlen(line);
        while (n && (line[n - 1] == '\n' || line[n - 1] == '\r')) line[--n] = 0;
        if (!n) continue;
        docs[ndocs].xml = slurp(line, &docs[ndocs].xml_len);
        if (!docs[ndocs].xml) continue;
        docs[ndocs].path = strdup(line);
        {   /* the WBXML form, made once, before any thread exists */
            WBXMLConvXML2WBXML *conv = NULL; WB_UTINY *out = NULL; WB_ULONG out_len = 0;
            if (wbxml_conv_xml2wbxml_create(&conv) == WBXML_OK) {
                if (wbxml_conv_xml2wbxml_run(conv, docs[ndocs].xml, (WB_ULONG) docs[ndocs].xml_len, &out, &out_len) == WBXML_OK) {
                    WBXMLTree *tree = NULL;
                    docs[ndocs].wb = out; docs[ndocs].wb_len = out_len;
                    if (wbxml_tree_from_wbxml(out, out_len, WBXML_LANG_UNKNOWN, WBXML_CHARSET_UNKNOWN, &tree) == WBXML_OK) {
                        if (tree->lang) docs[ndocs].lang = tree->lang->langID;
                        wbxml_tree_destroy(tree);
                    }
                }
                wbxml_conv_xml2wbxml_destroy(conv);
            }
        }
        ndocs++;
    }
    fclose(lf);
    if (ndocs == 0) { fprintf(stderr, "no documents\n"); return 2; }
    for (t = 0; t < nthreads; t++) {
        expected[t] = calloc((size_t) nops, sizeof(uint64_t));
        got[t] = calloc((size_t) nops, sizeof(uint64_t));
    }
    /* sequential reference */
    for (t = 0; t < nthreads; t++)
        for (k = 0; k < nops; k++) { int kind, d; expected[t][k] = do_op(t, k, &kind, &d, &nontrivial); }
    /* concurrent run */
    pthread_barrier_init(&barrier, NULL, (unsigned) nthreads);
    for (t = 0; t < nthreads; t++) pthread_create(&th[t], NULL, worker, (void *) (intptr_t) t);
    for (t = 0; t < nthreads; t++) pthread_join(th[t], NULL);
    for (t = 0; t < nthreads; t++)
        for (k = 0; k < nops; k++)
            if (expected[t][k] != got[t][k]) {
                int kind, d, nt = 0;
                uint64_t again = do_op(t, k, &kind, &d, &nt);   /* alone again: tells a flaky operation from interference */
                printf("DIFF thread=%d op=%d kind=%s doc=%s seq=%016llx par=%016llx alone_again=%016llx\n", t, k, KIND[kind], docs[d].path,
                       (unsigned long long) expected[t][k], (unsigned long long) got[t][k], (unsigned long long) again);
                diffs++;
            }
    printf("DONE threads=%d ops=%d diffs=%d nontrivial=%d docs=%d\n", nthreads, nthreads * nops, diffs, nontrivial, ndocs);
    return diffs ? 1 : 0;
}
