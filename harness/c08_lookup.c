/* C08/C09 tie: the REAL table lookups of the library, driven by a line protocol.
   Token -> name goes through the parser's own static functions (parse_tag, parse_attr_start,
   parse_attr_value, parse_extension) on a one/two byte buffer, name -> token through the exported
   wbxml_tables_* functions.  Strings travel hex encoded ("-" = empty, "~" = NULL).

     T <langid> <page>           -> 256 fields (one per byte value): name:opts | ? (unknown) | ! (not asked)
     A <langid> <page>           -> 256 fields: name[=value-hex-joined] ...
     V <langid> <page>           -> 256 fields
     E <langid> <v>              -> WV extension value v (0..255) through parse_extension
     t <langid> <cur|-1> <name>  -> page tok name-hex | none
     a <langid> <name> <value|~> -> page tok name value left | none
     e <langid> <value>          -> tok | none
     c <langid> <value>          -> 0 | 1
     n <langid> <page>           -> ns-hex | none
     p <langid> <ns>             -> page
     g <langid>                  -> index of the entry wbxml_tables_get_table returns | none
     s <pub|~> <sys|~> <root|~>  -> langid chosen by wbxml_tables_search_table | none
*/
#include "vh.h"
#include "wbxml_parser.c"

static void puts_hex(const char *s) {
    if (s == NULL) { fputs("~", stdout); return; }
    vh_puthex(stdout, (const unsigned char *) s, strlen(s));
}

static int is_global(int b) {
    switch (b) {
    case 0x00: case 0x01: case 0x02: case 0x03: case 0x04:
    case 0x40: case 0x41: case 0x42: case 0x43: case 0x44:
    case 0x80: case 0x81: case 0x82: case 0x83: case 0x84:
    case 0xC0: case 0xC1: case 0xC2: case 0xC3: case 0xC4: return 1;
    }
    return 0;
}

int main(void) {
    char *line, *tok[8];
    WBXMLParser *P = wbxml_parser_create();
    static WB_UTINY three[3] = {0, 0, 0};
    P->wbxml = wbxml_buffer_create(three, 3, 4);
    while ((line = vh_line(stdin)) != NULL) {
        int n = vh_split(line, tok, 8);
        const WBXMLLangEntry *L = n >= 2 ? wbxml_tables_get_table((WBXMLLanguage) atoi(tok[1])) : NULL;
        char k = tok[0][0];
        if (k == 's' && n == 4) {
            size_t l1, l2, l3; unsigned char *a = NULL, *b = NULL, *c = NULL; const WBXMLLangEntry *e;
            if (strcmp(tok[1], "~")) { a = vh_unhex(tok[1], &l1); a[l1] = 0; }
            if (strcmp(tok[2], "~")) { b = vh_unhex(tok[2], &l2); b[l2] = 0; }
            if (strcmp(tok[3], "~")) { c = vh_unhex(tok[3], &l3); c[l3] = 0; }
            e = wbxml_tables_search_table(wbxml_tables_get_main(), a, b, c);
            if (e) printf("%d\n", (int) e->langID); else puts("none");
            free(a); free(b); free(c);
            continue;
        }
        if (n < 2 || L == NULL) {
            if (k == 'g') { puts("none"); continue; }
            puts("nolang"); continue;
        }
        P->langTable = L; P->mainTable = wbxml_tables_get_main(); P->version = WBXML_VERSION_13;
        if (k == 'g') {
            printf("%d\n", (int) (L - wbxml_tables_get_main()));
        } else if (k == 'T' && n == 3) {
            int b;
            for (b = 0; b < 256; b++) {
                WB_UTINY tag = 0; WBXMLTag *elt = NULL; WBXMLError r;
                wbxml_buffer_set_char(P->wbxml, 0, (WB_UTINY) b);
                P->pos = 0; P->tagCodePage = (WB_UTINY) atoi(tok[2]);
                r = parse_tag(P, &tag, &elt);
                if (b) putchar(' ');
                if (r == WBXML_ERROR_TAG_TABLE_UNDEFINED) fputs("notable", stdout);
                else if (r != WBXML_OK || elt == NULL) printf("err%d", (int) r);
                else if (elt->type == WBXML_VALUE_TOKEN) { puts_hex(elt->u.token->xmlName); printf(":%u", (unsigned) elt->u.token->options); }
                else fputs("?", stdout);
                if (elt) wbxml_tag_destroy(elt);
            }
            putchar('\n');
        } else if (k == 'A' && n == 3) {
            int b;
            for (b = 0; b < 256; b++) {
                WBXMLAttributeName *name = NULL; const WB_UTINY *value = NULL; WBXMLError r;
                if (b) putchar(' ');
                if (b == WBXML_SWITCH_PAGE || b == WBXML_LITERAL) { fputs("!", stdout); continue; }   /* handled before the table scan */
                wbxml_buffer_set_char(P->wbxml, 0, (WB_UTINY) b);
                P->pos = 0; P->attrCodePage = (WB_UTINY) atoi(tok[2]);
                r = parse_attr_start(P, &name, &value);
                if (r == WBXML_ERROR_ATTR_TABLE_UNDEFINED) fputs("notable", stdout);
                else if (r != WBXML_OK || name == NULL) printf("err%d", (int) r);
                else if (name->type == WBXML_VALUE_TOKEN) {
                    puts_hex(name->u.token->xmlName); putchar('='); puts_hex((const char *) value);
                    if ((const char *) value != name->u.token->xmlValue) fputs("(value-mismatch)", stdout);
                }
                else fputs("?", stdout);
                if (name) wbxml_attribute_name_destroy(name);
            }
            putchar('\n');
        } else if (k == 'V' && n == 3) {
            int b;
            for (b = 0; b < 256; b++) {
                WBXMLBuffer *res = NULL; WBXMLError r;
                if (b) putchar(' ');
                if (is_global(b)) { fputs("!", stdout); continue; }   /* strings, entities, extensions, opaque, switch page */
                wbxml_buffer_set_char(P->wbxml, 0, (WB_UTINY) b);
                P->pos = 0; P->attrCodePage = (WB_UTINY) atoi(tok[2]);
                r = parse_attr_value(P, &res);
                if (r == WBXML_ERROR_ATTR_VALUE_TABLE_UNDEFINED) fputs("notable", stdout);
                else if (r == WBXML_ERROR_UNKNOWN_ATTR_VALUE) fputs("?", stdout);
                else if (r != WBXML_OK || res == NULL) printf("err%d", (int) r);
                else puts_hex((const char *) wbxml_buffer_get_cstr(res));
                if (res) wbxml_buffer_destroy(res);
            }
            putchar('\n');
        } else if (k == 'E' && n == 3) {
            WBXMLBuffer *res = NULL; WBXMLError r; int v = atoi(tok[2]);
            /* EXT_T_0 followed by the value as an mb_u_int32 (one or two bytes) */
            if (v > 255) { puts("!"); continue; }
            wbxml_buffer_set_char(P->wbxml, 0, WBXML_EXT_T_0);
            if (v < 128) wbxml_buffer_set_char(P->wbxml, 1, (WB_UTINY) v);
            else { wbxml_buffer_set_char(P->wbxml, 1, 0x81); wbxml_buffer_set_char(P->wbxml, 2, (WB_UTINY) (v - 128)); }
            P->pos = 0;
            r = parse_extension(P, WBXML_TAG_TOKEN, &res);
            if (r != WBXML_OK) printf("err%d\n", (int) r);
            else if (res == NULL) puts("?");
            else { puts_hex((const char *) wbxml_buffer_get_cstr(res)); putchar('\n'); }
            if (res) wbxml_buffer_destroy(res);
        } else if (k == 't' && n == 4) {
            size_t len; unsigned char *nm = vh_unhex(tok[3], &len); const WBXMLTagEntry *e;
            nm[len] = 0;
            e = wbxml_tables_get_tag_from_xml(L, atoi(tok[2]), nm);
            if (e) { printf("%u %u ", e->wbxmlCodePage, e->wbxmlToken); puts_hex(e->xmlName); putchar('\n'); } else puts("none");
            free(nm);
        } else if (k == 'a' && n == 4) {
            size_t len, vl = 0; unsigned char *nm = vh_unhex(tok[2], &len), *val = NULL; WB_UTINY *left = (WB_UTINY *) "UNSET";
            const WBXMLAttrEntry *e;
            nm[len] = 0;
            if (strcmp(tok[3], "~") != 0) { val = vh_unhex(tok[3], &vl); val[vl] = 0; }
            e = wbxml_tables_get_attr_from_xml(L, nm, val, &left);
            if (e) {
                printf("%u %u ", e->wbxmlCodePage, e->wbxmlToken); puts_hex(e->xmlName); putchar(' '); puts_hex(e->xmlValue);
                putchar(' '); puts_hex((const char *) left); putchar('\n');
            } else puts("none");
            free(nm); free(val);
        } else if (k == 'e' && n == 3) {
            size_t len; unsigned char *v = vh_unhex(tok[2], &len); const WBXMLExtValueEntry *e;
            v[len] = 0;
            e = wbxml_tables_get_ext_from_xml(L, v);
            if (e) printf("%u\n", e->wbxmlToken); else puts("none");
            free(v);
        } else if (k == 'c' && n == 3) {
            size_t len; unsigned char *v = vh_unhex(tok[2], &len);
            v[len] = 0;
            printf("%d\n", wbxml_tables_contains_attr_value_from_xml(L, v) ? 1 : 0);
            free(v);
        } else if (k == 'n' && n == 3) {
            const WB_TINY *s = wbxml_tables_get_xmlns(L->nsTable, (WB_UTINY) atoi(tok[2]));
            if (s) { puts_hex(s); putchar('\n'); } else puts("none");
        } else if (k == 'p' && n == 3) {
            size_t len; unsigned char *v = vh_unhex(tok[2], &len);
            v[len] = 0;
            printf("%u\n", wbxml_tables_get_code_page(L->nsTable, (const WB_TINY *) v));
            free(v);
        } else puts("bad");
    }
    P->langTable = NULL;
    wbxml_parser_destroy(P);
    return 0;
}
