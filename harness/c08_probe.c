/* C08 hard-wired typed elements, PARSER side: behavioural probe (no reading of comments).
   For every language entry x 256 code pages x 64 tag tokens decode_opaque_content is called with
   parser->current_tag = {page, token} and payloads that tell integer / date-time / base64 / identity apart;
   decode_opaque_attr_value per language; the date-time branch of parse_attribute for every language x page x
   attribute token 5..127 through parse_attribute itself on the bytes  <token> OPAQUE 07 20 01 02 03 04 05 06 END.
   Output: one line per non-identity finding:   D <langid> content|attr|attrdt <page> <token> <kind>   and a final "DONE n". */
#include "vh.h"
#include "wbxml_parser.c"

static const char *classify(WBXMLError r1, WBXMLBuffer *b1, WBXMLError r2, WBXMLBuffer *b2) {
    /* payload 1 = 01 02 ; payload 2 = WV date-time 2001-02-03T04:05:06 (6 octets) */
    const char *s1 = (r1 == WBXML_OK && b1) ? (const char *) wbxml_buffer_get_cstr(b1) : NULL;
    const char *s2 = (r2 == WBXML_OK && b2) ? (const char *) wbxml_buffer_get_cstr(b2) : NULL;
    if (s1 && strcmp(s1, "258") == 0) return "integer";
    if (s1 && strcmp(s1, "AQI=") == 0) return "base64";
    if (s2 && strncmp(s2, "20010203T040506", 15) == 0) return "datetime";
    if (s1 && wbxml_buffer_len(b1) == 2 && s1[0] == 1 && s1[1] == 2) return "identity";
    return "other";
}

int main(void) {
    const WBXMLLangEntry *m = wbxml_tables_get_main(), *l;
    static const WB_UTINY p1[2] = {1, 2};
    /* WV opaque date-time: 6 octets; year 2001 month 2 day 3 04:05:06 no time zone:
       bits: 2 reserved, 12 year, 4 month, 5 day, 5 hour, 6 minute, 6 second, 8 timezone */
    WB_UTINY p2[6];
    unsigned long n = 0;
    WBXMLParser *P = wbxml_parser_create();
    {
        unsigned long long v = 0;
        v = (v << 2) | 0; v = (v << 12) | 2001; v = (v << 4) | 2; v = (v << 5) | 3; v = (v << 5) | 4; v = (v << 6) | 5; v = (v << 6) | 6; v = (v << 8) | 0;
        int i; for (i = 5; i >= 0; i--) { p2[i] = (WB_UTINY) (v & 0xff); v >>= 8; }
    }
    for (l = m; l->publicID != NULL; l++) {
        int page, tok;
        P->langTable = l;
        for (page = 0; page < 256; page++) for (tok = 0; tok < 64; tok++) {
            WBXMLTagEntry fake = { "x", (WB_UTINY) page, (WB_UTINY) tok, 0 };
            WBXMLBuffer *b1 = wbxml_buffer_create(p1, 2, 2), *b2 = wbxml_buffer_create(p2, 6, 6);
            WBXMLError r1, r2; const char *k;
            P->current_tag = &fake;
            r1 = decode_opaque_content(P, &b1);
            r2 = decode_opaque_content(P, &b2);
            k = classify(r1, b1, r2, b2);
            n++;
            if (strcmp(k, "identity") != 0) printf("D %d content %d %d %s\n", (int) l->langID, page, tok, k);
            wbxml_buffer_destroy(b1); wbxml_buffer_destroy(b2);
        }
        P->current_tag = NULL;
        {   /* opaque attribute values: per language */
            WBXMLBuffer *b1 = wbxml_buffer_create(p1, 2, 2), *b2 = wbxml_buffer_create(p2, 6, 6);
            WBXMLError r1 = decode_opaque_attr_value(P, &b1), r2 = decode_opaque_attr_value(P, &b2);
            const char *k = classify(r1, b1, r2, b2);
            n++;
            if (strcmp(k, "identity") != 0) printf("D %d attr -1 -1 %s\n", (int) l->langID, k);
            wbxml_buffer_destroy(b1); wbxml_buffer_destroy(b2);
        }
        if (l->attrTable != NULL) {
            /* date-time attributes: the real parse_attribute on  token C3 07 20 01 02 03 04 05 06 01 */
            for (page = 0; page < 256; page++) for (tok = 5; tok < 128; tok++) {
                WB_UTINY doc[11] = { 0, WBXML_OPAQUE, 7, 0x20, 0x01, 0x02, 0x03, 0x04, 0x05, 0x06, WBXML_END };
                WBXMLAttribute *attr = NULL; WBXMLError r;
                if (tok == 0x40 || tok == 0x41 || tok == 0x42 || tok == 0x43 || tok == 0x44) continue;
                doc[0] = (WB_UTINY) tok;
                wbxml_buffer_destroy(P->wbxml);
                P->wbxml = wbxml_buffer_create(doc, 11, 11);
                P->pos = 0; P->attrCodePage = (WB_UTINY) page; P->version = WBXML_VERSION_13; P->charset = WBXML_CHARSET_UTF_8;
                r = parse_attribute(P, &attr);
                n++;
                if (r == WBXML_OK && attr != NULL && attr->value != NULL) {
                    const char *s = (const char *) wbxml_buffer_get_cstr(attr->value);
                    if (strncmp(s, "2001-02-03T04:05:06Z", 20) == 0)
                        printf("D %d attrdt %d %d datetime\n", (int) l->langID, page, tok);
                    else if (l->langID != WBXML_LANG_OTA_SETTINGS && !(wbxml_buffer_len(attr->value) >= 7 && (unsigned char) s[wbxml_buffer_len(attr->value) - 8 + 0] == 0x20) &&
                             strstr(s, "\x20\x01\x02\x03\x04\x05\x06") == NULL)
                        printf("D %d attrdt %d %d other\n", (int) l->langID, page, tok);
                }
                if (attr) wbxml_attribute_destroy(attr);
            }
        }
    }
    P->langTable = NULL;
    wbxml_parser_destroy(P);
    printf("DONE %lu\n", n);
    return 0;
}
