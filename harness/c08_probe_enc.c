/* C08 hard-wired typed elements, ENCODER side: behavioural probe.
   wbxml_encode_value_element_buffer is called for every language x 256 pages x 64 tag tokens (content context,
   current_tag and current_text_parent = a token node {page, token}) with the texts "258", "20010203T040506", "AQI=",
   and for every language x 256 pages x attribute token 5..127 (attribute context, current_attr = {page, token}) with
   "2001-02-03T04:05:06Z"; an output that starts with OPAQUE and carries the typed octets is a typed binary form.
   Further: the Nokia OTA ICON branch (attribute context with a NAME="ICON" sibling attribute on the current node, text "AQI=");
   the SyncML MIME-type rewrite, both ways: WBXML side (content context, text application/vnd.syncml-devinf+xml, every
   language x page x token; reported once per language as "contentany" when every (page, token) is rewritten) and XML side
   (xml_encode_text with application/vnd.syncml-devinf+wbxml and ...dmtnds+wbxml: lines X); the table option BINARY on every
   real tag row: WBXML side parse_text -> OPAQUE (lines B), XML side xml_encode_text -> base64 (lines Y).
   Output:  E|X <langid> content|attrdt|attrval|contentany <page> <token> <kind> ; B|Y <langid> <page> <token> ; final "DONE n". */
#include "vh.h"
#include "wbxml_encoder.c"

static int starts(WBXMLBuffer *b, const unsigned char *p, size_t n) {
    return wbxml_buffer_len(b) >= n && memcmp(wbxml_buffer_get_cstr(b), p, n) == 0;
}

int main(void) {
    const WBXMLLangEntry *m = wbxml_tables_get_main(), *l;
    unsigned long n = 0;
    static const unsigned char o_int[4] = { WBXML_OPAQUE, 2, 1, 2 };
    static const unsigned char o_dt[2] = { WBXML_OPAQUE, 6 };
    static const unsigned char o_adt[9] = { WBXML_OPAQUE, 7, 0x20, 0x01, 0x02, 0x03, 0x04, 0x05, 0x06 };
    for (l = m; l->publicID != NULL; l++) {
        int page, tok;
        for (page = 0; page < 256; page++) for (tok = 0; tok < 64; tok++) {
            WBXMLTagEntry fake = { "x", (WB_UTINY) page, (WB_UTINY) tok, 0 };
            WBXMLTag tag; WBXMLTreeNode node;
            const char *texts[3] = { "258", "20010203T040506", "AQI=" };
            const char *kind = "identity"; int k;
            memset(&node, 0, sizeof node); tag.type = WBXML_VALUE_TOKEN; tag.u.token = &fake;
            node.type = WBXML_TREE_ELEMENT_NODE; node.name = &tag;
            for (k = 0; k < 3; k++) {
                WBXMLEncoder *e = wbxml_encoder_create();
                WB_UTINY buf[32]; WBXMLError r;
                e->lang = l; e->output = wbxml_buffer_create("", 0, 64); e->output_type = WBXML_ENCODER_OUTPUT_WBXML;
                e->use_strtbl = FALSE; e->current_tag = &fake; e->current_text_parent = &node; e->tagCodePage = (WB_UTINY) page;
                strcpy((char *) buf, texts[k]);
                r = wbxml_encode_value_element_buffer(e, buf, WBXML_VALUE_ELEMENT_CTX_CONTENT);
                n++;
                if (r == WBXML_OK) {
                    if (k == 0 && starts(e->output, o_int, 4) && wbxml_buffer_len(e->output) == 4) kind = "integer";
                    else if (k == 1 && starts(e->output, o_dt, 2) && wbxml_buffer_len(e->output) == 8) kind = "datetime";
                    else if (k == 2 && starts(e->output, o_int, 4) && wbxml_buffer_len(e->output) == 4) kind = "base64";
                }
                e->current_tag = NULL; e->current_text_parent = NULL;
                wbxml_buffer_destroy(e->output); e->output = NULL; e->lang = NULL;
                wbxml_encoder_destroy(e);
                if (strcmp(kind, "identity") != 0) break;
            }
            if (strcmp(kind, "identity") != 0) printf("E %d content %d %d %s\n", (int) l->langID, page, tok, kind);
        }
        for (page = 0; page < 256; page++) for (tok = 5; tok < 128; tok++) {
            WBXMLAttrEntry fake = { "x", NULL, (WB_UTINY) page, (WB_UTINY) tok };
            WBXMLEncoder *e = wbxml_encoder_create();
            WB_UTINY buf[32]; WBXMLError r;
            e->lang = l; e->output = wbxml_buffer_create("", 0, 64); e->output_type = WBXML_ENCODER_OUTPUT_WBXML;
            e->use_strtbl = FALSE; e->current_attr = &fake; e->attrCodePage = (WB_UTINY) page;
            strcpy((char *) buf, "2001-02-03T04:05:06Z");
            r = wbxml_encode_value_element_buffer(e, buf, WBXML_VALUE_ELEMENT_CTX_ATTR);
            n++;
            if (r == WBXML_OK && starts(e->output, o_adt, 9)) printf("E %d attrdt %d %d datetime\n", (int) l->langID, page, tok);
            e->current_attr = NULL;
            wbxml_buffer_destroy(e->output); e->output = NULL; e->lang = NULL;
            wbxml_encoder_destroy(e);
        }
        {   /* ---- Nokia OTA ICON: VALUE attribute of an element that also has NAME="ICON" */
            WBXMLTreeNode node; WBXMLTagEntry ftag = { "x", 0, 7, 0 };
            WBXMLAttribute *a = wbxml_attribute_create();
            memset(&node, 0, sizeof node); node.type = WBXML_TREE_ELEMENT_NODE;
            node.attrs = wbxml_list_create();
            a->name = wbxml_attribute_name_create_literal((WB_UTINY *) "NAME");
            a->value = wbxml_buffer_create_from_cstr("ICON");
            wbxml_list_append(node.attrs, a);
            for (page = 0; page < 256; page++) for (tok = 5; tok < 128; tok++) {
                WBXMLAttrEntry fake = { "x", NULL, (WB_UTINY) page, (WB_UTINY) tok };
                WBXMLEncoder *e = wbxml_encoder_create();
                WB_UTINY buf[32]; WBXMLError r;
                e->lang = l; e->output = wbxml_buffer_create("", 0, 64); e->output_type = WBXML_ENCODER_OUTPUT_WBXML;
                e->use_strtbl = FALSE; e->current_attr = &fake; e->current_tag = &ftag; e->current_node = &node; e->attrCodePage = (WB_UTINY) page;
                strcpy((char *) buf, "AQI=");
                r = wbxml_encode_value_element_buffer(e, buf, WBXML_VALUE_ELEMENT_CTX_ATTR);
                n++;
                if (r == WBXML_OK && starts(e->output, o_int, 4) && wbxml_buffer_len(e->output) == 4)
                    printf("E %d attrval %d %d base64\n", (int) l->langID, page, tok);
                e->current_attr = NULL; e->current_tag = NULL; e->current_node = NULL;
                wbxml_buffer_destroy(e->output); e->output = NULL; e->lang = NULL;
                wbxml_encoder_destroy(e);
            }
            wbxml_list_destroy(node.attrs, wbxml_attribute_destroy_item);
        }
        {   /* ---- MIME type rewrite, WBXML side (content context) and XML side (xml_encode_text) */
            static const char *xml_texts[2] = { "application/vnd.syncml-devinf+wbxml", "application/vnd.syncml.dmtnds+wbxml" };
            static const char *xml_want[2] = { "application/vnd.syncml-devinf+xml", "application/vnd.syncml.dmtnds+xml" };
            unsigned long hits[2] = { 0, 0 }; static unsigned char hit[256][64];
            memset(hit, 0, sizeof hit);
            for (page = 0; page < 256; page++) for (tok = 0; tok < 64; tok++) {
                WBXMLTagEntry fake = { "x", (WB_UTINY) page, (WB_UTINY) tok, 0 };
                WBXMLTag tag; WBXMLTreeNode node; int k;
                WBXMLEncoder *e = wbxml_encoder_create();
                WB_UTINY buf[64]; WBXMLError r = WBXML_OK;
                memset(&node, 0, sizeof node); tag.type = WBXML_VALUE_TOKEN; tag.u.token = &fake;
                node.type = WBXML_TREE_ELEMENT_NODE; node.name = &tag;
                e->lang = l; e->output = wbxml_buffer_create("", 0, 64); e->output_type = WBXML_ENCODER_OUTPUT_WBXML;
                e->use_strtbl = FALSE; e->current_tag = &fake; e->current_text_parent = &node; e->tagCodePage = (WB_UTINY) page;
                {   /* both texts of the WBXML-side rewrite: devinf (hit bit 1) and dmtnds (hit bit 2) */
                    static const char *w_texts[2] = { "application/vnd.syncml-devinf+xml", "application/vnd.syncml.dmtnds+xml" };
                    static const char *w_want[2] = { "devinf+wbxml", "dmtnds+wbxml" };
                    for (k = 0; k < 2; k++) {
                        wbxml_buffer_delete(e->output, 0, wbxml_buffer_len(e->output));
                        strcpy((char *) buf, w_texts[k]);
                        r = wbxml_encode_value_element_buffer(e, buf, WBXML_VALUE_ELEMENT_CTX_CONTENT);
                        n++;
                        if (r == WBXML_OK && wbxml_buffer_len(e->output) > 10 && strstr((const char *) wbxml_buffer_get_cstr(e->output) + 1, w_want[k]) != NULL) {
                            hit[page][tok] |= (unsigned char) (1 << k); hits[k]++;
                        }
                    }
                }
                e->current_tag = NULL; e->current_text_parent = NULL;
                wbxml_buffer_destroy(e->output); e->output = NULL; e->lang = NULL;
                wbxml_encoder_destroy(e);
                for (k = 0; k < 2; k++) {
                    WBXMLTreeNode text; 
                    e = wbxml_encoder_create();
                    memset(&text, 0, sizeof text); text.type = WBXML_TREE_TEXT_NODE; text.content = wbxml_buffer_create_from_cstr(xml_texts[k]);
                    e->lang = l; e->output = wbxml_buffer_create("", 0, 64); e->output_type = WBXML_ENCODER_OUTPUT_XML;
                    e->xml_gen_type = WBXML_GEN_XML_COMPACT; e->in_content = TRUE; e->current_tag = &fake;
                    r = xml_encode_text(e, &text);
                    n++;
                    if (r == WBXML_OK && strcmp((const char *) wbxml_buffer_get_cstr(e->output), xml_want[k]) == 0)
                        printf("X %d content %d %d %s\n", (int) l->langID, page, tok, k == 0 ? "mime" : "mimedm");
                    e->current_tag = NULL;
                    wbxml_buffer_destroy(text.content);
                    wbxml_buffer_destroy(e->output); e->output = NULL; e->lang = NULL;
                    wbxml_encoder_destroy(e);
                }
            }
            {
                int k;
                for (k = 0; k < 2; k++) {
                    const char *kind = k == 0 ? "mime" : "mimedm";
                    if (hits[k] == 256UL * 64UL) printf("E %d contentany 0 0 %s\n", (int) l->langID, kind);
                    else for (page = 0; page < 256; page++) for (tok = 0; tok < 64; tok++)
                        if (hit[page][tok] & (1 << k)) printf("E %d content %d %d %s\n", (int) l->langID, page, tok, kind);
                }
            }
        }
        if (l->tagTable != NULL) {   /* ---- table option BINARY, on the real rows */
            const WBXMLTagEntry *row;
            static const WB_UTINY bin[2] = { 1, 2 };
            for (row = l->tagTable; row->xmlName != NULL; row++) {
                WBXMLTreeNode text; WBXMLEncoder *e; WBXMLError r;
                memset(&text, 0, sizeof text); text.type = WBXML_TREE_TEXT_NODE;
                /* WBXML side */
                e = wbxml_encoder_create();
                text.content = wbxml_buffer_create(bin, 2, 2);
                e->lang = l; e->output = wbxml_buffer_create("", 0, 64); e->output_type = WBXML_ENCODER_OUTPUT_WBXML;
                e->use_strtbl = FALSE; e->current_tag = row; e->tagCodePage = row->wbxmlCodePage;
                r = parse_text(e, &text);
                n++;
                {
                    int v1 = (r == WBXML_OK && starts(e->output, o_int, 4) && wbxml_buffer_len(e->output) == 4), v2;
                    /* second variant: current_tag already reset (not the first child), the element is found through the parent */
                    WBXMLTag ptag; WBXMLTreeNode pnode;
                    memset(&pnode, 0, sizeof pnode); ptag.type = WBXML_VALUE_TOKEN; ptag.u.token = row;
                    pnode.type = WBXML_TREE_ELEMENT_NODE; pnode.name = &ptag; text.parent = &pnode;
                    wbxml_buffer_delete(e->output, 0, wbxml_buffer_len(e->output));
                    wbxml_buffer_destroy(text.content); text.content = wbxml_buffer_create(bin, 2, 2);
                    e->current_tag = NULL;
                    r = parse_text(e, &text);
                    n++;
                    v2 = (r == WBXML_OK && starts(e->output, o_int, 4) && wbxml_buffer_len(e->output) == 4);
                    text.parent = NULL;
                    if (v1 && v2) printf("B %d %d %d\n", (int) l->langID, row->wbxmlCodePage, row->wbxmlToken);
                    else if (v1 != v2) printf("M %d %d %d %d %d\n", (int) l->langID, row->wbxmlCodePage, row->wbxmlToken, v1, v2);
                }
                e->current_tag = NULL; wbxml_buffer_destroy(text.content);
                wbxml_buffer_destroy(e->output); e->output = NULL; e->lang = NULL; wbxml_encoder_destroy(e);
                /* XML side */
                e = wbxml_encoder_create();
                text.content = wbxml_buffer_create(bin, 2, 2);
                e->lang = l; e->output = wbxml_buffer_create("", 0, 64); e->output_type = WBXML_ENCODER_OUTPUT_XML;
                e->xml_gen_type = WBXML_GEN_XML_COMPACT; e->in_content = TRUE; e->current_tag = row;
                r = xml_encode_text(e, &text);
                n++;
                if (r == WBXML_OK && strcmp((const char *) wbxml_buffer_get_cstr(e->output), "AQI=") == 0)
                    printf("Y %d %d %d\n", (int) l->langID, row->wbxmlCodePage, row->wbxmlToken);
                e->current_tag = NULL; wbxml_buffer_destroy(text.content);
                wbxml_buffer_destroy(e->output); e->output = NULL; e->lang = NULL; wbxml_encoder_destroy(e);
            }
        }
    }
    printf("DONE %lu\n", n);
    return 0;
}
