/* C08 hard-wired typed elements, ENCODER side: behavioural probe.
   wbxml_encode_value_element_buffer is called for every language x 256 pages x 64 tag tokens (content context,
   current_tag and current_text_parent = a token node {page, token}) with the texts "258", "20010203T040506", "AQI=",
   and for every language x 256 pages x attribute token 5..127 (attribute context, current_attr = {page, token}) with
   "2001-02-03T04:05:06Z"; an output that starts with OPAQUE and carries the typed octets is a typed binary form.
   Output:  E <langid> content|attrdt <page> <token> <kind> ; final "DONE n". */
#include "vh.h"
#include "wbxml_encoder.c"

static int starts(WBXMLBuffer *b, const unsigned char *p, size_t n) {
    return wbxml_buffer_len(b) >= n && memcmp(wbxml_buffer_get_cstr(b), p, n) == 0;
}

int main(void) {
    const WBXMLLangEntry *m = wbxml_tables_get_main(), *l;
    unsigned long n = 0;
    static const unsigned char o_int[4] = { WBXML_OPAQUE, 2, 1, 2 };
    static const unsigned char o_dt[2] = { WBXML_OPAQUE, 6 };
    static const unsigned char o_adt[9] = { WBXML_OPAQUE, 7, 0x20, 0x01, 0x02, 0x03, 0x04, 0x05, 0x06 };
    for (l = m; l->publicID != NULL; l++) {
        int page, tok;
        for (page = 0; page < 256; page++) for (tok = 0; tok < 64; tok++) {
            WBXMLTagEntry fake = { "x", (WB_UTINY) page, (WB_UTINY) tok, 0 };
            WBXMLTag tag; WBXMLTreeNode node;
            const char *texts[3] = { "258", "20010203T040506", "AQI=" };
            const char *kind = "identity"; int k;
            memset(&node, 0, sizeof node); tag.type = WBXML_VALUE_TOKEN; tag.u.token = &fake;
            node.type = WBXML_TREE_ELEMENT_NODE; node.name = &tag;
            for (k = 0; k < 3; k++) {
                WBXMLEncoder *e = wbxml_encoder_create();
                WB_UTINY buf[32]; WBXMLError r;
                e->lang = l; e->output = wbxml_buffer_create("", 0, 64); e->output_type = WBXML_ENCODER_OUTPUT_WBXML;
                e->use_strtbl = FALSE; e->current_tag = &fake; e->current_text_parent = &node; e->tagCodePage = (WB_UTINY) page;
                strcpy((char *) buf, texts[k]);
                r = wbxml_encode_value_element_buffer(e, buf, WBXML_VALUE_ELEMENT_CTX_CONTENT);
                n++;
                if (r == WBXML_OK) {
                    if (k == 0 && starts(e->output, o_int, 4) && wbxml_buffer_len(e->output) == 4) kind = "integer";
                    else if (k == 1 && starts(e->output, o_dt, 2) && wbxml_buffer_len(e->output) == 8) kind = "datetime";
                    else if (k == 2 && starts(e->output, o_int, 4) && wbxml_buffer_len(e->output) == 4) kind = "base64";
                }
                e->current_tag = NULL; e->current_text_parent = NULL;
                wbxml_buffer_destroy(e->output); e->output = NULL; e->lang = NULL;
                wbxml_encoder_destroy(e);
                if (strcmp(kind, "identity") != 0) break;
            }
            if (strcmp(kind, "identity") != 0) printf("E %d content %d %d %s\n", (int) l->langID, page, tok, kind);
        }
        for (page = 0; page < 256; page++) for (tok = 5; tok < 128; tok++) {
            WBXMLAttrEntry fake = { "x", NULL, (WB_UTINY) page, (WB_UTINY) tok };
            WBXMLEncoder *e = wbxml_encoder_create();
            WB_UTINY buf[32]; WBXMLError r;
            e->lang = l; e->output = wbxml_buffer_create("", 0, 64); e->output_type = WBXML_ENCODER_OUTPUT_WBXML;
            e->use_strtbl = FALSE; e->current_attr = &fake; e->attrCodePage = (WB_UTINY) page;
            strcpy((char *) buf, "2001-02-03T04:05:06Z");
            r = wbxml_encode_value_element_buffer(e, buf, WBXML_VALUE_ELEMENT_CTX_ATTR);
            n++;
            if (r == WBXML_OK && starts(e->output, o_adt, 9)) printf("E %d attrdt %d %d datetime\n", (int) l->langID, page, tok);
            e->current_attr = NULL;
            wbxml_buffer_destroy(e->output); e->output = NULL; e->lang = NULL;
            wbxml_encoder_destroy(e);
        }
    }
    printf("DONE %lu\n", n);
    return 0;
}
