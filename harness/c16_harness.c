/* C16 harness — FAULT ENUMERATION SUPPORT (not a theorem): every allocation request of the library goes through
   vf_malloc / vf_realloc / vf_strdup / vf_free (the library is built with -Dmalloc=vf_malloc -Dfree=vf_free
   -Drealloc=vf_realloc -Dstrdup=vf_strdup, which only wbxml_mem.c uses), with a counter "fail the k-th request".
   Expat's own allocations (XML_ParserCreateNS in wbxml_tree_from_xml) are NOT routed through the wrapper: only the
   library's requests are failed.

   Documents: file named by $C16_DOCS, one per line "<w|x> <hex>".
   run <doc> <optset> <k> [t]    k = 0: clean run; k > 0: the k-th request fails.  optset for 'w' documents:
                                 0 wbxml2xml defaults, 1 wbxml2xml canonical + keep whitespace;
                                 for 'x' documents: 2 xml2wbxml defaults, 3 xml2wbxml no string table, anonymous, 1.1
        answer: st=<status> out=<pointer non-NULL> len=<n> hash=<h> reqs=<requests made> failed=<requests refused>
                leaked=<blocks still live> dfree=<frees of an already freed block> ufree=<frees of an unknown block>
                fail=<return addresses of the refused request> leak=<return addresses of the first leaked block's request>
                [trace=<a<id> | f<id> | r<old>:<new> | x ...>]   (with the 't' flag)
   pair <doc> <optset> <k1> <k2>  two failures
   site <doc> <optset> <k>        only the return addresses of request k (the run stops there) */
#include <execinfo.h>
#include <stdint.h>
#include "vh.h"
#include "wbxml.h"
#include "wbxml_conv.h"

#define NBT 7
typedef struct Blk { void *p; unsigned id; void *bt[NBT]; int nbt; struct Blk *next; } Blk;
#define NB 4096
static Blk *live[NB];
static unsigned next_id = 1, nlive = 0;
static unsigned long reqs = 0, refused = 0, dfree = 0, ufree = 0;
static unsigned long fail1 = 0, fail2 = 0, site_only = 0;
static void *fail_bt[NBT]; static int fail_nbt = 0;
static int tracing = 0, enabled = 0;
static char *trace = NULL; static size_t tlen = 0, tcap = 0;
/* recently freed blocks (to tell a double free from a free of an unknown block) */
#define NF 1024
static void *freed_ring[NF]; static unsigned freed_n = 0;

static void tr(const char *fmt, unsigned a, unsigned b) {
    if (!tracing) return;
    if (tlen + 32 > tcap) { tcap = tcap ? tcap * 2 : 65536; trace = realloc(trace, tcap); }
    tlen += (size_t) sprintf(trace + tlen, fmt, a, b);
}
static unsigned hp(void *p) { return (unsigned) ((((uintptr_t) p) >> 4) % NB); }
static Blk *find(void *p, int unlink) {
    Blk **pp = &live[hp(p)];
    for (; *pp; pp = &(*pp)->next) if ((*pp)->p == p) { Blk *b = *pp; if (unlink) { *pp = b->next; nlive--; } return b; }
    return NULL;
}
static unsigned add(void *p) {
    Blk *b = malloc(sizeof *b);
    b->p = p; b->id = next_id++; b->nbt = backtrace(b->bt, NBT);
    b->next = live[hp(p)]; live[hp(p)] = b; nlive++;
    return b->id;
}
static int was_freed(void *p) { unsigned i; for (i = 0; i < freed_n && i < NF; i++) if (freed_ring[i] == p) return 1; return 0; }
static void forget_freed(void *p) { unsigned i; for (i = 0; i < freed_n && i < NF; i++) if (freed_ring[i] == p) freed_ring[i] = NULL; }

static int refuse(void) {
    reqs++;
    if (site_only && reqs == site_only) {
        void *bt[NBT]; int n = backtrace(bt, NBT), i;
        printf("site=");
        for (i = 0; i < n; i++) printf("%s%lx", i ? "," : "", (unsigned long) bt[i]);
        printf("\n"); fflush(stdout);
        _exit(0);
    }
    if (reqs == fail1 || reqs == fail2) {
        refused++;
        if (refused == 1) fail_nbt = backtrace(fail_bt, NBT);
        tr("x,", 0, 0);
        return 1;
    }
    return 0;
}

void *vf_malloc(size_t n) {
    void *p;
    if (!enabled) return malloc(n);
    if (refuse()) return NULL;
    p = malloc(n ? n : 1);
    forget_freed(p);
    tr("a%u,", add(p), 0);
    return p;
}
char *vf_strdup(const char *s) {
    char *p;
    if (!enabled) return strdup(s);
    if (refuse()) return NULL;
    p = strdup(s);
    forget_freed(p);
    tr("a%u,", add(p), 0);
    return p;
}
void vf_free(void *p) {
    Blk *b;
    if (!enabled) { free(p); return; }
    if (p == NULL) return;
    b = find(p, 1);
    if (b == NULL) {
        /* not a live block of ours: record, and do NOT pass it to free() (the run goes on; the trace shows it) */
        if (was_freed(p)) { dfree++; tr("f%u,", 0, 0); } else { ufree++; tr("u,", 0, 0); }
        return;
    }
    tr("f%u,", b->id, 0);
    free(b);
    freed_ring[freed_n++ % NF] = p;
    free(p);
}
void *vf_realloc(void *p, size_t n) {
    void *q; Blk *b; unsigned oldid = 0;
    if (!enabled) return realloc(p, n);
    if (refuse()) return NULL;                 /* the old block stays valid, as with realloc */
    if (p != NULL) {
        b = find(p, 1);
        if (b == NULL) { if (was_freed(p)) dfree++; else ufree++; tr("u,", 0, 0); return NULL; }
        oldid = b->id; free(b);
    }
    q = realloc(p, n ? n : 1);
    if (p != NULL && q != p) freed_ring[freed_n++ % NF] = p;
    forget_freed(q);
    tr("r%u:%u,", oldid, add(q));
    return q;
}

/* ------------------------------------------------------------------------------------------------ */
typedef struct { char kind; unsigned char *data; size_t len; } Doc;
static Doc *docs = NULL; static int ndocs = 0;

static void load_docs(void) {
    const char *path = getenv("C16_DOCS"); FILE *f; char *line; int cap = 0;
    if (!path) return;
    f = fopen(path, "r");
    if (!f) { fprintf(stderr, "cannot open %s\n", path); exit(3); }
    while ((line = vh_line(f)) != NULL) {
        if (ndocs == cap) { cap = cap ? cap * 2 : 128; docs = realloc(docs, cap * sizeof(Doc)); }
        docs[ndocs].kind = line[0];
        docs[ndocs].data = vh_unhex(line + 2, &docs[ndocs].len);
        ndocs++;
    }
    fclose(f);
}

static uint64_t fnv(const unsigned char *p, size_t n) {
    uint64_t h = 1469598103934665603ULL; size_t i;
    for (i = 0; i < n; i++) { h ^= p[i]; h *= 1099511628211ULL; }
    return h;
}

static WBXMLError convert(Doc *d, int opt, WB_UTINY **out, WB_ULONG *len) {
    WBXMLError st;
    if (d->kind == 'w') {
        WBXMLConvWBXML2XML *c = NULL;
        if ((st = wbxml_conv_wbxml2xml_create(&c)) != WBXML_OK) return st;
        if (opt == 1) { wbxml_conv_wbxml2xml_set_gen_type(c, WBXML_GEN_XML_CANONICAL); wbxml_conv_wbxml2xml_enable_preserve_whitespaces(c); }
        else { wbxml_conv_wbxml2xml_set_gen_type(c, WBXML_GEN_XML_INDENT); wbxml_conv_wbxml2xml_set_indent(c, 1); }
        st = wbxml_conv_wbxml2xml_run(c, d->data, (WB_ULONG) d->len, out, len);
        wbxml_conv_wbxml2xml_destroy(c);
    } else {
        WBXMLConvXML2WBXML *c = NULL;
        if ((st = wbxml_conv_xml2wbxml_create(&c)) != WBXML_OK) return st;
        if (opt == 3) { wbxml_conv_xml2wbxml_disable_string_table(c); wbxml_conv_xml2wbxml_disable_public_id(c); wbxml_conv_xml2wbxml_set_version(c, WBXML_VERSION_11); }
        st = wbxml_conv_xml2wbxml_run(c, d->data, (WB_ULONG) d->len, out, len);
        wbxml_conv_xml2wbxml_destroy(c);
    }
    return st;
}

static void reset_state(void) {
    int i;
    for (i = 0; i < NB; i++) { Blk *b = live[i], *n; for (; b; b = n) { n = b->next; free(b); } live[i] = NULL; }
    next_id = 1; nlive = 0; reqs = refused = dfree = ufree = 0; fail_nbt = 0; tlen = 0; freed_n = 0;
}

static int want_out = 0;
static void run(int doc, int opt, unsigned long k1, unsigned long k2, int with_trace, unsigned long site) {
    WB_UTINY *out = NULL; WB_ULONG len = 0; WBXMLError st; int i; unsigned j;
    uint64_t h; int outnn; Blk *first = NULL;
    reset_state();
    fail1 = k1; fail2 = k2; tracing = with_trace; site_only = site;
    enabled = 1;
    st = convert(&docs[doc], opt, &out, &len);
    outnn = out != NULL;
    h = fnv(out ? out : (WB_UTINY *) "", out ? len : 0);
    enabled = 0;
    if (want_out && out && st == WBXML_OK) { printf("outhex="); vh_puthex(stdout, out, len); printf(" "); }
    enabled = 1;
    if (out) wbxml_free(out);              /* the result block belongs to the caller */
    enabled = 0;
    for (j = 0; j < NB; j++) { Blk *b; for (b = live[j]; b; b = b->next) if (!first || b->id < first->id) first = b; }
    printf("st=%d out=%d len=%u hash=%016llx reqs=%lu failed=%lu leaked=%u dfree=%lu ufree=%lu fail=", (int) st, outnn, (unsigned) len,
           (unsigned long long) h, reqs, refused, nlive, dfree, ufree);
    for (i = 0; i < fail_nbt; i++) printf("%s%lx", i ? "," : "", (unsigned long) fail_bt[i]);
    printf(" leak=");
    if (first) for (i = 0; i < first->nbt; i++) printf("%s%lx", i ? "," : "", (unsigned long) first->bt[i]);
    if (with_trace) { printf(" trace="); fwrite(trace ? trace : "", 1, tlen, stdout); }
    printf("\n");
    /* leaked blocks are released here so that LeakSanitizer only reports what the accounting missed */
    for (j = 0; j < NB; j++) { Blk *b; for (b = live[j]; b; b = b->next) free(b->p); }
}

/* helpers for the orchestrator (no failure injected): mk <doc> [S] = WBXML of an XML document as hex;
   eq <hexA> <hexB> = do two WBXML documents denote the same XML (canonical form)? */
static void cmd_mk(int doc, int nostr) {
    WB_UTINY *out = NULL; WB_ULONG len = 0; WBXMLConvXML2WBXML *c = NULL;
    wbxml_conv_xml2wbxml_create(&c);
    if (nostr) wbxml_conv_xml2wbxml_disable_string_table(c);
    if (wbxml_conv_xml2wbxml_run(c, docs[doc].data, (WB_ULONG) docs[doc].len, &out, &len) == WBXML_OK && out) {
        vh_puthex(stdout, out, len); printf("\n"); wbxml_free(out);
    } else printf("none\n");
    wbxml_conv_xml2wbxml_destroy(c);
}
static int canon(const char *hex, WB_UTINY **xml, WB_ULONG *len) {
    size_t n; unsigned char *d = vh_unhex(hex, &n); WBXMLConvWBXML2XML *c = NULL; WBXMLError st;
    wbxml_conv_wbxml2xml_create(&c);
    wbxml_conv_wbxml2xml_set_gen_type(c, WBXML_GEN_XML_CANONICAL);
    st = wbxml_conv_wbxml2xml_run(c, d, (WB_ULONG) n, xml, len);
    wbxml_conv_wbxml2xml_destroy(c); free(d);
    return st == WBXML_OK;
}
static void cmd_eq(const char *a, const char *b) {
    WB_UTINY *xa = NULL, *xb = NULL; WB_ULONG la = 0, lb = 0;
    int oa = canon(a, &xa, &la), ob = canon(b, &xb, &lb);
    printf("%s\n", (oa && ob && la == lb && memcmp(xa, xb, la) == 0) ? "same" : (oa && ob ? "diff" : "undecodable"));
    if (xa) wbxml_free(xa);
    if (xb) wbxml_free(xb);
}

int main(void) {
    char *line, *tok[8];
    load_docs();
    while ((line = vh_line(stdin)) != NULL) {
        int nt = vh_split(line, tok, 8), doc, opt;
        if (nt >= 2 && strcmp(tok[0], "mk") == 0) { doc = atoi(tok[1]); if (doc >= 0 && doc < ndocs) cmd_mk(doc, nt > 2); else printf("bad\n"); fflush(stdout); continue; }
        if (nt >= 3 && strcmp(tok[0], "eq") == 0) { cmd_eq(tok[1], tok[2]); fflush(stdout); continue; }
        if (nt < 4) { printf("bad\n"); continue; }
        doc = atoi(tok[1]); opt = atoi(tok[2]);
        if (doc < 0 || doc >= ndocs) { printf("bad\n"); continue; }
        want_out = (nt > 4 && strchr(tok[4], 'o') != NULL);
        if (strcmp(tok[0], "run") == 0) run(doc, opt, strtoul(tok[3], 0, 10), 0, nt > 4 && strchr(tok[4], 't') != NULL, 0);
        else if (strcmp(tok[0], "pair") == 0 && nt >= 5) run(doc, opt, strtoul(tok[3], 0, 10), strtoul(tok[4], 0, 10), 0, 0);
        else if (strcmp(tok[0], "site") == 0) { run(doc, opt, 0, 0, 0, strtoul(tok[3], 0, 10)); }
        else printf("bad\n");
        fflush(stdout);
    }
    return 0;
}
