/* C02 whole-conversion correspondence harness (model: coq/Model/ConvXml2Wbxml.v, driver: driver/C02c_driver.ml).
   One line in:   <xml document, hex> <wbxml_version 0..3> <keep_ignorable_ws 0|1> <use_strtbl 0|1> <produce_anonymous 0|1>
   One line out:  EV <events> | ST <0|1> | W OK <wbxml hex>      or      ... | W ERR <code>
   Pass 1: the logging Expat parser of xmlfront_log.h (the oracle).  Pass 2: the real wbxml_conv_xml2wbxml_run with the
   options set through the converter's own setters.  Contract markers (never expected): !NULL-OUT-ON-OK,
   !OUT-ON-ERROR, !LEN-ON-ERROR, !INPUT-MODIFIED. */
#include "xmlfront_log.h"
#include "wbxml_conv.h"

int main(void) {
    char *line, *tok[8];
    while ((line = vh_line(stdin)) != NULL) {
        int nt = vh_split(line, tok, 8), st;
        size_t n;
        unsigned char *xml, *copy;
        WBXMLConvXML2WBXML *conv = NULL;
        WB_UTINY *out = (WB_UTINY *) 0x1;
        WB_ULONG outlen = 0xdeadbeef;
        WBXMLError e;
        if (nt < 5) { printf("bad\n"); fflush(stdout); continue; }
        xml = vh_unhex(tok[0], &n);
        copy = malloc(n + 1);
        memcpy(copy, xml, n);
        printf("EV");
        st = log_events(xml, n);
        printf(" | ST %d", st);
        if (wbxml_conv_xml2wbxml_create(&conv) != WBXML_OK) { printf(" | W ERR -1\n"); free(xml); free(copy); continue; }
        wbxml_conv_xml2wbxml_set_version(conv, (WBXMLVersion) atoi(tok[1]));
        if (atoi(tok[2])) wbxml_conv_xml2wbxml_enable_preserve_whitespaces(conv);
        if (!atoi(tok[3])) wbxml_conv_xml2wbxml_disable_string_table(conv);
        if (atoi(tok[4])) wbxml_conv_xml2wbxml_disable_public_id(conv);
        e = wbxml_conv_xml2wbxml_run(conv, xml, (WB_ULONG) n, &out, &outlen);
        if (memcmp(copy, xml, n) != 0) printf(" | !INPUT-MODIFIED");
        if (e == WBXML_OK) {
            if (out == NULL || out == (WB_UTINY *) 0x1) printf(" | W OK !NULL-OUT-ON-OK\n");
            else { printf(" | W OK "); vh_puthex(stdout, out, outlen); printf("\n"); wbxml_free(out); }
        } else {
            printf(" | W ERR %d%s%s\n", (int) e, out != NULL ? " !OUT-ON-ERROR" : "", outlen != 0 ? " !LEN-ON-ERROR" : "");
        }
        wbxml_conv_xml2wbxml_destroy(conv);
        free(copy);
        free(xml);
        fflush(stdout);
    }
    return 0;
}
