/* C12 correspondence harness, encoder side (a second program: a .c file is included once per program).
   The static encoding routines of wbxml_encoder.c are reached by including the source file.
   The texts are passed as C strings (hex on the line, NUL appended here).

     eint  <hex>                        wbxml_encode_wv_integer
     edt   <hex>                        wbxml_encode_datetime
     ewvdt <hex>                        wbxml_encode_wv_datetime
     ewv   <langid> <page> <tok> <hex>  wbxml_encode_wv_content with that current tag
     edrm  <page> <tok> <hex>           wbxml_encode_drmrel_content with that text parent
     eattr <langid> <page> <tok> <hex>  wbxml_encode_value_element_buffer(ATTR) with that current attribute
   answers: "emit <hex of the bytes appended to the output>" | "notenc" | "err <NAME>"
*/
#include "vh.h"
#include "wbxml_encoder.c"

static const char *errname(WBXMLError e) {
    static char tmp[32];
    switch (e) {
    case WBXML_ERROR_BAD_DATETIME: return "BAD_DATETIME";
    case WBXML_ERROR_INTERNAL: return "INTERNAL";
    case WBXML_ERROR_B64_ENC: return "B64_ENC";
    case WBXML_ERROR_B64_DEC: return "B64_DEC";
    case WBXML_ERROR_WV_DATETIME_FORMAT: return "WV_DATETIME_FORMAT";
    case WBXML_ERROR_WV_INTEGER_OVERFLOW: return "WV_INTEGER_OVERFLOW";
    default: sprintf(tmp, "E%d", (int) e); return tmp;
    }
}

static void answer(WBXMLError e, WBXMLEncoder *enc) {
    if (e == WBXML_OK) { printf("emit "); vh_puthex(stdout, wbxml_buffer_get_cstr(enc->output), wbxml_buffer_len(enc->output)); printf("\n"); }
    else if (e == WBXML_NOT_ENCODED) printf("notenc\n");
    else printf("err %s\n", errname(e));
}

int main(void) {
    char *line, *tok[8];
    while ((line = vh_line(stdin)) != NULL) {
        int nt = vh_split(line, tok, 8);
        size_t n = 0; unsigned char *d = NULL;
        WBXMLEncoder *enc;
        WBXMLTagEntry tag;
        WBXMLAttrEntry attr;
        WBXMLError e = WBXML_ERROR_INTERNAL;
        if (nt < 2) { printf("bad\n"); continue; }
        d = vh_unhex(tok[nt - 1], &n);
        d = realloc(d, n + 2);
        d[n] = 0; d[n + 1] = 0;
        enc = wbxml_encoder_create();
        enc->output = wbxml_buffer_create((const WB_UTINY *) "", 0, 64);
        enc->use_strtbl = FALSE;
        tag.xmlName = "x"; tag.options = 0; tag.wbxmlCodePage = 0; tag.wbxmlToken = 0;
        attr.xmlName = "x"; attr.xmlValue = NULL; attr.wbxmlCodePage = 0; attr.wbxmlToken = 0;
        if (!strcmp(tok[0], "eint")) { e = wbxml_encode_wv_integer(enc, d); answer(e, enc); }
        else if (!strcmp(tok[0], "edt")) { e = wbxml_encode_datetime(enc, d); answer(e, enc); }
        else if (!strcmp(tok[0], "ewvdt")) { e = wbxml_encode_wv_datetime(enc, d); answer(e, enc); }
        else if (!strcmp(tok[0], "ewv") && nt == 5) {
            enc->lang = wbxml_tables_get_table((WBXMLLanguage) atoi(tok[1]));
            tag.wbxmlCodePage = (WB_UTINY) atoi(tok[2]); tag.wbxmlToken = (WB_UTINY) atoi(tok[3]);
            enc->current_tag = &tag;
            if (enc->lang == NULL) printf("nolang\n");
            else { e = wbxml_encode_wv_content(enc, d); answer(e, enc); }
        }
        else if (!strcmp(tok[0], "edrm") && nt == 4) {
            WBXMLTag name; WBXMLTreeNode node;
            memset(&node, 0, sizeof node);
            tag.wbxmlCodePage = (WB_UTINY) atoi(tok[1]); tag.wbxmlToken = (WB_UTINY) atoi(tok[2]);
            name.type = WBXML_VALUE_TOKEN; name.u.token = &tag;
            node.type = WBXML_TREE_ELEMENT_NODE; node.name = &name;
            enc->current_text_parent = &node;
            e = wbxml_encode_drmrel_content(enc, d); answer(e, enc);
            enc->current_text_parent = NULL;
        }
        else if (!strcmp(tok[0], "eattr") && nt == 5) {
            enc->lang = wbxml_tables_get_table((WBXMLLanguage) atoi(tok[1]));
            attr.wbxmlCodePage = (WB_UTINY) atoi(tok[2]); attr.wbxmlToken = (WB_UTINY) atoi(tok[3]);
            enc->current_attr = &attr;
            if (enc->lang == NULL) printf("nolang\n");
            else {
                e = wbxml_encode_value_element_buffer(enc, d, WBXML_VALUE_ELEMENT_CTX_ATTR);
                /* typed = the value went out as one OPAQUE; everything else is the generic string path */
                if (e == WBXML_OK && wbxml_buffer_len(enc->output) > 0 && wbxml_buffer_get_cstr(enc->output)[0] == WBXML_OPAQUE) answer(e, enc);
                else if (e == WBXML_OK) printf("notenc\n");
                else answer(e, enc);
            }
        }
        else printf("bad\n");
        enc->current_tag = NULL; enc->current_attr = NULL;
        wbxml_encoder_destroy(enc);
        free(d);
    }
    return 0;
}
