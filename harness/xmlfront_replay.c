/* XML front end, REPLAY harness: the Expat callbacks of src/wbxml_tree_clb_xml.c are called directly with an event list
   given on the input line (not necessarily one Expat could produce), on a context initialised exactly as
   wbxml_tree_from_xml initialises it.  The state the callbacks leave is dumped even after an error (the tree is ours).
   One line in:   <events>   (notation of xmlfront_harness.c: X D S E C [ ] P tokens)
   One line out:  Q <error> <skip_lvl> <depth of current> <pending octets on current | -1> <charset> <tree dump> | STICKY <ok | changed@k>
   STICKY is the library-side oracle of the strict sticky-error property: from the first event after which error != OK,
   the state (error, skip level / start, current, tree with every cached buffer; NOT charset / language) is fingerprinted
   after every further event; "changed@k" names the first event (0-based) that changed it.
   Event lists must start the root element before any CDATA section (the callbacks dereference NULL otherwise: known,
   unreachable through Expat). */
#include "wbxml_internals.h"
#include "wbxml_config_internals.h"
#include <expat.h>
#include "xmlfront_dump.h"
#include "wbxml_tree_clb_xml.h"

static char *fingerprint(WBXMLTreeClbCtx *c) {
    char *buf = NULL; size_t len = 0;
    FILE *F = open_memstream(&buf, &len);
    WBXMLTreeNode *p; unsigned d = 0;
    for (p = c->current; p; p = p->parent) d++;
    fprintf(F, "%d %lu %ld %u %p", (int) c->error, (unsigned long) c->skip_lvl, (long) c->skip_start, d, (void *) c->current);
    dump_show_pending = 2;
    { WBXMLTreeNode *r; for (r = c->tree->root; r; r = r->next) fdump_node(F, r); }
    fclose(F);
    return buf;
}

int main(void) {
    char *line;
    while ((line = vh_line(stdin)) != NULL) {
        static char *tok[400000];
        int nt = 0, i = 0, k = 0, changed = -1, failed_at = -1;
        char *p = line, *fp = NULL;
        WBXMLTreeClbCtx ctx;
        XML_Parser parser = XML_ParserCreateNS(NULL, WBXML_NAMESPACE_SEPARATOR);
        unsigned char dummy[2] = { 'x', 0 };
        WBXMLTreeNode *q; unsigned depth = 0;
        while (*p && nt < 400000) { while (*p == ' ') p++; if (!*p) break; tok[nt++] = p; while (*p && *p != ' ') p++; if (*p) *p++ = 0; }
        ctx.current = NULL; ctx.error = WBXML_OK; ctx.skip_lvl = 0; ctx.skip_start = 0;
        ctx.xml_parser = parser; ctx.input_buff = dummy; ctx.expat_utf16 = FALSE;
        ctx.tree = wbxml_tree_create(WBXML_LANG_UNKNOWN, WBXML_CHARSET_UNKNOWN);
#define NEXT() (i < nt ? tok[i++] : "-")
#define STR(t, out) do { size_t n_; unsigned char *b_ = vh_unhex((t), &n_); b_[n_] = 0; (out) = (char *) b_; } while (0)
        while (i < nt) {
            const char *kind = NEXT();
            if (!strcmp(kind, "X")) {
                const char *v = NEXT(), *e = NEXT(); char *vs = NULL, *es = NULL;
                if (strcmp(v, "~")) STR(v, vs); if (strcmp(e, "~")) STR(e, es);
                wbxml_tree_clb_xml_decl(&ctx, vs, es, -1);
                free(vs); free(es);
            } else if (!strcmp(kind, "D")) {
                const char *n = NEXT(), *s = NEXT(), *pu = NEXT(); char *ns, *ss = NULL, *ps = NULL;
                STR(n, ns); if (strcmp(s, "~")) STR(s, ss); if (strcmp(pu, "~")) STR(pu, ps);
                wbxml_tree_clb_xml_doctype_decl(&ctx, ns, ss, ps, 0);
                free(ns); free(ss); free(ps);
            } else if (!strcmp(kind, "S")) {
                const char *n = NEXT(); char *ns; int na, j; char **at;
                (void) NEXT(); na = atoi(NEXT());
                STR(n, ns);
                at = calloc((size_t) (2 * na + 1), sizeof(char *));
                for (j = 0; j < 2 * na; j++) STR(NEXT(), at[j]);
                wbxml_tree_clb_xml_start_element(&ctx, ns, (const XML_Char **) at);
                for (j = 0; j < 2 * na; j++) free(at[j]);
                free(at); free(ns);
            } else if (!strcmp(kind, "E")) {
                const char *n = NEXT(); char *ns;
                (void) NEXT(); STR(n, ns);
                wbxml_tree_clb_xml_end_element(&ctx, ns);
                free(ns);
            } else if (!strcmp(kind, "C")) {
                size_t n_; unsigned char *b_ = vh_unhex(NEXT(), &n_);
                wbxml_tree_clb_xml_characters(&ctx, (const XML_Char *) b_, (int) n_);
                free(b_);
            } else if (!strcmp(kind, "[")) wbxml_tree_clb_xml_start_cdata(&ctx);
            else if (!strcmp(kind, "]")) wbxml_tree_clb_xml_end_cdata(&ctx);
            else if (!strcmp(kind, "P")) {
                char *ts, *ds; STR(NEXT(), ts); STR(NEXT(), ds);
                wbxml_tree_clb_xml_pi(&ctx, ts, ds);
                free(ts); free(ds);
            }
            if (ctx.error != WBXML_OK) {
                char *now = fingerprint(&ctx);
                if (failed_at < 0) failed_at = k;
                else if (changed < 0 && strcmp(now, fp) != 0) changed = k;
                free(fp); fp = now;
            }
            k++;
        }
        for (q = ctx.current; q; q = q->parent) depth++;
        printf("Q %d %lu %u ", (int) ctx.error, (unsigned long) ctx.skip_lvl, depth);
        if (ctx.current && ctx.current->type == WBXML_TREE_ELEMENT_NODE && ctx.current->content)
            printf("%lu", (unsigned long) wbxml_buffer_len(ctx.current->content));
        else printf("-1");
        printf(" %d", (int) ctx.tree->orig_charset);
        dump_show_pending = 0;
        dump_tree(ctx.tree);
        dump_show_pending = 1;
        if (changed >= 0) printf(" | STICKY changed@%d\n", changed); else printf(" | STICKY ok\n");
        free(fp);
        wbxml_tree_destroy(ctx.tree);
        XML_ParserFree(parser);
        fflush(stdout);
    }
    return 0;
}
