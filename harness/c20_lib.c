/* C20 in-process oracle: calls the library exactly as the tools do, with options given numerically,
 * and exposes the tools' static name tables (get_lang / get_charset / get_version) and atoi.
 *
 * line protocol (tokens separated by one blank; hex, "-" = empty):
 *   w2x <gen> <lang> <charset> <indent> <keep> <hex input>        -> <code> <hex error string> <hex output>
 *   x2w <version> <keep> <use_strtbl> <anonymous> <hex input>     -> <code> <hex error string> <hex output>
 *   lang <hex name> | charset <hex name> | version <hex name>     -> <number>
 *   atoi <hex string>                                             -> <(int) atoi> <(unsigned char)(char) atoi>
 *   maxerr                                                        -> largest code for which wbxml_errors_string knows a text
 */
#include "vh.h"

#define main w2x_tool_main
#define help w2x_tool_help
#include "../tools/wbxml2xml_tool.c"
#undef main
#undef help
#define main x2w_tool_main
#define help x2w_tool_help
#include "../tools/xml2wbxml_tool.c"
#undef main
#undef help

static void answer(WBXMLError ret, WB_UTINY *out, WB_ULONG len)
{
    const char *es = (const char *) wbxml_errors_string(ret);
    printf("%d ", (int) ret);
    vh_puthex(stdout, (const unsigned char *) es, strlen(es));
    printf(" ");
    if (ret == WBXML_OK) vh_puthex(stdout, out, len); else printf("-");
    printf("\n");
}

int main(void)
{
    char *line, *tok[8];
    while ((line = vh_line(stdin)) != NULL) {
        int n = vh_split(line, tok, 8);
        size_t len = 0;
        if (n == 7 && strcmp(tok[0], "w2x") == 0) {
            WBXMLConvWBXML2XML *conv = NULL;
            WB_UTINY *xml = NULL; WB_ULONG xml_len = 0;
            unsigned char *in = vh_unhex(tok[6], &len);
            /* the tool passes a realloc'ed block of exactly `len` bytes (malloc(0) for an empty input) */
            unsigned char *buf = malloc(len);
            WBXMLError ret;
            if (len) memcpy(buf, in, len);
            ret = wbxml_conv_wbxml2xml_create(&conv);
            if (ret != WBXML_OK) { printf("create-failed\n"); return 3; }
            wbxml_conv_wbxml2xml_set_gen_type(conv, (WBXMLGenXMLType) atoi(tok[1]));
            wbxml_conv_wbxml2xml_set_language(conv, (WBXMLLanguage) atoi(tok[2]));
            wbxml_conv_wbxml2xml_set_charset(conv, (WBXMLCharsetMIBEnum) atoi(tok[3]));
            wbxml_conv_wbxml2xml_set_indent(conv, (WB_UTINY) atoi(tok[4]));
            if (atoi(tok[5])) wbxml_conv_wbxml2xml_enable_preserve_whitespaces(conv);
            ret = wbxml_conv_wbxml2xml_run(conv, buf, (WB_ULONG) len, &xml, &xml_len);
            answer(ret, xml, xml_len);
            if (ret == WBXML_OK) free(xml);
            free(buf); free(in);
            wbxml_conv_wbxml2xml_destroy(conv);
        } else if (n == 6 && strcmp(tok[0], "x2w") == 0) {
            WBXMLConvXML2WBXML *conv = NULL;
            WB_UTINY *wbxml = NULL; WB_ULONG wbxml_len = 0;
            unsigned char *in = vh_unhex(tok[5], &len);
            unsigned char *buf = malloc(len + 1);      /* the tool NUL-terminates its copy */
            WBXMLError ret;
            if (len) memcpy(buf, in, len);
            buf[len] = 0;
            ret = wbxml_conv_xml2wbxml_create(&conv);
            if (ret != WBXML_OK) { printf("create-failed\n"); return 3; }
            wbxml_conv_xml2wbxml_set_version(conv, (WBXMLVersion) atoi(tok[1]));
            if (atoi(tok[2])) wbxml_conv_xml2wbxml_enable_preserve_whitespaces(conv);
            if (!atoi(tok[3])) wbxml_conv_xml2wbxml_disable_string_table(conv);
            if (atoi(tok[4])) wbxml_conv_xml2wbxml_disable_public_id(conv);
            ret = wbxml_conv_xml2wbxml_run(conv, buf, (WB_ULONG) len, &wbxml, &wbxml_len);
            answer(ret, wbxml, wbxml_len);
            if (ret == WBXML_OK && wbxml != NULL) free(wbxml);
            free(buf); free(in);
            wbxml_conv_xml2wbxml_destroy(conv);
        } else if (n == 2 && (strcmp(tok[0], "lang") == 0 || strcmp(tok[0], "charset") == 0 ||
                              strcmp(tok[0], "version") == 0 || strcmp(tok[0], "atoi") == 0)) {
            unsigned char *s = vh_unhex(tok[1], &len);
            s[len] = 0;
            if (tok[0][0] == 'l') printf("%d\n", (int) get_lang((const WB_TINY *) s));
            else if (tok[0][0] == 'c') printf("%d\n", (int) get_charset((const WB_TINY *) s));
            else if (tok[0][0] == 'v') printf("%d\n", (int) get_version((const WB_TINY *) s));
            else printf("%d %u\n", atoi((const char *) s), (unsigned) (WB_UTINY) (WB_TINY) atoi((const char *) s));
            free(s);
        } else if (n == 1 && strcmp(tok[0], "maxerr") == 0) {
            /* codes whose text differs from the text of an unknown code */
            const char *unk = (const char *) wbxml_errors_string((WBXMLError) 60000);
            int i, mx = 0;
            for (i = 0; i < 70000; i++)
                if (strcmp((const char *) wbxml_errors_string((WBXMLError) i), unk) != 0) mx = i;
            printf("%d\n", mx);
        } else {
            printf("bad\n");
        }
        fflush(stdout);
    }
    return 0;
}
