/* XML front end correspondence harness (model: coq/Model/XmlFront.v, driver: driver/XmlFront_driver.ml).
   One line in:   <xml document, hex>
   One line out:  EV <events> | ST <0|1> | T OK <charset> <tree dump>      or      ... | T ERR <code>

   Pass 1 (the oracle): a fresh Expat parser created exactly as wbxml_tree_from_xml creates it
   (XML_ParserCreateNS(NULL, '|'); XmlDecl, StartDoctypeDecl, Element, CdataSection, ProcessingInstruction and
   CharacterData handlers; XML_Parse(parser, xml, len, TRUE)) with LOGGING handlers only — no library logic is
   re-implemented here.  ST is XML_Parse's verdict (0 = error).  Events (space separated tokens, hex strings, "-" =
   empty string, "~" = NULL pointer):
     X <version|~> <encoding|~>                          XML declaration
     D <name> <sysid|~> <pubid|~>                        start of DOCTYPE
     S <name> <byte index> <nattrs> (<name> <value>)*    start element (XML_GetCurrentByteIndex at the callback)
     E <name> <byte index>                               end element
     C <bytes>                                           character data
     [  ]                                                start / end of a CDATA section
     P <target> <data>                                   processing instruction
   Pass 2: the real wbxml_tree_from_xml on the same bytes; the resulting tree is dumped in the notation of
   harness/c06_harness.c (prefix notation; see there), preceded by tree->orig_charset; an ELEMENT node that still
   carries a cached base64 buffer (node->content) prints the extra token !PENDING, which the model cannot produce. */
#include "vh.h"
#include <expat.h>
#include "wbxml.h"
#include "wbxml_tree.h"
#include "wbxml_tables.h"
#include "wbxml_elt.h"
#include "wbxml_lists.h"
#include "wbxml_buffers.h"
#include "wbxml_internals.h"

#include "xmlfront_log.h"

#include "xmlfront_dump.h"

int main(void) {
    char *line;
    while ((line = vh_line(stdin)) != NULL) {
        size_t n;
        unsigned char *xml = vh_unhex(line, &n), *copy;
        WBXMLTree *tree = NULL;
        WBXMLError e;
        int st;
        copy = malloc(n + 1);
        memcpy(copy, xml, n);
        printf("EV");
        st = log_events(xml, n);
        printf(" | ST %d", st);
        e = wbxml_tree_from_xml(xml, (WB_ULONG) n, &tree);
        if (memcmp(copy, xml, n) != 0) printf(" | !INPUT-MODIFIED");
        if (e != WBXML_OK) {
            printf(" | T ERR %d%s\n", (int) e, tree != NULL ? " !TREE-NOT-NULL" : "");
        } else if (tree == NULL) {
            printf(" | T OK !NULL-TREE\n");
        } else {
            printf(" | T OK %d", (int) tree->orig_charset);
            dump_tree(tree);
            printf("\n");
            wbxml_tree_destroy(tree);
        }
        free(copy);
        free(xml);
        fflush(stdout);
    }
    return 0;
}
