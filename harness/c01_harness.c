/* C01 / C02 support harness: runs the two public conversions on a document held in READ-ONLY memory,
   on a thread with its own painted 8 MiB stack, with heap accounting of the library's allocations and a
   per-case leak check, and reports the result contract.  Links the "-vfmem" library variant
   (malloc/free/realloc/strdup of the library redirected to the vf_* functions below).
   line:  w2x <api> <lang> <charset> <gen> <indent> <keepws> <dump> <hexdoc>
          x2w <api> <version> <keepws> <strtbl> <anon> <dump> <hexdoc>
   api: run | withlen | nolen (NULL length pointer, w2x only) | noparams (legacy entry, NULL parameter block) */
#define _GNU_SOURCE
#include "vh.h"
#include <malloc.h>
#include <pthread.h>
#include <sys/mman.h>
#include <stdint.h>
#include "wbxml.h"
#include "wbxml_conv.h"

int __lsan_do_recoverable_leak_check(void);

static size_t cur_heap = 0, peak_heap = 0, n_alloc = 0;
void *vf_malloc(size_t n) { void *p = malloc(n); if (p) { cur_heap += malloc_usable_size(p); n_alloc++; if (cur_heap > peak_heap) peak_heap = cur_heap; } return p; }
void vf_free(void *p) { if (p) cur_heap -= malloc_usable_size(p); free(p); }
void *vf_realloc(void *p, size_t n) {
    size_t old = p ? malloc_usable_size(p) : 0; void *q = realloc(p, n);
    if (q) { cur_heap += malloc_usable_size(q); cur_heap -= old; n_alloc++; if (cur_heap > peak_heap) peak_heap = cur_heap; }
    return q;
}
char *vf_strdup(const char *s) { size_t n = strlen(s) + 1; char *p = vf_malloc(n); if (p) memcpy(p, s, n); return p; }

#define STACK_SZ (8u << 20)
struct job { int dir; char **tok; int nt; unsigned char *doc; size_t len; char line[512]; unsigned char *out; unsigned long outlen; };

static void *run_job(void *arg) {
    struct job *j = arg;
    const char *api = j->tok[1];
    WBXMLError ret;
    unsigned char *out = (unsigned char *) 0x1;   /* poison: must be overwritten (NULL on error) */
    WB_ULONG outlen = 0xdeadbeef;
    int nolen = 0;
    if (j->dir == 0) {
        WBXMLGenXMLParams pr;
        pr.lang = (WBXMLLanguage) atoi(j->tok[2]); pr.charset = (WBXMLCharsetMIBEnum) atoi(j->tok[3]);
        pr.gen_type = (WBXMLGenXMLType) atoi(j->tok[4]); pr.indent = (WB_UTINY) atoi(j->tok[5]);
        pr.keep_ignorable_ws = (WB_BOOL) atoi(j->tok[6]);
        if (!strcmp(api, "run") || !strcmp(api, "nolen")) {
            WBXMLConvWBXML2XML *c = NULL;
            nolen = !strcmp(api, "nolen");
            ret = wbxml_conv_wbxml2xml_create(&c);
            if (ret == WBXML_OK) {
                wbxml_conv_wbxml2xml_set_gen_type(c, pr.gen_type); wbxml_conv_wbxml2xml_set_language(c, pr.lang);
                wbxml_conv_wbxml2xml_set_charset(c, pr.charset); wbxml_conv_wbxml2xml_set_indent(c, pr.indent);
                if (pr.keep_ignorable_ws) wbxml_conv_wbxml2xml_enable_preserve_whitespaces(c);
                ret = wbxml_conv_wbxml2xml_run(c, j->doc, (WB_ULONG) j->len, &out, nolen ? NULL : &outlen);
                wbxml_conv_wbxml2xml_destroy(c);
            }
        } else if (!strcmp(api, "withlen")) {
            ret = wbxml_conv_wbxml2xml_withlen(j->doc, (WB_ULONG) j->len, &out, &outlen, &pr);
        } else {
            ret = wbxml_conv_wbxml2xml_withlen(j->doc, (WB_ULONG) j->len, &out, &outlen, NULL);
        }
    } else {
        WBXMLGenWBXMLParams pr;
        pr.wbxml_version = (WBXMLVersion) atoi(j->tok[2]); pr.keep_ignorable_ws = (WB_BOOL) atoi(j->tok[3]);
        pr.use_strtbl = (WB_BOOL) atoi(j->tok[4]); pr.produce_anonymous = (WB_BOOL) atoi(j->tok[5]);
        if (!strcmp(api, "run")) {
            WBXMLConvXML2WBXML *c = NULL;
            ret = wbxml_conv_xml2wbxml_create(&c);
            if (ret == WBXML_OK) {
                wbxml_conv_xml2wbxml_set_version(c, pr.wbxml_version);
                if (pr.keep_ignorable_ws) wbxml_conv_xml2wbxml_enable_preserve_whitespaces(c);
                if (!pr.use_strtbl) wbxml_conv_xml2wbxml_disable_string_table(c);
                if (pr.produce_anonymous) wbxml_conv_xml2wbxml_disable_public_id(c);
                ret = wbxml_conv_xml2wbxml_run(c, j->doc, (WB_ULONG) j->len, &out, &outlen);
                wbxml_conv_xml2wbxml_destroy(c);
            }
        } else if (!strcmp(api, "withlen")) {
            ret = wbxml_conv_xml2wbxml_withlen(j->doc, (WB_ULONG) j->len, &out, &outlen, &pr);
        } else {
            ret = wbxml_conv_xml2wbxml_withlen(j->doc, (WB_ULONG) j->len, &out, &outlen, NULL);
        }
    }
    if (nolen && out != NULL && out != (unsigned char *) 0x1) outlen = (WB_ULONG) strlen((char *) out);
    j->out = out; j->outlen = outlen;
    snprintf(j->line, sizeof j->line, "st=%d", (int) ret);
    return NULL;
}

int main(void) {
    char *line, *tok[12];
    unsigned char *stack = mmap(NULL, STACK_SZ, PROT_READ | PROT_WRITE, MAP_PRIVATE | MAP_ANONYMOUS | MAP_STACK, -1, 0);
    while ((line = vh_line(stdin)) != NULL) {
        struct job j; pthread_t th; pthread_attr_t at; size_t n, used, i; unsigned char *raw, *ro; size_t maplen;
        int nt = vh_split(line, tok, 12), dump, leak;
        memset(&j, 0, sizeof j);
        if (nt < 8 || (strcmp(tok[0], "w2x") && strcmp(tok[0], "x2w"))) { printf("bad\n"); continue; }
        j.dir = tok[0][0] == 'x'; j.tok = tok; j.nt = nt;
        dump = atoi(tok[j.dir ? 6 : 7]);
        raw = vh_unhex(tok[j.dir ? 7 : 8], &n);
        /* the document in read-only memory, ending exactly at the end of a page (reads beyond fault) */
        maplen = ((n + 4095) / 4096 + 1) * 4096;
        ro = mmap(NULL, maplen, PROT_READ | PROT_WRITE, MAP_PRIVATE | MAP_ANONYMOUS, -1, 0);
        memcpy(ro + (maplen - 4096) - n, raw, n);
        mprotect(ro, maplen - 4096, PROT_READ); mprotect(ro + maplen - 4096, 4096, PROT_NONE);
        j.doc = ro + (maplen - 4096) - n; j.len = n;
        memset(stack, 0xA5, STACK_SZ);
        cur_heap = peak_heap = n_alloc = 0;
        pthread_attr_init(&at); pthread_attr_setstack(&at, stack, STACK_SZ);
        pthread_create(&th, &at, run_job, &j); pthread_join(th, NULL); pthread_attr_destroy(&at);
        for (i = 0; i < STACK_SZ && stack[i] == 0xA5; i++) ;
        used = STACK_SZ - i;
        {
            int null_out = (j.out == NULL), poisoned = (j.out == (unsigned char *) 0x1), nul = 0;
            unsigned long h = 1469598103934665603UL;
            if (!null_out && !poisoned) {
                nul = (j.dir == 0) ? (j.out[j.outlen] == 0) : 1;
                for (i = 0; i < j.outlen; i++) { h ^= j.out[i]; h *= 1099511628211UL; }
            }
            printf("%s len=%lu null_out=%d untouched_out=%d nul=%d peak=%zu allocs=%zu stack=%zu held=%zu", j.line,
                   (unsigned long) (poisoned ? 0 : j.outlen), null_out, poisoned, nul, peak_heap, n_alloc, used,
                   (!null_out && !poisoned) ? cur_heap - malloc_usable_size(j.out) : cur_heap);
            if (!null_out && !poisoned) {
                printf(" hash=%016lx", h);
                if (dump) { printf(" out="); vh_puthex(stdout, j.out, j.outlen); }
                vf_free(j.out);
            }
        }
        munmap(ro, maplen); free(raw);
        leak = __lsan_do_recoverable_leak_check();
        printf(" leak=%d\n", leak ? 1 : 0);
        fflush(stdout);
    }
    return 0;
}
