/* C10 tie: language selection through the real entry points (public API only).
     w <forced> <meta> <hexdoc>   wbxml_parser_parse with a start-document handler
                                  -> ok <langid> <charset> | err <code>
     W <forced> <hexdoc>          wbxml_conv_wbxml2xml_run (forced 0 = no forcing)
                                  -> ok <hex of the XML produced> | err <code>
     x <textual 0|1> <anon 0|1> <hexxml>   wbxml_conv_xml2wbxml_run
                                  -> ok <hex of the WBXML produced> | err <code>
     r <forced> <meta> <hexdoc1> <hexdoc2>   ONE parser object parses doc1, then doc2 (reuse)
                                  -> <answer for doc1> ; <answer for doc2>   (each as for w)
     t <rev|dropN> <forced> <meta> <hexdoc>   as w, after wbxml_parser_set_main_table(custom table): the standard
                                  entries in reverse order / without the first N
     m                            -> number of main-table entries before langID == UNKNOWN, and before publicID == NULL */
#include "vh.h"
#include "wbxml.h"
#include "wbxml_tables.h"
#include "wbxml_parser.h"
#include "wbxml_conv.h"

static int got_lang, got_charset, got_called;
static void start_doc(void *ctx, WBXMLCharsetMIBEnum charset, const WBXMLLangEntry *lang) {
    (void) ctx; got_called = 1; got_charset = (int) charset; got_lang = lang ? (int) lang->langID : -1;
}

int main(void) {
    char *line, *tok[6];
    while ((line = vh_line(stdin)) != NULL) {
        int n = vh_split(line, tok, 6);
        if (tok[0][0] == 'w' && n == 4) {
            size_t len; unsigned char *doc = vh_unhex(tok[3], &len);
            WBXMLParser *p = wbxml_parser_create();
            WBXMLContentHandler h = { start_doc, NULL, NULL, NULL, NULL, NULL };
            WBXMLError r;
            got_called = 0; got_lang = -1; got_charset = 0;
            wbxml_parser_set_content_handler(p, &h);
            wbxml_parser_set_language(p, (WBXMLLanguage) strtoul(tok[1], NULL, 10));
            wbxml_parser_set_meta_charset(p, (WBXMLCharsetMIBEnum) atoi(tok[2]));
            r = wbxml_parser_parse(p, doc, (WB_ULONG) len);
            if (got_called) printf("ok %d %d\n", got_lang, got_charset);
            else printf("err %d\n", (int) r);
            wbxml_parser_destroy(p); free(doc);
        } else if (tok[0][0] == 't' && n == 5) {
            static WBXMLLangEntry custom[256];
            const WBXMLLangEntry *mt = wbxml_tables_get_main();
            size_t len; unsigned char *doc = vh_unhex(tok[4], &len);
            WBXMLParser *p = wbxml_parser_create();
            WBXMLContentHandler h = { start_doc, NULL, NULL, NULL, NULL, NULL };
            WBXMLError r;
            int cnt = 0, k, m = 0;
            while (mt[cnt].langID != WBXML_LANG_UNKNOWN && cnt < 254) cnt++;
            memset(custom, 0, sizeof(custom));
            if (strcmp(tok[1], "rev") == 0) { for (k = 0; k < cnt; k++) custom[m++] = mt[cnt - 1 - k]; }
            else { int d = atoi(tok[1] + 4); for (k = d; k < cnt; k++) custom[m++] = mt[k]; }
            got_called = 0; got_lang = -1; got_charset = 0;
            wbxml_parser_set_content_handler(p, &h);
            wbxml_parser_set_main_table(p, custom);
            wbxml_parser_set_language(p, (WBXMLLanguage) strtoul(tok[2], NULL, 10));
            wbxml_parser_set_meta_charset(p, (WBXMLCharsetMIBEnum) atoi(tok[3]));
            r = wbxml_parser_parse(p, doc, (WB_ULONG) len);
            if (got_called) printf("ok %d %d\n", got_lang, got_charset);
            else printf("err %d\n", (int) r);
            wbxml_parser_destroy(p); free(doc);
        } else if (tok[0][0] == 'r' && n == 5) {
            WBXMLParser *p = wbxml_parser_create();
            WBXMLContentHandler h = { start_doc, NULL, NULL, NULL, NULL, NULL };
            int k;
            wbxml_parser_set_content_handler(p, &h);
            wbxml_parser_set_language(p, (WBXMLLanguage) strtoul(tok[1], NULL, 10));
            wbxml_parser_set_meta_charset(p, (WBXMLCharsetMIBEnum) atoi(tok[2]));
            for (k = 0; k < 2; k++) {
                size_t len; unsigned char *doc = vh_unhex(tok[3 + k], &len); WBXMLError r;
                got_called = 0; got_lang = -1; got_charset = 0;
                r = wbxml_parser_parse(p, doc, (WB_ULONG) len);
                if (got_called) printf("ok %d %d", got_lang, got_charset); else printf("err %d", (int) r);
                fputs(k == 0 ? " ; " : "\n", stdout);
                free(doc);
            }
            wbxml_parser_destroy(p);
        } else if (tok[0][0] == 'W' && n == 3) {
            size_t len; unsigned char *doc = vh_unhex(tok[2], &len);
            WBXMLConvWBXML2XML *c = NULL; WB_UTINY *xml = NULL; WB_ULONG xl = 0; WBXMLError r;
            if (wbxml_conv_wbxml2xml_create(&c) != WBXML_OK) { puts("err -1"); free(doc); continue; }
            wbxml_conv_wbxml2xml_set_gen_type(c, WBXML_GEN_XML_COMPACT);
            if (atoi(tok[1]) != 0) wbxml_conv_wbxml2xml_set_language(c, (WBXMLLanguage) atoi(tok[1]));
            r = wbxml_conv_wbxml2xml_run(c, doc, (WB_ULONG) len, &xml, &xl);
            if (r == WBXML_OK) { fputs("ok ", stdout); vh_puthex(stdout, xml, xl); putchar('\n'); }
            else printf("err %d\n", (int) r);
            if (xml) wbxml_free(xml);
            wbxml_conv_wbxml2xml_destroy(c); free(doc);
        } else if (tok[0][0] == 'x' && n == 4) {
            size_t len; unsigned char *doc = vh_unhex(tok[3], &len);
            WBXMLConvXML2WBXML *c = NULL; WB_UTINY *out = NULL; WB_ULONG ol = 0; WBXMLError r;
            if (wbxml_conv_xml2wbxml_create(&c) != WBXML_OK) { puts("err -1"); free(doc); continue; }
            if (atoi(tok[2])) wbxml_conv_xml2wbxml_disable_public_id(c);
            r = wbxml_conv_xml2wbxml_run(c, doc, (WB_ULONG) len, &out, &ol);
            if (r == WBXML_OK) { fputs("ok ", stdout); vh_puthex(stdout, out, ol); putchar('\n'); }
            else printf("err %d\n", (int) r);
            if (out) wbxml_free(out);
            wbxml_conv_xml2wbxml_destroy(c); free(doc);
        } else if (tok[0][0] == 'm') {
            const WBXMLLangEntry *m = wbxml_tables_get_main(); int a = 0, b = 0;
            while (m[a].langID != WBXML_LANG_UNKNOWN) a++;
            while (m[b].publicID != NULL) b++;
            printf("%d %d\n", a, b);
        } else puts("bad");
    }
    return 0;
}
