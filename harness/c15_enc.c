/* C15 harness, encoder part (own translation unit: wbxml_encoder.c and wbxml_parser.c both define static
   parse_element / parse_attribute, so they cannot be included into one file).

   E <ops>   ONE encoder, wbxml_encoder_reset() after every run, versus a newly created encoder carrying the
             caller's settings, versus a third "shimmed" encoder on which the harness itself performs, after
             every reset, what the repair of DEFECTS.md does (recreate the string-table list, clear indent /
             current_text_parent, put back the caller's lang / output_charset / use_strtbl).
     ops: i<0|1> ignore_empty_text  b<0|1> remove_text_blanks  c<n> output_charset  s<0|1> use_strtbl
          a<0|1> produce_anonymous  v<n> wbxml_version  g<n> xml_gen_type  n<n> indent  l<n> set_lang
          p<0|1> text public id
          w<i>[!k] / x<i>[!k]  build the tree of document i (a PI node, which no encoder accepts, is put under
                               its k-th element if !k is given, under its k-th CDATA node if !c<k> is given: the
                               run then fails while a CDATA section is open), set it, encode to WBXML / XML, reset
     answer per run:  <reused>=<fresh>=<shimmed>~<flags>    each side: status/hash of output/length/pointer non-NULL
       flags = state of the reused encoder when the run started, relative to the caller's settings and the
               creation-time run state: N strstbl NULL, I indent != 0, L lang, U use_strtbl, C output_charset,
               O any other run-state field; '-' if none
   F <ops>   the same in FLOW MODE: w<i>/x<i> = wbxml_encoder_encode_tree + wbxml_encoder_get_output, W<i>/X<i> = raw start of the
             root, the children through wbxml_encoder_encode_node, raw end, get_output; reset after every document
   fd <ops>  struct dumps of a Flow-Mode encoder
   ed <ops>  same ops on one encoder; answer per run: pre-run dump | tree lang,charset,output type | status |
             post-run dump | post-reset dump   (34 fields in declaration order) */
#include "vh.h"
#include "c15_defs.h"
#include "wbxml_encoder.c"

typedef struct {
    int lang, ignore, strip, charset, use_strtbl, anon, version, gen, indent, textpid, flow;
} Caller;

static void caller_init(Caller *c) {
    c->lang = 0; c->ignore = 0; c->strip = 0; c->charset = 0; c->use_strtbl = 1; c->anon = 0;
    c->version = WBXML_VERSION_13; c->gen = WBXML_GEN_XML_COMPACT; c->indent = 1; c->textpid = 0; c->flow = 0;
}

static void apply_all(WBXMLEncoder *e, const Caller *c) {
    wbxml_encoder_set_lang(e, (WBXMLLanguage) c->lang);
    wbxml_encoder_set_ignore_empty_text(e, (WB_BOOL) c->ignore);
    wbxml_encoder_set_remove_text_blanks(e, (WB_BOOL) c->strip);
    wbxml_encoder_set_output_charset(e, (WBXMLCharsetMIBEnum) c->charset);
    wbxml_encoder_set_use_strtbl(e, (WB_BOOL) c->use_strtbl);
    wbxml_encoder_set_produce_anonymous(e, (WB_BOOL) c->anon);
    wbxml_encoder_set_wbxml_version(e, (WBXMLVersion) c->version);
    wbxml_encoder_set_xml_gen_type(e, (WBXMLGenXMLType) c->gen);
    wbxml_encoder_set_indent(e, (WB_UTINY) c->indent);
    wbxml_encoder_set_text_public_id(e, (WB_BOOL) c->textpid);
    if (c->flow) wbxml_encoder_set_flow_mode(e, TRUE);       /* also switches the string table off */
}

static int setter(WBXMLEncoder *e, Caller *c, const char *t) {
    int v = atoi(t + 1);
    switch (t[0]) {
    case 'i': if (c) c->ignore = v; wbxml_encoder_set_ignore_empty_text(e, (WB_BOOL) v); return 1;
    case 'b': if (c) c->strip = v; wbxml_encoder_set_remove_text_blanks(e, (WB_BOOL) v); return 1;
    case 'c': if (c) c->charset = v; wbxml_encoder_set_output_charset(e, (WBXMLCharsetMIBEnum) v); return 1;
    case 's': if (c) c->use_strtbl = v; wbxml_encoder_set_use_strtbl(e, (WB_BOOL) v); return 1;
    case 'a': if (c) c->anon = v; wbxml_encoder_set_produce_anonymous(e, (WB_BOOL) v); return 1;
    case 'v': if (c) c->version = v; wbxml_encoder_set_wbxml_version(e, (WBXMLVersion) v); return 1;
    case 'g': if (c) c->gen = v; wbxml_encoder_set_xml_gen_type(e, (WBXMLGenXMLType) v); return 1;
    case 'n': if (c) c->indent = v; wbxml_encoder_set_indent(e, (WB_UTINY) v); return 1;
    case 'l': if (c) c->lang = v; wbxml_encoder_set_lang(e, (WBXMLLanguage) v); return 1;
    case 'p': if (c) c->textpid = v; wbxml_encoder_set_text_public_id(e, (WB_BOOL) v); return 1;
    }
    return 0;
}

/* what the repair does after wbxml_encoder_reset (performed by the harness on the third encoder only) */
static void shim_after_reset(WBXMLEncoder *e, const Caller *c) {
    if (e->strstbl == NULL) e->strstbl = wbxml_list_create();
    e->indent = 0;
    e->current_text_parent = NULL;
    e->lang = wbxml_tables_get_table((WBXMLLanguage) c->lang);
    e->output_charset = (WBXMLCharsetMIBEnum) c->charset;
    e->use_strtbl = (WB_BOOL) c->use_strtbl;
}

static void enc_dump(WBXMLEncoder *e, FILE *f) {
    fprintf(f, "%d,%d,%d,%d,%d,%d,%d,%d,%u,%u,%d,%d,%d,%d,%u,%u,%d,%d,%d,%u,%u,%d,%d,%d,%d,%d,%d,%u,%u,%u,%u,%d,%d,%d",
            e->tree != NULL, e->lang ? (int) e->lang->langID : 0, e->output != NULL, e->output_header != NULL,
            e->current_tag != NULL, e->current_text_parent != NULL, e->current_attr != NULL, e->current_node != NULL,
            (unsigned) e->tagCodePage, (unsigned) e->attrCodePage, (int) e->ignore_empty_text, (int) e->remove_text_blanks,
            (int) e->output_type, (int) e->xml_gen_type, (unsigned) e->indent_delta, (unsigned) e->indent,
            (int) e->in_content, (int) e->in_cdata, e->cdata != NULL,
            e->strstbl ? 1 + (unsigned) wbxml_list_len(e->strstbl) : 0, (unsigned) e->strstbl_len, (int) e->use_strtbl,
            (int) e->xml_encode_header, (int) e->produce_anonymous, (int) e->wbxml_version, (int) e->output_charset,
            (int) e->flow_mode, (unsigned) e->pre_last_node_len, (unsigned) e->pre_last_tagCodePage, (unsigned) e->pre_last_attrCodePage,
            (unsigned) e->pre_last_indent, (int) e->pre_last_in_content, e->pre_last_tag != NULL, (int) e->textual_publicid);
}

static void flags(WBXMLEncoder *e, const Caller *c, char *out) {
    int n = 0;
    if (e->strstbl == NULL) out[n++] = 'N';
    if (e->indent != 0) out[n++] = 'I';
    if (e->lang != wbxml_tables_get_table((WBXMLLanguage) c->lang)) out[n++] = 'L';
    if ((int) e->use_strtbl != c->use_strtbl) out[n++] = 'U';
    if ((int) e->output_charset != c->charset) out[n++] = 'C';
    if (e->tree || e->output || e->output_header || e->current_tag || e->current_text_parent || e->current_attr ||
        e->current_node || e->tagCodePage || e->attrCodePage || e->in_content || e->in_cdata || e->cdata ||
        e->strstbl_len || e->pre_last_node_len || e->pre_last_tagCodePage || e->pre_last_attrCodePage || e->pre_last_indent ||
        e->pre_last_in_content || e->pre_last_tag || (e->strstbl && wbxml_list_len(e->strstbl)))
        out[n++] = 'O';
    if ((int) e->ignore_empty_text != c->ignore || (int) e->remove_text_blanks != c->strip || (int) e->produce_anonymous != c->anon ||
        (int) e->wbxml_version != c->version || (int) e->xml_gen_type != c->gen || (int) e->indent_delta != c->indent ||
        (int) e->textual_publicid != c->textpid || (int) e->flow_mode != c->flow || !e->xml_encode_header)
        out[n++] = 'S';                      /* a setting is not the caller's */
    if (n == 0) out[n++] = '-';
    out[n] = 0;
}

static WBXMLTreeNode *nth_element(WBXMLTreeNode *n, int *k) {
    WBXMLTreeNode *r;
    for (; n != NULL; n = n->next) {
        if (n->type == WBXML_TREE_ELEMENT_NODE) { if (*k == 0) return n; (*k)--; }
        if (n->children && (r = nth_element(n->children, k)) != NULL) return r;
    }
    return NULL;
}
/* the same over CDATA nodes (poison "!c<k>": the failure happens while a CDATA section is open) */
static WBXMLTreeNode *nth_cdata(WBXMLTreeNode *n, int *k) {
    WBXMLTreeNode *r;
    for (; n != NULL; n = n->next) {
        if (n->type == WBXML_TREE_CDATA_NODE) { if (*k == 0) return n; (*k)--; }
        if (n->children && (r = nth_cdata(n->children, k)) != NULL) return r;
    }
    return NULL;
}
static int count_cdata(WBXMLTreeNode *n) {
    int c = 0;
    for (; n != NULL; n = n->next) { if (n->type == WBXML_TREE_CDATA_NODE) c++; c += count_cdata(n->children); }
    return c;
}
static int count_elements(WBXMLTreeNode *n) {
    int c = 0;
    for (; n != NULL; n = n->next) { if (n->type == WBXML_TREE_ELEMENT_NODE) c++; c += count_elements(n->children); }
    return c;
}

/* tree of document i; poison >= 0: a PI node (WBXML_ERROR_NOT_IMPLEMENTED in both generators) under an element */
#define POISON_CDATA 100000      /* poison >= POISON_CDATA: under the (poison - POISON_CDATA)-th CDATA node */
static WBXMLTree *make_tree(int i, int poison, WBXMLError *err) {
    WBXMLTree *t = NULL;
    C15Doc *d = &c15_docs[i];
    *err = (d->kind == 'x') ? wbxml_tree_from_xml(d->data, (WB_ULONG) d->len, &t)
                            : wbxml_tree_from_wbxml(d->data, (WB_ULONG) d->len, WBXML_LANG_UNKNOWN, WBXML_CHARSET_UNKNOWN, &t);
    if (*err != WBXML_OK) return NULL;
    if (poison >= 0 && t->root) {
        int in_cd = poison >= POISON_CDATA && count_cdata(t->root) > 0;
        int c = in_cd ? count_cdata(t->root) : count_elements(t->root), k = c ? (poison % POISON_CDATA) % c : 0;
        WBXMLTreeNode *at = in_cd ? nth_cdata(t->root, &k) : nth_element(t->root, &k), *pi = wbxml_tree_node_create(WBXML_TREE_PI_NODE);
        if (at && pi) { if (!wbxml_tree_node_add_child(at, pi)) wbxml_tree_node_destroy(pi); }
        else if (pi) wbxml_tree_node_destroy(pi);
    }
    return t;
}

/* pending finding D14e: on an encoder whose string-table list is NULL (after wbxml_encoder_reset), a WBXML run that
   wants to add a literal tag or attribute name to the string table takes a failure branch that frees a buffer twice
   (wbxml_encode_tag_literal, wbxml_encode_attr_start_literal; wbxml_fill_header before commit dabbfe5): ASan abort.
   A run that starts with a NULL list is therefore tried in a forked child first and answered "X" if the child dies
   (the run cannot succeed anyway: theorem C15_encoder_reset_then_wbxml_fails).  $C15_NO_GUARD switches the guard
   off; the orchestrator uses it to confirm the crash of an "X" run in a process of its own. */
#include <unistd.h>
#include <fcntl.h>
#include <sys/wait.h>
static int would_double_free(WBXMLEncoder *e, WBXMLTree *t, int to_xml) {
    pid_t pid;
    int status = 0;
    if (to_xml || e->strstbl != NULL || !e->use_strtbl || getenv("C15_NO_GUARD")) return 0;
    fflush(stdout);
    pid = fork();
    if (pid < 0) return 0;
    if (pid == 0) {
        WB_UTINY *out = NULL; WB_ULONG len = 0;
        int fd = open("/dev/null", O_WRONLY);
        if (fd >= 0) { dup2(fd, 2); dup2(fd, 1); }
        wbxml_encoder_set_tree(e, t);
        wbxml_encoder_encode_tree_to_wbxml(e, &out, &len);
        _exit(0);
    }
    waitpid(pid, &status, 0);
    return !(WIFEXITED(status) && WEXITSTATUS(status) == 0);
}

/* FLOW MODE (wbxml_encoder_set_flow_mode): the caller feeds nodes and asks for the output.  by_children = 0: the root node
   through wbxml_encoder_encode_tree (which lends the tree's language to the encoder for the call); by_children = 1: the
   caller sets the language, opens the root with wbxml_encoder_encode_raw_elt_start, feeds the children with
   wbxml_encoder_encode_node, closes with wbxml_encoder_encode_raw_elt_end, and puts its own language setting back. */
static WBXMLError flow_run(WBXMLEncoder *e, const Caller *c, WBXMLTree *t, int to_xml, int by_children, WB_UTINY **out, WB_ULONG *len) {
    WBXMLError st;
    wbxml_encoder_set_output_type(e, to_xml ? WBXML_ENCODER_OUTPUT_XML : WBXML_ENCODER_OUTPUT_WBXML);
    if (!by_children || t->root == NULL || t->root->type != WBXML_TREE_ELEMENT_NODE || t->lang == NULL)
        st = wbxml_encoder_encode_tree(e, t);
    else {
        wbxml_encoder_set_lang(e, t->lang->langID);
        st = wbxml_encoder_encode_raw_elt_start(e, t->root, t->root->children != NULL);
        if (st == WBXML_OK && t->root->children != NULL) st = wbxml_encoder_encode_node(e, t->root->children);
        if (st == WBXML_OK) st = wbxml_encoder_encode_raw_elt_end(e, t->root, t->root->children != NULL);
        wbxml_encoder_set_lang(e, (WBXMLLanguage) c->lang);
    }
    if (st == WBXML_OK) st = wbxml_encoder_get_output(e, out, len);
    return st;
}

static void run_obs(WBXMLEncoder *e, const Caller *c, int doc, int poison, int to_xml, int by_children, char *buf) {
    WBXMLError terr, st; WB_UTINY *out = NULL; WB_ULONG len = 0;
    WBXMLTree *t = make_tree(doc, poison, &terr);
    if (!t) { sprintf(buf, "T%d", (int) terr); return; }
    if (would_double_free(e, t, to_xml)) {
        sprintf(buf, "X"); wbxml_encoder_reset(e); wbxml_tree_destroy(t); return;
    }
    if (c->flow) st = flow_run(e, c, t, to_xml, by_children, &out, &len);
    else {
    wbxml_encoder_set_tree(e, t);
    st = to_xml ? wbxml_encoder_encode_tree_to_xml(e, &out, &len) : wbxml_encoder_encode_tree_to_wbxml(e, &out, &len);
    }
    sprintf(buf, "%d/%016llx/%u/%d", (int) st, (unsigned long long) c15_fnv(C15_FNV0, out ? out : (WB_UTINY *) "", out ? len : 0),
            (unsigned) len, out != NULL);
    if (out) wbxml_free(out);
    wbxml_encoder_reset(e);          /* drops every reference into the tree */
    wbxml_tree_destroy(t);
}

void c15_cmd_encoder(int nt, char **tok, int mode) {
    int dump_mode = mode & 1, flow = (mode & 2) != 0;
    WBXMLEncoder *e = wbxml_encoder_create(), *shim = dump_mode ? NULL : wbxml_encoder_create();
    Caller c;
    int i;
    caller_init(&c);
    if (dump_mode) { printf("C:"); enc_dump(e, stdout); }
    if (flow) {                       /* F / fd: the encoder is in Flow Mode for its whole life */
        c.flow = 1; c.use_strtbl = 0;
        wbxml_encoder_set_flow_mode(e, TRUE);
        if (shim) wbxml_encoder_set_flow_mode(shim, TRUE);
    }
    for (i = 1; i < nt; i++) {
        char *t = tok[i];
        if (t[0] == 'w' || t[0] == 'x' || (flow && (t[0] == 'W' || t[0] == 'X'))) {
            int doc = atoi(t + 1), poison = -1, to_xml = (t[0] == 'x' || t[0] == 'X'), by_children = (t[0] == 'W' || t[0] == 'X');
            char *bang = strchr(t, '!');
            if (bang) poison = (bang[1] == 'c') ? POISON_CDATA + atoi(bang + 2) : atoi(bang + 1);
            if (doc < 0 || doc >= c15_ndocs) { printf(" bad"); continue; }
            if (dump_mode) {
                WBXMLError terr, st; WB_UTINY *out = NULL; WB_ULONG len = 0;
                WBXMLTree *tr = make_tree(doc, poison, &terr);
                if (!tr) { printf(" T%d", (int) terr); continue; }
                if (would_double_free(e, tr, to_xml)) { printf(" X"); wbxml_tree_destroy(tr); continue; }
                printf(" D:"); enc_dump(e, stdout);
                printf("|%d,%d,%d", tr->lang ? (int) tr->lang->langID : 0, (int) tr->orig_charset,
                       to_xml ? WBXML_ENCODER_OUTPUT_XML : WBXML_ENCODER_OUTPUT_WBXML);
                if (flow) st = flow_run(e, &c, tr, to_xml, by_children, &out, &len);
                else {
                wbxml_encoder_set_tree(e, tr);
                st = to_xml ? wbxml_encoder_encode_tree_to_xml(e, &out, &len) : wbxml_encoder_encode_tree_to_wbxml(e, &out, &len);
                }
                if (out) wbxml_free(out);
                printf("|%d|", (int) st); enc_dump(e, stdout);
                wbxml_encoder_reset(e);
                printf("|"); enc_dump(e, stdout);
                wbxml_tree_destroy(tr);
            } else {
                char a[96], b[96], s[96], fl[16];
                WBXMLEncoder *f = wbxml_encoder_create();
                flags(e, &c, fl);
                run_obs(e, &c, doc, poison, to_xml, by_children, a);
                apply_all(f, &c);
                run_obs(f, &c, doc, poison, to_xml, by_children, b);
                wbxml_encoder_destroy(f);
                run_obs(shim, &c, doc, poison, to_xml, by_children, s);
                shim_after_reset(shim, &c);
                printf(" %s=%s=%s~%s", a, b, s, fl);
            }
        } else {
            if (!setter(e, &c, t)) { printf(" bad"); continue; }
            if (shim) setter(shim, NULL, t);
        }
    }
    wbxml_encoder_destroy(e);
    if (shim) wbxml_encoder_destroy(shim);
    printf("\n");
}
