/* C05 correspondence harness.  Public API only; no library logic is re-implemented here.

   Input lines:
     w2x <wbxml hex> <gen_type 0|1|2> <indent 0..255> <keep_ws 0|1> <forced language id, 0 = none>
        -> "tree <status> <canonical dump of the WBXMLTree built by wbxml_tree_from_wbxml> | xml <status> <hex of the bytes wbxml_tree_to_xml returned>"
           (the tree is dumped BEFORE wbxml_tree_to_xml runs: the encoder strips text nodes in place)
     x2w <xml hex> <keep_ws 0|1>
        -> "wbxml <status> <hex> <langID of the XML tree>"   (corpus .xml files are turned into WBXML through the public converter)

   Canonical tree dump (prefix form, single spaces, counts instead of brackets):
     tree  := "L" <langID or -1> <n roots> node*
     node  := "E" name <n attrs> attr* <n children> node*
            | "T" <content hex> <n children> node*
            | "C" <n children> node*
            | "P" <n children> node*
            | "S" tree <n children> node*
            | "?" <type number>
     name  := "t" <row index in lang->tagTable> <page> <token> <options> <xmlName hex>   (token)
            | "l" <hex>                                                               (literal)
            | "n"                                                                     (NULL name)
     attr  := "t" <row index in lang->attrTable> <xmlName hex> value | "l" <hex> value | "n" value
     value := <hex> | "~"   (NULL buffer)
   hex "-" is the empty string.  status is OK or ERR<code>. */
#include "vh.h"
#include "wbxml.h"
#include "wbxml_tree.h"
#include "wbxml_conv.h"
#include "wbxml_tables.h"

static void put_buf(WBXMLBuffer *b) {
    if (b == NULL) { printf(" ~"); return; }
    printf(" "); vh_puthex(stdout, wbxml_buffer_get_cstr(b), wbxml_buffer_len(b));
}

static void put_cstr(const char *s) {
    printf(" "); vh_puthex(stdout, (const unsigned char *) s, strlen(s));
}

static unsigned count_next(WBXMLTreeNode *n) { unsigned k = 0; for (; n; n = n->next) k++; return k; }

static void dump_tree(WBXMLTree *t);

static void dump_node(WBXMLTreeNode *n, const WBXMLLangEntry *lang) {
    WBXMLTreeNode *c;
    switch (n->type) {
    case WBXML_TREE_ELEMENT_NODE: {
        unsigned na = n->attrs ? (unsigned) wbxml_list_len(n->attrs) : 0, i;
        printf(" E");
        if (n->name == NULL) printf(" n");
        else if (n->name->type == WBXML_VALUE_TOKEN) {
            const WBXMLTagEntry *e = n->name->u.token;
            long idx = (lang && lang->tagTable) ? (long) (e - lang->tagTable) : -1;
            printf(" t %ld %u %u %u", idx, (unsigned) e->wbxmlCodePage, (unsigned) e->wbxmlToken, (unsigned) e->options);
            put_cstr(e->xmlName);
        } else { printf(" l"); put_buf(n->name->u.literal); }
        printf(" %u", na);
        for (i = 0; i < na; i++) {
            WBXMLAttribute *a = (WBXMLAttribute *) wbxml_list_get(n->attrs, i);
            if (a == NULL || a->name == NULL) printf(" n");
            else if (a->name->type == WBXML_VALUE_TOKEN) {
                const WBXMLAttrEntry *e = a->name->u.token;
                long idx = (lang && lang->attrTable) ? (long) (e - lang->attrTable) : -1;
                printf(" t %ld", idx);
                put_cstr(e->xmlName);
            } else { printf(" l"); put_buf(a->name->u.literal); }
            put_buf(a ? a->value : NULL);
        }
        break;
    }
    case WBXML_TREE_TEXT_NODE: printf(" T"); put_buf(n->content); break;
    case WBXML_TREE_CDATA_NODE: printf(" C"); break;
    case WBXML_TREE_PI_NODE: printf(" P"); break;
    case WBXML_TREE_TREE_NODE: printf(" S"); dump_tree(n->tree); break;
    default: printf(" ? %d", (int) n->type); return;
    }
    printf(" %u", count_next(n->children));
    for (c = n->children; c; c = c->next) dump_node(c, lang);
}

static void dump_tree(WBXMLTree *t) {
    WBXMLTreeNode *c;
    if (t == NULL) { printf(" L -1 0"); return; }
    printf(" L %d %u", t->lang ? (int) t->lang->langID : -1, count_next(t->root));
    for (c = t->root; c; c = c->next) dump_node(c, t->lang);
}

int main(void) {
    char *line, *tok[8];
    while ((line = vh_line(stdin)) != NULL) {
        int nt = vh_split(line, tok, 8);
        if (nt == 6 && strcmp(tok[0], "w2x") == 0) {
            size_t n; unsigned char *d = vh_unhex(tok[1], &n);
            WBXMLTree *tree = NULL;
            WBXMLGenXMLParams p;
            WBXMLError e;
            WBXMLLanguage forced = (WBXMLLanguage) atoi(tok[5]);
            p.gen_type = (WBXMLGenXMLType) atoi(tok[2]);
            p.indent = (WB_UTINY) atoi(tok[3]);
            p.keep_ignorable_ws = atoi(tok[4]) ? TRUE : FALSE;
            p.lang = forced;
            p.charset = WBXML_CHARSET_UNKNOWN;
            e = wbxml_tree_from_wbxml(d, (WB_ULONG) n, forced, WBXML_CHARSET_UNKNOWN, &tree);
            if (e != WBXML_OK || tree == NULL) printf("tree ERR%d | xml -\n", (int) e);
            else {
                WB_UTINY *xml = NULL; WB_ULONG xl = 0;
                printf("tree OK");
                dump_tree(tree);
                e = wbxml_tree_to_xml(tree, &xml, &xl, &p);
                if (e != WBXML_OK) printf(" | xml ERR%d -\n", (int) e);
                else { printf(" | xml OK "); vh_puthex(stdout, xml, xl); printf("\n"); }
                if (xml) wbxml_free(xml);
                wbxml_tree_destroy(tree);
            }
            free(d);
        }
        else if (nt == 3 && strcmp(tok[0], "x2w") == 0) {
            size_t n; unsigned char *d = vh_unhex(tok[1], &n);
            WBXMLConvXML2WBXML *conv = NULL;
            WB_UTINY *out = NULL; WB_ULONG ol = 0;
            WBXMLError e = wbxml_conv_xml2wbxml_create(&conv);
            if (e == WBXML_OK) {
                if (atoi(tok[2])) wbxml_conv_xml2wbxml_enable_preserve_whitespaces(conv);
                e = wbxml_conv_xml2wbxml_run(conv, d, (WB_ULONG) n, &out, &ol);
                wbxml_conv_xml2wbxml_destroy(conv);
            }
            if (e != WBXML_OK) printf("wbxml ERR%d - 0\n", (int) e);
            else {
                /* the language the XML tree builder recognised (needed to force it when the WBXML public id is 'unknown') */
                WBXMLTree *xt = NULL; int lid = 0;
                if (wbxml_tree_from_xml(d, (WB_ULONG) n, &xt) == WBXML_OK && xt) { lid = xt->lang ? (int) xt->lang->langID : 0; wbxml_tree_destroy(xt); }
                printf("wbxml OK "); vh_puthex(stdout, out, ol); printf(" %d\n", lid);
            }
            if (out) wbxml_free(out);
            free(d);
        }
        else printf("bad\n");
        fflush(stdout);
    }
    return 0;
}
