/* C18 correspondence harness: executes sequences of tree-API operations on the real library
   (ASan+LSan build of the current tree), and after EVERY operation walks the whole node graph
   (the tree, then every detached sub-tree the caller still holds) and dumps every node with its
   links, identities renumbered in traversal order.  It checks nothing itself.

   One case per input line (the op list of a sequence is ';'-separated so that run_lines can shard):
     seq <langid> <xmlgen> <op>;<op>;...      (xmlgen + 10: at the end the tree is destroyed before the detached sub-trees, else after)
     xml <xmlgen> <hex of an XML document>
   Operations (fields ','-separated, strings in hex, node references = traversal index, -1 = NULL):
     E,p,name            wbxml_tree_add_xml_elt
     A,p,name,k,v,...    wbxml_tree_add_xml_elt_with_attrs
     Y,p,name,text       wbxml_tree_add_xml_elt_with_attrs_and_text (no attributes; text "-" = "" with len 0, "~" = NULL)
     G,p,tagidx          wbxml_tree_add_elt            (token tag = lang->tagTable[tagidx])
     L,p,name            wbxml_tree_add_elt            (literal tag)
     H,p,tagidx,ai,v,... wbxml_tree_add_elt_with_attrs (attribute names = lang->attrTable[ai], ai<0: literal "k")
     T,p,text            wbxml_tree_add_text   (text "-": length 0)
     C,p                 wbxml_tree_add_cdata
     R,p,langid,root,text wbxml_tree_add_tree (nested tree <root>text</root> of language langid)
     B,i,k,v             wbxml_tree_node_add_xml_attr
     X,i                 wbxml_tree_extract_node  (the node becomes a detached sub-tree held by the caller)
     I,p,j               wbxml_tree_add_node      (re-insertion of the detached sub-tree whose root has index j)
     K,j                 wbxml_tree_node_destroy_all on the detached sub-tree with root index j
     N,i,name,recurs     wbxml_tree_node_elt_get_from_name(node i, name, recurs) -> index of the result
     ZG / ZL / ZH / ZT / ZC / ZR  the same add call with tree == NULL (refused)
   Answer: <st>#<dump>|<st>#<dump>|... W=<hex|ERRn> X=<hex|ERRn>
   dump = nodes ','-separated: kind:payload:parent:children:prev:next */
#include "vh.h"
#include "wbxml.h"
#include "wbxml_tree.h"
#include "wbxml_tables.h"
#include "wbxml_conv.h"
#include "wbxml_internals.h"

#define MAXN 4096
static WBXMLTreeNode *order[MAXN];
static int norder, overflow;
static WBXMLTreeNode *detached[MAXN];
static int ndet;

static void collect(WBXMLTreeNode *n) {
    /* pre-order over children / next; bounded so that a cyclic graph terminates (reported as overflow) */
    while (n != NULL) {
        if (norder >= MAXN) { overflow = 1; return; }
        order[norder++] = n;
        if (n->children) collect(n->children);
        if (overflow) return;
        n = n->next;
    }
}

static void walk(WBXMLTree *tree) {
    int i;
    norder = 0; overflow = 0;
    if (tree && tree->root) collect(tree->root);
    for (i = 0; i < ndet && !overflow; i++) collect(detached[i]);
}

static int idx(WBXMLTreeNode *p) {
    int i;
    for (i = 0; i < norder; i++) if (order[i] == p) return i;
    return -2;
}

static void putref(WBXMLTreeNode *p) {
    if (p == NULL) printf("-");
    else { int i = idx(p); if (i < 0) printf("?"); else printf("%d", i); }
}

static void putstrhex(const unsigned char *s) { vh_puthex(stdout, s, s ? strlen((const char *) s) : 0); }

static void dump(WBXMLTree *tree) {
    int i;
    WB_ULONG k;
    walk(tree);
    if (overflow) { printf("OVERFLOW"); return; }
    if (norder == 0) { printf("empty"); return; }
    for (i = 0; i < norder; i++) {
        WBXMLTreeNode *n = order[i];
        if (i) printf(",");
        if (idx(n) != i) printf("DUP");      /* reached twice: shared or cyclic */
        switch (n->type) {
        case WBXML_TREE_ELEMENT_NODE:
            printf("e:");
            if (n->name == NULL) printf("null");
            else if (n->name->type == WBXML_VALUE_TOKEN) {
                printf("t%u.%u.", n->name->u.token->wbxmlCodePage, n->name->u.token->wbxmlToken);
                putstrhex((const unsigned char *) n->name->u.token->xmlName);
            } else { printf("l"); vh_puthex(stdout, wbxml_buffer_get_cstr(n->name->u.literal), wbxml_buffer_len(n->name->u.literal)); }
            if (n->attrs) for (k = 0; k < wbxml_list_len(n->attrs); k++) {
                WBXMLAttribute *a = (WBXMLAttribute *) wbxml_list_get(n->attrs, k);
                printf("@");
                if (a->name->type == WBXML_VALUE_TOKEN) {
                    printf("t%u.%u.", a->name->u.token->wbxmlCodePage, a->name->u.token->wbxmlToken);
                    putstrhex((const unsigned char *) a->name->u.token->xmlName);
                    printf(".");
                    putstrhex((const unsigned char *) a->name->u.token->xmlValue);
                } else { printf("l"); vh_puthex(stdout, wbxml_buffer_get_cstr(a->name->u.literal), wbxml_buffer_len(a->name->u.literal)); }
                printf("=");
                vh_puthex(stdout, wbxml_buffer_get_cstr(a->value), wbxml_buffer_len(a->value));
            }
            break;
        case WBXML_TREE_TEXT_NODE:
            printf("x:");
            vh_puthex(stdout, wbxml_buffer_get_cstr(n->content), wbxml_buffer_len(n->content));
            break;
        case WBXML_TREE_CDATA_NODE: printf("c:-"); break;
        case WBXML_TREE_PI_NODE: printf("p:-"); break;
        case WBXML_TREE_TREE_NODE:
            printf("r:%d", (n->tree && n->tree->lang) ? (int) n->tree->lang->langID : -1);
            break;
        default: printf("?:-");
        }
        printf(":"); putref(n->parent);
        printf(":"); putref(n->children);
        printf(":"); putref(n->prev);
        printf(":"); putref(n->next);
    }
}

static WBXMLTreeNode *ref(const char *s) {
    int i = atoi(s);
    if (i < 0 || i >= norder) return NULL;
    return order[i];
}

static int det_index(WBXMLTreeNode *n) {
    int i;
    for (i = 0; i < ndet; i++) if (detached[i] == n) return i;
    return -1;
}

static void det_remove(int k) {
    for (; k + 1 < ndet; k++) detached[k] = detached[k + 1];
    ndet--;
}

static unsigned char *hexstr(const char *h) {   /* NUL-terminated copy */
    size_t n; unsigned char *d = vh_unhex(h, &n);
    d = realloc(d, n + 1); d[n] = 0;
    return d;
}

static int split(char *s, char sep, char **tok, int max) {
    int n = 0;
    while (n < max) {
        tok[n++] = s;
        s = strchr(s, sep);
        if (!s) break;
        *s++ = 0;
    }
    return n;
}

static void emit_outputs(WBXMLTree *tree, int xmlgen) {
    WBXMLGenWBXMLParams wp;
    WBXMLGenXMLParams xp;
    WB_UTINY *out = NULL; WB_ULONG len = 0;
    WBXMLError e;
    wp.wbxml_version = WBXML_VERSION_13; wp.keep_ignorable_ws = FALSE; wp.use_strtbl = TRUE; wp.produce_anonymous = FALSE;
    e = wbxml_tree_to_wbxml(tree, &out, &len, &wp);
    if (e == WBXML_OK) { printf(" W="); vh_puthex(stdout, out, len); } else printf(" W=ERR%d", (int) e);
    if (out) wbxml_free(out);
    out = NULL; len = 0;
    xp.gen_type = (WBXMLGenXMLType) xmlgen; xp.lang = WBXML_LANG_UNKNOWN; xp.charset = WBXML_CHARSET_UNKNOWN;
    xp.indent = 1; xp.keep_ignorable_ws = FALSE;
    e = wbxml_tree_to_xml(tree, &out, &len, &xp);
    if (e == WBXML_OK) { printf(" X="); vh_puthex(stdout, out, len); } else printf(" X=ERR%d", (int) e);
    if (out) wbxml_free(out);
}

static void run_seq(int langid, int xmlgen_arg, char *opsline) {
    int xmlgen = xmlgen_arg % 10, tree_first = xmlgen_arg >= 10;   /* 1x: at the end the tree is destroyed BEFORE the detached sub-trees */
    WBXMLTree *tree = wbxml_tree_create((WBXMLLanguage) langid, WBXML_CHARSET_UNKNOWN);
    static char *ops[4096];
    int nops, i, first = 1;
    ndet = 0;
    if (tree == NULL || tree->lang == NULL) { printf("nolang\n"); wbxml_tree_destroy(tree); return; }
    nops = (opsline && *opsline) ? split(opsline, ';', ops, 4096) : 0;
    walk(tree);
    for (i = 0; i < nops; i++) {
        char *f[64];
        int nf = split(ops[i], ',', f, 64), ok = 0, residx = -3;
        WBXMLTreeNode *res = NULL;
        char op = f[0][0];
        /* a leading 'Z': the same call with tree == NULL (refused by wbxml_tree_add_node; the caller keeps what it owns) */
        WBXMLTree *targ = tree;
        if (op == 'Z') { op = f[0][1]; targ = NULL; }
        if (op == 'E' && nf >= 3) {
            unsigned char *nm = hexstr(f[2]);
            res = wbxml_tree_add_xml_elt(tree, ref(f[1]), nm); ok = res != NULL; free(nm);
        } else if (op == 'A' && nf >= 3) {
            unsigned char *nm = hexstr(f[2]);
            const WB_UTINY *at[64]; int k, na = 0;
            for (k = 3; k + 1 < nf && na < 60; k += 2) { at[na++] = hexstr(f[k]); at[na++] = hexstr(f[k + 1]); }
            at[na] = NULL;
            res = wbxml_tree_add_xml_elt_with_attrs(tree, ref(f[1]), nm, at); ok = res != NULL;
            for (k = 0; k < na; k++) free((void *) at[k]);
            free(nm);
        } else if (op == 'Y' && nf >= 4) {
            unsigned char *nm = hexstr(f[2]); size_t tl = 0; unsigned char *tx = NULL;
            if (strcmp(f[3], "~") != 0) tx = vh_unhex(f[3], &tl);      /* "~": text == NULL; "-": text = "", len 0 */
            res = wbxml_tree_add_xml_elt_with_attrs_and_text(tree, ref(f[1]), nm, NULL, tx, (WB_ULONG) tl); ok = res != NULL;
            free(nm); free(tx);
        } else if ((op == 'G' || op == 'H') && nf >= 3) {
            WBXMLTag *tag = wbxml_tag_create_token(&tree->lang->tagTable[atoi(f[2])]);
            if (op == 'G') res = wbxml_tree_add_elt(targ, ref(f[1]), tag);
            else {
                WBXMLAttribute *at[32]; int k, na = 0;
                for (k = 3; k + 1 < nf && na < 30; k += 2) {
                    WBXMLAttribute *a = wbxml_attribute_create();
                    int ai = atoi(f[k]); size_t vl; unsigned char *v = vh_unhex(f[k + 1], &vl);
                    a->name = ai >= 0 ? wbxml_attribute_name_create_token(&tree->lang->attrTable[ai])
                                      : wbxml_attribute_name_create_literal((WB_UTINY *) "k");
                    a->value = wbxml_buffer_create(v, (WB_ULONG) vl, (WB_ULONG) vl + 1);
                    if (a->value == NULL) a->value = wbxml_buffer_create("", 0, 1);
                    free(v);
                    at[na++] = a;
                }
                at[na] = NULL;
                res = wbxml_tree_add_elt_with_attrs(targ, ref(f[1]), tag, at);
                for (k = 0; k < na; k++) wbxml_attribute_destroy(at[k]);
            }
            ok = res != NULL;
            wbxml_tag_destroy(tag);
        } else if (op == 'L' && nf >= 3) {
            unsigned char *nm = hexstr(f[2]);
            WBXMLTag *tag = wbxml_tag_create_literal(nm);
            res = wbxml_tree_add_elt(targ, ref(f[1]), tag); ok = res != NULL;
            wbxml_tag_destroy(tag); free(nm);
        } else if (op == 'T' && nf >= 3) {
            size_t tl; unsigned char *tx = vh_unhex(f[2], &tl);
            res = wbxml_tree_add_text(targ, ref(f[1]), tx, (WB_ULONG) tl); ok = res != NULL;
            free(tx);
        } else if (op == 'C' && nf >= 2) {
            res = wbxml_tree_add_cdata(targ, ref(f[1])); ok = res != NULL;
        } else if (op == 'R' && nf >= 5) {
            WBXMLTree *nt = wbxml_tree_create((WBXMLLanguage) atoi(f[2]), WBXML_CHARSET_UNKNOWN);
            unsigned char *nm = hexstr(f[3]); size_t tl; unsigned char *tx = vh_unhex(f[4], &tl);
            WBXMLTreeNode *r = NULL;
            if (nt && nt->lang) r = wbxml_tree_add_xml_elt(nt, NULL, nm);
            if (r && tl) wbxml_tree_add_text(nt, r, tx, (WB_ULONG) tl);
            res = r ? wbxml_tree_add_tree(targ, ref(f[1]), nt) : NULL; ok = res != NULL;
            /* refused: the caller still owns the tree it offered and destroys it (a library that had taken it over
               on the failure path releases it twice: ASan) */
            if (!ok) wbxml_tree_destroy(nt);
            free(nm); free(tx);
        } else if (op == 'B' && nf >= 4) {
            unsigned char *k = hexstr(f[2]), *v = hexstr(f[3]);
            WBXMLTreeNode *n = ref(f[1]);
            ok = n != NULL && wbxml_tree_node_add_xml_attr(tree->lang, n, k, v) == WBXML_OK;
            free(k); free(v);
        } else if (op == 'X' && nf >= 2) {
            WBXMLTreeNode *n = ref(f[1]);
            ok = wbxml_tree_extract_node(tree, n) == WBXML_OK;
            if (ok && ndet < MAXN) detached[ndet++] = n;
        } else if (op == 'I' && nf >= 3) {
            WBXMLTreeNode *n = ref(f[2]);
            int k = det_index(n);
            if (k >= 0) {
                ok = wbxml_tree_add_node(tree, ref(f[1]), n);
                if (ok) det_remove(k);
            }
        } else if (op == 'K' && nf >= 2) {
            WBXMLTreeNode *n = ref(f[1]);
            int k = det_index(n);
            if (k >= 0) { wbxml_tree_node_destroy_all(n); det_remove(k); ok = 1; }
        } else if (op == 'N' && nf >= 4) {
            unsigned char *nm = hexstr(f[2]);
            WBXMLTreeNode *r = wbxml_tree_node_elt_get_from_name(ref(f[1]), (const char *) nm, atoi(f[3]) != 0);
            ok = 1; residx = r ? idx(r) : -1;
            free(nm);
        }
        printf("%s%s", first ? "" : "|", ok ? "ok" : "fail");
        if (residx != -3) printf("%d", residx);
        printf("#");
        first = 0;
        dump(tree);
        if (overflow) break;
    }
    if (!overflow) {
        if (tree->root) emit_outputs(tree, xmlgen); else printf(" W=none X=none");
    }
    /* everything is destroyed BEFORE the answer line is completed: a sanitizer report during destruction leaves
       this sequence unanswered, so that the check attributes it to the right input */
    if (!overflow) {
        if (tree_first) wbxml_tree_destroy(tree);
        for (i = 0; i < ndet; i++) wbxml_tree_node_destroy_all(detached[i]);
        ndet = 0;
        if (!tree_first) wbxml_tree_destroy(tree);
    }
    printf("\n");
}

static void run_xml(int xmlgen, const char *hex) {
    size_t n; unsigned char *doc = vh_unhex(hex, &n);
    WBXMLTree *tree = NULL;
    WBXMLError e;
    WBXMLConvXML2WBXML *conv = NULL;
    WB_UTINY *out = NULL; WB_ULONG len = 0;
    ndet = 0;
    e = wbxml_tree_from_xml(doc, (WB_ULONG) n, &tree);
    if (e != WBXML_OK) printf("ERR%d#", (int) e);
    else { printf("ok%d#", tree->lang ? (int) tree->lang->langID : -1); dump(tree); emit_outputs(tree, xmlgen); wbxml_tree_destroy(tree); }
    /* the converter object (the documented XML -> WBXML path) */
    if (wbxml_conv_xml2wbxml_create(&conv) == WBXML_OK) {
        e = wbxml_conv_xml2wbxml_run(conv, doc, (WB_ULONG) n, &out, &len);
        if (e == WBXML_OK) {
            WBXMLConvWBXML2XML *c2 = NULL;
            printf(" CW="); vh_puthex(stdout, out, len);
            if (wbxml_conv_wbxml2xml_create(&c2) == WBXML_OK) {
                WB_UTINY *x = NULL; WB_ULONG xl = 0;
                wbxml_conv_wbxml2xml_set_gen_type(c2, (WBXMLGenXMLType) xmlgen);
                wbxml_conv_wbxml2xml_set_indent(c2, 1);
                e = wbxml_conv_wbxml2xml_run(c2, out, len, &x, &xl);
                if (e == WBXML_OK) { printf(" CX="); vh_puthex(stdout, x, xl); } else printf(" CX=ERR%d", (int) e);
                if (x) wbxml_free(x);
                wbxml_conv_wbxml2xml_destroy(c2);
            }
        } else printf(" CW=ERR%d", (int) e);
        if (out) wbxml_free(out);
        wbxml_conv_xml2wbxml_destroy(conv);
    }
    printf("\n");
    free(doc);
}

int main(void) {
    char *line;
    while ((line = vh_line(stdin)) != NULL) {
        char *tok[4];
        int nt = split(line, ' ', tok, 4);
        if (nt >= 3 && strcmp(tok[0], "seq") == 0) run_seq(atoi(tok[1]), atoi(tok[2]), nt >= 4 ? tok[3] : NULL);
        else if (nt >= 3 && strcmp(tok[0], "xml") == 0) run_xml(atoi(tok[1]), tok[2]);
        else printf("bad\n");
        fflush(stdout);
    }
    return 0;
}
