/* C19 correspondence harness: drives the real buffer and list functions in lock-step.
   One operation per input line; after every operation one answer line:
       <return value> | <len> <contents hex> <byte at data[len] or --> <static flag>       (buffers)
       <return value> | <len field> <items reachable from head> <tail designates last item>  (lists)
   `new` / `sta` / `lnew` start a fresh object (the previous one is destroyed), so a sequence of
   lines starting with one of them is self-contained.  The private struct fields are reached by
   including the source files (as the project's own test_wbxml_parser_internals.c does). */
#include "vh.h"
#include "wbxml_buffers.c"
#include "wbxml_lists.c"
#include <stdint.h>

static WBXMLBuffer *B = NULL;
static unsigned char *sta_data = NULL;     /* storage of a static buffer: exactly len octets */
static WBXMLList *L = NULL;

static void drop_buffer(void) {
    if (B) wbxml_buffer_destroy(B);
    B = NULL;
    free(sta_data);
    sta_data = NULL;
}

static void dump_buffer(void) {
    if (!B) { printf(" | nobuf\n"); return; }
    printf(" | %u ", (unsigned) B->len);
    vh_puthex(stdout, B->data, B->len);
    if (!B->is_static && B->data != NULL) printf(" %02x", B->data[B->len]);
    else printf(" --");
    printf(" %d\n", B->is_static ? 1 : 0);
}

static void dump_list(void) {
    WBXMLListElt *e, *last = NULL;
    unsigned n = 0;
    if (!L) { printf(" | nolist\n"); return; }
    printf(" | %u ", (unsigned) L->len);
    if (L->head == NULL) printf("-");
    for (e = L->head; e != NULL && n < 100000; e = e->next, n++) {
        printf(n ? ",%lu" : "%lu", (unsigned long) (uintptr_t) e->item);
        last = e;
    }
    printf(" %d\n", L->tail == last ? 1 : 0);
}

/* a NUL-terminated copy of the octets (the C sees the string up to its first NUL) */
static unsigned char *cstr_of(const char *hex) {
    size_t n; unsigned char *d = vh_unhex(hex, &n);
    d[n] = 0;                                  /* vh_unhex allocates n + 1 */
    return d;
}

static WBXMLBuffer *other_of(const char *hex, unsigned char **keep) {
    size_t n; unsigned char *d = vh_unhex(hex, &n);
    WBXMLBuffer *o = wbxml_buffer_create(d, (WB_ULONG) n, 1);
    *keep = d;
    return o;
}

#define IS(s) (strcmp(tok[0], s) == 0)
#define UL(i) ((WB_ULONG) strtoul(tok[i], NULL, 10))
#define PB(r) printf((r) ? "T" : "F")

int main(void) {
    char *line, *tok[8];
    setvbuf(stdout, NULL, _IOLBF, 0);       /* an answer must not be lost when a later operation aborts */
    while ((line = vh_line(stdin)) != NULL) {
        int nt = vh_split(line, tok, 8);
        /* ---- lists ---- */
        if (tok[0][0] == 'l' && !IS("len")) {
            if (IS("lnew")) {
                if (L) wbxml_list_destroy(L, NULL);
                L = wbxml_list_create();
                printf("v");
            }
            else if (!L) { printf("nolist\n"); continue; }
            else if (IS("lapp") && nt == 2) PB(wbxml_list_append(L, (void *) (uintptr_t) UL(1)));
            else if (IS("lins") && nt == 3) PB(wbxml_list_insert(L, (void *) (uintptr_t) UL(1), UL(2)));
            else if (IS("lget") && nt == 2) {
                void *p = wbxml_list_get(L, UL(1));
                if (p) printf("some %lu", (unsigned long) (uintptr_t) p); else printf("none");
            }
            else if (IS("lext")) {
                void *p = wbxml_list_extract_first(L);
                if (p) printf("some %lu", (unsigned long) (uintptr_t) p); else printf("none");
            }
            else if (IS("llen")) printf("len %u", (unsigned) wbxml_list_len(L));
            else { printf("bad\n"); continue; }
            dump_list();
            continue;
        }
        /* ---- buffers ---- */
        if (IS("new") && nt == 3) {
            size_t n; unsigned char *d = vh_unhex(tok[1], &n);
            drop_buffer();
            B = wbxml_buffer_create(d, (WB_ULONG) n, UL(2));
            free(d);
            printf("v");
        }
        else if (IS("sta") && nt == 2) {
            size_t n; unsigned char *d = vh_unhex(tok[1], &n);
            drop_buffer();
            sta_data = malloc(n ? n : 1);
            memcpy(sta_data, d, n);
            if (n == 0) { free(sta_data); sta_data = NULL; }   /* no octet may be touched at all */
            free(d);
            B = wbxml_buffer_sta_create(sta_data, (WB_ULONG) n);
            printf("v");
        }
        else if (!B) { printf("nobuf\n"); continue; }
        else if (IS("dup")) {
            WBXMLBuffer *d = wbxml_buffer_duplicate(B);
            drop_buffer();
            B = d;
            printf("v");
        }
        else if (IS("len")) printf("len %u", (unsigned) wbxml_buffer_len(B));
        else if (IS("get") && nt == 2) {
            WB_UTINY ch = 0xEE;
            if (wbxml_buffer_get_char(B, UL(1), &ch)) printf("some %u", (unsigned) ch); else printf("none");
        }
        else if (IS("set") && nt == 3) PB(wbxml_buffer_set_char(B, UL(1), (WB_UTINY) UL(2)));
        else if ((IS("ins") || IS("app") || IS("cmp") || IS("srch")) && nt >= 2) {
            unsigned char *keep; WBXMLBuffer *o = other_of(tok[1], &keep);
            if (IS("ins")) PB(wbxml_buffer_insert(B, o, UL(2)));
            else if (IS("app")) PB(wbxml_buffer_append(B, o));
            else if (IS("cmp")) { WB_LONG r = wbxml_buffer_compare(B, o); printf("cmp %d", r < 0 ? -1 : r > 0 ? 1 : 0); }
            else {
                WB_ULONG res = 0xDEAD;
                if (wbxml_buffer_search(B, o, UL(2), &res)) printf("some %u", (unsigned) res); else printf("none");
            }
            wbxml_buffer_destroy(o);
            free(keep);
        }
        else if ((IS("insc") || IS("appc") || IS("cmpc") || IS("srchc")) && nt >= 2) {
            unsigned char *s = cstr_of(tok[1]);
            if (IS("insc")) PB(wbxml_buffer_insert_cstr(B, s, UL(2)));
            else if (IS("appc")) PB(wbxml_buffer_append_cstr(B, s));
            else if (IS("cmpc")) { WB_LONG r = wbxml_buffer_compare_cstr(B, (const WB_TINY *) s); printf("cmp %d", r < 0 ? -1 : r > 0 ? 1 : 0); }
            else {
                WB_ULONG res = 0xDEAD;
                if (wbxml_buffer_search_cstr(B, s, UL(2), &res)) printf("some %u", (unsigned) res); else printf("none");
            }
            free(s);
        }
        else if (IS("appd") && nt == 2) {
            size_t n; unsigned char *d = vh_unhex(tok[1], &n);
            PB(wbxml_buffer_append_data(B, d, (WB_ULONG) n));
            free(d);
        }
        else if (IS("appch") && nt == 2) PB(wbxml_buffer_append_char(B, (WB_UTINY) UL(1)));
        else if (IS("appmb") && nt == 2) PB(wbxml_buffer_append_mb_uint_32(B, UL(1)));
        else if (IS("del") && nt == 3) PB(wbxml_buffer_delete(B, UL(1), UL(2)));
        else if (IS("shrink")) PB(wbxml_buffer_shrink_blanks(B));
        else if (IS("strip")) PB(wbxml_buffer_strip_blanks(B));
        else if (IS("nosp")) { wbxml_buffer_no_spaces(B); printf("v"); }
        else if (IS("words")) {
            WBXMLList *ws = wbxml_buffer_split_words(B);
            WB_ULONG i;
            printf("words ");
            if (ws == NULL) printf("NULL");
            else {
                if (wbxml_list_len(ws) == 0) printf("none");
                for (i = 0; i < wbxml_list_len(ws); i++) {
                    WBXMLBuffer *w = (WBXMLBuffer *) wbxml_list_get(ws, i);
                    if (i) printf(",");
                    vh_puthex(stdout, w->data, w->len);
                    /* each word is itself a dynamic buffer: its terminator is part of the observation */
                    if (w->data == NULL || w->data[w->len] != 0) printf("!noterm");
                }
                wbxml_list_destroy(ws, wbxml_buffer_destroy_item);
            }
        }
        else if (IS("schr") && nt == 3) {
            WB_ULONG res = 0xDEAD;
            if (wbxml_buffer_search_char(B, (WB_UTINY) UL(1), UL(2), &res)) printf("some %u", (unsigned) res); else printf("none");
        }
        else if (IS("onlyws")) PB(wbxml_buffer_contains_only_whitespaces(B));
        else if (IS("h2b")) PB(wbxml_buffer_hex_to_binary(B));
        else if (IS("b2h") && nt == 2) PB(wbxml_buffer_binary_to_hex(B, tok[1][0] == 'U'));
        else if (IS("b64d")) PB(wbxml_buffer_decode_base64(B) == WBXML_OK);
        else if (IS("b64e")) PB(wbxml_buffer_encode_base64(B) == WBXML_OK);
        else if (IS("rtz")) PB(wbxml_buffer_remove_trailing_zeros(B));
        else { printf("bad\n"); continue; }
        dump_buffer();
    }
    drop_buffer();
    if (L) wbxml_list_destroy(L, NULL);
    return 0;
}
