/* C19 correspondence harness: drives the real buffer and list functions in lock-step.
   One operation per input line; after every operation one answer line:
       <return value> | <len> <contents hex> <byte at data[len] or --> <static flag>       (buffers)
       <return value> | <len field> <items reachable from head> <tail designates last item>  (lists)
   `new` / `sta` / `lnew` start a fresh object (the previous one is destroyed), so a sequence of
   lines starting with one of them is self-contained.  The private struct fields are reached by
   including the source files (as the project's own test_wbxml_parser_internals.c does).
   Allocation refusal (built with -DC19_VFMEM against the "-vfmem" library variant, whose
   malloc/realloc/free/strdup are the vf_* functions below): a line may start with a token
       F<k>   the k-th allocation request made by the library during THIS operation is refused
       A<k>   the k-th and every later one are refused
   Requests are counted only while the function under test runs (not while the harness builds the
   second operand).  A creating function that returns NULL prints "null" and the previous object
   is kept, so that "refused = no effect" is observable for those too. */
#include "vh.h"
#include "wbxml_buffers.c"
#include "wbxml_lists.c"
#include <stdint.h>

static int vf_armed = 0, vf_mode = 0;      /* mode: 0 none, 'F', 'A' */
static long vf_k = 0, vf_n = 0;
#ifdef C19_VFMEM
static int vf_refuse(void) {
    if (!vf_armed || !vf_mode) return 0;
    vf_n++;
    return (vf_mode == 'F') ? (vf_n == vf_k) : (vf_n >= vf_k);
}
void *vf_malloc(size_t n) { return vf_refuse() ? NULL : malloc(n); }
void *vf_realloc(void *p, size_t n) { return vf_refuse() ? NULL : realloc(p, n); }
void vf_free(void *p) { free(p); }
char *vf_strdup(const char *s) { size_t n = strlen(s) + 1; char *p = vf_malloc(n); if (p) memcpy(p, s, n); return p; }
#endif
/* run one library call with the refusal plan of this line armed */
#define API(lhs, call) do { vf_n = 0; vf_armed = 1; lhs = (call); vf_armed = 0; } while (0)
#define APIV(call) do { vf_n = 0; vf_armed = 1; (call); vf_armed = 0; } while (0)

static WBXMLBuffer *B = NULL;
static unsigned char *sta_data = NULL;     /* storage of a static buffer: exactly len octets */
static WBXMLList *L = NULL;

static void drop_buffer(void) {
    if (B) wbxml_buffer_destroy(B);
    B = NULL;
    free(sta_data);
    sta_data = NULL;
}

static void dump_buffer(void) {
    if (!B) { printf(" | nobuf\n"); return; }
    printf(" | %u ", (unsigned) B->len);
    if (B->data == NULL && B->len > 0) { printf("NODATA -- %d\n", B->is_static ? 1 : 0); return; }   /* len > 0 without storage */
    vh_puthex(stdout, B->data, B->len);
    if (!B->is_static && B->data != NULL) printf(" %02x", B->data[B->len]);
    else printf(" --");
    printf(" %d\n", B->is_static ? 1 : 0);
}

static void dump_list(void) {
    WBXMLListElt *e, *last = NULL;
    unsigned n = 0;
    if (!L) { printf(" | nolist\n"); return; }
    printf(" | %u ", (unsigned) L->len);
    if (L->head == NULL) printf("-");
    for (e = L->head; e != NULL && n < 100000; e = e->next, n++) {
        printf(n ? ",%lu" : "%lu", (unsigned long) (uintptr_t) e->item);
        last = e;
    }
    printf(" %d\n", L->tail == last ? 1 : 0);
}

/* a NUL-terminated copy of the octets (the C sees the string up to its first NUL) */
static unsigned char *cstr_of(const char *hex) {
    size_t n; unsigned char *d = vh_unhex(hex, &n);
    d[n] = 0;                                  /* vh_unhex allocates n + 1 */
    return d;
}

static WBXMLBuffer *other_of(const char *hex, unsigned char **keep) {
    size_t n; unsigned char *d = vh_unhex(hex, &n);
    WBXMLBuffer *o = wbxml_buffer_create(d, (WB_ULONG) n, 1);
    *keep = d;
    return o;
}

#define IS(s) (strcmp(tok[0], s) == 0)
#define UL(i) ((WB_ULONG) strtoul(tok[i], NULL, 10))
#define PB(r) printf((r) ? "T" : "F")
#define PSOME(ok, v) do { if (ok) printf("some %u", (unsigned) (v)); else printf("none"); } while (0)

int main(void) {
    char *line, *alltok[9], **tok;
    setvbuf(stdout, NULL, _IOLBF, 0);       /* an answer must not be lost when a later operation aborts */
    while ((line = vh_line(stdin)) != NULL) {
        int nt = vh_split(line, alltok, 9), r = 0;
        tok = alltok;
        vf_mode = 0;
        if ((tok[0][0] == 'F' || tok[0][0] == 'A') && tok[0][1] >= '0' && tok[0][1] <= '9' && nt >= 2) {
#ifdef C19_VFMEM
            vf_mode = tok[0][0];
            vf_k = strtol(tok[0] + 1, NULL, 10);
            tok++; nt--;
#else
            printf("bad (built without C19_VFMEM)\n"); continue;
#endif
        }
        /* ---- lists ---- */
        if (tok[0][0] == 'l' && !IS("len")) {
            if (IS("lnew")) {
                WBXMLList *nl;
                API(nl, wbxml_list_create());
                if (nl) { if (L) wbxml_list_destroy(L, NULL); L = nl; printf("v"); }
                else printf("null");
            }
            else if (!L) { printf("nolist\n"); continue; }
            else if (IS("lapp") && nt == 2) { API(r, wbxml_list_append(L, (void *) (uintptr_t) UL(1))); PB(r); }
            else if (IS("lins") && nt == 3) { API(r, wbxml_list_insert(L, (void *) (uintptr_t) UL(1), UL(2))); PB(r); }
            else if (IS("lget") && nt == 2) {
                void *p; API(p, wbxml_list_get(L, UL(1)));
                if (p) printf("some %lu", (unsigned long) (uintptr_t) p); else printf("none");
            }
            else if (IS("lext")) {
                void *p; API(p, wbxml_list_extract_first(L));
                if (p) printf("some %lu", (unsigned long) (uintptr_t) p); else printf("none");
            }
            else if (IS("llen")) printf("len %u", (unsigned) wbxml_list_len(L));
            else { printf("bad\n"); continue; }
            dump_list();
            continue;
        }
        /* ---- buffers ---- */
        if (IS("new") && nt == 3) {
            size_t n; unsigned char *d = vh_unhex(tok[1], &n);
            WBXMLBuffer *nb;
            API(nb, wbxml_buffer_create(d, (WB_ULONG) n, UL(2)));
            free(d);
            if (nb) { drop_buffer(); B = nb; printf("v"); } else printf("null");
        }
        else if (IS("sta") && nt == 2) {
            size_t n; unsigned char *d = vh_unhex(tok[1], &n), *sd = NULL;
            WBXMLBuffer *nb;
            if (n) { sd = malloc(n); memcpy(sd, d, n); }    /* exactly n octets; none at all for n = 0 */
            free(d);
            API(nb, wbxml_buffer_sta_create(sd, (WB_ULONG) n));
            if (nb) { drop_buffer(); B = nb; sta_data = sd; printf("v"); } else { free(sd); printf("null"); }
        }
        else if (!B) { printf("nobuf\n"); continue; }
        else if (IS("dup")) {
            WBXMLBuffer *d;
            API(d, wbxml_buffer_duplicate(B));
            if (d) { drop_buffer(); B = d; printf("v"); } else printf("null");
        }
        else if (IS("len")) printf("len %u", (unsigned) wbxml_buffer_len(B));
        else if (IS("get") && nt == 2) {
            WB_UTINY ch = 0xEE;
            API(r, wbxml_buffer_get_char(B, UL(1), &ch)); PSOME(r, ch);
        }
        else if (IS("set") && nt == 3) { API(r, wbxml_buffer_set_char(B, UL(1), (WB_UTINY) UL(2))); PB(r); }
        else if ((IS("ins") || IS("app") || IS("cmp") || IS("srch")) && nt >= 2) {
            unsigned char *keep; WBXMLBuffer *o = other_of(tok[1], &keep);
            if (IS("ins")) { API(r, wbxml_buffer_insert(B, o, UL(2))); PB(r); }
            else if (IS("app")) { API(r, wbxml_buffer_append(B, o)); PB(r); }
            else if (IS("cmp")) { WB_LONG c; API(c, wbxml_buffer_compare(B, o)); printf("cmp %d", c < 0 ? -1 : c > 0 ? 1 : 0); }
            else {
                WB_ULONG res = 0xDEAD;
                API(r, wbxml_buffer_search(B, o, UL(2), &res)); PSOME(r, res);
            }
            wbxml_buffer_destroy(o);
            free(keep);
        }
        else if ((IS("insc") || IS("appc") || IS("cmpc") || IS("srchc")) && nt >= 2) {
            unsigned char *s = cstr_of(tok[1]);
            if (IS("insc")) { API(r, wbxml_buffer_insert_cstr(B, s, UL(2))); PB(r); }
            else if (IS("appc")) { API(r, wbxml_buffer_append_cstr(B, s)); PB(r); }
            else if (IS("cmpc")) { WB_LONG c; API(c, wbxml_buffer_compare_cstr(B, (const WB_TINY *) s)); printf("cmp %d", c < 0 ? -1 : c > 0 ? 1 : 0); }
            else {
                WB_ULONG res = 0xDEAD;
                API(r, wbxml_buffer_search_cstr(B, s, UL(2), &res)); PSOME(r, res);
            }
            free(s);
        }
        else if (IS("appd") && nt == 2) {
            size_t n; unsigned char *d = vh_unhex(tok[1], &n);
            API(r, wbxml_buffer_append_data(B, d, (WB_ULONG) n)); PB(r);
            free(d);
        }
        else if (IS("appch") && nt == 2) { API(r, wbxml_buffer_append_char(B, (WB_UTINY) UL(1))); PB(r); }
        else if (IS("appmb") && nt == 2) { API(r, wbxml_buffer_append_mb_uint_32(B, UL(1))); PB(r); }
        else if (IS("del") && nt == 3) { API(r, wbxml_buffer_delete(B, UL(1), UL(2))); PB(r); }
        else if (IS("shrink")) { API(r, wbxml_buffer_shrink_blanks(B)); PB(r); }
        else if (IS("strip")) { API(r, wbxml_buffer_strip_blanks(B)); PB(r); }
        else if (IS("nosp")) { APIV(wbxml_buffer_no_spaces(B)); printf("v"); }
        else if (IS("words")) {
            WBXMLList *ws;
            WB_ULONG i;
            API(ws, wbxml_buffer_split_words(B));
            if (ws == NULL) printf("null");
            else {
                printf("words ");
                if (wbxml_list_len(ws) == 0) printf("none");
                for (i = 0; i < wbxml_list_len(ws); i++) {
                    WBXMLBuffer *w = (WBXMLBuffer *) wbxml_list_get(ws, i);
                    if (i) printf(",");
                    vh_puthex(stdout, w->data, w->len);
                    /* each word is itself a dynamic buffer: its terminator is part of the observation */
                    if (w->data == NULL || w->data[w->len] != 0) printf("!noterm");
                }
                wbxml_list_destroy(ws, wbxml_buffer_destroy_item);
            }
        }
        else if (IS("schr") && nt == 3) {
            WB_ULONG res = 0xDEAD;
            API(r, wbxml_buffer_search_char(B, (WB_UTINY) UL(1), UL(2), &res)); PSOME(r, res);
        }
        else if (IS("onlyws")) { API(r, wbxml_buffer_contains_only_whitespaces(B)); PB(r); }
        else if (IS("h2b")) { API(r, wbxml_buffer_hex_to_binary(B)); PB(r); }
        else if (IS("b2h") && nt == 2) { API(r, wbxml_buffer_binary_to_hex(B, tok[1][0] == 'U')); PB(r); }
        else if (IS("b64d")) { API(r, wbxml_buffer_decode_base64(B) == WBXML_OK); PB(r); }
        else if (IS("b64e")) { API(r, wbxml_buffer_encode_base64(B) == WBXML_OK); PB(r); }
        else if (IS("rtz")) { API(r, wbxml_buffer_remove_trailing_zeros(B)); PB(r); }
        else { printf("bad\n"); continue; }
        dump_buffer();
    }
    drop_buffer();
    if (L) wbxml_list_destroy(L, NULL);
    return 0;
}
