/* C15 harness: HISTORIES on one object versus fresh objects with the same settings.
   The oracle is literally the property: for every document of a history the status / output / events of the
   run on the reused object must equal those of the run on a freshly created object carrying the same settings
   (the C's own fresh run is the reference).  The struct dumps (pd / ed) tie Model/Lifecycle.v's create / reinit /
   reset / derived-value transcriptions to the C field by field.

   Documents: file named by $C15_DOCS, one per line: "<w|x> <hex>".  One answer line per input line:
     P  <ops>   parser history       ops: d<i> parse doc i | L<n> set_language | M<n> set_meta_charset
     W  <ops>   wbxml2xml converter  ops: d<i> | G<n> gen_type | L<n> | C<n> charset | I<n> indent | K keep ws
     X  <ops>   xml2wbxml converter  ops: d<i> | V<n> version | K | S no string table | A anonymous
     E  <ops>   encoder history (c15_enc.c)
     pd <ops>   parser struct dumps: after create, after each parse, after the re-initialisation
     ed <ops>   encoder struct dumps (c15_enc.c)
   Static functions are reached by including the source file (as the project's own internals test does). */
#include "vh.h"
#include "c15_defs.h"
#include "wbxml_parser.c"
#include "wbxml_conv.h"

C15Doc *c15_docs = NULL;
int c15_ndocs = 0;

static void load_docs(void) {
    const char *path = getenv("C15_DOCS");
    FILE *f; char *line; int cap = 0;
    if (!path) return;
    f = fopen(path, "r");
    if (!f) { fprintf(stderr, "cannot open %s\n", path); exit(3); }
    while ((line = vh_line(f)) != NULL) {
        if (c15_ndocs == cap) { cap = cap ? cap * 2 : 256; c15_docs = realloc(c15_docs, cap * sizeof(C15Doc)); }
        c15_docs[c15_ndocs].kind = line[0];
        c15_docs[c15_ndocs].data = vh_unhex(line + 2, &c15_docs[c15_ndocs].len);
        c15_ndocs++;
    }
    fclose(f);
}

/* ---------------------------------------------------------------- parser events, hashed */
typedef struct { uint64_t h; unsigned n; } Ev;

static void ev_s(Ev *e, const char *tag, const unsigned char *s, size_t n) {
    e->h = c15_fnv(e->h, tag, 2);
    e->h = c15_fnv(e->h, &n, sizeof n);
    if (s) e->h = c15_fnv(e->h, s, n);
}
static void ev_cstr(Ev *e, const char *tag, const unsigned char *s) { ev_s(e, tag, s, s ? strlen((const char *) s) : 0); }

static void h_start_doc(void *ctx, WBXMLCharsetMIBEnum cs, const WBXMLLangEntry *lang) {
    Ev *e = ctx; long v[2]; v[0] = (long) cs; v[1] = lang ? (long) lang->langID : -1;
    e->n++; ev_s(e, "SD", (unsigned char *) v, sizeof v);
}
static void h_end_doc(void *ctx) { Ev *e = ctx; e->n++; ev_s(e, "ED", NULL, 0); }
static void h_start_elt(void *ctx, WBXMLTag *tag, WBXMLAttribute **atts) {
    Ev *e = ctx; int i;
    e->n++; ev_cstr(e, "SE", wbxml_tag_get_xml_name(tag));
    if (tag->type == WBXML_VALUE_TOKEN) {
        unsigned char pt[2]; pt[0] = tag->u.token->wbxmlCodePage; pt[1] = tag->u.token->wbxmlToken; ev_s(e, "tk", pt, 2);
    }
    if (atts) for (i = 0; atts[i] != NULL; i++) {
        ev_cstr(e, "an", wbxml_attribute_get_xml_name(atts[i]));
        ev_cstr(e, "av", wbxml_attribute_get_xml_value(atts[i]));
    }
}
static void h_end_elt(void *ctx, WBXMLTag *tag) {
    Ev *e = ctx; e->n++; ev_cstr(e, "EE", wbxml_tag_get_xml_name(tag));
}
static void h_chars(void *ctx, WB_UTINY *ch, WB_ULONG start, WB_ULONG len) { Ev *e = ctx; e->n++; ev_s(e, "CH", ch + start, len); }
static void h_pi(void *ctx, const WB_UTINY *target, WB_UTINY *data) { Ev *e = ctx; e->n++; ev_cstr(e, "PT", target); ev_cstr(e, "PD", data); }

static WBXMLContentHandler c15_hdl = { h_start_doc, h_end_doc, h_start_elt, h_end_elt, h_chars, h_pi };

static void parse_obs(WBXMLParser *p, Ev *ev, C15Doc *d, char *out) {
    WBXMLError st;
    const WB_UTINY *xp;
    ev->h = C15_FNV0; ev->n = 0;
    st = wbxml_parser_parse(p, d->data, (WB_ULONG) d->len);
    xp = wbxml_parser_get_xml_public_id(p);
    sprintf(out, "%d/%016llx/%u/%lu/%d/%ld/%016llx", (int) st, (unsigned long long) ev->h, ev->n,
            (unsigned long) wbxml_parser_get_wbxml_public_id(p), (int) (signed char) wbxml_parser_get_wbxml_version(p),
            (long) wbxml_parser_get_current_byte_index(p),
            (unsigned long long) c15_fnv(C15_FNV0, xp ? (const char *) xp : "", xp ? strlen((const char *) xp) : 0));
}

/* abstract struct dump, in declaration order of struct WBXMLParser_s (pointers: 0 = NULL) */
static void parser_dump(WBXMLParser *p, Ev *own, FILE *f) {
    fprintf(f, "%d,%d,%d,%d,%u,%d,%d,%d,%d,%u,%d,%d,%d,%u,%d,%u,%u",
            p->user_data == NULL ? 0 : (p->user_data == (void *) own ? 1 : 2),
            p->content_hdl == NULL ? 0 : (p->content_hdl == &c15_hdl ? 1 : 2),
            p->wbxml != NULL, p->strstbl != NULL, (unsigned) p->strstbl_len,
            p->langTable ? (int) p->langTable->langID : 0,
            p->mainTable == NULL ? 0 : (p->mainTable == wbxml_tables_get_main() ? 1 : 2),
            p->current_tag ? 1 + p->current_tag->wbxmlCodePage * 256 + p->current_tag->wbxmlToken : 0,
            (int) p->lang_forced, (unsigned) p->public_id, (int) p->public_id_index, (int) p->charset,
            (int) p->meta_charset, (unsigned) p->pos, (int) (unsigned char) p->version,
            (unsigned) p->tagCodePage, (unsigned) p->attrCodePage);
#ifdef WBXML_MAX_NESTING_DEPTH
    fprintf(f, ",%u", (unsigned) p->nesting);
#endif
}

static void cmd_parser(int nt, char **tok, int dump_mode) {
    WBXMLParser *p = wbxml_parser_create();
    Ev ev_r, ev_f;
    int lang = 0, meta = 0, i;
    char a[160], b[160];
    wbxml_parser_set_user_data(p, &ev_r);
    wbxml_parser_set_content_handler(p, &c15_hdl);
    if (dump_mode) {
        WBXMLParser *q = wbxml_parser_create();
        printf("C:"); parser_dump(q, NULL, stdout);
        wbxml_parser_destroy(q);
    }
    for (i = 1; i < nt; i++) {
        int v = atoi(tok[i] + 1);
        switch (tok[i][0]) {
        case 'L': lang = v; wbxml_parser_set_language(p, (WBXMLLanguage) v); break;
        case 'M': meta = v; wbxml_parser_set_meta_charset(p, (WBXMLCharsetMIBEnum) v); break;
        case 'd': {
            C15Doc *d;
            if (v < 0 || v >= c15_ndocs) { printf(" bad"); break; }
            d = &c15_docs[v];
            if (dump_mode) {
                ev_r.h = C15_FNV0; ev_r.n = 0;
                printf(" D:%d|", (int) wbxml_parser_parse(p, d->data, (WB_ULONG) d->len));
                parser_dump(p, &ev_r, stdout);
                wbxml_parser_reinit(p);
                printf("|"); parser_dump(p, &ev_r, stdout);
            } else {
                WBXMLParser *q = wbxml_parser_create();
                parse_obs(p, &ev_r, d, a);
                wbxml_parser_set_user_data(q, &ev_f);
                wbxml_parser_set_content_handler(q, &c15_hdl);
                wbxml_parser_set_language(q, (WBXMLLanguage) lang);
                wbxml_parser_set_meta_charset(q, (WBXMLCharsetMIBEnum) meta);
                parse_obs(q, &ev_f, d, b);
                wbxml_parser_destroy(q);
                /* settings as the object holds them now (must be the caller's) */
                printf(" %s=%s~%d,%d,%d,%d,%d", a, b, (int) p->lang_forced, (int) p->meta_charset,
                       p->user_data == (void *) &ev_r, p->content_hdl == &c15_hdl, p->mainTable == wbxml_tables_get_main());
            }
            break; }
        default: printf(" bad"); break;
        }
    }
    wbxml_parser_destroy(p);
    printf("\n");
}

/* ---------------------------------------------------------------- converters */
static void conv_obs(WBXMLError st, WB_UTINY *out, WB_ULONG len, char *buf) {
    sprintf(buf, "%d/%016llx/%u/%d", (int) st, (unsigned long long) c15_fnv(C15_FNV0, out ? out : (WB_UTINY *) "", out ? len : 0),
            (unsigned) len, out != NULL);
    if (out) wbxml_free(out);
}

static void cmd_w2x(int nt, char **tok) {
    WBXMLConvWBXML2XML *c = NULL, *f = NULL;
    int gen = WBXML_GEN_XML_INDENT, lang = 0, cs = 0, indent = 0, keep = 0, i;
    char a[96], b[96];
    wbxml_conv_wbxml2xml_create(&c);
    for (i = 1; i < nt; i++) {
        int v = atoi(tok[i] + 1);
        switch (tok[i][0]) {
        case 'G': gen = v; wbxml_conv_wbxml2xml_set_gen_type(c, (WBXMLGenXMLType) v); break;
        case 'L': lang = v; wbxml_conv_wbxml2xml_set_language(c, (WBXMLLanguage) v); break;
        case 'C': cs = v; wbxml_conv_wbxml2xml_set_charset(c, (WBXMLCharsetMIBEnum) v); break;
        case 'I': indent = v; wbxml_conv_wbxml2xml_set_indent(c, (WB_UTINY) v); break;
        case 'K': keep = 1; wbxml_conv_wbxml2xml_enable_preserve_whitespaces(c); break;
        case 'd': {
            C15Doc *d; WB_UTINY *out = NULL; WB_ULONG len = 0; WBXMLError st;
            if (v < 0 || v >= c15_ndocs) { printf(" bad"); break; }
            d = &c15_docs[v];
            st = wbxml_conv_wbxml2xml_run(c, d->data, (WB_ULONG) d->len, &out, &len);
            conv_obs(st, out, len, a);
            wbxml_conv_wbxml2xml_create(&f);
            wbxml_conv_wbxml2xml_set_gen_type(f, (WBXMLGenXMLType) gen);
            wbxml_conv_wbxml2xml_set_language(f, (WBXMLLanguage) lang);
            wbxml_conv_wbxml2xml_set_charset(f, (WBXMLCharsetMIBEnum) cs);
            wbxml_conv_wbxml2xml_set_indent(f, (WB_UTINY) indent);
            if (keep) wbxml_conv_wbxml2xml_enable_preserve_whitespaces(f);
            out = NULL; len = 0;
            st = wbxml_conv_wbxml2xml_run(f, d->data, (WB_ULONG) d->len, &out, &len);
            conv_obs(st, out, len, b);
            wbxml_conv_wbxml2xml_destroy(f);
            printf(" %s=%s", a, b);
            break; }
        default: printf(" bad"); break;
        }
    }
    wbxml_conv_wbxml2xml_destroy(c);
    printf("\n");
}

static void cmd_x2w(int nt, char **tok) {
    WBXMLConvXML2WBXML *c = NULL, *f = NULL;
    int ver = WBXML_VERSION_13, keep = 0, nostr = 0, anon = 0, i;
    char a[96], b[96];
    wbxml_conv_xml2wbxml_create(&c);
    for (i = 1; i < nt; i++) {
        int v = atoi(tok[i] + 1);
        switch (tok[i][0]) {
        case 'V': ver = v; wbxml_conv_xml2wbxml_set_version(c, (WBXMLVersion) v); break;
        case 'K': keep = 1; wbxml_conv_xml2wbxml_enable_preserve_whitespaces(c); break;
        case 'S': nostr = 1; wbxml_conv_xml2wbxml_disable_string_table(c); break;
        case 'A': anon = 1; wbxml_conv_xml2wbxml_disable_public_id(c); break;
        case 'd': {
            C15Doc *d; WB_UTINY *out = NULL; WB_ULONG len = 0; WBXMLError st;
            if (v < 0 || v >= c15_ndocs) { printf(" bad"); break; }
            d = &c15_docs[v];
            st = wbxml_conv_xml2wbxml_run(c, d->data, (WB_ULONG) d->len, &out, &len);
            conv_obs(st, out, len, a);
            wbxml_conv_xml2wbxml_create(&f);
            wbxml_conv_xml2wbxml_set_version(f, (WBXMLVersion) ver);
            if (keep) wbxml_conv_xml2wbxml_enable_preserve_whitespaces(f);
            if (nostr) wbxml_conv_xml2wbxml_disable_string_table(f);
            if (anon) wbxml_conv_xml2wbxml_disable_public_id(f);
            out = NULL; len = 0;
            st = wbxml_conv_xml2wbxml_run(f, d->data, (WB_ULONG) d->len, &out, &len);
            conv_obs(st, out, len, b);
            wbxml_conv_xml2wbxml_destroy(f);
            printf(" %s=%s", a, b);
            break; }
        default: printf(" bad"); break;
        }
    }
    wbxml_conv_xml2wbxml_destroy(c);
    printf("\n");
}

/* "conv" helper for the orchestrator: xml2wbxml of document i with default options, answer = hex of the WBXML */
static void cmd_mk(int nt, char **tok) {
    int v = nt > 1 ? atoi(tok[1]) : -1;
    WB_UTINY *out = NULL; WB_ULONG len = 0; WBXMLConvXML2WBXML *c = NULL;
    if (v < 0 || v >= c15_ndocs) { printf("bad\n"); return; }
    wbxml_conv_xml2wbxml_create(&c);
    if (nt > 2 && tok[2][0] == 'S') wbxml_conv_xml2wbxml_disable_string_table(c);
    if (wbxml_conv_xml2wbxml_run(c, c15_docs[v].data, (WB_ULONG) c15_docs[v].len, &out, &len) == WBXML_OK && out) {
        vh_puthex(stdout, out, len); printf("\n"); wbxml_free(out);
    } else printf("none\n");
    wbxml_conv_xml2wbxml_destroy(c);
}

int main(void) {
    char *line, *tok[512];
    load_docs();
    while ((line = vh_line(stdin)) != NULL) {
        int nt = vh_split(line, tok, 512);
        if (strcmp(tok[0], "P") == 0) cmd_parser(nt, tok, 0);
        else if (strcmp(tok[0], "pd") == 0) cmd_parser(nt, tok, 1);
        else if (strcmp(tok[0], "W") == 0) cmd_w2x(nt, tok);
        else if (strcmp(tok[0], "X") == 0) cmd_x2w(nt, tok);
        else if (strcmp(tok[0], "E") == 0) c15_cmd_encoder(nt, tok, 0);
        else if (strcmp(tok[0], "ed") == 0) c15_cmd_encoder(nt, tok, 1);
        else if (strcmp(tok[0], "F") == 0) c15_cmd_encoder(nt, tok, 2);
        else if (strcmp(tok[0], "fd") == 0) c15_cmd_encoder(nt, tok, 3);
        else if (strcmp(tok[0], "mk") == 0) cmd_mk(nt, tok);
        else printf("bad\n");
        fflush(stdout);
    }
    return 0;
}
