/* C11 correspondence harness: runs the library's low-level codecs on the cases read from stdin.
   Static parser functions are reached by including the source file (as the project's own
   test_wbxml_parser_internals.c does). One answer line per input line. */
#include "vh.h"
#include "wbxml_parser.c"
#include "wbxml_base64.h"

static const char *errname(WBXMLError e) {
    switch (e) {
    case WBXML_ERROR_END_OF_BUFFER: return "END_OF_BUFFER";
    case WBXML_ERROR_UNVALID_MBUINT32: return "UNVALID_MBUINT32";
    case WBXML_ERROR_INVALID_UNICODE: return "INVALID_UNICODE";
    default: return "OTHER";
    }
}

int main(void) {
    char *line, *tok[8];
    while ((line = vh_line(stdin)) != NULL) {
        int nt = vh_split(line, tok, 8);
        if (nt < 2) { printf("bad\n"); continue; }
        if (strcmp(tok[0], "mbw") == 0) {
            WBXMLBuffer *b = wbxml_buffer_create((const WB_UTINY *) "", 0, 8);
            WB_ULONG v = (WB_ULONG) strtoul(tok[1], NULL, 10);
            if (!wbxml_buffer_append_mb_uint_32(b, v)) printf("fail\n");
            else { vh_puthex(stdout, wbxml_buffer_get_cstr(b), wbxml_buffer_len(b)); printf("\n"); }
            wbxml_buffer_destroy(b);
        }
        else if (strcmp(tok[0], "mbr") == 0 || strcmp(tok[0], "ent") == 0) {
            size_t n; unsigned char *d = vh_unhex(tok[1], &n);
            WBXMLParser *p = wbxml_parser_create();
            p->wbxml = wbxml_buffer_create(d, (WB_ULONG) n, (WB_ULONG) n + 1);
            if (p->wbxml == NULL) p->wbxml = wbxml_buffer_create((const WB_UTINY *) "", 0, 1);
            if (tok[0][0] == 'm') {
                WB_ULONG r = 0;
                WBXMLError e = parse_mb_uint32(p, &r);
                if (e == WBXML_OK) printf("ok %u %u\n", (unsigned) r, (unsigned) p->pos);
                else printf("err %s\n", errname(e));
            } else {
                /* tok[1] = ENTITY token followed by the mb_uint32 code */
                WBXMLBuffer *res = NULL;
                WBXMLError e = parse_entity(p, &res);
                if (e == WBXML_OK) { printf("ok "); vh_puthex(stdout, wbxml_buffer_get_cstr(res), wbxml_buffer_len(res)); printf("\n"); }
                else printf("err %s\n", errname(e));
                wbxml_buffer_destroy(res);
            }
            wbxml_parser_destroy(p);
            free(d);
        }
        else if (strcmp(tok[0], "b64e") == 0 || strcmp(tok[0], "b64d") == 0 ||
                 strcmp(tok[0], "h2b") == 0 || strcmp(tok[0], "b2hU") == 0 || strcmp(tok[0], "b2hL") == 0) {
            size_t n; unsigned char *d = vh_unhex(tok[1], &n);
            WBXMLBuffer *b = wbxml_buffer_create(d, (WB_ULONG) n, (WB_ULONG) n + 1);
            if (b == NULL) b = wbxml_buffer_create((const WB_UTINY *) "", 0, 1);
            if (tok[0][0] == 'b' && tok[0][1] == '6') {
                WBXMLError e = (tok[0][3] == 'e') ? wbxml_buffer_encode_base64(b) : wbxml_buffer_decode_base64(b);
                if (e == WBXML_OK) { printf("ok "); vh_puthex(stdout, wbxml_buffer_get_cstr(b), wbxml_buffer_len(b)); printf("\n"); }
                else printf("none\n");
            } else {
                WB_BOOL r = (tok[0][0] == 'h') ? wbxml_buffer_hex_to_binary(b)
                                               : wbxml_buffer_binary_to_hex(b, tok[0][3] == 'U');
                if (r) { printf("ok "); vh_puthex(stdout, wbxml_buffer_get_cstr(b), wbxml_buffer_len(b)); printf("\n"); }
                else printf("fail\n");
            }
            wbxml_buffer_destroy(b);
            free(d);
        }
        else printf("bad\n");
    }
    return 0;
}
