/* canonical dump of a WBXML tree (notation: see xmlfront_harness.c / c06_harness.c); shared by the front-end harnesses */
#ifndef XMLFRONT_DUMP_H
#define XMLFRONT_DUMP_H
#include "vh.h"
#include "wbxml.h"
#include "wbxml_tree.h"
#include "wbxml_tables.h"
#include "wbxml_elt.h"
#include "wbxml_lists.h"
#include "wbxml_buffers.h"

static int dump_show_pending = 1;
static void fhexs(FILE *F, const char *s) { vh_puthex(F, (const unsigned char *) s, strlen(s)); }

/* ------------------------------------------------------------------ pass 2: the tree of the library */

static unsigned count_sibs(WBXMLTreeNode *n) { unsigned c = 0; for (; n; n = n->next) c++; return c; }

static void fdump_tree(FILE *F, WBXMLTree *t);

/* recursion depth = tree depth, which the front end bounds (nesting limit) */
static void fdump_node(FILE *F, WBXMLTreeNode *n) {
    WB_ULONG i;
    WBXMLTreeNode *c;
    switch (n->type) {
    case WBXML_TREE_ELEMENT_NODE:
        fprintf(F, " E");
        if (n->name->type == WBXML_VALUE_TOKEN) {
            fprintf(F, " t %u %u %u ", n->name->u.token->wbxmlCodePage, n->name->u.token->wbxmlToken, (unsigned) n->name->u.token->options);
            fhexs(F, n->name->u.token->xmlName);
        } else {
            fprintf(F, " l ");
            vh_puthex(F, wbxml_buffer_get_cstr(n->name->u.literal), wbxml_buffer_len(n->name->u.literal));
        }
        if (n->attrs == NULL) fprintf(F, " -1");
        else {
            fprintf(F, " %u", (unsigned) wbxml_list_len(n->attrs));
            for (i = 0; i < wbxml_list_len(n->attrs); i++) {
                WBXMLAttribute *a = (WBXMLAttribute *) wbxml_list_get(n->attrs, i);
                if (a->name->type == WBXML_VALUE_TOKEN) {
                    fprintf(F, " t %u %u ", a->name->u.token->wbxmlCodePage, a->name->u.token->wbxmlToken);
                    fhexs(F, a->name->u.token->xmlName);
                    fprintf(F, " ");
                    if (a->name->u.token->xmlValue) fhexs(F, a->name->u.token->xmlValue); else fprintf(F, "~");
                } else {
                    fprintf(F, " l ");
                    vh_puthex(F, wbxml_buffer_get_cstr(a->name->u.literal), wbxml_buffer_len(a->name->u.literal));
                }
                fprintf(F, " ");
                vh_puthex(F, wbxml_buffer_get_cstr(a->value), wbxml_buffer_len(a->value));
            }
        }
        fprintf(F, " %u", count_sibs(n->children));
        for (c = n->children; c; c = c->next) fdump_node(F, c);
        if (n->content != NULL && dump_show_pending) { fprintf(F, " !PENDING"); if (dump_show_pending == 2) { fprintf(F, " "); vh_puthex(F, wbxml_buffer_get_cstr(n->content), wbxml_buffer_len(n->content)); } }
        break;
    case WBXML_TREE_TEXT_NODE:
        fprintf(F, " T ");
        vh_puthex(F, wbxml_buffer_get_cstr(n->content), wbxml_buffer_len(n->content));
        if (n->children) fprintf(F, " !TEXT-WITH-CHILDREN");
        break;
    case WBXML_TREE_CDATA_NODE:
        fprintf(F, " C %u", count_sibs(n->children));
        for (c = n->children; c; c = c->next) fdump_node(F, c);
        break;
    case WBXML_TREE_PI_NODE:
        fprintf(F, " P");
        break;
    case WBXML_TREE_TREE_NODE:
        fprintf(F, " R");
        fdump_tree(F, n->tree);
        if (n->children) fprintf(F, " !TREE-WITH-CHILDREN");
        break;
    default:
        fprintf(F, " ?");
    }
}

static void fdump_tree(FILE *F, WBXMLTree *t) {
    WBXMLTreeNode *c;
    fprintf(F, " %d %u", t->lang ? (int) t->lang->langID : 0, count_sibs(t->root));
    for (c = t->root; c; c = c->next) fdump_node(F, c);
}


static void dump_tree(WBXMLTree *t) { fdump_tree(stdout, t); }
#endif
