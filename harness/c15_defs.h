/* shared between harness/c15_harness.c (parser, converters, main) and harness/c15_enc.c (encoder) */
#ifndef C15_DEFS_H
#define C15_DEFS_H
#include <stdint.h>
#include <stddef.h>

typedef struct { char kind; unsigned char *data; size_t len; } C15Doc;   /* kind 'w' = WBXML bytes, 'x' = XML text */
extern C15Doc *c15_docs;
extern int c15_ndocs;

#define C15_FNV0 1469598103934665603ULL
static uint64_t c15_fnv(uint64_t h, const void *p, size_t n) {
    const unsigned char *s = (const unsigned char *) p; size_t i;
    for (i = 0; i < n; i++) { h ^= s[i]; h *= 1099511628211ULL; }
    return h;
}

/* E ... (history on one encoder, a fresh encoder per run, and a "shimmed" encoder) and ed ... (struct dumps) */
void c15_cmd_encoder(int nt, char **tok, int mode);   /* bit 0: struct dumps, bit 1: Flow Mode */
#endif
