/* shared helpers of the verification harnesses: line protocol, hex */
#ifndef VH_H
#define VH_H
#include <stdio.h>
#include <stdlib.h>
#include <string.h>

static int vh_hexval(int c) {
    if (c >= '0' && c <= '9') return c - '0';
    if (c >= 'a' && c <= 'f') return c - 'a' + 10;
    if (c >= 'A' && c <= 'F') return c - 'A' + 10;
    return -1;
}

/* decode a hex token ("-" = empty) into a malloc'd buffer (always at least 1 byte allocated) */
static unsigned char *vh_unhex(const char *s, size_t *len) {
    size_t n = strlen(s), i;
    unsigned char *out;
    if (strcmp(s, "-") == 0) n = 0;
    out = malloc(n / 2 + 1);
    for (i = 0; i + 1 < n; i += 2)
        out[i / 2] = (unsigned char) (vh_hexval(s[i]) * 16 + vh_hexval(s[i + 1]));
    *len = n / 2;
    return out;
}

static void vh_puthex(FILE *f, const unsigned char *p, size_t n) {
    size_t i;
    if (n == 0) { fputc('-', f); return; }
    for (i = 0; i < n; i++) fprintf(f, "%02x", p[i]);
}

/* read one line (without the newline) into a growing static buffer; NULL at EOF */
static char *vh_line(FILE *f) {
    static char *buf = NULL;
    static size_t cap = 0;
    size_t n = 0;
    int c;
    while ((c = fgetc(f)) != EOF) {
        if (n + 2 > cap) { cap = cap ? cap * 2 : 4096; buf = realloc(buf, cap); }
        if (c == '\n') { buf[n] = 0; return buf; }
        buf[n++] = (char) c;
    }
    if (n == 0) return NULL;
    buf[n] = 0;
    return buf;
}

/* split on single spaces, in place */
static int vh_split(char *line, char **tok, int max) {
    int n = 0;
    char *p = line;
    while (n < max) {
        tok[n++] = p;
        p = strchr(p, ' ');
        if (!p) break;
        *p++ = 0;
    }
    return n;
}
#endif
