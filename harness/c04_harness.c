/* C04 / C13 correspondence harness.
   One answer line per input line.
     p <forced lang id> <meta charset> <hex>   wbxml_parser_parse with content handlers registered;
                                               answer: "ok <events>" or "err <CODE>"
     r <k> {<forced> <meta> <hex>}*k           ONE WBXMLParser object, k documents parsed one after the other
                                               (language and meta charset set before every parse, 0 = unknown);
                                               answer: the k answers of `p`, joined by " || "
     t <forced lang id> <meta charset> <hex>   wbxml_tree_from_wbxml; answer "ok <tree>" or "err <CODE> tree=null"
     x <1 = no string table> 0 <hex of XML>    wbxml_conv_xml2wbxml_run; answer "ok <wbxml hex>" or "err <CODE>"
     c <forced lang id> <meta charset> <hex>   wbxml_conv_wbxml2xml_run; answer "ok <xml hex>" or
                                               "err <CODE> xml=<null|nonnull> len=<n>"
   Event syntax (same as driver/C04_driver.ml):
     SD:<charset>:<lang id>
     SE:<tag>{,<attrname>=<value hex>}      <tag> / <attrname> = T.<page>.<token>.<name hex> | L.<name hex>
     CH:<hex>   PI:<target hex>:<data hex>   EE:<tag>   ED
   Attribute values: the value buffer without the NUL the parser appends to a non-empty value. */
#include "vh.h"
#include "wbxml.h"
#include "wbxml_parser.h"
#include "wbxml_conv.h"
#include "wbxml_handlers.h"
#include "wbxml_elt.h"
#include "wbxml_buffers.h"
#include "wbxml_errors.h"
#include "wbxml_tree.h"
#include "wbxml_lists.h"

static char *out = NULL;
static size_t out_len = 0, out_cap = 0;

static void o_reserve(size_t n) {
    if (out_len + n + 1 > out_cap) {
        out_cap = (out_len + n + 1) * 2 + 4096;
        out = realloc(out, out_cap);
    }
}
static void o_str(const char *s) { size_t n = strlen(s); o_reserve(n); memcpy(out + out_len, s, n); out_len += n; out[out_len] = 0; }
static void o_hex(const unsigned char *p, size_t n) {
    static const char *hx = "0123456789abcdef";
    size_t i;
    if (n == 0) { o_str("-"); return; }
    o_reserve(2 * n);
    for (i = 0; i < n; i++) { out[out_len++] = hx[p[i] >> 4]; out[out_len++] = hx[p[i] & 15]; }
    out[out_len] = 0;
}
static void o_num(unsigned long v) { char b[32]; sprintf(b, "%lu", v); o_str(b); }
static void o_sep(void) { if (out_len) o_str(" "); }

static void o_tag(WBXMLTag *t) {
    if (t->type == WBXML_VALUE_TOKEN) {
        o_str("T."); o_num(t->u.token->wbxmlCodePage); o_str("."); o_num(t->u.token->wbxmlToken); o_str(".");
        o_hex((const unsigned char *) t->u.token->xmlName, strlen(t->u.token->xmlName));
    } else {
        o_str("L."); o_hex(wbxml_buffer_get_cstr(t->u.literal), wbxml_buffer_len(t->u.literal));
    }
}
static void o_attrname(WBXMLAttributeName *a) {
    if (a->type == WBXML_VALUE_TOKEN) {
        o_str("T."); o_num(a->u.token->wbxmlCodePage); o_str("."); o_num(a->u.token->wbxmlToken); o_str(".");
        o_hex((const unsigned char *) a->u.token->xmlName, strlen(a->u.token->xmlName));
    } else {
        o_str("L."); o_hex(wbxml_buffer_get_cstr(a->u.literal), wbxml_buffer_len(a->u.literal));
    }
}

static void h_start_doc(void *ctx, WBXMLCharsetMIBEnum charset, const WBXMLLangEntry *lang) {
    (void) ctx; o_sep(); o_str("SD:"); o_num((unsigned long) charset); o_str(":"); o_num(lang ? (unsigned long) lang->langID : 0);
}
static void h_end_doc(void *ctx) { (void) ctx; o_sep(); o_str("ED"); }
static void h_start_elt(void *ctx, WBXMLTag *t, WBXMLAttribute **atts) {
    (void) ctx; o_sep(); o_str("SE:"); o_tag(t);
    if (atts) {
        for (; *atts; atts++) {
            WBXMLBuffer *v = (*atts)->value;
            unsigned long n = wbxml_buffer_len(v);
            const unsigned char *p = wbxml_buffer_get_cstr(v);
            o_str(","); o_attrname((*atts)->name); o_str("=");
            if (n > 0) {
                if (p[n - 1] != 0) o_str("!");      /* cannot happen: the parser appends a NUL */
                o_hex(p, n - 1);
            } else o_hex(p, 0);
        }
    }
}
static void h_end_elt(void *ctx, WBXMLTag *t) { (void) ctx; o_sep(); o_str("EE:"); o_tag(t); }
static void h_chars(void *ctx, WB_UTINY *ch, WB_ULONG start, WB_ULONG length) {
    (void) ctx; o_sep(); o_str("CH:"); o_hex(ch + start, length);
}
static void h_pi(void *ctx, const WB_UTINY *target, WB_UTINY *data) {
    (void) ctx; o_sep(); o_str("PI:"); o_hex(target, strlen((const char *) target)); o_str(":");
    o_hex(data, strlen((const char *) data));
}

/* ---- dump of the tree built by wbxml_tree_from_wbxml (same syntax as driver/C04_driver.ml):
   E <tag> <nattrs> {<attrname> <value hex>} <nchildren> {node} | T <hex> | C <nchildren> {node} | R <lang id> <charset> <0|1> [node] */
static void o_tree(WBXMLTree *t);
static unsigned long n_children(WBXMLTreeNode *n) { unsigned long k = 0; WBXMLTreeNode *c; for (c = n->children; c; c = c->next) k++; return k; }
static void o_node(WBXMLTreeNode *n) {
    WBXMLTreeNode *c;
    switch (n->type) {
    case WBXML_TREE_ELEMENT_NODE: {
        unsigned long i, na = n->attrs ? wbxml_list_len(n->attrs) : 0;
        o_str("E "); o_tag(n->name); o_str(" "); o_num(na);
        for (i = 0; i < na; i++) {
            WBXMLAttribute *a = (WBXMLAttribute *) wbxml_list_get(n->attrs, i);
            unsigned long len = wbxml_buffer_len(a->value);
            const unsigned char *p = wbxml_buffer_get_cstr(a->value);
            o_str(" "); o_attrname(a->name); o_str(" ");
            if (len > 0) { if (p[len - 1] != 0) o_str("!"); o_hex(p, len - 1); } else o_hex(p, 0);
        }
        o_str(" "); o_num(n_children(n));
        for (c = n->children; c; c = c->next) { o_str(" "); o_node(c); }
        break; }
    case WBXML_TREE_TEXT_NODE:
        o_str("T "); o_hex(wbxml_buffer_get_cstr(n->content), wbxml_buffer_len(n->content)); break;
    case WBXML_TREE_CDATA_NODE:
        o_str("C "); o_num(n_children(n));
        for (c = n->children; c; c = c->next) { o_str(" "); o_node(c); }
        break;
    case WBXML_TREE_TREE_NODE:
        o_tree(n->tree); break;
    default: o_str("?"); break;
    }
}
static void o_tree(WBXMLTree *t) {
    o_str("R "); o_num(t && t->lang ? (unsigned long) t->lang->langID : 0); o_str(" "); o_num(t ? (unsigned long) t->orig_charset : 0);
    if (t && t->root) { o_str(" 1 "); o_node(t->root); if (t->root->next) o_str(" +SIBLING"); } else o_str(" 0");
}

static const char *errname(WBXMLError e) {
    static char other[32];
    switch ((int) e) {
    case WBXML_ERROR_END_OF_BUFFER: return "END_OF_BUFFER";
    case WBXML_ERROR_UNVALID_MBUINT32: return "UNVALID_MBUINT32";
    case WBXML_ERROR_INVALID_UNICODE: return "INVALID_UNICODE";
    case WBXML_ERROR_EMPTY_WBXML: return "EMPTY_WBXML";
    case WBXML_ERROR_CHARSET_NOT_FOUND: return "CHARSET_NOT_FOUND";
    case WBXML_ERROR_STRTBL_LENGTH: return "STRTBL_LENGTH";
    case WBXML_ERROR_UNKNOWN_PUBLIC_ID: return "UNKNOWN_PUBLIC_ID";
    case WBXML_ERROR_TAG_TABLE_UNDEFINED: return "TAG_TABLE_UNDEFINED";
    case WBXML_ERROR_ATTR_TABLE_UNDEFINED: return "ATTR_TABLE_UNDEFINED";
    case WBXML_ERROR_ATTR_VALUE_TABLE_UNDEFINED: return "ATTR_VALUE_TABLE_UNDEFINED";
    case WBXML_ERROR_EXT_VALUE_TABLE_UNDEFINED: return "EXT_VALUE_TABLE_UNDEFINED";
    case WBXML_ERROR_UNKNOWN_ATTR_VALUE: return "UNKNOWN_ATTR_VALUE";
    case WBXML_ERROR_UNKNOWN_EXTENSION_TOKEN: return "UNKNOWN_EXTENSION_TOKEN";
    case WBXML_ERROR_BAD_OPAQUE_LENGTH: return "BAD_OPAQUE_LENGTH";
    case WBXML_ERROR_NULL_STRING_TABLE: return "NULL_STRING_TABLE";
    case WBXML_ERROR_INVALID_STRTBL_INDEX: return "INVALID_STRTBL_INDEX";
    case WBXML_ERROR_CHARSET_STR_LEN: return "CHARSET_STR_LEN";
    case WBXML_ERROR_NO_CHARSET_CONV: return "NO_CHARSET_CONV";
    case WBXML_ERROR_B64_ENC: return "B64_ENC";
    case WBXML_ERROR_BAD_DATETIME: return "BAD_DATETIME";
    case WBXML_ERROR_WV_INTEGER_OVERFLOW: return "WV_INTEGER_OVERFLOW";
    case WBXML_ERROR_WV_DATETIME_FORMAT: return "WV_DATETIME_FORMAT";
    case WBXML_ERROR_INTERNAL: return "INTERNAL";
    case 55: return "NESTING_TOO_DEEP";
    default: sprintf(other, "OTHER%d", (int) e); return other;
    }
}

#define MAX_SEQ 16
int main(void) {
    char *line, *tok[2 + 3 * MAX_SEQ];
    WBXMLContentHandler h = { h_start_doc, h_end_doc, h_start_elt, h_end_elt, h_chars, h_pi };
    while ((line = vh_line(stdin)) != NULL) {
        int nt = vh_split(line, tok, 2 + 3 * MAX_SEQ);
        size_t n; unsigned char *d;
        long forced, meta;
        if (nt >= 2 && strcmp(tok[0], "r") == 0) {
            long k = strtol(tok[1], NULL, 10), i;
            WBXMLParser *p;
            if (k < 1 || k > MAX_SEQ || nt != 2 + 3 * k) { printf("bad\n"); continue; }
            p = wbxml_parser_create();
            wbxml_parser_set_content_handler(p, &h);
            for (i = 0; i < k; i++) {
                WBXMLError e;
                forced = strtol(tok[2 + 3 * i], NULL, 10); meta = strtol(tok[3 + 3 * i], NULL, 10);
                d = vh_unhex(tok[4 + 3 * i], &n);
                out_len = 0; if (out) out[0] = 0;
                wbxml_parser_set_language(p, (WBXMLLanguage) forced);             /* WBXML_LANG_UNKNOWN = 0 */
                wbxml_parser_set_meta_charset(p, (WBXMLCharsetMIBEnum) meta);     /* WBXML_CHARSET_UNKNOWN = 0 */
                e = wbxml_parser_parse(p, d, (WB_ULONG) n);
                if (i) printf(" || ");
                if (e == WBXML_OK) printf("ok %s", out ? out : "");
                else printf("err %s", errname(e));
                free(d);
            }
            printf("\n");
            wbxml_parser_destroy(p);
            continue;
        }
        if (nt < 4) { printf("bad\n"); continue; }
        forced = strtol(tok[1], NULL, 10); meta = strtol(tok[2], NULL, 10);
        d = vh_unhex(tok[3], &n);
        if (strcmp(tok[0], "p") == 0) {
            WBXMLParser *p = wbxml_parser_create();
            WBXMLError e;
            out_len = 0; if (out) out[0] = 0;
            wbxml_parser_set_content_handler(p, &h);
            if (forced) wbxml_parser_set_language(p, (WBXMLLanguage) forced);
            if (meta) wbxml_parser_set_meta_charset(p, (WBXMLCharsetMIBEnum) meta);
            e = wbxml_parser_parse(p, d, (WB_ULONG) n);
            if (e == WBXML_OK) printf("ok %s\n", out ? out : "");
            else printf("err %s\n", errname(e));
            wbxml_parser_destroy(p);
        }
        else if (strcmp(tok[0], "c") == 0) {
            WBXMLConvWBXML2XML *conv = NULL;
            WB_UTINY *xml = (WB_UTINY *) 0x1;   /* must be reset by the callee on error */
            WB_ULONG xml_len = 12345;
            WBXMLError e = wbxml_conv_wbxml2xml_create(&conv);
            if (e != WBXML_OK) { printf("fail create\n"); free(d); continue; }
            if (forced) wbxml_conv_wbxml2xml_set_language(conv, (WBXMLLanguage) forced);
            if (meta) wbxml_conv_wbxml2xml_set_charset(conv, (WBXMLCharsetMIBEnum) meta);
            wbxml_conv_wbxml2xml_set_gen_type(conv, WBXML_GEN_XML_COMPACT);
            e = wbxml_conv_wbxml2xml_run(conv, d, (WB_ULONG) n, &xml, &xml_len);
            if (e == WBXML_OK) {
                printf("ok ");
                if (xml == NULL || xml == (WB_UTINY *) 0x1) printf("NOOUTPUT");
                else { vh_puthex(stdout, xml, xml_len); if (xml[xml_len] != 0) printf(" UNTERMINATED"); }
                printf("\n");
                if (xml != NULL && xml != (WB_UTINY *) 0x1) wbxml_free(xml);
            } else {
                printf("err %s xml=%s len=%lu\n", errname(e), xml == NULL ? "null" : "nonnull", (unsigned long) xml_len);
            }
            wbxml_conv_wbxml2xml_destroy(conv);
        }
        else if (strcmp(tok[0], "t") == 0) {
            WBXMLTree *tree = NULL;
            WBXMLError e = wbxml_tree_from_wbxml(d, (WB_ULONG) n, (WBXMLLanguage) forced, (WBXMLCharsetMIBEnum) meta, &tree);
            out_len = 0; if (out) out[0] = 0;
            if (e == WBXML_OK) { o_tree(tree); printf("ok %s\n", out ? out : ""); wbxml_tree_destroy(tree); }
            else printf("err %s tree=%s\n", errname(e), tree == NULL ? "null" : "nonnull");
        }
        else if (strcmp(tok[0], "x") == 0) {
            /* XML text -> WBXML through the public API (used to turn the project's test corpus into WBXML) */
            WBXMLConvXML2WBXML *conv = NULL;
            WB_UTINY *wb = NULL; WB_ULONG wb_len = 0;
            WBXMLError e = wbxml_conv_xml2wbxml_create(&conv);
            if (e != WBXML_OK) { printf("fail create\n"); free(d); continue; }
            if (forced == 1) wbxml_conv_xml2wbxml_disable_string_table(conv);
            e = wbxml_conv_xml2wbxml_run(conv, d, (WB_ULONG) n, &wb, &wb_len);
            if (e == WBXML_OK) { printf("ok "); vh_puthex(stdout, wb, wb_len); printf("\n"); wbxml_free(wb); }
            else printf("err %s\n", errname(e));
            wbxml_conv_xml2wbxml_destroy(conv);
        }
        else printf("bad\n");
        free(d);
    }
    free(out);
    return 0;
}
