/* C12 correspondence harness, parser side.  The static decoding routines of wbxml_parser.c are
   reached by including the source file; whole documents go through the public conversion API.
   One answer line per input line.

     dint  <hex>                       decode_wv_integer
     ddt   <hex>                       decode_datetime
     dwvdt <hex>                       decode_wv_datetime
     db64  <hex>                       decode_base64_value
     doc   <langid> <page> <tok> <hex> decode_opaque_content with that language / current tag
     doa   <langid> <hex>              decode_opaque_attr_value
     pattr <langid> <page> <hex>       parse_attribute on the bytes (attrStart *attrValue END) in that attribute page
     w2x   <langid> <hex>              wbxml_conv_wbxml2xml_run (langid 0: not forced)  -> "ok <hex of xml>" | "err <code>"
     x2w   <hex>                       wbxml_conv_xml2wbxml_run  -> "ok <hex of wbxml>" | "err <code>"
     name  <langid> <page> <tok> 00    xmlName of that tag in the language's own table ("-" if none)
     aname <langid> <page> <tok> 00    xmlName of that attribute start
     w2w   <langid> <hex>              wbxml_tree_from_wbxml then wbxml_tree_to_wbxml (decode and re-encode through the tree)
*/
#include "vh.h"
#include "wbxml_parser.c"
#include "wbxml_conv.h"
#include "wbxml_tree.h"

static const char *errname(WBXMLError e) {
    static char tmp[32];
    switch (e) {
    case WBXML_ERROR_BAD_DATETIME: return "BAD_DATETIME";
    case WBXML_ERROR_INTERNAL: return "INTERNAL";
    case WBXML_ERROR_B64_ENC: return "B64_ENC";
    case WBXML_ERROR_B64_DEC: return "B64_DEC";
    case WBXML_ERROR_WV_DATETIME_FORMAT: return "WV_DATETIME_FORMAT";
    case WBXML_ERROR_WV_INTEGER_OVERFLOW: return "WV_INTEGER_OVERFLOW";
    default: sprintf(tmp, "E%d", (int) e); return tmp;
    }
}

static WBXMLBuffer *mkbuf(const unsigned char *d, size_t n) {
    /* a dynamic buffer, also for the empty string (wbxml_buffer_create gives data == NULL then) */
    return wbxml_buffer_create(d, (WB_ULONG) n, (WB_ULONG) n + 1);
}

static void answer(WBXMLError e, WBXMLBuffer *b) {
    if (e == WBXML_OK) { printf("ok "); vh_puthex(stdout, wbxml_buffer_get_cstr(b), wbxml_buffer_len(b)); printf("\n"); }
    else printf("err %s\n", errname(e));
}

int main(void) {
    char *line, *tok[8];
    while ((line = vh_line(stdin)) != NULL) {
        int nt = vh_split(line, tok, 8);
        size_t n = 0; unsigned char *d = NULL;
        if (nt < 2) { printf("bad\n"); continue; }
        d = vh_unhex(tok[nt - 1], &n);
        if (!strcmp(tok[0], "dint") || !strcmp(tok[0], "ddt") || !strcmp(tok[0], "dwvdt") || !strcmp(tok[0], "db64")) {
            WBXMLBuffer *b = mkbuf(d, n);
            WBXMLError e;
            if (!strcmp(tok[0], "dint")) e = decode_wv_integer(&b);
            else if (!strcmp(tok[0], "ddt")) e = decode_datetime(b);
            else if (!strcmp(tok[0], "dwvdt")) e = decode_wv_datetime(&b);
            else e = decode_base64_value(&b);
            answer(e, b);
            wbxml_buffer_destroy(b);
        }
        else if ((!strcmp(tok[0], "doc") && nt == 5) || (!strcmp(tok[0], "doa") && nt == 3)) {
            WBXMLParser *p = wbxml_parser_create();
            WBXMLTagEntry tag;
            WBXMLBuffer *b = mkbuf(d, n);
            WBXMLError e;
            p->langTable = wbxml_tables_get_table((WBXMLLanguage) atoi(tok[1]));
            if (p->langTable == NULL) printf("nolang\n");
            else {
                if (tok[0][2] == 'c') {
                    tag.xmlName = "x"; tag.wbxmlCodePage = (WB_UTINY) atoi(tok[2]); tag.wbxmlToken = (WB_UTINY) atoi(tok[3]); tag.options = 0;
                    p->current_tag = &tag;
                    e = decode_opaque_content(p, &b);
                } else e = decode_opaque_attr_value(p, &b);
                answer(e, b);
            }
            p->current_tag = NULL;
            wbxml_buffer_destroy(b);
            wbxml_parser_destroy(p);
        }
        else if (!strcmp(tok[0], "pattr") && nt == 4) {
            WBXMLParser *p = wbxml_parser_create();
            WBXMLAttribute *attr = NULL;
            WBXMLError e;
            p->langTable = wbxml_tables_get_table((WBXMLLanguage) atoi(tok[1]));
            p->attrCodePage = (WB_UTINY) atoi(tok[2]);
            p->wbxml = mkbuf(d, n);
            p->version = WBXML_VERSION_13;
            p->charset = WBXML_CHARSET_UTF_8;
            if (p->langTable == NULL) printf("nolang\n");
            else {
                e = parse_attribute(p, &attr);
                if (e == WBXML_OK) {
                    /* the value carries one NUL appended by parse_attribute when it is not empty */
                    WB_ULONG l = wbxml_buffer_len(attr->value);
                    printf("ok %s ", attr->name->type == WBXML_VALUE_TOKEN ? "tok" : "lit");
                    vh_puthex(stdout, wbxml_buffer_get_cstr(attr->value), l > 0 ? l - 1 : 0);
                    printf("\n");
                    wbxml_attribute_destroy(attr);
                } else printf("err %s\n", errname(e));
            }
            wbxml_parser_destroy(p);
        }
        else if (!strcmp(tok[0], "w2x") && nt == 3) {
            WBXMLConvWBXML2XML *conv = NULL;
            WB_UTINY *out = NULL; WB_ULONG outlen = 0;
            WBXMLError e = wbxml_conv_wbxml2xml_create(&conv);
            if (e == WBXML_OK) {
                wbxml_conv_wbxml2xml_set_gen_type(conv, WBXML_GEN_XML_COMPACT);
                if (atoi(tok[1]) != 0) wbxml_conv_wbxml2xml_set_language(conv, (WBXMLLanguage) atoi(tok[1]));
                e = wbxml_conv_wbxml2xml_run(conv, d, (WB_ULONG) n, &out, &outlen);
                if (e == WBXML_OK) { printf("ok "); vh_puthex(stdout, out, outlen); printf("\n"); }
                else printf("err %d\n", (int) e);
                wbxml_free(out);
                wbxml_conv_wbxml2xml_destroy(conv);
            } else printf("err %d\n", (int) e);
        }
        else if (!strcmp(tok[0], "x2w")) {
            WBXMLConvXML2WBXML *conv = NULL;
            WB_UTINY *out = NULL; WB_ULONG outlen = 0;
            WBXMLError e = wbxml_conv_xml2wbxml_create(&conv);
            if (e == WBXML_OK) {
                e = wbxml_conv_xml2wbxml_run(conv, d, (WB_ULONG) n, &out, &outlen);
                if (e == WBXML_OK) { printf("ok "); vh_puthex(stdout, out, outlen); printf("\n"); }
                else printf("err %d\n", (int) e);
                wbxml_free(out);
                wbxml_conv_xml2wbxml_destroy(conv);
            } else printf("err %d\n", (int) e);
        }
        else if ((!strcmp(tok[0], "name") || !strcmp(tok[0], "aname")) && nt == 5) {
            const WBXMLLangEntry *lt = wbxml_tables_get_table((WBXMLLanguage) atoi(tok[1]));
            int pg = atoi(tok[2]), tk = atoi(tok[3]), i, found = 0;
            if (lt == NULL) printf("nolang\n");
            else if (tok[0][0] == 'n') {
                for (i = 0; lt->tagTable && lt->tagTable[i].xmlName; i++)
                    if (lt->tagTable[i].wbxmlCodePage == pg && lt->tagTable[i].wbxmlToken == tk) {
                        printf("%s%s\n", lt->tagTable[i].xmlName, (lt->tagTable[i].options & WBXML_TAG_OPTION_BINARY) ? " BINARY" : ""); found = 1; break; }
                if (!found) printf("-\n");
            } else {
                for (i = 0; lt->attrTable && lt->attrTable[i].xmlName; i++)
                    if (lt->attrTable[i].wbxmlCodePage == pg && lt->attrTable[i].wbxmlToken == tk) {
                        printf("%s\n", lt->attrTable[i].xmlName); found = 1; break; }
                if (!found) printf("-\n");
            }
        }
        else if (!strcmp(tok[0], "w2w") && nt == 3) {
            WBXMLTree *tree = NULL;
            WB_UTINY *out = NULL; WB_ULONG outlen = 0;
            WBXMLGenWBXMLParams params;
            WBXMLError e = wbxml_tree_from_wbxml(d, (WB_ULONG) n, (WBXMLLanguage) atoi(tok[1]), WBXML_CHARSET_UNKNOWN, &tree);
            params.wbxml_version = WBXML_VERSION_13; params.keep_ignorable_ws = TRUE;
            params.use_strtbl = FALSE; params.produce_anonymous = FALSE;
            if (e == WBXML_OK) e = wbxml_tree_to_wbxml(tree, &out, &outlen, &params);
            if (e == WBXML_OK) { printf("ok "); vh_puthex(stdout, out, outlen); printf("\n"); }
            else printf("err %d\n", (int) e);
            wbxml_free(out);
            wbxml_tree_destroy(tree);
        }
        else printf("bad\n");
        free(d);
    }
    return 0;
}
