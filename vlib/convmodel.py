"""Correspondence of the concrete whole-conversion model (coq/Model/ConvConcrete.v: parser + tree builder + XML
generator, extracted as driver C01c) with the C (harness/c01_harness.c, `w2x` lines) on the parser's document
streams x option tuples.  Used by props/C01/check.py:

    from vlib import convmodel
    r = convmodel.correspond(seed, quick)      # dict(evaluations, disagreements, soft, samples, distribution, ...)

Compared: status (OK / ERR; a different error CODE on both-refuse is soft), the reported length, the null-output
flag, the NUL after the document and the output bytes (dump=1)."""
import collections
import os
import re

from . import common, gen, convcases
from . import parser_gen as pg, parser_streams as ps


def _parse_model(a):
    if a is None or not a.startswith("st="):
        return None
    d = {}
    for kv in a.split(" "):
        k, _, v = kv.partition("=")
        d[k] = v
    for k in ("st", "len", "null_out", "nul"):
        d[k] = int(d[k])
    return d


def option_tuples(rng, forced_ok):
    """(lang, charset, gen, indent, keep)"""
    gen_ = rng.choice([0, 1, 2, 1])
    indent = rng.choice([0, 1, 2, 4, 7, 255]) if gen_ == 1 else rng.choice([0, 3])
    return (forced_ok if rng.chance(1, 6) else 0, rng.choice([0, 0, 0, 106, 3]), gen_, indent, rng.below(2))


def build_cases(seed, quick, harness_c04):
    T = pg.Tables(gen.gen_tables())
    cases = []
    corp, _, _ = ps.corpus_wbxml(harness_c04)
    for nm, bs in corp[:: 3 if quick else 1]:
        cases.append(ps.raw_case(bs, "corpus", forced=1901 if nm.startswith("ota/") else 0, root_end=len(bs)))
    cases += [ps.doc_case(x, "systematic") for x in pg.systematic_docs(T)][:: 3 if quick else 1]
    cases += [ps.doc_case(x, "grammar") for x in ps.grammar_docs(seed, T, 8 if quick else 80, stream=70)]
    cases += [ps.doc_case(x, "grammar-nonwf") for x in ps.grammar_docs(seed, T, 3 if quick else 30, stream=71, wf=False)]
    cases += ps.syncml_tree_docs(seed, T, 150 if quick else 1500)
    cases += ps.nested_cases(T, depths=(1, 10, 100))
    cases += ps.tolerance_cases(T)
    cases += ps.embedded_cases(seed, 3 if quick else 5)
    base = [c for c in cases if c["kind"] == "grammar"]  # (embedded cases carry no root_end: not used as bases)
    mal = ps.malformed_cases(seed, base, 2 if quick else 20, 150 if quick else 2000, T)
    cases += [c for c in mal if not c["kind"].startswith("field-")] + [c for c in mal if c["kind"].startswith("field-")][:: 40 if quick else 4]
    return T, cases


def correspond(seed, quick=True):
    h04 = common.build_harness("c04_harness")
    driver = _big_stack(common.build_driver("C01c"))
    T, cases = build_cases(seed, quick, h04)
    rng = common.Rng(seed, 72)
    lines, metas = [], []
    for c in cases:
        for _ in range(1 if quick else 2):
            lang, cs, g, ind, keep = option_tuples(rng, c["forced"] or 0)
            if ind > 7 and c["kind"] == "nested-100":
                ind = 7      # 100 levels x 255 blanks: MBs of output, slow in the extracted (list-based) model; 255 stays on all other kinds
            lang = c["forced"] or lang
            cs = c["meta"] or cs
            lines.append(convcases.w2x_line(c["bytes"], "run", lang, cs, g, ind, keep, dump=1))
            metas.append((c["kind"], lang, cs, g, ind, keep))
    charness = _c01_harness()
    ca, ccr = common.run_lines(charness, lines)
    ma, _ = common.run_lines(driver, lines)
    dis, soft, dist, okc = [], 0, collections.Counter(), 0
    bound_checked = bound_exceeded = 0
    bsc, nex = bound_selfcheck()
    if not bsc:
        dis.append({"line": "-", "c": None, "model": None, "why": "bound_N of convmodel.py differs from the Coq Examples"})
    for l, m, a, b in zip(lines, metas, ca, ma):
        dist["%s/gen%d" % (m[0], m[3])] += 1
        pa, pb = convcases.parse_answer(a), _parse_model(b)
        if pa is None or pb is None:
            dis.append({"line": l[:400], "c": a, "model": b, "why": "no answer"})
            continue
        if pa["st"] == 0:
            okc += 1
        if (pa["st"] == 0) != (pb["st"] == 0):
            dis.append({"line": l[:400], "c": (a or "")[:300], "model": (b or "")[:300], "why": "OK/ERR"})
        elif pa["st"] != 0:
            if pa["st"] != pb["st"]:
                soft += 1
            if pa["null_out"] != 1 or pa["len"] != 0 or pb["null_out"] != 1 or pb["len"] != 0:
                dis.append({"line": l[:400], "c": a[:300], "model": b[:300], "why": "error contract"})
        else:
            if pa["len"] != pb["len"] or pa.get("out") != pb.get("out") or pa["nul"] != 1 or pb["nul"] != 1:
                dis.append({"line": l[:400], "c": (a or "")[:600], "model": (b or "")[:600], "why": "output"})
            # the proved bound (C01c_output_size_N) on the C's output
            doclen = 0 if l.split(" ")[-1] == "-" else len(l.split(" ")[-1]) // 2
            bound_checked += 1
            bnd = min(bound_N(m[4], doclen), bound3_N(m[4], doclen))
            if pa["len"] > bnd:
                bound_exceeded += 1
                dis.append({"line": l[:400], "c": (a or "")[:200], "model": (b or "")[:200], "why": "output longer than the proved bound %d" % bnd})
    idx = list(range(0, len(lines), max(1, len(lines) // 8)))[:8]
    return {"evaluations": len(lines), "disagreements": dis, "soft": soft, "accepted_by_c": okc,
            "distribution": dict(dist), "crashes": ccr, "bound_checked": bound_checked, "bound_exceeded": bound_exceeded,
            "bound_examples_pinned": nex,
            "samples": [{"line": lines[i][:200], "c": (ca[i] or "")[:200], "model": (ma[i] or "")[:200]} for i in idx]}


def _c01_harness():
    """the C01 harness exactly as props/C01/check.py builds it (library variant with the allocation wrappers)"""
    return common.build_harness("c01_harness", tag="-vfmem", libs=("-lexpat", "-lpthread"))


def _big_stack(exe):
    """the extracted program is not tail recursive (list append on outputs of several MB): run it with a large
    system stack (the C side has its own limits; this only concerns the executable form of the model)"""
    sh = exe + ".bigstack.sh"
    txt = "#!/bin/sh\nulimit -s unlimited 2>/dev/null || ulimit -s 4000000 2>/dev/null || ulimit -s 1000000 2>/dev/null\nexec %s\n" % exe
    if not os.path.exists(sh) or open(sh).read() != txt:
        with open(sh, "w") as f:
            f.write(txt)
        os.chmod(sh, 0o755)
    return sh


# ---- the proved size bound (coq/Proofs/ConvConcreteProofs.v bound_N, theorem C01c_output_size_N) ----
KMAX, KNS, KHDR = 49, 64, 166        # C01c_ex_constants (Kmax, KnsT, Khdr of main_table)


def bound_N(indent, n):
    K = KMAX
    C = 2 * (255 * (indent % 256 + 1)) + 2 * K + KNS + 12
    phi = lambda x: 24 * (x * (2 * x + 2 * K + 122)) + C * (2 * x)
    return KHDR + phi(n) + phi(n * (2 * n + 2 * K + 122))


def bound3_N(indent, n):
    """the cubic bound (bound3_N, theorem C01c_output_size_cubic)"""
    K = KMAX
    C = 2 * (255 * (indent % 256 + 1)) + 2 * K + KNS + 12
    phi = lambda x: 24 * (x * (2 * x + 2 * K + 122)) + C * (2 * x)
    return KHDR + phi(n) + n * (2 * n + 2 * K + 122) * (24 * (2 * (5 * n + K + 121) + 2 * K + 122) + C * 2)


def bound_selfcheck():
    """the python expression is the Coq one: compared with every `Example … : bound_N main_table i n = v` and with the constants
    of C01c_ex_constants in Properties_C01_conv.v (values evaluated by vm_compute there)"""
    txt = open(os.path.join(common.COQ, "Properties", "Properties_C01_conv.v")).read()
    m = re.search(r"\(Kmax main_table, KnsT main_table, Khdr main_table\) = \((\d+), (\d+), (\d+)\)", txt)
    ex = re.findall(r"[^3]bound_N main_table (\d+) (\d+) = (\d+)\.", " " + txt)
    ex3 = re.findall(r"bound3_N main_table (\d+) (\d+) = (\d+)\.", txt)
    ok = bool(m) and (int(m.group(1)), int(m.group(2)), int(m.group(3))) == (KMAX, KNS, KHDR) and len(ex) >= 2 and len(ex3) >= 2
    return (ok and all(bound_N(int(i), int(n)) == int(v) for i, n, v in ex)
            and all(bound3_N(int(i), int(n)) == int(v) for i, n, v in ex3)), len(ex) + len(ex3)
