"""Correspondence of the concrete whole-conversion model (coq/Model/ConvConcrete.v: parser + tree builder + XML
generator, extracted as driver C01c) with the C (harness/c01_harness.c, `w2x` lines) on the parser's document
streams x option tuples.  Used by props/C01/check.py:

    from vlib import convmodel
    r = convmodel.correspond(seed, quick)      # dict(evaluations, disagreements, soft, samples, distribution, ...)

Compared: status (OK / ERR; a different error CODE on both-refuse is soft), the reported length, the null-output
flag, the NUL after the document and the output bytes (dump=1)."""
import collections
import os
import re

from . import common, gen, convcases
from . import parser_gen as pg, parser_streams as ps


def _parse_model(a):
    if a is None or not a.startswith("st="):
        return None
    d = {}
    for kv in a.split(" "):
        k, _, v = kv.partition("=")
        d[k] = v
    for k in ("st", "len", "null_out", "nul"):
        d[k] = int(d[k])
    return d


def option_tuples(rng, forced_ok):
    """(lang, charset, gen, indent, keep)"""
    gen_ = rng.choice([0, 1, 2, 1])
    indent = rng.choice([0, 1, 2, 4, 7, 255]) if gen_ == 1 else rng.choice([0, 3])
    return (forced_ok if rng.chance(1, 6) else 0, rng.choice([0, 0, 0, 106, 3]), gen_, indent, rng.below(2))


def build_cases(seed, quick, harness_c04):
    T = pg.Tables(gen.gen_tables())
    cases = []
    corp, _, _ = ps.corpus_wbxml(harness_c04)
    for nm, bs in corp[:: 3 if quick else 1]:
        cases.append(ps.raw_case(bs, "corpus", forced=1901 if nm.startswith("ota/") else 0, root_end=len(bs)))
    cases += [ps.doc_case(x, "systematic") for x in pg.systematic_docs(T)][:: 3 if quick else 1]
    cases += [ps.doc_case(x, "grammar") for x in ps.grammar_docs(seed, T, 8 if quick else 80, stream=70)]
    cases += [ps.doc_case(x, "grammar-nonwf") for x in ps.grammar_docs(seed, T, 3 if quick else 30, stream=71, wf=False)]
    cases += ps.syncml_tree_docs(seed, T, 150 if quick else 1500)
    cases += ps.nested_cases(T, depths=(1, 10, 100))
    cases += ps.tolerance_cases(T)
    cases += ps.embedded_cases(seed, 3 if quick else 5)
    base = [c for c in cases if c["kind"] == "grammar"]  # (embedded cases carry no root_end: not used as bases)
    mal = ps.malformed_cases(seed, base, 2 if quick else 20, 150 if quick else 2000, T)
    cases += [c for c in mal if not c["kind"].startswith("field-")] + [c for c in mal if c["kind"].startswith("field-")][:: 40 if quick else 4]
    return T, cases


def correspond(seed, quick=True):
    h04 = common.build_harness("c04_harness")
    driver = _big_stack(common.build_driver("C01c"))
    T, cases = build_cases(seed, quick, h04)
    rng = common.Rng(seed, 72)
    lines, metas = [], []
    for c in cases:
        for _ in range(1 if quick else 2):
            lang, cs, g, ind, keep = option_tuples(rng, c["forced"] or 0)
            if ind > 7 and c["kind"] == "nested-100":
                ind = 7      # 100 levels x 255 blanks: MBs of output, slow in the extracted (list-based) model; 255 stays on all other kinds
            lang = c["forced"] or lang
            cs = c["meta"] or cs
            lines.append(convcases.w2x_line(c["bytes"], "run", lang, cs, g, ind, keep, dump=1))
            metas.append((c["kind"], lang, cs, g, ind, keep))
    charness = _c01_harness()
    ca, ccr = common.run_lines(charness, lines)
    ma, _ = common.run_lines(driver, lines)
    dis, soft, dist, okc = [], 0, collections.Counter(), 0
    bound_checked = bound_exceeded = 0
    bsc, nex = bound_selfcheck()
    if not bsc:
        dis.append({"line": "-", "c": None, "model": None, "why": "bound_N of convmodel.py differs from the Coq Examples"})
    for l, m, a, b in zip(lines, metas, ca, ma):
        dist["%s/gen%d" % (m[0], m[3])] += 1
        pa, pb = convcases.parse_answer(a), _parse_model(b)
        if pa is None or pb is None:
            dis.append({"line": l[:400], "c": a, "model": b, "why": "no answer"})
            continue
        if pa["st"] == 0:
            okc += 1
        if (pa["st"] == 0) != (pb["st"] == 0):
            dis.append({"line": l[:400], "c": (a or "")[:300], "model": (b or "")[:300], "why": "OK/ERR"})
        elif pa["st"] != 0:
            if pa["st"] != pb["st"]:
                soft += 1
            if pa["null_out"] != 1 or pa["len"] != 0 or pb["null_out"] != 1 or pb["len"] != 0:
                dis.append({"line": l[:400], "c": a[:300], "model": b[:300], "why": "error contract"})
        else:
            if pa["len"] != pb["len"] or pa.get("out") != pb.get("out") or pa["nul"] != 1 or pb["nul"] != 1:
                dis.append({"line": l[:400], "c": (a or "")[:600], "model": (b or "")[:600], "why": "output"})
            # the proved bound (C01c_output_size_N) on the C's output
            doclen = 0 if l.split(" ")[-1] == "-" else len(l.split(" ")[-1]) // 2
            bound_checked += 1
            bnd = min(bound_N(m[4], doclen), bound3_N(m[4], doclen))
            if pa["len"] > bnd:
                bound_exceeded += 1
                dis.append({"line": l[:400], "c": (a or "")[:200], "model": (b or "")[:200], "why": "output longer than the proved bound %d" % bnd})
    idx = list(range(0, len(lines), max(1, len(lines) // 8)))[:8]
    return {"evaluations": len(lines), "disagreements": dis, "soft": soft, "accepted_by_c": okc,
            "distribution": dict(dist), "crashes": ccr, "bound_checked": bound_checked, "bound_exceeded": bound_exceeded,
            "bound_examples_pinned": nex,
            "samples": [{"line": lines[i][:200], "c": (ca[i] or "")[:200], "model": (ma[i] or "")[:200]} for i in idx]}


def _c01_harness():
    """the C01 harness exactly as props/C01/check.py builds it (library variant with the allocation wrappers)"""
    return common.build_harness("c01_harness", tag="-vfmem", libs=("-lexpat", "-lpthread"))


def _big_stack(exe):
    """the extracted program is not tail recursive (list append on outputs of several MB): run it with a large
    system stack (the C side has its own limits; this only concerns the executable form of the model)"""
    sh = exe + ".bigstack.sh"
    txt = "#!/bin/sh\nulimit -s unlimited 2>/dev/null || ulimit -s 4000000 2>/dev/null || ulimit -s 1000000 2>/dev/null\nexec %s\n" % exe
    if not os.path.exists(sh) or open(sh).read() != txt:
        with open(sh, "w") as f:
            f.write(txt)
        os.chmod(sh, 0o755)
    return sh


# ---- the proved size bound (coq/Proofs/ConvConcreteProofs.v bound_N, theorem C01c_output_size_N) ----
KMAX, KNS, KHDR = 49, 64, 166        # C01c_ex_constants (Kmax, KnsT, Khdr of main_table)


def bound_N(indent, n):
    K = KMAX
    C = 2 * (255 * (indent % 256 + 1)) + 2 * K + KNS + 12
    phi = lambda x: 24 * (x * (2 * x + 2 * K + 122)) + C * (2 * x)
    return KHDR + phi(n) + phi(n * (2 * n + 2 * K + 122))


def bound3_N(indent, n):
    """the cubic bound (bound3_N, theorem C01c_output_size_cubic)"""
    K = KMAX
    C = 2 * (255 * (indent % 256 + 1)) + 2 * K + KNS + 12
    phi = lambda x: 24 * (x * (2 * x + 2 * K + 122)) + C * (2 * x)
    return KHDR + phi(n) + n * (2 * n + 2 * K + 122) * (24 * (2 * (5 * n + K + 121) + 2 * K + 122) + C * 2)


def bound_selfcheck():
    """the python expression is the Coq one: compared with every `Example … : bound_N main_table i n = v` and with the constants
    of C01c_ex_constants in Properties_C01_conv.v (values evaluated by vm_compute there)"""
    txt = open(os.path.join(common.COQ, "Properties", "Properties_C01_conv.v")).read()
    m = re.search(r"\(Kmax main_table, KnsT main_table, Khdr main_table\) = \((\d+), (\d+), (\d+)\)", txt)
    ex = re.findall(r"[^3]bound_N main_table (\d+) (\d+) = (\d+)\.", " " + txt)
    ex3 = re.findall(r"bound3_N main_table (\d+) (\d+) = (\d+)\.", txt)
    ok = bool(m) and (int(m.group(1)), int(m.group(2)), int(m.group(3))) == (KMAX, KNS, KHDR) and len(ex) >= 2 and len(ex3) >= 2
    return (ok and all(bound_N(int(i), int(n)) == int(v) for i, n, v in ex)
            and all(bound3_N(int(i), int(n)) == int(v) for i, n, v in ex3)), len(ex) + len(ex3)


# ---------------------------------------------------------------------------------------------------------------
# C03: the two EXTRACTED conversion models back to back (xml2wbxml_events, then wbxml2xml_model), against the C's own
# xml -> wbxml -> xml, at both stages; then the second iteration (x -> w2) the same way
# ---------------------------------------------------------------------------------------------------------------

def roundtrip_sources(seed, quick):
    """the sources of props/C03/check.py: the project's XML corpus and documents synthesised from every language's tables"""
    import glob
    from . import c06_gen
    tj = gen.gen_tables()
    srcs = []
    files = sorted(glob.glob(os.path.join(common.REPO, "test", "tools", "**", "*.xml"), recursive=True))
    for f in files:
        srcs.append(("corpus:" + os.path.relpath(f, os.path.join(common.REPO, "test", "tools")), open(f, "rb").read()))
    docs = c06_gen.documents(tj, common.Rng(seed, 3), quick, token_root=True)
    if quick:
        docs = [d for i, d in enumerate(docs) if d[1] != "tags" or i % 2 == seed % 2]
    srcs += [("%s:%d" % (k, l), x) for l, k, x, _ in docs]
    return srcs


def _x2w_both(items):
    """items = [(xml bytes, (version, keep_ws, use_strtbl, anonymous))] -> [(c answer "W …", model answer "W …")] ; Expat's events for
    the model come from the logging parser of harness/c02c_harness.c (xmlfront_log.h); nested documents are answered by
    harness/xmlfront_harness.c as in xmlfront.correspond_conv"""
    from . import xmlfront as xf
    H = common.build_harness("c02c_harness")
    HT = common.build_harness("xmlfront_harness")
    D = common.build_driver("C02c")
    lines = ["%s %d %d %d %d" % ((d.hex() if d else "-",) + t) for d, t in items]
    ans, crashes = common.run_lines(H, lines)
    parsed = [xf.split_answer(a) for a in ans]
    pending = [i for i, p in enumerate(parsed) if p is not None]
    subs = {i: {} for i in pending}
    results, tree_answer = {}, {}
    for _ in range(xf.MAX_ROUNDS):
        if not pending:
            break
        ml = []
        for i in pending:
            ev, st, _w = parsed[i]
            sb = subs[i]
            ml.append("%s %s %d %d %d %d %d%s %s" % ((lines[i].split(" ")[0], st) + items[i][1]
                                                    + (len(sb), "".join(" %s %s" % (h, a) for h, a in sb.items()), ev)))
        mo, _ = common.run_lines(D, ml)
        need, nxt = {}, []
        for i, o in zip(pending, mo):
            if o is not None and o.startswith("NEED "):
                need.setdefault(o[5:], []).append(i)
                nxt.append(i)
            else:
                results[i] = o if o is not None else "bad driver-crash"
        unknown = [h for h in need if h not in tree_answer]
        if unknown:
            a2, _ = common.run_lines(HT, unknown)
            for h, a in zip(unknown, a2):
                p = xf.split_answer(a)
                tree_answer[h] = p[2] if p is not None else "T ERR 0"
        for h, idxs in need.items():
            for i in idxs:
                subs[i][h] = xf.sub_answer(tree_answer[h])
        pending = nxt
    out = []
    for i, p in enumerate(parsed):
        out.append((None, None) if p is None else (p[2], results.get(i, "bad no-answer")))
    return out, crashes


def _w_of(ans):
    return bytes.fromhex(ans[5:]) if ans and ans.startswith("W OK ") and not ans.startswith("W OK !") else None


def _w2x_both(items):
    """items = [(wbxml for the C, wbxml for the model, lang, keep)] -> [(c parsed answer, model parsed answer)] (compact XML)"""
    ch = _c01_harness()
    drv = _big_stack(common.build_driver("C01c"))
    cl = [convcases.w2x_line(wc, "run", L, 0, 0, 0, k, dump=1) for wc, wm, L, k in items]
    ml = [convcases.w2x_line(wm, "run", L, 0, 0, 0, k, dump=1) for wc, wm, L, k in items]
    ca, ccr = common.run_lines(ch, cl)
    ma, _ = common.run_lines(drv, ml)
    return [(convcases.parse_answer(a), _parse_model(b)) for a, b in zip(ca, ma)], ccr


def roundtrip(seed, quick=True, sources=None):
    """XML -> WBXML -> XML (and the second iteration XML -> WBXML) through the two extracted conversion models, compared with the
    C's own conversions at every stage: status (OK / ERR, error codes soft) and output bytes.
    Returns dict(evaluations, disagreements, stages, second_iteration_xml_identical / _differs (the model's X2 against its X1: C03's
    clause, judged by props/C03; reported here as an observation), second_wbxml_equals_first, crashes, samples)."""
    rng = common.Rng(seed, 73)
    srcs = sources if sources is not None else roundtrip_sources(seed, quick)
    srcs = [(n, x) for n, x in srcs if len(x) <= (20000 if quick else 120000)]
    opts = [(3, 1, 0), (3, 0, 0), (3, 1, 1), (3, 0, 1)] + [(v, st, kw) for v in (0, 1, 2) for st in (0, 1) for kw in (0, 1)]   # (version, strtbl, keep)
    cases = []
    for n, x in srcs:
        for o in ([rng.choice(opts[:4]), rng.choice(opts)] if quick else opts[:4] + [rng.choice(opts[4:]) for _ in range(2)]):
            cases.append((n, x, o))
    force = lambda n: 1901 if n.startswith("corpus:ota/") else 0
    dis, crashes, stages = [], [], collections.Counter()
    evaluations = 0

    def x2w_stage(tag, idx, docs):
        nonlocal evaluations
        r, cr = _x2w_both([(docs[i], (cases[i][2][0], cases[i][2][2], cases[i][2][1], 0)) for i in idx])
        crashes.extend(cr)
        good = {}
        for i, (c, m) in zip(idx, r):
            evaluations += 1
            stages[tag] += 1
            if c is None or m is None:
                dis.append({"stage": tag, "source": cases[i][0], "options": cases[i][2], "why": "no answer", "c": c, "model": m})
                continue
            wc, wm = _w_of(c), _w_of(m)
            if wc is None and wm is None and c.startswith("W ERR") and m.startswith("W ERR") and "!" not in c:
                continue                                          # both refuse (codes soft)
            if wc is None or wm is None or wc != wm:
                dis.append({"stage": tag, "source": cases[i][0], "options": cases[i][2], "why": "WBXML differs" if wc and wm else "OK/ERR",
                            "doc_hex": docs[i].hex()[:3000], "c": c[:600], "model": m[:600]})
            if wc is not None and wm is not None:
                good[i] = (wc, wm)
        return good

    def w2x_stage(tag, ws):
        nonlocal evaluations
        idx = list(ws)
        r, cr = _w2x_both([(ws[i][0], ws[i][1], force(cases[i][0]), cases[i][2][2]) for i in idx])
        crashes.extend(cr)
        good = {}
        for i, (pc, pm) in zip(idx, r):
            evaluations += 1
            stages[tag] += 1
            if pc is None or pm is None:
                dis.append({"stage": tag, "source": cases[i][0], "options": cases[i][2], "why": "no answer"})
                continue
            if (pc["st"] == 0) != (pm["st"] == 0):
                dis.append({"stage": tag, "source": cases[i][0], "options": cases[i][2], "why": "OK/ERR", "c": pc["st"], "model": pm["st"],
                            "wbxml": ws[i][0].hex()[:2000]})
            elif pc["st"] == 0:
                if pc.get("out") != pm.get("out") or pc["len"] != pm["len"]:
                    dis.append({"stage": tag, "source": cases[i][0], "options": cases[i][2], "why": "XML differs", "wbxml": ws[i][0].hex()[:2000],
                                "c": (pc.get("out") or "")[:600], "model": (pm.get("out") or "")[:600]})
                if pc.get("out") not in (None, "-") and pm.get("out") not in (None, "-"):
                    good[i] = (bytes.fromhex(pc["out"]), bytes.fromhex(pm["out"]))
        return good

    docs0 = {i: c[1] for i, c in enumerate(cases)}
    W1 = x2w_stage("xml->wbxml", list(range(len(cases))), docs0)
    X1 = w2x_stage("wbxml->xml", W1)
    # second iteration: the model is fed ITS OWN XML (events logged by Expat for it), the C its own
    same = {i: x for i, x in X1.items() if x[0] == x[1]}
    W2 = x2w_stage("xml->wbxml (2nd)", list(same), {i: same[i][1] for i in same})
    X2 = w2x_stage("wbxml->xml (2nd)", W2)
    ident = sum(1 for i in X2 if X2[i][1] == X1[i][1])
    differs = [{"source": cases[i][0], "options": cases[i][2]} for i in X2 if X2[i][1] != X1[i][1]]
    w_same = sum(1 for i in W2 if W2[i][1] == W1[i][1])
    # observation (C only): INDENTED generation, two trips, with the same keep_ws both ways: with keep_ws off the second XML is
    # the first (C03_roundtrip_and_idempotence_indent_partial); with keep_ws on the indentation is kept as content and x grows
    # (C03_ex_indent_keep_ws_grows)
    ind = {"keep0_identical": 0, "keep0_differs": 0, "keep1_identical": 0, "keep1_differs": 0}
    ch = _c01_harness()
    sample = [(n, x) for n, x in srcs if len(x) < 4000][:: max(1, len(srcs) // 40)]

    def c_chain(xml, keep):
        a, _ = common.run_lines(ch, [convcases.x2w_line(xml, version=3, strtbl=0, keep=keep, dump=1)])
        p = convcases.parse_answer(a[0])
        if p is None or p["st"] != 0 or p.get("out", "-") == "-":
            return None
        a, _ = common.run_lines(ch, [convcases.w2x_line(bytes.fromhex(p["out"]), lang=0, gen=1, indent=2, keep=keep, dump=1)])
        p = convcases.parse_answer(a[0])
        return bytes.fromhex(p["out"]) if p is not None and p["st"] == 0 and p.get("out", "-") != "-" else None
    for n, x in sample:
        for keep in (0, 1):
            x1 = c_chain(x, keep)
            x2 = c_chain(x1, keep) if x1 is not None else None
            if x1 is not None and x2 is not None:
                ind["keep%d_%s" % (keep, "identical" if x2 == x1 else "differs")] += 1
    k = list(X1)[:: max(1, len(X1) // 6)][:6]
    return {"evaluations": evaluations, "disagreements": dis, "stages": dict(stages), "cases": len(cases), "sources": len(srcs),
            "indent_second_iteration_observation": ind,
            "second_iteration_xml_identical": ident, "second_iteration_xml_differs": len(differs), "second_iteration_differs_samples": differs[:5],
            "second_wbxml_equals_first": w_same, "second_wbxml_differs_from_first": len(W2) - w_same,
            "crashes": crashes,
            "samples": [{"source": cases[i][0], "options": cases[i][2], "wbxml": W1[i][1].hex()[:120], "xml": X1[i][1][:160].decode("latin-1")} for i in k]}
