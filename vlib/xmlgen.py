"""WBXML document synthesis for the XML-generation properties (C05, XML half of C07).

Documents are drawn from an abstract syntax over the regenerated tables (gen.tables_json()) and serialised
to WBXML bytes here (the serialiser is test-input machinery, not a model of the library).

  Elem(tag, attrs, content)
     tag      ('t', [name, page, tok, opts])  |  ('l', name_bytes)
     attrs    list of (astart, parts)   astart = ('t', [name, value_prefix, page, tok]) | ('l', name_bytes)
                                        parts  = list of ('s', bytes) | ('r', bytes) | ('e', code) | ('v', [name, page, tok])
     content  list of Elem | ('s', bytes) STR_I | ('r', bytes) STR_T | ('e', code) ENTITY | ('o', bytes) OPAQUE
"""


def mb(v):
    out = [v & 0x7F]
    v >>= 7
    while v:
        out.insert(0, 0x80 | (v & 0x7F))
        v >>= 7
    return bytes(out)


class Elem:
    def __init__(self, tag, attrs=None, content=None):
        self.tag, self.attrs, self.content = tag, attrs or [], content or []


class Ser:
    """serialiser with code-page state and a string table"""

    def __init__(self):
        self.tp, self.ap = 0, 0
        self.strtbl = bytearray()
        self.idx = {}

    def ref(self, s):
        if s not in self.idx:
            self.idx[s] = len(self.strtbl)
            self.strtbl += s + b"\0"
        return self.idx[s]

    def item(self, it, out):
        k = it[0]
        if k == 's':
            out += b"\x03" + it[1] + b"\0"
        elif k == 'r':
            out += b"\x83" + mb(self.ref(it[1]))
        elif k == 'e':
            out += b"\x02" + mb(it[1])
        elif k == 'o':
            out += b"\xc3" + mb(len(it[1])) + it[1]
        elif k == 'v':
            _, page, tok = it[1]
            if page != self.ap:
                out += bytes([0, page]); self.ap = page
            out.append(tok)
        elif k == 'raw':
            out += it[1]

    def elem(self, e, out):
        hc = 0x40 if e.content else 0
        ha = 0x80 if e.attrs else 0
        if e.tag[0] == 't':
            _, page, tok, _ = e.tag[1]
            if page != self.tp:
                out += bytes([0, page]); self.tp = page
            out.append(tok | hc | ha)
        else:
            out.append(0x04 | hc | ha)
            out += mb(self.ref(e.tag[1]))
        if e.attrs:
            for astart, parts in e.attrs:
                if astart[0] == 't':
                    _, _, page, tok = astart[1]
                    if page != self.ap:
                        out += bytes([0, page]); self.ap = page
                    out.append(tok)
                else:
                    out.append(0x04)
                    out += mb(self.ref(astart[1]))
                for p in parts:
                    self.item(p, out)
            out.append(1)
        if e.content:
            for c in e.content:
                if isinstance(c, Elem):
                    self.elem(c, out)
                else:
                    self.item(c, out)
            out.append(1)


def serialize(lang, root, version=3, pubid_mode="num", charset=106):
    """lang: a tables.json language entry.  pubid_mode: 'num' (public id token), 'str' (string-table public id),
    'unknown' (0x01: the caller must force the language)."""
    s = Ser()
    body = bytearray()
    pub = None
    if pubid_mode == "str" and lang["pub_text"]:
        pub = s.ref(lang["pub_text"].encode())
    s.elem(root, body)
    if version == 0 and len(s.strtbl) > 0:
        version = 1          # the parser refuses a string table in a WBXML 1.0 document
    out = bytearray([version])
    if pub is not None:
        out += b"\0" + mb(pub)
    elif pubid_mode == "unknown":
        out += mb(1)
    else:
        out += mb(lang["pub_num"])
    out += mb(charset)
    out += mb(len(s.strtbl)) + s.strtbl
    return bytes(out + body)


# ---------------------------------------------------------------------------------------------------------
# text pools
# ---------------------------------------------------------------------------------------------------------

TEXTS_OK = [b"x", b"hello", b"a b", b"<", b">", b"&", b'"', b"'", b"]]>", b"a]]>b", b"]]", b"]>", b"\r", b"\n", b"\t",
            b"\r\n", b"a\rb", b"a\nb", b"a\tb", b" lead", b"trail ", b"  ", b" ", b"\n  ", b"\xc3\xa9", b"\xe2\x82\xac",
            b"\xf0\x9d\x84\x9e", b"a&b<c>d\"e'f", b"&amp;", b"&#10;", b"&lt;tag&gt;", b"<![CDATA[", b"<!-- c -->", b"<?pi?>",
            b"1 < 2 && 3 > 2", b"BEGIN:VCARD\r\nVERSION:2.1\r\nN:Doe;John\r\nEND:VCARD\r\n", b"\xef\xbf\xbd", b"=", b"/>",
            b"tab\there", b"  two  words  ", b"\x0b", b"\x0c x", b"a\xc2\xa0b",
            # every continuation octet 0x80..0xBF after two lead octets (a table indexed by `octet & 0x7f` aliases them onto the
            # ASCII markup characters), and one character per lead-octet class
            # runs of more than two "]" before ">" (a generator that escapes ">" only after exactly "]]"), and the pieces
            # that adjacent text items join into such runs
            b"]]]>", b"m[a[b[0]]]>1", b"]]]]>>", b"]", b"]]]",
            "Par. \u00a77: 5\u00a2 for \u00bc or \u00be \u00a6 caf\u00e9".encode("utf-8"),
            "".join(chr(c) for c in range(0xA0, 0x100)).encode("utf-8"),
            "\u0100\u02b0\u03a9\u0416\u07ff\u0800\u4e00\ud7a3\ue000\U00010000\U0010fffd".encode("utf-8")]
TEXTS_BAD = [b"\x01", b"a\x08b", b"\xff", b"\xc3", b"\xed\xa0\x80", b"\xef\xbf\xbe", b"a\x1fb", b"\x7f"]   # not XML characters / not UTF-8 (0x7f is one)
NAMES_OK = [b"x", b"foo", b"a-b", b"a.b", b"_u", b"ns:el", b"X1", b"\xc3\xa9l"]
NAMES_BAD = [b"1a", b"a b", b"a<b", b"-x", b"a\"b", b"a=b", b"a>", b"a&b", b""]
ENTITIES = [38, 60, 62, 34, 39, 65, 160, 0x20AC, 0x1D11E, 9, 10, 13, 0x7FF, 0x800, 0xFFFD]


def rows_of(T, lang, kind):
    i = lang[kind]
    return T["tables"][str(i)]["rows"] if i >= 0 else []


class Gen:
    def __init__(self, T, rng):
        self.T, self.rng = T, rng

    def text(self, allow_bad=True):
        r = self.rng
        if allow_bad and r.chance(1, 25):
            return r.choice(TEXTS_BAD)
        if r.chance(1, 6):
            return b"".join(r.choice(TEXTS_OK) for _ in range(r.range(2, 4)))
        return r.choice(TEXTS_OK)

    def content_item(self, allow_bad=True):
        r = self.rng
        k = r.below(12)
        if k < 7:
            return ('s', self.text(allow_bad))
        if k < 9:
            return ('r', self.text(allow_bad))
        if k < 11:
            return ('e', r.choice(ENTITIES))
        return ('s', b"")

    def attr_list(self, lang):
        r = self.rng
        arows = rows_of(self.T, lang, "attrs")
        vrows = rows_of(self.T, lang, "vals")
        n = r.choice([0, 0, 0, 1, 1, 2, 3])
        out, seen = [], set()
        for _ in range(n):
            if arows and r.chance(4, 5):
                a = r.choice(arows)
                nm = a[0]
                ast = ('t', a)
            else:
                nm = (r.choice(NAMES_OK) if r.chance(9, 10) else r.choice(NAMES_BAD))
                ast = ('l', nm)
                nm = nm.decode("utf-8", "replace")
            if nm in seen and not r.chance(1, 10):
                continue
            seen.add(nm)
            parts = []
            for _ in range(r.choice([0, 1, 1, 1, 2, 3])):
                k = r.below(10)
                if k < 5:
                    parts.append(('s', self.text()))
                elif k < 6:
                    parts.append(('r', self.text()))
                elif k < 8 and vrows:
                    parts.append(('v', r.choice(vrows)))
                else:
                    parts.append(('e', r.choice(ENTITIES)))
            out.append((ast, parts))
        return out

    def element(self, lang, depth, tags):
        r = self.rng
        if r.chance(1, 12):
            tag = ('l', r.choice(NAMES_OK) if r.chance(9, 10) else r.choice(NAMES_BAD))
        else:
            tag = ('t', r.choice(tags))
        e = Elem(tag)
        e.attrs = self.attr_list(lang)
        binary = tag[0] == 't' and (tag[1][3] & 1)
        if binary:
            k = r.below(8)
            if k >= 6:
                # several content items separated by an element: every one of them is binary content
                child = Elem(('t', r.choice(tags)))
                if child.tag[1][3] & 1:
                    child.content = [('o', b"x")]
                last = ('o', r.bytes(r.range(1, 6))) if k == 6 else ('o', r.choice([b"CD", b"hello", b" x "]))
                e.content = [('o', r.bytes(r.range(1, 6))), child, last]
                return e
            if k >= 4:
                e.content = [('o', r.choice([b"hello", b"AQID", b"a b", b"x"]))] if k == 4 else [('s', r.choice([b"hello", b"QUJD", b"x"]))]
                return e
            if k == 0:
                e.content = [('o', r.bytes(r.range(1, 20)))]
            elif k == 1:
                e.content = [('s', self.text())]
            elif k == 2:
                e.content = [('o', b"")] if r.chance(1, 2) else []
            else:
                e.content = [('o', r.bytes(r.range(1, 5))), ('o', r.bytes(r.range(1, 5)))]
            return e
        n = r.choice([0, 1, 1, 2, 2, 3, 4]) if depth < 5 else r.choice([0, 1])
        for _ in range(n):
            if depth < 5 and r.chance(1, 2):
                e.content.append(self.element(lang, depth + 1, tags))
            else:
                e.content.append(self.content_item())
        return e

    def random_doc(self, lang):
        tags = rows_of(self.T, lang, "tags")
        root = self.element(lang, 0, tags)
        if self.rng.chance(2, 3):
            for t in tags:
                if t[0] == lang["root"]:
                    root.tag = ('t', t)
                    if t[3] & 1:
                        root.content = [('s', b"x")]
                    break
        return root

    # -- sweeps: every tag row / every attribute start / every attribute value token of a language
    def sweep_docs(self, lang, per_doc=40):
        tags = rows_of(self.T, lang, "tags")
        arows = rows_of(self.T, lang, "attrs")
        vrows = rows_of(self.T, lang, "vals")
        docs = []
        rootrow = next((t for t in tags if t[0] == lang["root"]), tags[0])
        for i in range(0, len(tags), per_doc):
            root = Elem(('t', rootrow))
            for t in tags[i:i + per_doc]:
                c = Elem(('t', t))
                if t[3] & 1:
                    # binary-flagged: opaque bytes, and printable-only content (must still come out as base64)
                    k3 = len(root.content) % 3
                    c.content = ([('o', b"\x00\x01\xfe<&")] if k3 == 0 else [('s', b"hello")] if k3 == 1
                                 else [('o', b"\x01\x02"), Elem(('t', rootrow)), ('o', b"\x00\xff"), Elem(('t', rootrow)), ('s', b"CD")])
                else:
                    c.content = [('s', b"a<&>\"'b")] if (i & 1) else [Elem(('t', t))]
                root.content.append(c)
            docs.append(root)
        for i in range(0, len(arows), per_doc):
            root = Elem(('t', rootrow))
            for a in arows[i:i + per_doc]:
                parts = [('s', b"v&<\"'")]
                if vrows:
                    parts.append(('v', vrows[(i + len(root.content)) % len(vrows)]))
                root.content.append(Elem(('t', tags[(i + len(root.content)) % len(tags)]), [(('t', a), parts)]))
            docs.append(root)
        for i in range(0, len(vrows), per_doc):
            root = Elem(('t', rootrow))
            a = arows[i % len(arows)] if arows else None
            for v in vrows[i:i + per_doc]:
                root.content.append(Elem(('t', tags[i % len(tags)]), [((('t', a) if a else ('l', b"x")), [('v', v)])]))
            docs.append(root)
        return docs


# ---------------------------------------------------------------------------------------------------------
# SyncML shapes: the CDATA rule, <Type> rewrite, embedded DevInf documents
# ---------------------------------------------------------------------------------------------------------

def tagrow(T, lang, name, page=None):
    for t in rows_of(T, lang, "tags"):
        if t[0] == name and (page is None or t[1] == page):
            return t
    raise KeyError(name)


def syncml_doc(T, lang, cmd, mtype, data_items, meta_in_item=False, with_meta=True, extra_in_data=None):
    """<SyncML><SyncBody><cmd>[<Meta><Type>mtype</Type></Meta>]<Item>[<Meta>..]<Data>items</Data></Item></cmd></SyncBody></SyncML>"""
    E = lambda n, c=None, p=None: Elem(('t', tagrow(T, lang, n, p)), None, c)
    meta = E("Meta", [E("Type", [('s', mtype)], 1)], 0)
    data = E("Data", list(data_items), 0)
    if extra_in_data is not None:
        data.content.insert(extra_in_data[0], extra_in_data[1])
    item = E("Item", ([meta] if (with_meta and meta_in_item) else []) + [data], 0)
    c = E(cmd, ([meta] if (with_meta and not meta_in_item) else []) + [item], 0)
    return E("SyncML", [E("SyncBody", [c], 0)], 0)


CDATA_END_PAYLOADS = [b"x]]>]]>y", b"]]>]]>", b"]]>]]>]]>", b"x]]]>y", b"]]]>", b"x]]>]y", b"]]>]", b"]]]]>>", b"x]]]]>>y", b"]]>",
                      b"]]>x", b"x]]>", b"]]>x]]>", b"x]]>y]]>z", b"]]", b"]>", b">]]", b"]]>>", b"]]]]>", b"]]>]]", b"]]>]]>x]]>]]>",
                      b"]]>\n]]>", b"a]]>]]>b]]>]]>c"]


def syncml_shapes(T, rng):
    """list of (lang, root, tagstr)"""
    out = []
    langs = {l["id"]: l for l in T["langs"]}
    vcard = b"BEGIN:VCARD\r\nVERSION:2.1\r\nN:Doe;John\r\nEND:VCARD\r\n"
    for lid in (2001, 2101, 2201):
        L = langs[lid]
        for mtype in (b"text/x-vcard", b"text/x-vcalendar", b"text/clear", b"text/directory;profile=vCard", b"text/plain",
                      b"application/vnd.syncml-devinf+xml"):
            for cmd in ("Add", "Replace", "Put", "Results"):
                for items in ([('s', vcard)], [('s', b"a<b&c")], [('o', vcard)], [('s', b"x]]>y")], [('s', b" "), ], [('s', b"")],
                              [('s', b"A"), ('s', b"B")], [('s', b"A"), ('e', 38), ('s', b"B")], [('o', b"A"), ('o', b"B")]):
                    if rng.chance(1, 3) or (mtype == b"text/x-vcard" and cmd == "Add"):
                        out.append((L, syncml_doc(T, L, cmd, mtype, items, meta_in_item=rng.chance(1, 2)), "syncml-data"))
        # CDATA end markers in the payload: consecutive / overlapping / at the start / at the end / split over two content items
        for pay in CDATA_END_PAYLOADS:
            out.append((L, syncml_doc(T, L, "Add", b"text/x-vcard", [('s', pay)], meta_in_item=rng.chance(1, 2)), "syncml-cdata-end"))
        for a, b in ((b"x]]", b">y"), (b"x]", b"]>y"), (b"]]>", b"]]>"), (b"x]]>", b"]]>y")):
            out.append((L, syncml_doc(T, L, "Replace", b"text/x-vcalendar", [('s', a), ('s', b)]), "syncml-cdata-end"))
        for _ in range(6):
            pay = b"".join(rng.choice([b"]", b"]]", b">", b"]]>", b"x", b"]]>]]>", b"]]]>"]) for _ in range(rng.range(2, 7)))
            out.append((L, syncml_doc(T, L, rng.choice(["Add", "Replace"]), b"", [('s', pay)], with_meta=False), "syncml-cdata-end"))
        # no Meta at all: the Add/Replace "vObject" hack
        for cmd in ("Add", "Replace", "Delete"):
            out.append((L, syncml_doc(T, L, cmd, b"", [('s', vcard)], with_meta=False), "syncml-nometa"))
            out.append((L, syncml_doc(T, L, cmd, b"", [('s', b"A"), ('s', b"B")], with_meta=False), "syncml-nometa"))
        # element inside a CDATA'd <Data>
        x = Elem(('t', tagrow(T, L, "Final")))
        out.append((L, syncml_doc(T, L, "Add", b"text/x-vcard", [('s', b"A"), ('s', b"B")], extra_in_data=(1, x)), "syncml-elt-in-cdata"))
        out.append((L, syncml_doc(T, L, "Add", b"text/x-vcard", [('s', b"A")], extra_in_data=(0, x)), "syncml-elt-in-cdata"))
        out.append((L, syncml_doc(T, L, "Add", b"text/x-vcard", [('s', b"A")], extra_in_data=(1, x)), "syncml-elt-in-cdata"))
        out.append((L, syncml_doc(T, L, "Replace", b"", [('s', b"A")], with_meta=False, extra_in_data=(1, x)), "syncml-elt-in-cdata"))
        # an EMPTY element of a foreign code page immediately followed by a sibling from that page (namespace scope)
        E1 = lambda n, c=None, p=None: Elem(('t', tagrow(T, L, n, p)), None, c)
        for first in ("Format", "Mark", "Size"):
            meta = E1("Meta", [E1(first, None, 1), E1("Type", [('s', b"t")], 1), E1("Anchor", [E1("Last", None, 1), E1("Next", [('s', b"1")], 1)], 1)], 0)
            out.append((L, E1("SyncML", [E1("SyncBody", [E1("Status", [meta, E1("Cmd", [('s', b"x")], 0)], 0)], 0)], 0), "syncml-ns-scope"))
        # <Type> rewrite + embedded DevInf / DM tree documents
        dev = {2001: 2002, 2101: 2102, 2201: 2202}[lid]
        DL = langs[dev]
        E = lambda n, c=None: Elem(('t', tagrow(T, DL, n)), None, c)
        devdoc = E("DevInf", [E("VerDTD", [('s', b"1.1")]), E("Man", [('s', b"a&b <c>")]), E("DevID", [('s', b" id ")]),
                              E("DataStore", [E("SourceRef", [('s', b"./x")]), E("SupportLargeObjs")])])
        dw = serialize(DL, devdoc)
        for cmd in ("Put", "Results"):
            out.append((L, syncml_doc(T, L, cmd, b"application/vnd.syncml-devinf+wbxml", [('o', dw)]), "syncml-devinf"))
            out.append((L, syncml_doc(T, L, cmd, b"application/vnd.syncml-devinf+wbxml", [('o', dw)], meta_in_item=True), "syncml-devinf"))
            out.append((L, syncml_doc(T, L, cmd, b"application/vnd.syncml-devinf+wbxml", [('o', b"garbage")]), "syncml-devinf-bad"))
            out.append((L, syncml_doc(T, L, cmd, b"application/vnd.syncml-devinf+wbxml", [('o', dw), ('s', b"tail")]), "syncml-devinf"))
        if lid == 2201:
            DD = langs[2204]
            E2 = lambda n, c=None: Elem(('t', tagrow(T, DD, n)), None, c)
            dd = E2("MgmtTree", [E2("VerDTD", [('s', b"1.2")]), E2("Node", [E2("NodeName", [('s', b"n<1>")]), E2("Value", [('s', b"v")])])])
            ddw = serialize(DD, dd, pubid_mode="str")
            out.append((L, syncml_doc(T, L, "Results", b"application/vnd.syncml.dmtnds+wbxml", [('o', ddw)]), "syncml-dmtnds"))
    return out


# ---------------------------------------------------------------------------------------------------------
# helpers offered to the C07 check (XML half): XML SOURCES that put raw CR / TAB / LF into the tree (a literal CR of an
# XML source is turned into LF by Expat, so they are written as character references), and the normalisation under which
# canonical generation equals compact generation (theorem c07_xml_compact_canonical_e, Proofs/EncXmlC07e.v)
# ---------------------------------------------------------------------------------------------------------

def c07_cr_sources():
    """list of (kind, language id, xml bytes)"""
    wml = (b'<?xml version="1.0"?><!DOCTYPE wml PUBLIC "-//WAPFORUM//DTD WML 1.3//EN" "http://www.wapforum.org/DTD/wml13.dtd">'
           b'<wml><card id="a&#13;&#10;b&#9;c&#10;d&#13;e" title="plain"><p>x&#13;y&#13;&#10;z&#13;</p><p>&#13;<b>bold&#13;</b>&#13;&#10;tail</p>'
           b'<p>only&#9;tab&#10;lf</p></card></wml>')
    syn = (b'<?xml version="1.0"?><!DOCTYPE SyncML PUBLIC "-//SYNCML//DTD SyncML 1.1//EN" "http://www.syncml.org/docs/syncml_represent_v11_20020213.dtd">'
           b'<SyncML><SyncBody><Add><CmdID>1&#13;</CmdID><Meta><Type xmlns="syncml:metinf">text/x-vcard</Type></Meta><Item>'
           b'<Data>BEGIN:VCARD&#13;&#10;N:Doe;John&#13;&#10;NOTE:lone&#13;cr&#13;&#10;END:VCARD&#13;&#10;</Data></Item></Add>'
           b'<Replace><CmdID>2</CmdID><Item><Data>a&#13;&#10;b]]&gt;c&#13;</Data></Item></Replace></SyncBody></SyncML>')
    si = (b'<?xml version="1.0"?><!DOCTYPE si PUBLIC "-//WAPFORUM//DTD SI 1.0//EN" "http://www.wapforum.org/DTD/si.dtd">'
          b'<si><indication href="x:a&#13;b" si-id="i&#9;d&#10;e">t&#13;&#10;x&#13;t</indication></si>')
    return [("raw-cr", 1104, wml), ("raw-cr", 2101, syn), ("raw-cr", 1301, si)]


def c07_eol_norm(info):
    """XML's own normalisation applied to a c07_lib.xml_infoset() root (name, attrs, kids) of a CANONICAL reading: line ends in
    text (CR LF / CR -> LF), attribute-value normalisation (then TAB / LF / CR -> space); compare the result with the compact
    keep-ws reading.  (Valid unless a text ending in CR is directly followed by a CDATA payload starting with LF — the tree
    builder never makes that.)"""
    name, attrs, kids = info

    def eol(s):
        return s.replace("\r\n", "\n").replace("\r", "\n")

    def av(s):
        return eol(s).replace("\n", " ").replace("\t", " ")
    attrs2 = tuple(av(a) if i % 2 else a for i, a in enumerate(attrs))
    return (name, attrs2, tuple(c07_eol_norm(k) if isinstance(k, (list, tuple)) and not isinstance(k, str) else eol(k) for k in kids))


def c07_cdata_sources():
    """XML SOURCES whose SyncML <Data> payload becomes a CDATA node on the WBXML -> XML side and contains the characters that
    are markup outside a CDATA section (& < > ]]> and an escaped entity text), with and without raw CR: list of
    (kind, language id, xml bytes)"""
    out = []
    head = {2001: b'<!DOCTYPE SyncML PUBLIC "-//SYNCML//DTD SyncML 1.0//EN" "http://www.syncml.org/docs/syncml_represent_v10_20001207.dtd">',
            2101: b'<!DOCTYPE SyncML PUBLIC "-//SYNCML//DTD SyncML 1.1//EN" "http://www.syncml.org/docs/syncml_represent_v11_20020213.dtd">',
            2201: b'<!DOCTYPE SyncML PUBLIC "-//SYNCML//DTD SyncML 1.2//EN" "http://www.openmobilealliance.org/tech/DTD/OMA-TS-SyncML_RepPro_DTD-V1_2.dtd">'}
    payloads = [b"a &amp; b", b"1 &lt; 2", b"x &gt; y", b"x]]&gt;y", b"]]&gt;]]&gt;", b"write &amp;amp;lt; to get &amp;lt; in HTML",
                b"&lt;tag attr=&quot;v&quot;&gt;&amp;amp;&lt;/tag&gt;", b"&amp;#10; and &amp;lt;",
                b"BEGIN:VCARD&#13;&#10;NOTE:a &amp; b &lt;c&gt;&#13;&#10;END:VCARD&#13;&#10;", b"lone&#13;cr &amp; ]]&gt; end&#13;"]
    for lid in (2001, 2101, 2201):
        for k, pay in enumerate(payloads):
            mtype = [b"text/x-vcard", b"text/clear", b"text/x-vcalendar"][k % 3]
            typed = (b'<Add><CmdID>1</CmdID><Meta><Type xmlns="syncml:metinf">' + mtype + b'</Type></Meta><Item><Data>' + pay + b'</Data></Item></Add>')
            untyped = b'<Replace><CmdID>2</CmdID><Item><Data>' + pay + b'</Data></Item></Replace>'
            body = typed if k % 2 == 0 else untyped
            out.append(("cdata-markup", lid, b'<?xml version="1.0"?>' + head[lid] + b'<SyncML><SyncBody>' + body + b'</SyncBody></SyncML>'))
    return out
