"""Translator for C15: coq/Gen/Structs.v from the *current* sources.

For WBXMLParser_s, WBXMLEncoder_s, WBXMLConvWBXML2XML_s, WBXMLConvXML2WBXML_s:
  * the ordered field-name list (clang JSON AST: RecordDecl / FieldDecl), and
  * for every field, the sorted list of functions that assign it (BinaryOperator '=',
    CompoundAssignOperator, UnaryOperator ++/-- whose operand is a MemberExpr referring to that
    FieldDecl) — "who writes what", so that a run function that starts caching something in a
    *setting* field, or a new writer of a run-state field, breaks a vm_compute obligation.

Source of truth: `clang -fsyntax-only -Xclang -ast-dump=json` on the whole translation unit (no regex),
include paths as in common.cflags.  Regenerated on every run; written only if the content changed.
"""
import json
import os
import subprocess

from . import common

STRUCTS = [
    # (struct tag, source file, Coq prefix)
    ("WBXMLParser_s", "wbxml_parser.c", "parser"),
    ("WBXMLEncoder_s", "wbxml_encoder.c", "encoder"),
    ("WBXMLConvWBXML2XML_s", "wbxml_conv.c", "conv_w2x"),
    ("WBXMLConvXML2WBXML_s", "wbxml_conv.c", "conv_x2w"),
]

_ast_cache = {}


def tu_ast(src_basename):
    """clang JSON AST of one translation unit of the current tree (cached per tree hash on disk)."""
    key = (common.repo_hash(), src_basename)
    if key in _ast_cache:
        return _ast_cache[key]
    d = common.build_lib("asan")          # gives us the generated config headers
    cache = os.path.join(d, "ast-%s.json" % src_basename)
    if not os.path.exists(cache):
        inc = ["-I" + common.REPO, "-I" + os.path.join(d, "inc"), "-I" + os.path.join(common.REPO, "src")]
        cmd = ["clang", "-fsyntax-only", "-w", "-DNDEBUG", "-Xclang", "-ast-dump=json"] + inc + \
              [os.path.join(common.REPO, "src", src_basename)]
        p = subprocess.run(cmd, stdout=subprocess.PIPE, stderr=subprocess.PIPE, timeout=300)
        if p.returncode != 0:
            raise common.BuildError("clang AST dump failed for %s:\n%s" % (src_basename, p.stderr.decode()[-2000:]))
        with open(cache + (".tmp%d" % os.getpid()), "wb") as f:
            f.write(p.stdout)
        os.rename(cache + (".tmp%d" % os.getpid()), cache)
    _ast_cache[key] = json.load(open(cache))
    return _ast_cache[key]


def walk(node):
    """pre-order walk over a clang JSON node"""
    stack = [node]
    while stack:
        n = stack.pop()
        if not isinstance(n, dict):
            continue
        yield n
        inner = n.get("inner")
        if inner:
            stack.extend(reversed(inner))


def functions(ast):
    """(name, FunctionDecl node) of every function that has a body, in source order"""
    out = []
    for n in ast.get("inner", []):
        if n.get("kind") == "FunctionDecl" and any(c.get("kind") == "CompoundStmt" for c in n.get("inner", [])):
            out.append((n["name"], n))
    return out


def _strip(e):
    while isinstance(e, dict) and e.get("kind") in ("ParenExpr", "ImplicitCastExpr", "CStyleCastExpr") and e.get("inner"):
        e = e["inner"][-1]
    return e


def struct_fields(ast, tag):
    for n in walk(ast):
        if n.get("kind") == "RecordDecl" and n.get("name") == tag and n.get("completeDefinition"):
            return [(c["name"], c["type"]["qualType"], c["id"]) for c in n.get("inner", []) if c.get("kind") == "FieldDecl"]
    raise common.BuildError("struct %s: no complete definition found in the AST" % tag)


def field_writers(ast, fields):
    ids = {fid: name for name, _, fid in fields}
    w = {name: set() for name, _, _ in fields}
    for fname, fn in functions(ast):
        for n in walk(fn):
            k = n.get("kind")
            tgt = None
            if k == "BinaryOperator" and n.get("opcode") == "=":
                tgt = _strip(n["inner"][0])
            elif k == "CompoundAssignOperator":
                tgt = _strip(n["inner"][0])
            elif k == "UnaryOperator" and n.get("opcode") in ("++", "--"):
                tgt = _strip(n["inner"][0])
            if tgt and tgt.get("kind") == "MemberExpr" and tgt.get("referencedMemberDecl") in ids:
                w[ids[tgt["referencedMemberDecl"]]].add(fname)
    return {k: sorted(v) for k, v in w.items()}


def writers_via_static(ast, writers):
    """like `writers`, but a field written by a STATIC helper counts as written by every function of the file that
    (transitively, through static helpers only) calls that helper: a reset function that delegates its assignments
    to a file-local helper still 'writes' those fields.  Public functions (setters) do not propagate."""
    fns = functions(ast)
    static = {name for name, fn in fns if fn.get("storageClass") == "static"}
    calls = {}
    for fname, fn in fns:
        cs = set()
        for n in walk(fn):
            if n.get("kind") == "CallExpr" and n.get("inner"):
                c = _strip(n["inner"][0])
                if isinstance(c, dict) and c.get("kind") == "DeclRefExpr":
                    nm = (c.get("referencedDecl") or {}).get("name")
                    if nm in static:
                        cs.add(nm)
        calls[fname] = cs
    reach = {f: set(cs) for f, cs in calls.items()}
    changed = True
    while changed:
        changed = False
        for f in reach:
            new = set(reach[f])
            for g in list(reach[f]):
                new |= reach.get(g, set())
            if new != reach[f]:
                reach[f] = new
                changed = True
    out = {}
    for field, ws in writers.items():
        acc = set(ws)
        for f, r in reach.items():
            if r & set(ws):
                acc.add(f)
        out[field] = sorted(acc)
    return out


def collect():
    res = {}
    for tag, src, pre in STRUCTS:
        ast = tu_ast(src)
        fs = struct_fields(ast, tag)
        w = field_writers(ast, fs)
        res[pre] = {"tag": tag, "file": src, "fields": [(n, t) for n, t, _ in fs], "writers": w, "writers_via_static": writers_via_static(ast, w)}
    return res


def q(s):
    return '"' + s.replace('"', '""') + '"'


def structs_v(res):
    out = ["(* GENERATED by vlib/gen_structs.py from the clang JSON AST of the current tree — do not edit.",
           "   source tree hash %s *)" % common.repo_hash(),
           "From Coq Require Import List String.", "Import ListNotations.", "Local Open Scope string_scope.", ""]
    for tag, src, pre in STRUCTS:
        r = res[pre]
        out.append("(* struct %s (src/%s) *)" % (tag, src))
        out.append("Definition %s_fields : list string := [\n  %s\n]." % (pre, ";\n  ".join(q(n) for n, _ in r["fields"])))
        out.append("Definition %s_field_types : list (string * string) := [\n  %s\n]." % (
            pre, ";\n  ".join("(%s, %s)" % (q(n), q(t)) for n, t in r["fields"])))
        out.append("(* field |-> functions of src/%s that assign it *)" % src)
        out.append("Definition %s_writers : list (string * list string) := [\n  %s\n]." % (
            pre, ";\n  ".join("(%s, [%s])" % (q(n), "; ".join(q(f) for f in r["writers"][n])) for n, _ in r["fields"])))
        out.append("(* the same, with assignments made by file-local (static) helpers attributed to their callers too *)")
        out.append("Definition %s_writers_via_static : list (string * list string) := [\n  %s\n]." % (
            pre, ";\n  ".join("(%s, [%s])" % (q(n), "; ".join(q(f) for f in r["writers_via_static"][n])) for n, _ in r["fields"])))
        out.append("")
    return "\n".join(out) + "\n"


def gen_structs():
    res = collect()
    txt = structs_v(res)
    p = os.path.join(common.COQ, "Gen", "Structs.v")
    old = open(p).read() if os.path.exists(p) else ""
    # the tree hash is in a comment only: content changes iff the structs / writers change
    if "\n".join(old.split("\n")[2:]) != "\n".join(txt.split("\n")[2:]):
        common.write_if_changed(p, txt)
    return res


if __name__ == "__main__":
    import pprint
    pprint.pprint(gen_structs())
