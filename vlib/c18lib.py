"""C18 helpers: vocabulary from the table dump, the operation-sequence generator with its own rose-tree
specification (the python oracle: independent of the Coq model), the dump parser / link checker and the
XML serialiser of a shape."""
import base64
import re

NAME_OK = re.compile(r"^[A-Za-z_][A-Za-z0-9_.-]*$")

SYNCML = (2001, 2101, 2201)
DEVINF_OF = {2001: 2002, 2101: 2102, 2201: 2202}


def hx(b):
    if isinstance(b, str):
        b = b.encode("utf-8")
    return b.hex() if b else "-"


def unhx(s):
    return b"" if s == "-" else bytes.fromhex(s)


# ----------------------------------------------------------------------------
# vocabulary
# ----------------------------------------------------------------------------

class Vocab:
    def __init__(self, tables):
        self.langs = {}
        for l in tables["langs"]:
            tb = tables["tables"]
            tags = tb[str(l["tags"])]["rows"] if l["tags"] >= 0 else []
            ns = tb[str(l["ns"])]["rows"] if l["ns"] >= 0 else []
            attrs = tb[str(l["attrs"])]["rows"] if l["attrs"] >= 0 else []
            nsof = {}
            for name, page in ns:
                nsof.setdefault(page, name)
            count = {}
            for r in tags:
                count[r[0]] = count.get(r[0], 0) + 1
            self.langs[l["id"]] = {"id": l["id"], "pub": l["pub_text"], "root": l["root"], "dtd": l["dtd"],
                                   "tags": tags, "ns": ns, "attrs": attrs, "nsof": nsof, "tagcount": count}

    def tables_file(self):
        out = []
        for lid, l in self.langs.items():
            out.append("lang %d" % lid)
            for r in l["tags"]:
                out.append("tag %s %d %d" % (hx(r[0]), r[1], r[2]))
            for r in l["ns"]:
                out.append("ns %s %d" % (hx(r[0]), r[1]))
            for r in l["attrs"]:
                out.append("attr %s %s %d %d" % (hx(r[0]), "null" if r[1] is None else hx(r[1]), r[2], r[3]))
        return "\n".join(out) + "\n"


# ----------------------------------------------------------------------------
# the specification in python: a rose forest
# ----------------------------------------------------------------------------

class SNode:
    __slots__ = ("kind", "name", "attrs", "text", "lang", "kids", "tagopts", "sub")

    def __init__(self, kind, name=None, text=None, lang=None, tagopts=0, sub=None):
        self.kind, self.name, self.text, self.lang = kind, name, text, lang
        self.attrs, self.kids, self.tagopts, self.sub = [], [], tagopts, sub


def preorder(roots):
    out = []

    def go(n, par):
        out.append((n, par))
        for k in n.kids:
            go(k, n)
    for r in roots:
        go(r, None)
    return out


def snoc_merge(parent, node):
    """the specification of wbxml_tree_add_node: append, joining a text node to a preceding text node"""
    if node.kind == "x" and parent.kids and parent.kids[-1].kind == "x":
        node.text = parent.kids[-1].text + node.text
        parent.kids[-1] = node
    else:
        parent.kids.append(node)


def shape_sig(n):
    """what the dump shows of a node, without links and without the token resolution"""
    if n.kind == "e":
        return ("e", n.name.split(b"|")[-1], tuple((k, v) for k, v in n.attrs), tuple(shape_sig(k) for k in n.kids))
    if n.kind == "x":
        return ("x", n.text, (), ())
    if n.kind == "c":
        return ("c", None, (), tuple(shape_sig(k) for k in n.kids))
    return ("r", n.lang, (), ())


# ----------------------------------------------------------------------------
# dump parsing and the link oracle
# ----------------------------------------------------------------------------

def parse_dump(d):
    """-> list of dict(kind, payload, parent, child, prev, next, dup) or None for empty"""
    if d == "empty":
        return []
    if d in ("OVERFLOW",) or d.startswith("STUCK"):
        return None
    out = []
    for ent in d.split(","):
        f = ent.split(":")
        if len(f) != 6:
            return None          # not a dump (truncated / overflow marker inside): judged as a broken graph
        dup = f[0].startswith("DUP")
        kind = f[0][3:] if dup else f[0]

        def r(x):
            return None if x == "-" else (-2 if x == "?" else int(x))
        if not all(x in ("-", "?") or x.isdigit() for x in f[2:]):
            return None
        out.append({"kind": kind, "payload": f[1], "parent": r(f[2]), "child": r(f[3]), "prev": r(f[4]), "next": r(f[5]),
                    "dup": dup})
    return out


def links_ok(nodes):
    """mutual consistency of parent / first child / prev / next over the whole dumped graph"""
    if nodes is None:
        return "graph walk did not terminate (cycle) or the dump is not well formed"
    n = len(nodes)
    for i, x in enumerate(nodes):
        if x["dup"]:
            return "node %d reached twice" % i
        for k in ("parent", "child", "prev", "next"):
            v = x[k]
            if v is not None and not (0 <= v < n):
                return "node %d: %s points outside the graph" % (i, k)
        c, nx, pv, pa = x["child"], x["next"], x["prev"], x["parent"]
        if c is not None and (nodes[c]["parent"] != i or nodes[c]["prev"] is not None):
            return "node %d: first child %d does not point back (parent %s prev %s)" % (i, c, nodes[c]["parent"], nodes[c]["prev"])
        if nx is not None and (nodes[nx]["prev"] != i or nodes[nx]["parent"] != pa):
            return "node %d: next %d has prev %s parent %s" % (i, nx, nodes[nx]["prev"], nodes[nx]["parent"])
        if pv is not None and nodes[pv]["next"] != i:
            return "node %d: prev %d has next %s" % (i, pv, nodes[pv]["next"])
        if pa is None:
            if pv is not None or nx is not None:
                return "root-level node %d has siblings" % i
        elif pv is None and nodes[pa]["child"] != i:
            return "node %d: first of its siblings but parent %d has children %s" % (i, pa, nodes[pa]["child"])
    return None


def build_forest(nodes):
    """dump -> list of root indices and children lists (follows child / next)"""
    kids = {}
    for i, x in enumerate(nodes):
        ch, c = [], x["child"]
        while c is not None and len(ch) <= len(nodes):
            ch.append(c)
            c = nodes[c]["next"]
        kids[i] = ch
    roots = [i for i, x in enumerate(nodes) if x["parent"] is None]
    return roots, kids


def dump_sig(nodes, i, kids):
    x = nodes[i]
    if x["kind"] == "e":
        parts = x["payload"].split("@")
        nm = parts[0]
        name = unhx(nm[1:]) if nm.startswith("l") else unhx(nm.split(".")[2])
        ats = []
        for a in parts[1:]:
            an, _, av = a.partition("=")
            aname = unhx(an[1:]) if an.startswith("l") else unhx(an.split(".")[2])
            ats.append((aname, unhx(av)))
        return ("e", name, tuple(ats), tuple(dump_sig(nodes, k, kids) for k in kids[i]))
    if x["kind"] == "x":
        return ("x", unhx(x["payload"]), (), ())
    if x["kind"] == "c":
        return ("c", None, (), tuple(dump_sig(nodes, k, kids) for k in kids[i]))
    if x["kind"] == "r":
        return ("r", int(x["payload"]), (), ())
    return (x["kind"], None, (), ())


def adjacent_text(nodes):
    """index of a text node whose next sibling is a text node, or None"""
    for i, x in enumerate(nodes):
        if x["kind"] == "x" and x["next"] is not None and nodes[x["next"]]["kind"] == "x":
            return i
    return None


# ----------------------------------------------------------------------------
# XML text of a shape (the tree part of a dump)
# ----------------------------------------------------------------------------

def esc_text(b):
    return b.replace(b"&", b"&amp;").replace(b"<", b"&lt;").replace(b">", b"&gt;")


def esc_attr(b):
    return esc_text(b).replace(b'"', b"&quot;")


def xml_of(lang, root):
    """root: SNode (element).  Every element carries an explicit default-namespace declaration."""
    out = [b'<?xml version="1.0"?>\n']
    if lang["pub"]:
        out.append(b'<!DOCTYPE %s PUBLIC "%s" "%s">\n' % (root.name.split(b"|")[-1], lang["pub"].encode(), (lang["dtd"] or "").encode()))

    def go(n, in_ns):
        if n.kind == "x":
            out.append(esc_text(n.text))
        elif n.kind == "c":
            out.append(b"<![CDATA[" + b"".join(k.text for k in n.kids) + b"]]>")
        elif n.kind == "r":
            # always start tag + end tag: the front end cuts the embedded document out of the input text
            # between the two events and cannot handle the empty-element form
            ns, _, local = n.sub.name.rpartition(b"|")
            out.append(b"<" + local + b' xmlns="' + ns + b'">' + b"".join(esc_text(k.text) for k in n.sub.kids) + b"</" + local + b">")
        else:
            ns, _, local = n.name.rpartition(b"|")
            out.append(b"<" + local)
            if ns or in_ns:
                out.append(b' xmlns="' + esc_attr(ns) + b'"')
            for k, v in n.attrs:
                out.append(b" " + k + b'="' + esc_attr(v) + b'"')
            if n.kids:
                out.append(b">")
                for k in n.kids:
                    go(k, bool(ns) or in_ns)
                out.append(b"</" + local + b">")
            else:
                out.append(b"/>")
    go(root, False)
    out.append(b"\n")
    return b"".join(out)


def fe_spec(root):
    """the document as the model of the XML front end takes it (elements, attributes, text items as one chunk each,
    cut in two when long enough: Expat may deliver a text in pieces); None when it contains CDATA / embedded documents"""
    out = []

    def go(n):
        if n.kind == "x":
            t = n.text
            out.append("x" + (hx(t[:len(t) // 2]) + "+" + hx(t[len(t) // 2:]) if len(t) >= 2 else hx(t)))
            return True
        if n.kind != "e":
            return False
        out.append("e" + hx(n.name))
        for k, v in n.attrs:
            out.append("a%s=%s" % (hx(k), hx(v)))
        out.append("(")
        for k in n.kids:
            if not go(k):
                return False
        out.append(")")
        return True
    return ".".join(out) if go(root) else None


# ----------------------------------------------------------------------------
# generator
# ----------------------------------------------------------------------------

TEXTS = [b"a", b"bb", b"hello", b" x ", b"1 < 2 & 3", b"tail ", b" lead", b"line\nbreak", b"  ", b"\n", b"42",
         b"caf\xc3\xa9", b"www.example.org", b"text/plain", b"abc def", b"]]", b"it's \"q\""]
LITERALS = [b"xyz", b"Unknown", b"custom-elt", b"q1"]
LIT_ATTRS = [b"zattr", b"data-k", b"foo"]
AVALS = [b"v", b"1", b"http://www.example.org/x", b"some value", b"a&b", b"", b"top"]


class Gen:
    def __init__(self, vocab, rng):
        self.v, self.rng = vocab, rng

    def elt_name(self, lang, row):
        ns = lang["nsof"].get(row[1])
        name = row[0].encode()
        if ns is not None and self.rng.chance(3, 4):
            return ns.encode() + b"|" + name
        return name

    def pick_tag(self, lang, unique=False):
        for _ in range(20):
            r = self.rng.choice(lang["tags"])
            if not NAME_OK.match(r[0]) or r[0] in ("DevInf", "MgmtTree"):
                continue     # not an XML name / unbound prefix / taken by the front end as an embedded document
            if unique and lang["tagcount"][r[0]] != 1:
                continue
            return r
        return None

    def sequence(self, langid, nops):
        """-> (line ops, per-op expectation records, final forest). The specification forest evolves here."""
        rng, lang = self.rng, self.v.langs[langid]
        tree, det = [], []          # tree: [] or [root]; det: detached roots
        ops, exp = [], []
        xmlcmp = True

        def forest():
            return preorder(tree + det)

        def idx_of(node, fo):
            for i, (n, _) in enumerate(fo):
                if n is node:
                    return i
            return -1

        def pick_parent(fo):
            cands = [(i, n) for i, (n, _) in enumerate(fo) if n.kind == "e" and not n.tagopts & 1]
            if not cands:
                return None
            # prefer recent / deep nodes a little, but any element anywhere (also in detached sub-trees)
            return rng.choice(cands[-6:]) if rng.chance(1, 2) else rng.choice(cands)

        def new_elt():
            """returns (op prefix fields after the parent, SNode)"""
            r = rng.below(10)
            if r < 6 and lang["tags"]:
                row = self.pick_tag(lang)
                if row is not None:
                    nm = self.elt_name(lang, row)
                    # the tag the library will resolve may differ from `row` when names repeat: only the name matters here
                    return ("E", [hx(nm)], SNode("e", nm, tagopts=self.opts_of(lang, nm)))
            if r < 8 and lang["tags"]:
                row = self.pick_tag(lang, unique=True)
                if row is not None:
                    k = lang["tags"].index(row)
                    ns = lang["nsof"].get(row[1])
                    nm = (ns.encode() + b"|" if ns is not None else b"") + row[0].encode()
                    return ("G", [str(k)], SNode("e", nm, tagopts=row[3]))
            nm = rng.choice(LITERALS)
            if rng.chance(1, 2):
                return ("L", [hx(nm)], SNode("e", nm))
            return ("E", [hx(nm)], SNode("e", nm))

        def attrs_for(node, n):
            out = []
            have = set(k for k, _ in node.attrs)
            for _ in range(n):
                if lang["attrs"] and rng.chance(2, 3):
                    row = rng.choice(lang["attrs"])
                    k = row[0].encode()
                    if not NAME_OK.match(row[0]) or row[0].startswith("xmlns"):
                        continue
                    v = (row[1].encode() if row[1] is not None else b"") + (rng.choice(AVALS) if rng.chance(1, 2) else b"")
                else:
                    k, v = rng.choice(LIT_ATTRS), rng.choice(AVALS)
                if k in have:
                    continue
                have.add(k)
                out.append((k, v))
            return out

        sigs = []

        def sync():
            while len(sigs) < len(exp):
                sigs.append(tuple(shape_sig(x) for x in tree + det))

        pend = []        # directed follow-ups of an add_tree: ("X", TREE node) / ("K", detached root)
        for _ in range(nops):
            sync()
            fo = forest()
            r = rng.below(100)
            done = False
            if pend:
                kind, target = pend.pop(0)
                if kind == "X":
                    # extract a node of the parent chain of the TREE node (the node itself, its parent, ... up to the root):
                    # the detached sub-tree then owns the nested tree
                    par = {id(n): p for n, p in fo}
                    chain, cur = [], target
                    while cur is not None and id(cur) in par and not any(cur is d for d in det):
                        chain.append(cur)
                        cur = par[id(cur)]
                    if chain:
                        n = rng.choice(chain)
                        p = par[id(n)]
                        ops.append("X,%d" % idx_of(n, fo))
                        if p is None:
                            tree.remove(n)
                        else:
                            del p.kids[idx_in(p.kids, n)]
                        det.append(n)
                        exp.append(("ok", None))
                        if rng.chance(1, 2):
                            pend.append(("K", n))          # destroyed by the caller before the tree; else left to the end
                        continue
                elif kind == "K" and any(target is d for d in det):
                    ops.append("K,%d" % idx_of(target, fo))
                    det.remove(target)
                    exp.append(("ok", None))
                    continue
            if not tree and (r < 70 or not det):
                # root element: the language's own root (so that the XML front end finds the language) most of the time
                if lang["root"] and NAME_OK.match(lang["root"]) and rng.chance(5, 6):
                    rows = [t for t in lang["tags"] if t[0] == lang["root"]]
                    nm = self.elt_name(lang, rows[0]) if rows else lang["root"].encode()
                else:
                    _, f, nd = new_elt()
                    nm = nd.name
                nd = SNode("e", nm, tagopts=self.opts_of(lang, nm))
                ops.append("E,-1," + hx(nm))
                tree.append(nd)
                exp.append(("ok", None))
                continue
            if tree and rng.chance(1, 14):
                # an operation the library refuses: a second root (parent NULL on a rooted tree) or tree == NULL.
                # Nothing changes; the caller keeps (and the harness destroys) what it offered.
                pp = pick_parent(fo)
                pi = pp[0] if (pp and rng.chance(1, 2)) else -1
                z = rng.chance(1, 2)
                par = pi if z else -1          # with a tree, the refusal needs the NULL parent
                k = rng.below(6)
                if k == 0 and lang["tags"]:
                    row = self.pick_tag(lang, unique=True)
                    if row is None:
                        continue
                    ops.append("%sG,%d,%d" % ("Z" if z else "", par, lang["tags"].index(row)))
                elif k == 1:
                    ops.append("%sL,%d,%s" % ("Z" if z else "", par, hx(rng.choice(LITERALS))))
                elif k == 2:
                    ops.append("%sT,%d,%s" % ("Z" if z else "", par, hx(rng.choice(TEXTS))))
                elif k == 3:
                    ops.append("%sC,%d" % ("Z" if z else "", par))
                elif k == 4 and not z:
                    ops.append("E,-1,%s" % hx(rng.choice(LITERALS)))
                else:
                    sub_lang = DEVINF_OF.get(langid, 2202)
                    ops.append("%sR,%d,%d,%s,%s" % ("Z" if z else "", par, sub_lang, hx(b"syncml:devinf|DevInf"), hx(rng.choice([b"", b"1.2"]))))
                exp.append(("fail", None))
                continue
            if r < 40:
                pp = pick_parent(fo)
                if pp is None:
                    continue
                pi, pn = pp
                code, f, nd = new_elt()
                na = rng.below(3) if rng.chance(1, 3) else 0
                if code == "E" and na:
                    ats = attrs_for(nd, na)
                    nd.attrs = ats
                    ops.append("A,%d,%s" % (pi, f[0]) + "".join(",%s,%s" % (hx(k), hx(v)) for k, v in ats))
                elif code == "E" and rng.chance(1, 6) and not nd.tagopts & 1 and not self.is_data(langid, nd.name):
                    # element by XML name with text: non-empty, "" (len 0) or NULL - the last two add no text child
                    k = rng.below(5)
                    if k < 3:
                        tx = rng.choice(TEXTS)
                        nd.kids.append(SNode("x", text=tx))
                        ops.append("Y,%d,%s,%s" % (pi, f[0], hx(tx)))
                    else:
                        ops.append("Y,%d,%s,%s" % (pi, f[0], "-" if k == 3 else "~"))
                elif code == "G" and na and lang["attrs"]:
                    ats, fs = [], []
                    for _k in range(na):
                        ai = rng.below(len(lang["attrs"]))
                        row = lang["attrs"][ai]
                        if not NAME_OK.match(row[0]) or row[0].startswith("xmlns") or row[0].encode() in [a for a, _ in ats]:
                            continue
                        v = (row[1].encode() if row[1] is not None else rng.choice(AVALS))
                        ats.append((row[0].encode(), v))
                        fs.append("%d,%s" % (ai, hx(v)))
                    nd.attrs = ats
                    ops.append("H,%d,%s" % (pi, f[0]) + "".join("," + x for x in fs))
                    xmlcmp = xmlcmp and not ats   # a token chosen by hand need not be the one the front end resolves
                else:
                    ops.append("%s,%d,%s" % (code, pi, f[0]))
                snoc_merge(pn, nd)
                exp.append(("ok", None))
                done = True
            elif r < 62:
                # text: under an element (not a binary one, not SyncML <Data>) or under a CDATA node
                cands = [(i, n) for i, (n, _) in enumerate(fo)
                         if (n.kind == "e" and not n.tagopts & 1 and not self.is_data(langid, n.name)) or n.kind == "c"]
                if not cands:
                    continue
                pi, pn = rng.choice(cands[-5:]) if rng.chance(2, 3) else rng.choice(cands)
                tx = rng.choice(TEXTS)
                if pn.kind == "c" and b"]]" in tx:
                    tx = b"cdata text"
                if rng.chance(1, 8):
                    tx = bytes(rng.choice(b"abcdefgh XYZ019.,;") for _ in range(rng.range(1, 24)))
                if rng.chance(1, 10):
                    # a text of length 0: after a text sibling it merges (adds nothing), otherwise - first child, after an
                    # element - it becomes an empty text node
                    tx = b""
                ops.append("T,%d,%s" % (pi, hx(tx)))
                snoc_merge(pn, SNode("x", text=tx))
                exp.append(("ok", None))
                done = True
            elif r < 67:
                pp = pick_parent(fo)
                if pp is None:
                    continue
                pi, pn = pp
                if self.is_data(langid, pn.name):
                    continue
                ops.append("C,%d" % pi)
                snoc_merge(pn, SNode("c"))
                exp.append(("ok", None))
                done = True
            elif r < 70:
                if langid not in SYNCML:
                    continue
                pp = pick_parent(fo)
                if pp is None or not tree or pp[1] is tree[0] and False:
                    continue
                pi, pn = pp
                sub_lang = DEVINF_OF[langid]
                tx = rng.choice([b"", b"1.2", b"abc"])
                nm = b"syncml:devinf|DevInf"
                sub = SNode("e", nm)
                if tx:
                    sub.kids.append(SNode("x", text=tx))
                ops.append("R,%d,%d,%s,%s" % (pi, sub_lang, hx(nm), hx(tx)))
                tnode = SNode("r", lang=sub_lang, sub=sub)
                snoc_merge(pn, tnode)
                exp.append(("ok", None))
                if rng.chance(2, 3):
                    pend.append(("X", tnode))
                done = True
            elif r < 74:
                cands = [(i, n) for i, (n, _) in enumerate(fo) if n.kind == "e"]
                if not cands:
                    continue
                i, n = rng.choice(cands)
                ats = attrs_for(n, 1)
                if not ats:
                    continue
                k, v = ats[0]
                ops.append("B,%d,%s,%s" % (i, hx(k), hx(v)))
                n.attrs = n.attrs + [(k, v)]
                exp.append(("ok", None))
                done = True
            elif r < 86:
                # extraction of a node of the tree (or of a non-root node of a detached sub-tree)
                cands = [(i, n, p) for i, (n, p) in enumerate(fo) if not any(n is d for d in det)]
                if not cands:
                    continue
                i, n, p = rng.choice(cands)
                if rng.chance(1, 2):
                    # aim at the interesting shape: a node between siblings
                    mids = [(i2, n2, p2) for i2, n2, p2 in cands if p2 is not None and 0 < idx_in(p2.kids, n2) < len(p2.kids) - 1]
                    if mids:
                        i, n, p = rng.choice(mids)
                ops.append("X,%d" % i)
                if p is None:
                    tree.remove(n)
                else:
                    del p.kids[idx_in(p.kids, n)]
                det.append(n)
                exp.append(("ok", None))
                done = True
            elif r < 94:
                if not det:
                    continue
                d = rng.choice(det)
                sub = set(id(n) for n, _ in preorder([d]))
                if rng.chance(1, 12) and tree:
                    # as the root while a root exists: refused
                    ops.append("I,-1,%d" % idx_of(d, fo))
                    exp.append(("fail", None))
                    continue
                if not tree and rng.chance(1, 3) and d.kind == "e":
                    ops.append("I,-1,%d" % idx_of(d, fo))
                    det.remove(d)
                    tree.append(d)
                    exp.append(("ok", None))
                    continue
                cands = [(i, n) for i, (n, _) in enumerate(fo)
                         if id(n) not in sub and ((n.kind == "e" and not n.tagopts & 1 and
                                                   not (d.kind in ("x", "c") and self.is_data(langid, n.name))) or
                                                  (n.kind == "c" and d.kind == "x"))]
                if not cands:
                    continue
                pi, pn = rng.choice(cands)
                if d.kind == "x" and pn.kind == "c" and b"]]" in d.text:
                    continue
                ops.append("I,%d,%d" % (pi, idx_of(d, fo)))
                det.remove(d)
                snoc_merge(pn, d)
                exp.append(("ok", None))
                done = True
            elif r < 97:
                if not det:
                    continue
                d = rng.choice(det)
                ops.append("K,%d" % idx_of(d, fo))
                det.remove(d)
                exp.append(("ok", None))
                done = True
            else:
                cands = [(i, n) for i, (n, _) in enumerate(fo) if n.kind == "e"]
                if not cands:
                    continue
                i, n = rng.choice(cands)
                tgt = rng.choice(cands)[1].name.split(b"|")[-1] if rng.chance(3, 4) else b"nosuch"
                rec = rng.chance(1, 2)
                ops.append("N,%d,%s,%d" % (i, hx(tgt), 1 if rec else 0))
                exp.append(("ok", find_by_name(fo, i, tgt, rec)))
                done = True
        sync()
        return ops, exp, sigs, tree, det, xmlcmp

    def opts_of(self, lang, name):
        local = name.split(b"|")[-1].decode("latin-1")
        o = 0
        for r in lang["tags"]:
            if r[0] == local:
                o |= r[3]
        return o

    @staticmethod
    def is_data(langid, name):
        return langid in SYNCML and name.split(b"|")[-1] == b"Data"


def idx_in(lst, node):
    for i, x in enumerate(lst):
        if x is node:
            return i
    return -1


def find_by_name(fo, start, name, recurs):
    """specification of wbxml_tree_node_elt_get_from_name: the node itself and its following siblings, in order,
    each followed (if recurs) by the search through its children"""
    node, par = fo[start]

    def sibs(n, p):
        if p is None:
            return [n]
        k = idx_in(p.kids, n)
        return p.kids[k:]

    def search(lst):
        for n in lst:
            if n.kind == "e":
                if n.name.split(b"|")[-1] == name:
                    return n
                if recurs and n.kids:
                    r = search(n.kids)
                    if r is not None:
                        return r
        return None
    r = search(sibs(node, par))
    if r is None:
        return -1
    for i, (n, _) in enumerate(fo):
        if n is r:
            return i
    return -1
