"""C06 / C07 oracle: infoset of the SOURCE XML (pyexpat) under the documented normalisations, and its comparison
with the infoset denoted by the strictly decoded WBXML (vlib/strictdec.py).  Independent of the Coq model and of
the library's parsers."""
import base64
import re
import xml.parsers.expat as expat

from . import strictdec
from .strictdec import Strict

WS = " \t\n\v\f\r"          # isspace() in the C locale


def source_infoset(xml, keep_ws):
    """element = {'name', 'ns', 'attrs': [(name, value)], 'kids': [element | ('text', str)]}
    Character data: chunks are merged up to the next element / CDATA boundary (the tree builder merges adjacent
    text nodes); outside CDATA a run is dropped when blank-only and trimmed otherwise unless keep_ws; CDATA content
    is verbatim.  Adjacent text items are then concatenated."""
    p = expat.ParserCreate(namespace_separator="\x01")
    p.ordered_attributes = True
    p.buffer_text = False
    root = {"name": None, "ns": None, "attrs": [], "kids": []}
    stack = [root]
    run = []           # current run of chunks
    state = {"cdata": False}

    def flush():
        if not run:
            return
        s = "".join(run)
        del run[:]
        if state["cdata"]:
            if s:
                stack[-1]["kids"].append(("text", s))
            return
        if not keep_ws:
            if s.strip(WS) == "":
                return
            s = s.strip(WS)
        if s:
            stack[-1]["kids"].append(("text", s))

    def start(name, attrs):
        flush()
        ns, _, local = name.rpartition("\x01")
        e = {"name": local, "ns": ns or None, "attrs": [(attrs[i].rpartition("\x01")[2], attrs[i + 1]) for i in range(0, len(attrs), 2)],
             "kids": []}
        stack[-1]["kids"].append(e)
        stack.append(e)

    def end(name):
        flush()
        stack.pop()

    def chars(s):
        run.append(s)

    def scd():
        flush()
        state["cdata"] = True

    def ecd():
        flush()
        state["cdata"] = False
    p.StartElementHandler, p.EndElementHandler, p.CharacterDataHandler = start, end, chars
    p.StartCdataSectionHandler, p.EndCdataSectionHandler = scd, ecd
    p.Parse(xml, True)
    els = [k for k in root["kids"] if isinstance(k, dict)]
    merge_text(els[0])
    return els[0]


def merge_text(e):
    out = []
    for k in e["kids"]:
        if isinstance(k, tuple) and out and isinstance(out[-1], tuple):
            out[-1] = ("text", out[-1][1] + k[1])
        else:
            out.append(k)
            if isinstance(k, dict):
                merge_text(k)
    e["kids"] = out


def _b64(s):
    s = re.sub(r"\s+", "", s)
    return base64.b64decode(s + "=" * (-len(s) % 4))


def _digits14(s):
    return re.sub(r"[^0-9]", "", s).ljust(14, "0")[:14]


SYNCML = (2001, 2101, 2201)
SUBLANG = {(2001, "DevInf"): 2002, (2101, "DevInf"): 2102, (2201, "DevInf"): 2202, (2201, "MgmtTree"): 2204}


def sub_lang_guess(tj):
    def guess(op):
        try:
            r = strictdec.Reader(op)
            r.byte()
            if r.peek() == 0:
                r.byte()
                idx = r.mb()
                if op[0] != 0:
                    r.mb()
                n = r.mb()
                tb = r.take(n)
                s = tb[idx:tb.find(b"\0", idx)].decode("utf-8", "replace")
                for l in tj["langs"]:
                    if l["pub_text"] == s:
                        return l["id"]
                return None
            num = r.mb()
            for l in tj["langs"]:
                if l["pub_num"] == num and num != 1:
                    return l["id"]
        except (Strict, IndexError, ValueError):
            return None
        return None
    return guess


def compare(src, dec, tj, lang_id, path="/"):
    """list of human-readable differences between the source infoset and the denoted one (empty = equal)"""
    T = strictdec.Tables(tj, lang_id)
    diffs = []
    here = path + (src["name"] or "?")
    if src["name"] not in dec["names"]:
        diffs.append("%s: element name %r decoded as %r" % (here, src["name"], sorted(dec["names"])))
        return diffs
    if T.ns and src["ns"] is not None and src["ns"] in [n for n, _ in T.ns] and dec["ns"] is not None and dec["ns"] != src["ns"]:
        diffs.append("%s: namespace %r decoded on the page of %r" % (here, src["ns"], dec["ns"]))
    # attributes (a language without attribute table cannot carry attributes: the encoder drops them)
    sattrs = src["attrs"] if T.attrs is not None else []
    if len(sattrs) != len(dec["attrs"]):
        diffs.append("%s: %d attributes decoded as %d" % (here, len(sattrs), len(dec["attrs"])))
    else:
        for (sn, sv), (dn, dv) in zip(sattrs, dec["attrs"]):
            if sn not in dn:
                diffs.append("%s: attribute %r decoded as %r" % (here, sn, sorted(dn)))
            elif dv[0] == "text":
                if dv[1] != sv:
                    diffs.append("%s/@%s: value %r decoded as %r" % (here, sn, sv, dv[1]))
            elif dv[0] == "dt":
                if _digits14(sv) != dv[1]:
                    diffs.append("%s/@%s: date-time %r decoded as %r" % (here, sn, sv, dv[1]))
            elif dv[0] == "bin":
                try:
                    ok = _b64(sv) == dv[1]
                except Exception:
                    ok = False
                if not ok:
                    diffs.append("%s/@%s: base64 value decoded as other octets" % (here, sn))
    # children
    sk, dk = src["kids"], dec["kids"]
    if dec.get("binary") and any(isinstance(k, dict) for k in sk):
        # binary-flagged element (base64 in XML): the front end collects ALL character data of the element, decodes
        # it once and appends it as one text node after the child elements
        txt = "".join(k[1] for k in sk if not isinstance(k, dict))
        sk = [k for k in sk if isinstance(k, dict)] + ([("text", txt)] if txt.strip(WS) else [])
    if lang_id in SYNCML and src["name"] == "Data":
        # the SyncML front end wraps the text of <Data> of vCard / vCalendar / text/clear items into a CDATA
        # section (kept verbatim, blanks included): compare modulo blank text here
        sk, dk = _drop_blank(sk), _drop_blank(dk)
    if len(sk) != len(dk):
        diffs.append("%s: %d children decoded as %d (%s vs %s)" % (here, len(sk), len(dk), _shape(sk), _shape(dk)))
        return diffs
    for a, b in zip(sk, dk):
        if isinstance(a, dict):
            if isinstance(b, dict):
                diffs += compare(a, b, tj, lang_id, here + "/")
            elif isinstance(b, tuple) and b[0] == "doc":
                want = SUBLANG.get((lang_id, a["name"]))
                if want != b[1]:
                    diffs.append("%s: embedded document language %r, expected %r" % (here, b[1], want))
                else:
                    diffs += compare(a, b[3], tj, b[1], here + "/[embedded]")
            else:
                diffs.append("%s: element %r decoded as %r" % (here, a["name"], b[:1]))
        else:
            s = a[1]
            if isinstance(b, dict):
                diffs.append("%s: text %r decoded as element" % (here, s[:40]))
            elif b[0] == "text":
                if b[1] != s and not _syncml_rewrite(lang_id, src["name"], s, b[1]):
                    diffs.append("%s: text %r decoded as %r" % (here, s[:80], b[1][:80]))
            elif b[0] == "int":
                try:
                    v = int(s.strip(WS), 16) if s[1:2] in ("x", "X") else int(s.strip(WS))
                except ValueError:
                    v = None
                if v != b[1]:
                    diffs.append("%s: integer %r decoded as %d" % (here, s, b[1]))
            elif b[0] == "wvdt":
                m = re.fullmatch(r"(\d{4})(\d\d)(\d\d)T(\d\d)(\d\d)(\d\d)?([A-Z])?", s)
                if not m:
                    diffs.append("%s: date-time %r decoded as opaque %r" % (here, s, b[1]))
                else:
                    want = tuple(int(x) for x in m.groups("0")[:6]) + (ord(m.group(7)) if m.group(7) else 0,)
                    if want != b[1]:
                        diffs.append("%s: date-time %r decoded as %r" % (here, s, b[1]))
            elif b[0] == "bin":
                try:
                    ok = _b64(s) == b[1]
                except Exception:
                    ok = False
                if not ok:
                    diffs.append("%s: base64 text decoded as other octets" % here)
            else:
                diffs.append("%s: text decoded as %r" % (here, b[0]))
    return diffs


def _drop_blank(ks):
    out = []
    for k in ks:
        if isinstance(k, tuple) and k[0] == "text":
            t = k[1].strip(WS)
            if t:
                out.append(("text", t))
        else:
            out.append(k)
    return out


def _syncml_rewrite(lang_id, elt, s, d):
    """language-specific rewrites of SyncML documents (not failures): inside a MetInf <Type> the media type of an
    embedded document is rewritten to its WBXML form (the DM tree type in SyncML 1.2 only), and a lone LF inside
    vCard/vCalendar <Data> becomes CRLF"""
    if lang_id not in SYNCML:
        return False
    if elt == "Type":
        if s.lower() == "application/vnd.syncml-devinf+xml" or (lang_id == 2201 and s.lower() == "application/vnd.syncml.dmtnds+xml"):
            return d == s.lower()[:-3] + "wbxml"
    if elt == "Data":
        return s.replace("\r\n", "\n").strip(WS) == d.replace("\r\n", "\n").strip(WS)
    return False


def _shape(ks):
    def one(k):
        if isinstance(k, dict):          # source elements carry "name", denoted ones the set "names"
            return str(k.get("name") or "|".join(sorted(k.get("names") or ["?"])))
        return str(k[0]) if k[0] != "text" else "#" + repr(k[1][:12])
    return "[" + ",".join(one(k) for k in ks) + "]"


def expected_header(tj, lang_id, version, anonymous, text_pid=False):
    l = [x for x in tj["langs"] if x["id"] == lang_id][0]
    if anonymous:
        return ("num", 1)             # 'unknown', whatever the language, and no id string
    if text_pid and l["pub_text"] is not None:
        return ("str", l["pub_text"])  # wbxml_encoder_set_text_public_id: the identifier as a string-table reference
    if l["pub_num"] != 1:
        return ("num", l["pub_num"])
    if l["pub_text"] is None:
        return ("num", 1)
    return ("str", l["pub_text"])


def judge(xml, wbxml, tj, lang_id, version, anonymous, keep_ws, text_pid=False):
    """Oracle verdict on the C's bytes: list of reasons why they are not a strict WBXML document denoting the
    source (empty = property holds on this case)."""
    try:
        doc = strictdec.parse(wbxml, tj, lang_id)
    except Strict as e:
        return ["not grammatical: %s" % e]
    out = []
    if doc.version != version:
        out.append("version byte %d, requested %d" % (doc.version, version))
    kind, val = expected_header(tj, lang_id, version, anonymous, text_pid)
    if kind == "num":
        if doc.pubid_num != val:
            out.append("public id %r (string %r), expected numeric %d" % (doc.pubid_num, doc.pubid_str, val))
    else:
        if doc.pubid_str != val:
            out.append("public id %r / string %r, expected string-table form %r" % (doc.pubid_num, doc.pubid_str, val))
    try:
        dec = strictdec.denote(doc, tj, lang_id, sub_lang_guess(tj))
    except Strict as e:
        return out + ["not denotable: %s" % e]
    try:
        src = source_infoset(xml, keep_ws)
    except expat.ExpatError as e:
        return out + ["source not parsed by pyexpat: %s" % e]
    return out + compare(src, dec, tj, lang_id)
