"""run_lines with crash attribution (used by C17 and C18): a sanitizer abort kills a whole shard; the inputs after
it are re-run, the input that aborts on its own is reported.  A partially flushed last line is never trusted."""
from . import common


def run_robust(exe, lines, env=None, max_rounds=40):
    """-> (answers with None for the inputs that abort, list of {index, input, rc, stderr})"""
    answers, crashes = common.run_lines(exe, lines, env=env)
    culprits = []
    todo = [tuple(cr["range"]) + (cr,) for cr in crashes]
    rounds = 0
    while todo and rounds < max_rounds:
        rounds += 1
        lo, hi, cr = todo.pop()
        fn = next((k for k in range(lo, hi) if answers[k] is None), hi)
        start = max(lo, fn - 1)
        culprit = None
        for k in range(start, min(hi, start + 3)):
            a1, c1 = common.run_lines(exe, [lines[k]], shards=1, env=env)
            if c1:
                culprit = k
                answers[k] = None
                culprits.append({"index": k, "input": lines[k], "rc": c1[0]["rc"], "stderr": c1[0]["stderr"][-2500:]})
                break
            answers[k] = a1[0]
        if culprit is None:
            # the abort depends on the history of the process: report the shard
            culprits.append({"index": None, "input": None, "rc": cr["rc"], "stderr": cr["stderr"][-2500:],
                             "note": "no single input of lines %d..%d aborts on its own" % (lo, hi)})
            nxt = min(hi, start + 3)
        else:
            nxt = culprit + 1
        if nxt < hi:
            a2, c2 = common.run_lines(exe, lines[nxt:hi], shards=1, env=env)
            for j, a in enumerate(a2):
                answers[nxt + j] = a
            for c in c2:
                r0, r1 = c["range"]
                todo.append((nxt + r0, nxt + r1, c))
    for lo, hi, cr in todo:
        for k in range(lo, hi):
            answers[k] = None if answers[k] is None else answers[k]
    return answers, culprits
