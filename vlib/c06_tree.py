"""C06: reader for the tree dump printed by harness/c06_harness.c, and the predicate that recognises the shape of
the pending finding D7 on the library's own tree."""

WS = b" \t\n\v\f\r"


def parse_dump(s):
    """'<langID> <n> node*' -> (lang_id, [node]); node = ('E', tag, attrs, kids) | ('T', bytes) | ('C', kids) | ('P',) |
    ('R', lang_id, nodes); tag = ('t', page, tok, opts, name) | ('l', name); attr = (('t', page, tok, name, prefix|None) | ('l', name), value)"""
    tk = s.split()
    pos = [0]

    def nxt():
        pos[0] += 1
        return tk[pos[0] - 1]

    def hx():
        t = nxt()
        return b"" if t == "-" else bytes.fromhex(t)

    def node():
        k = nxt()
        if k == "E":
            if nxt() == "t":
                tag = ("t", int(nxt()), int(nxt()), int(nxt()), hx())
            else:
                tag = ("l", hx())
            na = int(nxt())
            attrs = []
            for _ in range(max(na, 0)):
                if nxt() == "t":
                    p, t, nm = int(nxt()), int(nxt()), hx()
                    pre = nxt()
                    an = ("t", p, t, nm, None if pre == "~" else (b"" if pre == "-" else bytes.fromhex(pre)))
                else:
                    an = ("l", hx())
                attrs.append((an, hx()))
            nc = int(nxt())
            return ("E", tag, attrs, [node() for _ in range(nc)])
        if k == "T":
            return ("T", hx())
        if k == "C":
            nc = int(nxt())
            return ("C", [node() for _ in range(nc)])
        if k == "P":
            return ("P",)
        if k == "R":
            lid = int(nxt())
            n = int(nxt())
            return ("R", lid, [node() for _ in range(n)])
        raise ValueError("bad dump token " + k)
    lid = int(nxt())
    n = int(nxt())
    return lid, [node() for _ in range(n)]


def walk(nodes):
    for n in nodes:
        yield n
        if n[0] == "E":
            yield from walk(n[3])
        elif n[0] == "C":
            yield from walk(n[1])
        elif n[0] == "R":
            yield from walk(n[2])


def d7_shape(nodes):
    """the pending finding D7: some text node (longer than 3 octets, not blank-only) that carries leading or trailing
    blanks occurs at least twice among the text nodes / attribute values of one tree, so that
    wbxml_strtbl_initialize enters it in the string table WITH its blanks (sharing the node's buffer) and parse_text
    trims it afterwards.  Checked per (embedded) tree."""
    def one(ns):
        seen = {}
        for n in walk_flat(ns):
            if n[0] == "T":
                seen[n[1]] = seen.get(n[1], 0) + 1
            elif n[0] == "E":
                for _, v in n[2]:
                    seen[v] = seen.get(v, 0) + 1
        for n in walk_flat(ns):
            if n[0] == "T":
                c = n[1]
                if len(c) > 3 and c.strip(WS) != b"" and c.strip(WS) != c and seen.get(c, 0) >= 2:
                    return True
        return False

    def walk_flat(ns):
        for n in ns:
            yield n
            if n[0] == "E":
                yield from walk_flat(n[3])
            elif n[0] == "C":
                yield from walk_flat(n[1])
    if one(nodes):
        return True
    for n in walk(nodes):
        if n[0] == "R" and one(n[2]):
            return True
    return False


def tokens_used(nodes):
    tags, attrs = set(), set()
    for n in walk(nodes):
        if n[0] == "E":
            if n[1][0] == "t":
                tags.add((n[1][1], n[1][2]))
            for an, _ in n[2]:
                if an[0] == "t":
                    attrs.add((an[1], an[2]))
    return tags, attrs
