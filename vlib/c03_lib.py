"""C03 helpers: comparison of the pyexpat infoset of a source XML document with that of its round-trip result, modulo the
documented normalisations only (trimming unless keep-ws is done by c06_oracle.source_infoset on the source side):
alias names (names sharing a token), regenerated namespace declarations (namespace-aware parse: only local names are
compared), typed values by denoted value, XML's own normalisations (done by Expat on both sides)."""
import base64
import re

from . import strictdec
from .c06_oracle import SYNCML, WS, _b64

WV = (2301, 2302)


class Aliases:
    def __init__(self, tj, lang_id):
        T = strictdec.Tables(tj, lang_id)
        self.T = T
        self.lang_id = lang_id
        self.cls = {}
        for names in T.tag_by.values():
            s = {n for n, _ in names}
            for n in s:
                self.cls.setdefault(n, set()).update(s)
        self.binary = {n for names in T.tag_by.values() for n, o in names if o & 1}
        self.acls = {}
        for names in T.attr_by.values():
            s = {n for n, _ in names}
            for n in s:
                self.acls.setdefault(n, set()).update(s)

    def tag_ok(self, a, b):
        return a == b or b in self.cls.get(a, ())

    def attr_ok(self, a, b):
        return a == b or b in self.acls.get(a, ())


def _int(s):
    s = s.strip(WS)
    try:
        return int(s, 16) if s[1:2] in ("x", "X") else int(s)
    except ValueError:
        return None


def _digits(s):
    return re.sub(r"[^0-9]", "", s)


def _eol(t):
    """XML's own line-end normalisation (XML 1.0 2.11): CR LF and lone CR read as LF.  The result XML carries raw CRs of
    the source's character references literally (outside canonical generation), so its reader normalises them."""
    return t.replace("\r\n", "\n").replace("\r", "\n")


def text_equiv(al, elt_name, s, r):
    """documented typed-value equivalences of character data under element elt_name"""
    if s == r:
        return True
    if _eol(s) == _eol(r):
        return True                # XML's own line-end normalisation (named in the property)
    lid = al.lang_id
    if lid in SYNCML:
        if elt_name == "Type" and s.lower() in ("application/vnd.syncml-devinf+xml", "application/vnd.syncml.dmtnds+xml") and r == s.lower():
            return True            # rewritten to +wbxml and back: compared without case (strcasecmp), comes back in lower case
        if elt_name == "Type" and s.lower() == "application/vnd.syncml-devinf+wbxml" and r == "application/vnd.syncml-devinf+xml":
            return True            # an XML source that names the WBXML representation: the XML generator names the XML one
        if elt_name == "Type" and lid != 2201 and s.lower() == "application/vnd.syncml.dmtnds+xml" and r == s:
            return True
        if _eol(s).strip(WS) == _eol(r).strip(WS) and elt_name == "Data":
            return True
    if lid in WV:
        a, b = _int(s), _int(r)
        if a is not None and a == b:
            return True
        # date and time by the instant it denotes: YYYYMMDDThhmm[ss][Z|zone]
        m1 = re.fullmatch(r"(\d{8})T(\d{4})(\d\d)?([A-Z])?", s)
        m2 = re.fullmatch(r"(\d{8})T(\d{4})(\d\d)?([A-Z])?", r)
        # (a date-time without zone designator is written back with 'Z': in WV all times are UTC)
        if m1 and m2 and m1.group(1, 2) == m2.group(1, 2) and (m1.group(3) or "00") == (m2.group(3) or "00") and (m1.group(4) or "Z") == (m2.group(4) or "Z"):
            return True
    if elt_name in al.binary or lid == 1801:
        try:
            if _b64(s) == _b64(r):
                return True
        except Exception:
            pass
    return False


def attr_equiv(al, name, s, r):
    if s == r:
        return True
    # XML's own attribute-value normalisation (XML 1.0 3.3.3): line ends, then TAB / LF / CR read as a space
    na = lambda t: _eol(t).replace("\t", " ").replace("\n", " ")
    if na(s) == na(r):
        return True
    lid = al.lang_id
    if (lid == 1301 and name in ("created", "si-expires")) or (lid == 1701 and name == "timestamp"):
        return _digits(s).ljust(14, "0")[:14] == _digits(r).ljust(14, "0")[:14]
    if lid == 1901 and name == "VALUE":
        try:
            return _b64(s) == _b64(r)
        except Exception:
            return False
    return False


def compare(al, src, res, keep, path="/"):
    d = []
    here = path + src["name"]
    if not al.tag_ok(src["name"], res["name"]):
        return ["%s: element came back as %r" % (here, res["name"])]
    sa = src["attrs"] if al.T.attrs is not None else []
    ra = res["attrs"]
    if len(sa) != len(ra):
        d.append("%s: %d attributes came back as %d" % (here, len(sa), len(ra)))
    else:
        for (sn, sv), (rn, rv) in zip(sa, ra):
            if not al.attr_ok(sn, rn):
                d.append("%s: attribute %r came back as %r" % (here, sn, rn))
            elif not attr_equiv(al, sn, sv, rv):
                d.append("%s/@%s: %r came back as %r" % (here, sn, sv[:60], rv[:60]))
    sk, rk = src["kids"], res["kids"]
    if src["name"] in al.binary and any(isinstance(k, dict) for k in sk):
        # binary-flagged element: the front end collects all character data, decodes it once and appends it after the
        # child elements (see c06_oracle.compare)
        # (the name may also belong to a non-binary namesake on another page: only when the result has that shape)
        txt = "".join(k[1] for k in sk if not isinstance(k, dict))
        alt = [k for k in sk if isinstance(k, dict)] + ([("text", txt)] if txt.strip(WS) else [])
        if [isinstance(k, dict) for k in alt] == [isinstance(k, dict) for k in _drop(rk)] != [isinstance(k, dict) for k in _drop(sk)]:
            sk = alt
    if (al.lang_id in SYNCML and src["name"] == "Data") or not keep:
        # trimming is applied again to every merged text run on the way back (a CDATA section kept verbatim on the way
        # in is ordinary text on the way out): without keep-ws runs are compared trimmed, blank runs dropped
        from .c06_oracle import _drop_blank
        sk, rk = _drop_blank(sk), _drop_blank(rk)
    if len(sk) != len(rk):
        d.append("%s: %d children came back as %d (%s / %s)" % (here, len(sk), len(rk), _shape(sk), _shape(rk)))
        return d
    for a, b in zip(sk, rk):
        if isinstance(a, dict) != isinstance(b, dict):
            d.append("%s: child kinds differ (%s / %s)" % (here, _shape([a]), _shape([b])))
        elif isinstance(a, dict):
            d += compare(al, a, b, keep, here + "/")
        elif not text_equiv(al, src["name"], a[1], b[1]):
            d.append("%s: text %r came back as %r" % (here, a[1][:70], b[1][:70]))
    return d


def _drop(ks):
    return [k for k in ks if isinstance(k, dict) or k[1].strip(WS)]


def _shape(ks):
    return "[" + ",".join(k["name"] if isinstance(k, dict) else "#" + repr(k[1][:14]) for k in ks) + "]"
