"""C07 helpers: canonical form of the infoset denoted by a strictly decoded WBXML document (for pairwise comparison
across encoder option tuples), the pyexpat infoset of generated XML "modulo white space between markup", and
re-encoding of an XML source into other character encodings."""
import re
import xml.parsers.expat as expat

from . import strictdec

WS = " \t\n\v\f\r"


def canon(d):
    """hashable canonical form of strictdec.denote()'s result (the has_content bit is form, not meaning)"""
    def val(v):
        if isinstance(v, dict):
            return canon(v)
        if isinstance(v, tuple) and v and v[0] == "doc":
            return ("doc", v[1], canon(v[3]))
        return v
    return (tuple(sorted(d["names"])), d["ns"],
            tuple((tuple(sorted(n)), v) for n, v in d["attrs"]),
            tuple(val(k) for k in d["kids"]))


def decode_canon(wbxml, tj, lang_id, guess):
    doc = strictdec.parse(wbxml, tj, lang_id)
    return doc, canon(strictdec.denote(doc, tj, lang_id, guess))


def xml_infoset(xml, strip_all=False):
    """(name, attrs, kids) with kids = elements and text.  Text of an element that has no element child is kept
    exactly (unless strip_all); in elements with element children white space around markup is not meaning: text
    runs are trimmed and blank runs dropped.  Returns (doctype_public_id, root)."""
    p = expat.ParserCreate()
    p.ordered_attributes = True
    root = ["", (), []]
    stack = [root]
    info = {"pub": None}

    def start(name, attrs):
        e = [name, tuple(attrs), []]
        stack[-1][2].append(e)
        stack.append(e)

    def end(name):
        stack.pop()

    def chars(s):
        k = stack[-1][2]
        if k and isinstance(k[-1], str):
            k[-1] += s
        else:
            k.append(s)

    def doctype(name, sysid, pubid, internal):
        info["pub"] = pubid
    p.StartElementHandler, p.EndElementHandler, p.CharacterDataHandler = start, end, chars
    p.StartDoctypeDeclHandler = doctype
    p.Parse(xml, True)

    def norm(e):
        name, attrs, kids = e
        has_elt = any(isinstance(k, list) for k in kids)
        out = []
        for k in kids:
            if isinstance(k, list):
                out.append(norm(k))
            else:
                t = k
                if has_elt or strip_all:
                    t = t.strip(WS)
                if t:
                    out.append(t)
        return (name, attrs, tuple(out))
    els = [k for k in root[2] if isinstance(k, list)]
    return info["pub"], norm(els[0])


def first_diff(a, b, path=""):
    """human readable first difference of two canonical structures"""
    if a == b:
        return None
    if isinstance(a, tuple) and isinstance(b, tuple):
        if len(a) != len(b):
            return "%s: %d items vs %d: %r vs %r" % (path, len(a), len(b), str(a)[:120], str(b)[:120])
        for i, (x, y) in enumerate(zip(a, b)):
            d = first_diff(x, y, "%s/%d" % (path, i))
            if d:
                return d
    return "%s: %r vs %r" % (path, str(a)[:120], str(b)[:120])


DECL = re.compile(rb"^<\?xml[^>]*\?>")


def transcode(xml_utf8, encoding):
    """the same document in another encoding, with a matching encoding declaration; None if not representable or the
    source is not a plain UTF-8 / undeclared document"""
    m = DECL.match(xml_utf8)
    body = xml_utf8[m.end():] if m else xml_utf8
    if m and b"encoding" in m.group(0) and not re.search(rb"encoding=[\"']utf-8[\"']", m.group(0), re.I):
        return None
    try:
        text = body.decode("utf-8")
    except UnicodeDecodeError:
        return None
    if text.startswith("﻿"):
        text = text[1:]
    decl = '<?xml version="1.0" encoding="%s"?>' % encoding
    try:
        if encoding.lower() == "utf-16":
            return (decl + text).encode("utf-16")          # with BOM
        return (decl + text).encode(encoding)
    except UnicodeEncodeError:
        return None
